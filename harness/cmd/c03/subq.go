package main

// Query shapes compared with the Lean model (diffs, not only laws):
//   subqueryCases      scalar sub-queries, EXISTS, IN / ANY / ALL (sub-query) in WHERE and the select list, correlated
//                      (references to the records of the enclosing queries, two levels deep) and not; outcomes rows /
//                      `too many records` / `too many fields`; plus laws on the implementation alone:
//                      in_eq_any_subquery, exists_eq_count, scalar_subquery_eq_left_join
//   setOperatorCases   chains of UNION / EXCEPT / INTERSECT [ALL], plain and parenthesised (INTERSECT binds tighter)
//   lateralModelCases  CROSS / INNER / LEFT JOIN LATERAL: the right side per left record (an empty left table has no header: F15)
//   starExpansionCases `*`, `t.*` and CTE column lists over USING / NATURAL / ON joins

import (
	"fmt"
	"strconv"
	"strings"

	"github.com/mithrandie/csvq/lib/query"
	"github.com/mithrandie/csvq/lib/value"
	"github.com/mithrandie/ternary"

	"verifharness/hc"
)

func errTok2(err error) (string, bool) {
	switch err.(type) {
	case *query.SubqueryTooManyRecordsError:
		return "ESUBR", true
	case *query.SubqueryTooManyFieldsError:
		return "ESUBF", true
	}
	return errTok(err)
}

// smallTables declares `n` tables (id, k, v[, w]) with few distinct values
func smallTables(g *hc.Gen, pr *hc.Proc, o *hc.Out, prefix string, n int, sizes []int) ([]*table, []value.Primary) {
	keys := pool(g, 3+g.Intn(3), false)
	var tabs []*table
	for i := 0; i < n; i++ {
		epoch++
		t := &table{name: fmt.Sprintf("%s%d_%d", prefix, epoch, i+1), cols: []string{"k", "v"}}
		if g.Intn(2) == 0 {
			t.cols = append(t.cols, "w")
		}
		nr := sizes[g.Intn(len(sizes))]
		for r := 0; r < nr; r++ {
			row := make([]value.Primary, len(t.cols))
			for j := range row {
				row[j] = keys[g.Intn(len(keys))]
			}
			if g.Intn(3) == 0 {
				row[0] = value.NewInteger(int64(g.Intn(nr)))
			}
			t.rows = append(t.rows, row)
		}
		if err := pr.DeclareTable(t.name, t.cols, t.rows); err != nil {
			o.Law("declare_table_error", err.Error())
			return nil, nil
		}
		tabs = append(tabs, t)
	}
	lits := append(append([]value.Primary{}, keys...), value.NewInteger(0), value.NewInteger(1), value.NewNull())
	return tabs, lits
}

func disposeAll(pr *hc.Proc, tabs []*table) {
	for _, t := range tabs {
		pr.DisposeTable(t.name)
	}
}

func runCase(pr *hc.Proc, o *hc.Out, e *enc, cpu int, sql string, tok []string, tabs []*table) (string, *query.View) {
	pr.SetCPU(cpu)
	v, err := pr.Query(sql)
	impl := ""
	if err != nil {
		t, ok := errTok2(err)
		if !ok {
			o.Law("select_sql_error", map[string]interface{}{"sql": sql, "error": err.Error(), "tables": dumpTables(tabs)})
			return "", nil
		}
		impl = t
	} else {
		impl = canon(v)
	}
	o.Case(fmt.Sprintf("c03.q %d %s %s #%s", cpu, e.header(), strings.Join(tok, " "), hc.Hex(sql)), impl)
	return impl, v
}

func outcomeOf(impl string, v *query.View) string {
	if v == nil {
		return impl
	}
	return "rows:" + band(v.RecordLen())
}

// ---------- sub-queries inside expressions ----------

type subq struct {
	sql string
	tok []string
}

// subSelect: SELECT <cols> FROM t AS alias WHERE <cond by name over the own and the outer columns>
// kind: "one" (single column), "two" (two columns: an error for scalar / IN)
func (x *ngen) subSelect(e *enc, t *table, alias string, outer []col, ncols int, corr string, nested func() (*cond, []subq)) subq {
	g := x.g
	from := nTable(e, t, alias)
	var w *cond
	all := append(append([]col{}, from.hdr...), outer...)
	switch corr {
	case "id": // at most one record: correlated on the unique id
		w = &cond{op: "cmp", cop: "=", e: []expr{{named: true, rview: alias, rname: "id"}, {named: true, rview: outer[0].view, rname: "id"}}}
	case "key": // correlated on a key column (several partners possible)
		w = &cond{op: "cmp", cop: "=", e: []expr{{named: true, rview: alias, rname: "k"}, {named: true, rview: outer[0].view, rname: []string{"k", "v"}[g.Intn(2)]}}}
		if g.Intn(3) == 0 {
			w = &cond{op: "and", a: w, b: x.cond(0, all)}
		}
	case "free": // any references, own columns shadow outer ones of the same name
		w = x.cond(1, all)
	case "none": // not correlated
		if g.Intn(2) == 0 {
			w = x.cond(0, from.hdr)
		}
	}
	var subs []subq
	if nested != nil {
		c, ss := nested()
		subs = ss
		if w == nil {
			w = c
		} else {
			w = &cond{op: "and", a: w, b: c}
		}
	}
	items := []nitem{{e: expr{named: true, rview: alias, rname: []string{"k", "v", "id"}[g.Intn(3)]}, out: "c1"}}
	if ncols == 2 {
		items = append(items, nitem{e: expr{named: true, rview: alias, rname: "id"}, out: "c2"})
	}
	sql, tok, _ := nQuery(e, from, w, false, items)
	if len(subs) > 0 {
		pre := []string{"QS", strconv.Itoa(len(subs))}
		for _, s := range subs {
			pre = append(pre, s.tok...)
		}
		tok = append(pre, tok[1:]...)
	}
	return subq{sql, tok}
}

func subqueryCases(g *hc.Gen, pr *hc.Proc, o *hc.Out, n int) {
	x := &ngen{g: g}
	rounds := n / 5
	if rounds < 24 {
		rounds = 24
	}
	var tabs []*table
	defer func() { disposeAll(pr, tabs) }()
	for c := 0; c < rounds; c++ {
		if c%12 == 0 {
			disposeAll(pr, tabs)
			tabs, x.lits = smallTables(g, pr, o, "sq", 3, []int{0, 1, 2, 4, 7, 12, 25})
			if tabs == nil {
				return
			}
		}
		e := newEnc()
		cpu := []int{1, 2, 4}[g.Intn(3)]
		ta, tb, tc := tabs[g.Intn(3)], tabs[g.Intn(3)], tabs[g.Intn(3)]
		outer := nTable(e, ta, "a1")
		var subs []subq
		addSub := func(s subq) int { subs = append(subs, s); return len(subs) - 1 }
		corr := func() string { return []string{"id", "key", "key", "free", "none"}[g.Intn(5)] }
		lhs := func() expr {
			if g.Intn(5) == 0 {
				return expr{lit: x.lits[g.Intn(len(x.lits))]}
			}
			return expr{named: true, rview: "a1", rname: []string{"k", "v", "id"}[g.Intn(3)]}
		}
		// one sub-query condition
		var mk func(depth int, outerCols []col, t *table, alias string) (*cond, []subq)
		mk = func(depth int, outerCols []col, t *table, alias string) (*cond, []subq) {
			var nested func() (*cond, []subq)
			if depth > 0 && g.Intn(3) == 0 {
				// a sub-query of the sub-query, correlated with both enclosing records
				nested = func() (*cond, []subq) {
					inner := nTable(newEnc(), t, alias) // header only
					return mk(depth-1, append(append([]col{}, inner.hdr...), outerCols...), tc, alias+"x")
				}
			}
			ncols := 1
			if g.Intn(25) == 0 {
				ncols = 2
			}
			kind := g.Intn(6)
			cr := corr()
			if kind == 5 && ncols == 1 && g.Intn(3) != 0 {
				cr = "id" // scalar: mostly at most one record
			}
			s := x.subSelect(e, t, alias, outerCols, ncols, cr, nested)
			l := lhs()
			if len(outerCols) > 0 && outerCols[0].view != "a1" {
				l = expr{named: true, rview: outerCols[0].view, rname: []string{"k", "v", "id"}[g.Intn(3)]}
			}
			var cd *cond
			switch kind {
			case 0:
				cd = &cond{op: "exists", subSQL: s.sql}
				if g.Intn(3) == 0 {
					return &cond{op: "not", a: cd}, []subq{s}
				}
			case 1, 2:
				cd = &cond{op: "insub", neg: g.Intn(2) == 0, e: []expr{l}, subSQL: s.sql}
			case 3:
				cd = &cond{op: "anysub", cop: cops[g.Intn(len(cops)-1)], e: []expr{l}, subSQL: s.sql}
			case 4:
				cd = &cond{op: "allsub", cop: cops[g.Intn(len(cops)-1)], e: []expr{l}, subSQL: s.sql}
			default:
				cd = &cond{op: "cmp", cop: cops[g.Intn(len(cops))], e: []expr{l, {scalar: true, subSQL: s.sql}}}
			}
			return cd, []subq{s}
		}
		// the numbering of sub-queries is per enclosing query: fix the indices after construction
		var number func(c *cond, next *int)
		number = func(c *cond, next *int) {
			if c == nil {
				return
			}
			switch c.op {
			case "exists", "insub", "anysub", "allsub":
				c.sub = *next
				*next++
			case "cmp":
				for i := range c.e {
					if c.e[i].scalar {
						c.e[i].sub = *next
						*next++
					}
				}
			}
			number(c.a, next)
			number(c.b, next)
		}
		var where *cond
		shape := "none"
		if g.Intn(5) != 0 {
			w, ss := mk(1, outer.hdr, tb, "b1")
			shape = w.op
			for _, s := range ss {
				addSub(s)
			}
			if g.Intn(3) == 0 {
				w2, ss2 := mk(0, outer.hdr, tc, "c1")
				for _, s := range ss2 {
					addSub(s)
				}
				if g.Intn(2) == 0 {
					w = &cond{op: "and", a: w, b: w2}
				} else {
					w = &cond{op: "or", a: w, b: w2}
				}
			} else if g.Intn(4) == 0 {
				w = &cond{op: "and", a: x.cond(0, outer.hdr), b: w}
			}
			where = w
		}
		// nested sub-queries number themselves inside subSelect's own QS: only the top level here
		next := 0
		number(where, &next)
		items := []nitem{{e: expr{named: true, rview: "a1", rname: "id"}, out: "o1"}, {e: expr{named: true, rview: "a1", rname: "k"}, out: "o2"}}
		itemSQL := []string{"a1.id AS o1", "a1.k AS o2"}
		itemTok := []string{"r", "a1", "id", "o1", "r", "a1", "k", "o2"}
		nitems := 2
		if g.Intn(3) == 0 || where == nil {
			// a scalar sub-query as a select item
			cr := []string{"id", "id", "key", "none"}[g.Intn(4)]
			s := x.subSelect(e, tc, "d1", outer.hdr, 1, cr, nil)
			k := addSub(s)
			itemSQL = append(itemSQL, "("+s.sql+") AS o3")
			itemTok = append(itemTok, "s", strconv.Itoa(k), "o3")
			nitems++
			shape += "+item"
		}
		_ = items
		sql := "SELECT " + strings.Join(itemSQL, ", ") + " FROM " + outer.sql
		tok := []string{"QS", strconv.Itoa(len(subs))}
		for _, s := range subs {
			tok = append(tok, s.tok...)
		}
		tok = append(tok, outer.tok...)
		if where != nil {
			sql += " WHERE " + sqlCond(where, outer.hdr, nil)
			tok = append(append(tok, "W"), e.cond(where)...)
		} else {
			tok = append(tok, "-")
		}
		tok = append(append(tok, "L", strconv.Itoa(nitems)), itemTok...)
		impl, v := runCase(pr, o, e, cpu, sql, tok, tabs)
		if impl == "" {
			continue
		}
		o.Count("subquery:" + shape)
		o.Count("subquery:outcome=" + strings.SplitN(outcomeOf(impl, v), ":", 2)[0])
		o.NonTrivial("subquery:" + shape + ":" + outcomeOf(impl, v))

		// ---- the textbook equivalences, on the implementation alone ----
		A, B := ta.name+" AS a1", tb.name+" AS b1"
		col := []string{"k", "v", "id"}[g.Intn(3)]
		q := "SELECT b1.k FROM " + B + " WHERE b1.v = a1.v"
		if g.Intn(2) == 0 {
			q = "SELECT b1.k FROM " + B
		}
		r1, _, ok1 := qrows(pr, o, "SELECT a1.id FROM "+A+" WHERE a1."+col+" IN ("+q+")")
		r2, _, ok2 := qrows(pr, o, "SELECT a1.id FROM "+A+" WHERE a1."+col+" = ANY ("+q+")")
		r3, _, ok3 := qrows(pr, o, "SELECT a1.id FROM "+A+" WHERE a1."+col+" NOT IN ("+q+")")
		r4, _, ok4 := qrows(pr, o, "SELECT a1.id FROM "+A+" WHERE a1."+col+" <> ALL ("+q+")")
		r5, _, ok5 := qrows(pr, o, "SELECT a1.id FROM "+A+" WHERE NOT (a1."+col+" IN ("+q+"))")
		if ok1 && ok2 && ok3 && ok4 && ok5 {
			o.Count("law_checks:in_eq_any_subquery")
			if canonRows(r1) != canonRows(r2) || canonRows(r3) != canonRows(r4) || canonRows(r3) != canonRows(r5) {
				o.Law("in_eq_any_subquery", map[string]interface{}{"subquery": q, "left": "a1." + col, "tables": dumpTables([]*table{ta, tb})})
			}
		}
		e1, _, ok1 := qrows(pr, o, "SELECT a1.id FROM "+A+" WHERE EXISTS ("+q+")")
		e2, _, ok2 := qrows(pr, o, "SELECT a1.id FROM "+A+" WHERE (SELECT COUNT(*) FROM "+B+strings.TrimPrefix(q, "SELECT b1.k FROM "+B)+") > 0")
		if ok1 && ok2 {
			o.Count("law_checks:exists_eq_count")
			if canonRows(e1) != canonRows(e2) {
				o.Law("exists_eq_count", map[string]interface{}{"subquery": q, "tables": dumpTables([]*table{ta, tb})})
			}
		}
		s1, _, ok1 := qrows(pr, o, "SELECT a1.id, (SELECT b1.v FROM "+B+" WHERE b1.id = a1.k) AS x FROM "+A)
		s2, _, ok2 := qrows(pr, o, "SELECT a1.id, b1.v AS x FROM "+A+" LEFT JOIN "+B+" ON b1.id = a1.k")
		if ok1 && ok2 {
			o.Count("law_checks:scalar_subquery_eq_left_join")
			if canonRows(s1) != canonRows(s2) {
				o.Law("scalar_subquery_eq_left_join", map[string]interface{}{"tables": dumpTables([]*table{ta, tb})})
			}
		}
	}
}

// ---------- set operators ----------

type setTree struct {
	op   string // "" = operand
	all  bool
	l, r *setTree
	sql  string
	tok  []string
	par  bool
}

func setOpTok(op string) string { return map[string]string{"UNION": "U", "EXCEPT": "E", "INTERSECT": "I"}[op] }

func (t *setTree) tokens() []string {
	if t.op == "" {
		return t.tok
	}
	out := []string{"SO", setOpTok(t.op), b01(t.all)}
	out = append(out, t.l.tokens()...)
	return append(out, t.r.tokens()...)
}

func setOperatorCases(g *hc.Gen, pr *hc.Proc, o *hc.Out, n int) {
	x := &ngen{g: g}
	rounds := n / 8
	if rounds < 20 {
		rounds = 20
	}
	var tabs []*table
	defer func() { disposeAll(pr, tabs) }()
	for c := 0; c < rounds; c++ {
		if c%12 == 0 {
			disposeAll(pr, tabs)
			tabs, x.lits = smallTables(g, pr, o, "so", 3, []int{0, 1, 3, 6, 10, 30, 170})
			if tabs == nil {
				return
			}
		}
		e := newEnc()
		nops := 1 + g.Intn(3)
		operand := func(i int) *setTree {
			t := tabs[g.Intn(3)]
			alias := "a" + strconv.Itoa(i+1)
			from := nTable(e, t, alias)
			var w *cond
			if g.Intn(2) == 0 {
				w = x.cond(0, from.hdr)
			}
			items := []nitem{{e: expr{named: true, rview: alias, rname: "k"}, out: "k"}, {e: expr{named: true, rview: alias, rname: []string{"v", "k", "id"}[g.Intn(3)]}, out: "v"}}
			sql, tok, _ := nQuery(e, from, w, false, items)
			return &setTree{sql: sql, tok: tok}
		}
		// the written sequence: operand op operand op …, some groups parenthesised
		ops := make([]string, nops)
		alls := make([]bool, nops)
		nodes := make([]*setTree, nops+1)
		for i := range nodes {
			nodes[i] = operand(i)
		}
		for i := range ops {
			ops[i] = []string{"UNION", "UNION", "EXCEPT", "INTERSECT", "INTERSECT"}[g.Intn(5)]
			alls[i] = g.Intn(2) == 0
		}
		if nops >= 2 && g.Intn(3) == 0 {
			// parenthesise one adjacent pair: it becomes one operand
			i := g.Intn(nops)
			kw := ops[i]
			if alls[i] {
				kw += " ALL"
			}
			grp := &setTree{op: ops[i], all: alls[i], l: nodes[i], r: nodes[i+1], par: true}
			grp.sql = "(" + nodes[i].sql + " " + kw + " " + nodes[i+1].sql + ")"
			nodes = append(append(append([]*setTree{}, nodes[:i]...), grp), nodes[i+2:]...)
			ops = append(append([]string{}, ops[:i]...), ops[i+1:]...)
			alls = append(append([]bool{}, alls[:i]...), alls[i+1:]...)
			nops--
		}
		sql := nodes[0].sql
		for i := 0; i < nops; i++ {
			kw := ops[i]
			if alls[i] {
				kw += " ALL"
			}
			sql += " " + kw + " " + nodes[i+1].sql
		}
		// the tree by precedence: INTERSECT first (left to right), then UNION / EXCEPT left to right
		ns, os, as := append([]*setTree{}, nodes...), append([]string{}, ops...), append([]bool{}, alls...)
		for pass := 0; pass < 2; pass++ {
			for i := 0; i < len(os); {
				if (pass == 0) == (os[i] == "INTERSECT") {
					ns[i] = &setTree{op: os[i], all: as[i], l: ns[i], r: ns[i+1]}
					ns = append(ns[:i+1], ns[i+2:]...)
					os = append(os[:i], os[i+1:]...)
					as = append(as[:i], as[i+1:]...)
				} else {
					i++
				}
			}
		}
		tree := ns[0]
		tok := tree.tokens()
		if g.Intn(4) == 0 {
			// the chain as a derived table
			sql = "SELECT * FROM (" + sql + ") AS s WHERE s.k IS NOT NULL"
			tok = append(append([]string{"Q", "A", "s", "0"}, tok...), "W", "isnull", "1", "n", "s", "k", "*")
		}
		impl, v := runCase(pr, o, e, []int{1, 2, 4}[g.Intn(3)], sql, tok, tabs)
		if impl == "" {
			continue
		}
		sig := strings.Join(ops, ",")
		o.Count(fmt.Sprintf("setop:operators=%d", len(ops)))
		o.NonTrivial("setop:" + sig + ":" + fmt.Sprint(alls) + ":" + outcomeOf(impl, v))
	}
}

// ---------- LATERAL ----------

func lateralModelCases(g *hc.Gen, pr *hc.Proc, o *hc.Out, n int) {
	x := &ngen{g: g}
	rounds := n / 10
	if rounds < 16 {
		rounds = 16
	}
	var tabs []*table
	defer func() { disposeAll(pr, tabs) }()
	for c := 0; c < rounds; c++ {
		if c%10 == 0 {
			disposeAll(pr, tabs)
			tabs, x.lits = smallTables(g, pr, o, "lt", 3, []int{0, 0, 1, 2, 4, 8, 20})
			if tabs == nil {
				return
			}
		}
		e := newEnc()
		ta, tb := tabs[g.Intn(3)], tabs[g.Intn(3)]
		l := nTable(e, ta, "a1")
		s := x.subSelect(e, tb, "b1", l.hdr, 1, []string{"id", "key", "key", "free", "none"}[g.Intn(5)], nil)
		// the sub-select has the columns c1 (and the alias s)
		shdr := []col{{"s", "c1", false}}
		kind := "CIL"[g.Intn(3)]
		var sql string
		tok := []string{"JL", string(kind)}
		tok = append(tok, l.tok...)
		tok = append(append(tok, "A", "s", "0"), s.tok...)
		switch kind {
		case 'C':
			sql = l.sql + " CROSS JOIN LATERAL (" + s.sql + ") AS s"
			tok = append(tok, "-")
		default:
			var on *cond
			if g.Intn(2) == 0 {
				on = &cond{op: "truth", e: []expr{{lit: value.NewTernary(ternary.TRUE)}}}
			} else {
				on = x.cond(0, append(append([]col{}, l.hdr...), shdr...))
			}
			kw := map[byte]string{'I': "INNER JOIN", 'L': "LEFT JOIN"}[kind]
			sql = l.sql + " " + kw + " LATERAL (" + s.sql + ") AS s ON " + sqlCond(on, nil, nil)
			tok = append(append(tok, "O"), e.cond(on)...)
		}
		from := nsrc{sql: sql, tok: tok, hdr: append(append([]col{}, l.hdr...), shdr...), isJoin: true}
		var w *cond
		if g.Intn(3) == 0 {
			w = x.cond(0, from.hdr)
		}
		star := g.Intn(2) == 0
		var items []nitem
		if !star {
			items = x.items(from.hdr, "o")
		}
		qsql, qtok, _ := nQuery(e, from, w, star, items)
		impl, v := runCase(pr, o, e, []int{1, 2}[g.Intn(2)], qsql, qtok, tabs)
		if impl == "" {
			continue
		}
		o.Count(fmt.Sprintf("lateral:%c", kind))
		if len(ta.rows) == 0 {
			o.Count("lateral:empty_left")
		}
		o.NonTrivial(fmt.Sprintf("lateralmodel:%c:left=%s:%s", kind, band(len(ta.rows)), outcomeOf(impl, v)))
	}
}

// ---------- `*`, `t.*`, CTE column lists ----------

func starExpansionCases(g *hc.Gen, pr *hc.Proc, o *hc.Out, n int) {
	x := &ngen{g: g}
	rounds := n / 10
	if rounds < 16 {
		rounds = 16
	}
	var tabs []*table
	defer func() { disposeAll(pr, tabs) }()
	for c := 0; c < rounds; c++ {
		if c%10 == 0 {
			disposeAll(pr, tabs)
			tabs, x.lits = smallTables(g, pr, o, "st", 3, []int{0, 1, 3, 6, 12})
			if tabs == nil {
				return
			}
		}
		e := newEnc()
		ta, tb := tabs[g.Intn(3)], tabs[g.Intn(3)]
		a := nTable(e, ta, "a1")
		var b nsrc
		cteSQL, cteTok := "", []string(nil)
		if g.Intn(2) == 0 {
			// a CTE with a column list (some names collide with the other table's on purpose)
			inner := nTable(e, tb, "i1")
			names := []string{"id", "k", "z"}
			if len(tb.cols) == 3 {
				names = []string{"id", "k", "z", "w"}
			}
			g.Shuffle(len(names)-1, func(i, j int) { names[i+1], names[j+1] = names[j+1], names[i+1] })
			isql, itok, _ := nQuery(e, inner, nil, true, nil)
			cteSQL = "WITH cx (" + strings.Join(names, ", ") + ") AS (" + isql + ") "
			cteTok = append(append([]string{"W", "cx", strconv.Itoa(len(names))}, names...), itok...)
			b = nsrc{sql: "cx AS a2", tok: []string{"A", "a2", "0", "N", "cx"}}
			for _, nm := range names {
				b.hdr = append(b.hdr, col{"a2", nm, false})
			}
		} else {
			b = nTable(e, tb, "a2")
		}
		kind := "ILRF"[g.Intn(4)]
		var j nsrc
		form := "on"
		switch r := g.Intn(3); {
		case r == 0:
			if names, ok := naturalNames(a.hdr, b.hdr); ok {
				form = "natural"
				j = nJoin(e, kind, a, b, 'n', names, nil)
			}
		case r == 1:
			if names := commonNames(a.hdr, b.hdr); len(names) > 0 {
				form = "using"
				g.Shuffle(len(names), func(i, k int) { names[i], names[k] = names[k], names[i] })
				j = nJoin(e, kind, a, b, 'u', names[:1+g.Intn(len(names))], nil)
			}
		}
		if form == "on" {
			on := &cond{op: "cmp", cop: "=", e: []expr{{named: true, rview: "a1", rname: "id"}, {named: true, rview: "a2", rname: "id"}}}
			j = nJoin(e, kind, a, b, 'o', nil, on)
		}
		// select list: `*`, `a1.*`, `a2.*`, single references, in any order
		var parts, itok []string
		nit := 0
		for i, k := 0, 1+g.Intn(3); i < k; i++ {
			switch g.Intn(4) {
			case 0:
				v := []string{"a1", "a2"}[g.Intn(2)]
				parts = append(parts, v+".*")
				itok = append(itok, "t", v)
			case 1:
				if i == 0 && k == 1 {
					parts = append(parts, "*")
					itok = nil
					nit = -1
				} else {
					rf := x.named(j.hdr)
					parts = append(parts, rf.refText()+" AS o"+strconv.Itoa(i))
					v := rf.rview
					if v == "" {
						v = "-"
					}
					itok = append(itok, "r", v, rf.rname, "o"+strconv.Itoa(i))
				}
			default:
				rf := x.named(j.hdr)
				parts = append(parts, rf.refText()+" AS o"+strconv.Itoa(i))
				v := rf.rview
				if v == "" {
					v = "-"
				}
				itok = append(itok, "r", v, rf.rname, "o"+strconv.Itoa(i))
			}
			if nit >= 0 {
				nit++
			} else {
				break
			}
		}
		sql := cteSQL + "SELECT " + strings.Join(parts, ", ") + " FROM " + j.sql
		tok := append([]string{"Q"}, j.tok...)
		tok = append(tok, "-")
		if nit < 0 {
			tok = append(tok, "*")
		} else {
			tok = append(append(tok, "L", strconv.Itoa(nit)), itok...)
		}
		if cteTok != nil {
			tok = append(cteTok, tok...)
		}
		impl, v := runCase(pr, o, e, []int{1, 2}[g.Intn(2)], sql, tok, tabs)
		if impl == "" {
			continue
		}
		o.Count("star:" + form)
		o.NonTrivial(fmt.Sprintf("star:%s:%c:cte=%v:%s:%s", form, kind, cteTok != nil, strings.Join(parts, ","), outcomeOf(impl, v)))
	}
}
