package main

// [NOT] LIKE inside the conditions compared with the Lean model (Model/Like.lean mirrors comparison.go `Like`,
// `matchCondition`, `matchTextTailOnce`; Props/C03Like.lean: like_impl_eq_spec - the matcher IS the textbook
// definition for every text and pattern).
//
//  texts      words of a small vocabulary (ASCII letters of both cases from a three-letter alphabet, digits, runes of
//             two / three / four bytes from the 76-rune table below, now and then `%`, `_`, `\` as characters) joined
//             with filler runes - so a word stands several times in a text, behind, between and in front of
//             characters of several bytes
//  patterns   cut out of such a text: the part in front / behind / in the middle replaced by `%`, by as many `_` as it
//             has runes (or one more / one less), by `%_…`, `_…%`; `%` `_` of the kept parts escaped (mostly); then
//             mutated (letter case of a rune changed by unicode.ToUpper / ToLower / SimpleFold, a rune dropped, a rune
//             appended, a trailing backslash); plus the corner patterns: empty, `%`, `_`, `%%`, `_%_`, a lone `\`,
//             `\%`, `%\`, the text itself, the text and more
//  likeCases  WHERE t [NOT] LIKE pattern (literal patterns, patterns from a column, literal text against a column of
//             patterns, NULL / number / boolean operands) under AND / OR / NOT; the condition as a select item
//             (UNKNOWN is seen there); INNER / LEFT / RIGHT / FULL JOIN ON a.t [NOT] LIKE b.p
//  the general generators (c03.go qgen.cond, names.go ngen.cond) draw LIKE atoms too: tables of 0-400 rows, every
//  join kind, --cpu 1-8

import (
	"fmt"
	"strconv"
	"strings"
	"unicode"

	"github.com/mithrandie/csvq/lib/value"

	"verifharness/hc"
)

// the rune table of harness/cmd/c18 (copied, not imported): letters with case pairs and special foldings, scripts
// of two to four bytes, digits of several scripts, marks, spaces, format characters
var likeRunes = []rune{0xe9, 0xc9, 0xdf, 0x1c6, 0x17f, 0x212a, 0x131, 0x3042, 0x6f22, 0x3a9, 0x436, 0x663, 0xff13, 0x85, 0xa0, 0x3000, 0x2028, 0x1680,
	0x20ac, 0xd7, 0x1f600, 0xfffd, 0xad, 0x301, 0x2160,
	0x3b1, 0x3c2, 0x42f, 0x561, 0x5d0, 0x639, 0x915, 0xe01, 0x10d0, 0x1c90, 0x13a0, 0xab70, 0xd55c, 0x10400, 0x10428, 0x1e900, 0x1e922, 0xff21, 0x2b0, 0xaa, 0x1c5, 0x130,
	0x96b, 0x9e9, 0xe55, 0xf23, 0xff10, 0x1d7d1, 0x1e950,
	0xb2, 0xbd, 0x2167, 0x3007, 0x93e, 0x203f, 0xfe33, 0x200b, 0x200d, 0xfeff, 0x2003, 0x205f, 0x202f, 0x180e, 0x2029}

type likeVocab struct {
	words  [][]rune
	filler []rune
}

var curVocab *likeVocab

func likeRune(g *hc.Gen) rune {
	switch r := g.Intn(20); {
	case r < 8:
		return []rune("abcABC")[g.Intn(6)]
	case r < 10:
		return rune('0' + g.Intn(3))
	case r < 11:
		return []rune{'%', '_', '\\', ' ', '\''}[g.Intn(5)]
	}
	return likeRunes[g.Intn(len(likeRunes))]
}

func newLikeVocab(g *hc.Gen) *likeVocab {
	v := &likeVocab{}
	for i, n := 0, 2+g.Intn(3); i < n; i++ {
		w := make([]rune, 1+g.Intn(3))
		for j := range w {
			w[j] = likeRune(g)
		}
		v.words = append(v.words, w)
	}
	for i, n := 0, 2+g.Intn(3); i < n; i++ {
		v.filler = append(v.filler, likeRunes[g.Intn(len(likeRunes))])
	}
	v.filler = append(v.filler, []rune("abA")[g.Intn(3)])
	return v
}

func (v *likeVocab) runes(g *hc.Gen) []rune {
	var out []rune
	for i, n := 0, g.Intn(5); i < n; i++ {
		if g.Intn(10) < 6 {
			out = append(out, v.words[g.Intn(len(v.words))]...)
		} else {
			for k, m := 0, 1+g.Intn(2); k < m; k++ {
				out = append(out, v.filler[g.Intn(len(v.filler))])
			}
		}
	}
	return out
}

func (v *likeVocab) text(g *hc.Gen) string { return string(v.runes(g)) }

var likeCorners = []string{"", "%", "_", "%%", "_%_", "\\", "\\%", "%\\", "\\_", "__", "%_", "_%", "%\\%%", "a\\", "\\\\"}

// likePattern cuts a pattern out of the text `base`
func likePattern(g *hc.Gen, v *likeVocab, base []rune) string {
	if g.Intn(12) == 0 {
		return likeCorners[g.Intn(len(likeCorners))]
	}
	n := len(base)
	a, b := 0, n
	if n > 0 {
		a = g.Intn(n + 1)
		b = a + g.Intn(n-a+1)
	}
	esc := func(rs []rune) string {
		var sb strings.Builder
		for _, r := range rs {
			if (r == '%' || r == '_') && g.Intn(10) != 0 {
				sb.WriteByte('\\')
			}
			sb.WriteRune(r)
		}
		return sb.String()
	}
	wild := func(k int, lead bool) string {
		switch r := g.Intn(10); {
		case k == 0 && r < 7:
			return ""
		case r < 3:
			return "%"
		case r < 6:
			return strings.Repeat("_", k)
		case r < 7:
			return strings.Repeat("_", k+1)
		case r < 8 && k > 0:
			return strings.Repeat("_", k-1)
		case r < 9:
			if lead {
				return "%" + strings.Repeat("_", 1+g.Intn(2))
			}
			return strings.Repeat("_", 1+g.Intn(2)) + "%"
		}
		return ""
	}
	mid := base[a:b]
	var pat string
	if len(mid) >= 2 && g.Intn(3) == 0 {
		// a wildcard inside the kept part
		c := 1 + g.Intn(len(mid)-1)
		d := c + g.Intn(len(mid)-c+1)
		inner := []string{"%", strings.Repeat("_", d-c), "%_", "_%", "%%"}[g.Intn(5)]
		pat = wild(a, true) + esc(mid[:c]) + inner + esc(mid[d:]) + wild(n-b, false)
	} else {
		pat = wild(a, true) + esc(mid) + wild(n-b, false)
	}
	// mutations
	rs := []rune(pat)
	if len(rs) > 0 && g.Intn(6) == 0 {
		i := g.Intn(len(rs))
		switch g.Intn(3) {
		case 0:
			rs[i] = unicode.ToUpper(rs[i])
		case 1:
			rs[i] = unicode.ToLower(rs[i])
		default:
			rs[i] = unicode.SimpleFold(rs[i])
		}
	}
	if len(rs) > 0 && g.Intn(12) == 0 {
		i := g.Intn(len(rs))
		rs = append(rs[:i:i], rs[i+1:]...)
	}
	if g.Intn(12) == 0 {
		rs = append(rs, likeRune(g))
	}
	if g.Intn(25) == 0 {
		rs = append(rs, '\\')
	}
	if v != nil && g.Intn(15) == 0 {
		rs = append(rs, v.runes(g)...) // longer than the text
	}
	return string(rs)
}

// likePatternFrom: a pattern for the general generators - cut out of one of the texts among `lits`
func likePatternFrom(g *hc.Gen, lits []value.Primary) value.Primary {
	var base []rune
	for try := 0; try < 6 && len(lits) > 0; try++ {
		if s, ok := lits[g.Intn(len(lits))].(*value.String); ok && s.Raw() != "" {
			base = []rune(s.Raw())
			if len(base) > 12 {
				base = base[:12]
			}
			break
		}
	}
	if base == nil && curVocab != nil {
		base = curVocab.runes(g)
	}
	for try := 0; ; try++ {
		p := value.NewString(likePattern(g, curVocab, base))
		if _, ok := hc.SqlLit(p); ok || try > 8 {
			if !ok {
				return value.NewString("%")
			}
			return p
		}
	}
}

// likeShape: what kind of pattern it is (coverage signature)
func likeShape(p string) string {
	rs := []rune(p)
	if len(rs) == 0 {
		return "empty"
	}
	cls := func(r rune) string {
		switch r {
		case '%':
			return "%"
		case '_':
			return "_"
		case '\\':
			return "\\"
		}
		return "w"
	}
	inner, esc, multi := "", "", ""
	for i, r := range rs {
		if i > 0 && i < len(rs)-1 && (r == '%' || r == '_') && rs[i-1] != '\\' {
			inner = "i"
		}
		if r == '\\' {
			esc = "e"
		}
		if r >= 0x80 {
			multi = "m"
		}
	}
	return cls(rs[0]) + inner + cls(rs[len(rs)-1]) + esc + multi
}

func likeCases(g *hc.Gen, pr *hc.Proc, o *hc.Out, n int) {
	rounds := n / 5
	if rounds < 40 {
		rounds = 40
	}
	var lt, lp *table
	var v *likeVocab
	var texts [][]rune
	defer func() {
		if lt != nil {
			pr.DisposeTable(lt.name)
			pr.DisposeTable(lp.name)
		}
	}()
	pat := func() value.Primary {
		var base []rune
		if len(texts) > 0 && g.Intn(8) != 0 {
			base = texts[g.Intn(len(texts))]
		} else {
			base = v.runes(g)
		}
		for {
			p := value.NewString(likePattern(g, v, base))
			if _, ok := hc.SqlLit(p); ok {
				return p
			}
		}
	}
	for c := 0; c < rounds; c++ {
		if c%8 == 0 {
			if lt != nil {
				pr.DisposeTable(lt.name)
				pr.DisposeTable(lp.name)
			}
			epoch++
			v = newLikeVocab(g)
			texts = nil
			lt = &table{name: fmt.Sprintf("lk%d", epoch), cols: []string{"t", "u"}}
			other := func() value.Primary {
				switch g.Intn(8) {
				case 0:
					return value.NewNull()
				case 1:
					return value.NewInteger(int64([]int{1, 12, -3, 100}[g.Intn(4)]))
				case 2:
					return value.NewFloat([]float64{2.5, 1, 0.001, 1e21}[g.Intn(4)])
				case 3:
					return value.NewBoolean(g.Intn(2) == 0)
				}
				return nil
			}
			for i, nr := 0, []int{0, 1, 3, 6, 12, 25}[g.Intn(6)]; i < nr; i++ {
				row := make([]value.Primary, 2)
				for j := range row {
					if p := other(); p != nil && g.Intn(3) == 0 {
						row[j] = p
						continue
					}
					rs := v.runes(g)
					if _, ok := hc.SqlLit(value.NewString(string(rs))); !ok {
						rs = []rune("ab")
					}
					texts = append(texts, rs)
					row[j] = value.NewString(string(rs))
				}
				lt.rows = append(lt.rows, row)
			}
			lp = &table{name: fmt.Sprintf("lq%d", epoch), cols: []string{"p"}}
			for i, nr := 0, []int{0, 1, 2, 4, 8, 12}[g.Intn(6)]; i < nr; i++ {
				if p := other(); p != nil && g.Intn(4) == 0 {
					lp.rows = append(lp.rows, []value.Primary{p})
				} else {
					lp.rows = append(lp.rows, []value.Primary{pat()})
				}
			}
			if err := pr.DeclareTable(lt.name, lt.cols, lt.rows); err != nil {
				o.Law("declare_table_error", err.Error())
				lt = nil
				return
			}
			if err := pr.DeclareTable(lp.name, lp.cols, lp.rows); err != nil {
				o.Law("declare_table_error", err.Error())
				return
			}
		}
		e := newEnc()
		cpu := []int{1, 2, 4}[g.Intn(3)]
		lay := []col{{"a1", "id", true}, {"a1", "t", false}, {"a1", "u", false}}
		play := []col{{"a2", "id", true}, {"a2", "p", false}}
		shape := ""
		// one LIKE atom over the text table (side 0)
		atom := func() *cond {
			l := expr{isCol: true, side: 0, idx: 1 + g.Intn(2)}
			var r expr
			switch k := g.Intn(10); {
			case k < 7:
				p := pat()
				shape = likeShape(p.(*value.String).Raw())
				r = expr{lit: p}
			case k < 8:
				r = expr{isCol: true, side: 0, idx: 1 + g.Intn(2)} // a column as pattern
				shape = "column"
			case k < 9:
				r = expr{lit: []value.Primary{value.NewNull(), value.NewInteger(1), value.NewInteger(12), value.NewBoolean(true), value.NewFloat(2.5)}[g.Intn(5)]}
				shape = "non-text"
			default:
				l = expr{lit: []value.Primary{value.NewNull(), value.NewInteger(12), value.NewFloat(2.5), value.NewBoolean(true)}[g.Intn(4)]}
				r = expr{lit: []value.Primary{value.NewString("1_"), value.NewString("2.5"), value.NewString("%"), value.NewString("true"), value.NewString("2%")}[g.Intn(5)]}
				shape = "non-text-left"
			}
			return &cond{op: "like", neg: g.Intn(3) == 0, e: []expr{l, r}}
		}
		form := []string{"where", "where", "where", "item", "join", "join", "text_vs_patterns"}[g.Intn(7)]
		var sql string
		var tok []string
		switch form {
		case "where":
			w := atom()
			switch g.Intn(6) {
			case 0:
				w = &cond{op: "and", a: w, b: atom()}
			case 1:
				w = &cond{op: "or", a: w, b: atom()}
			case 2:
				w = &cond{op: "not", a: w}
			}
			sql = "SELECT a1.id AS o1, a1.t AS o2 FROM " + lt.name + " AS a1 WHERE " + sqlCond(w, lay, nil)
			tok = append(append([]string{"Q", "T", strconv.Itoa(e.tblIdx(lt)), "W"}, e.cond(w)...), "S", "2", "0", "1")
		case "item":
			w := atom()
			sql = "SELECT a1.id AS o1, " + sqlCond(w, lay, nil) + " AS o2 FROM " + lt.name + " AS a1"
			tok = append(append([]string{"Q", "T", strconv.Itoa(e.tblIdx(lt)), "-", "L", "2", "i", "0", "o1", "b"}, e.cond(w)...), "o2")
		case "join":
			on := &cond{op: "like", neg: g.Intn(4) == 0, e: []expr{{isCol: true, side: 0, idx: 1 + g.Intn(2)}, {isCol: true, side: 1, idx: 1}}}
			shape = "join"
			var w *cond = on
			switch g.Intn(5) {
			case 0:
				w = &cond{op: "and", a: on, b: &cond{op: "cmp", cop: "<=", e: []expr{{isCol: true, side: 0, idx: 0}, {isCol: true, side: 1, idx: 0}}}}
			case 1:
				w = &cond{op: "or", a: on, b: &cond{op: "cmp", cop: "=", e: []expr{{isCol: true, side: 0, idx: 0}, {isCol: true, side: 1, idx: 0}}}}
			}
			kind := "ILRF"[g.Intn(4)]
			sql = "SELECT a1.id AS o1, a2.id AS o2 FROM " + lt.name + " AS a1 " + kindKW[kind] + " " + lp.name + " AS a2 ON " + sqlCond(w, lay, play)
			tok = append(append([]string{"Q", "J", string(kind), "T", strconv.Itoa(e.tblIdx(lt)), "T", strconv.Itoa(e.tblIdx(lp)), "O"}, e.cond(w)...), "-", "S", "2", "0", "3")
		default: // a literal text against the column of patterns
			var txt value.Primary = value.NewString("ab")
			if len(texts) > 0 {
				txt = value.NewString(string(texts[g.Intn(len(texts))]))
			}
			w := &cond{op: "like", neg: g.Intn(4) == 0, e: []expr{{lit: txt}, {isCol: true, side: 0, idx: 1}}}
			shape = "patterns-column"
			sql = "SELECT a2.id AS o1, a2.p AS o2 FROM " + lp.name + " AS a2 WHERE " + sqlCond(w, play, nil)
			tok = append(append([]string{"Q", "T", strconv.Itoa(e.tblIdx(lp)), "W"}, e.cond(w)...), "S", "2", "0", "1")
		}
		impl, vw := runCase(pr, o, e, cpu, sql, tok, []*table{lt, lp})
		if impl == "" {
			continue
		}
		o.Count("like:cases")
		o.Count("like:form=" + form)
		o.Count("like:pattern=" + shape)
		o.NonTrivial("like:" + form + ":" + shape + ":" + outcomeOf(impl, vw))
	}
}
