package main

// NATURAL / USING joins over the whole grid
//   {no shared column, one, two, all} x {INNER, LEFT, RIGHT, FULL} x {0, 1, many rows} on each side
// (144 combinations; sub-selects with renamed columns control which names the two sides share; a side is emptied
// by its own WHERE).  Every case is compared with the Lean model; for the no-shared-column cases the law
//   natural_without_common_column_eq_on_true : A NATURAL <kind> JOIN B  =  A <kind> JOIN B ON TRUE
// is checked on the implementation alone (INNER = cross product, OUTER still pads the preserved side).

import (
	"fmt"
	"strings"

	"github.com/mithrandie/csvq/lib/value"

	"verifharness/hc"
)

var leftNames = []string{"p", "q", "r", "s"}
var rightNames = []string{"t", "u", "y", "z"}

func sizedSide(x *qgen, t *table, cols []int, names []string, size int) *src {
	saved, so := x.enter()
	from := leafOf(x, t)
	q := &qry{from: from, sel: cols, names: names}
	for range cols {
		q.uniq = append(q.uniq, false)
	}
	idcol := expr{isCol: true, side: 0, idx: 0}
	switch size {
	case 0:
		q.where = &cond{op: "cmp", cop: "<", e: []expr{idcol, {lit: value.NewInteger(0)}}}
	case 1:
		q.where = &cond{op: "cmp", cop: "=", e: []expr{idcol, {lit: value.NewInteger(int64(x.g.Intn(2)))}}}
	default:
		if x.g.Intn(3) == 0 {
			q.where = &cond{op: "isnull", neg: true, e: []expr{idcol}}
		}
	}
	x.leave(q, saved, so)
	q.est = len(t.rows)
	return x.subOf(q)
}

func naturalMatrix(g *hc.Gen, pr *hc.Proc, o *hc.Out, n int) {
	x := &qgen{g: g}
	total := 144
	cases := total
	if n < 600 {
		cases = n / 4
	}
	start := g.Intn(total)
	var ta, tb *table
	for c := 0; c < cases; c++ {
		if c%24 == 0 {
			for _, t := range x.tables {
				pr.DisposeTable(t.name)
			}
			x.tables = nil
			keys := pool(g, 3+g.Intn(3), false)
			for i := 0; i < 2; i++ {
				epoch++
				t := &table{name: fmt.Sprintf("m%d_%d", epoch, i+1), cols: []string{"k", "v", "w"}}
				nr := 2 + g.Intn(12)
				for r := 0; r < nr; r++ {
					t.rows = append(t.rows, []value.Primary{keys[g.Intn(len(keys))], keys[g.Intn(len(keys))], keys[g.Intn(len(keys))]})
				}
				if err := pr.DeclareTable(t.name, t.cols, t.rows); err != nil {
					o.Law("declare_table_error", err.Error())
					return
				}
				x.tables = append(x.tables, t)
			}
			ta, tb = x.tables[0], x.tables[1]
			x.lits = keys
		}
		combo := (start + c*37) % total // 37 is coprime to 144: a full cycle visits every combination once
		shared := combo % 4
		kind := "ILRF"[(combo/4)%4]
		sl, sr := (combo/16)%3, (combo/48)%3
		x.nAlias, x.nCTE = 0, 0
		x.ctes, x.outer = nil, nil

		nl := 2 + g.Intn(3)
		lcols := g.Perm(4)[:nl]
		var rcols []int
		var rnames []string
		nshared := shared
		if shared == 3 {
			nshared = nl
		}
		if nshared > nl {
			nshared = nl
		}
		for i := 0; i < nshared; i++ {
			rcols = append(rcols, lcols[i])
			rnames = append(rnames, leftNames[i])
		}
		if shared != 3 {
			extra := 1 + g.Intn(2)
			if nshared == 0 {
				extra = 1 + g.Intn(3)
			}
			for i := 0; i < extra; i++ {
				rcols = append(rcols, g.Intn(4))
				rnames = append(rnames, rightNames[i])
			}
		}
		// order of the right columns is free
		g.Shuffle(len(rcols), func(i, j int) { rcols[i], rcols[j] = rcols[j], rcols[i]; rnames[i], rnames[j] = rnames[j], rnames[i] })

		saved, so := x.enter()
		l := sizedSide(x, ta, lcols, leftNames[:nl], sl)
		r := sizedSide(x, tb, rcols, rnames, sr)
		x.forceKind = kind
		x.forceForm = 'n'
		x.forceUsingK = 0
		if nshared > 0 && g.Intn(2) == 0 {
			x.forceForm = 'u'
			x.forceUsingK = 1 + g.Intn(nshared)
		}
		j := x.join(l, r, false)
		x.forceKind, x.forceForm, x.forceUsingK = 0, 0, 0
		q := &qry{from: j, star: true}
		for _, c := range j.layout {
			q.names = append(q.names, c.name)
			q.uniq = append(q.uniq, false)
		}
		if g.Intn(5) == 0 {
			q.where = x.cond(1, j.layout, nil)
		}
		x.leave(q, saved, so)

		cpu := []int{1, 2, 4}[g.Intn(3)]
		pr.SetCPU(cpu)
		sql := sqlQuery(q)
		v, err := pr.Query(sql)
		if err != nil {
			o.Law("select_sql_error", map[string]interface{}{"sql": sql, "error": err.Error(), "tables": dumpTables(x.tables)})
			continue
		}
		e := newEnc()
		plan := strings.Join(e.query(q), " ")
		o.Case(fmt.Sprintf("c03.q %d %s %s #%s", cpu, e.header(), plan, hc.Hex(sql)), canon(v))
		sig := fmt.Sprintf("matrix:shared=%d:%c%c:left=%d:right=%d", shared, kind, j.jform, sl, sr)
		o.Count(fmt.Sprintf("matrix:shared=%d", shared))
		o.Count(fmt.Sprintf("matrix:%c/%c", kind, j.jform))
		o.Count(fmt.Sprintf("matrix:sizes=%d/%d", sl, sr))
		o.NonTrivial(sig)

		if nshared == 0 && q.where == nil {
			kw := map[byte]string{'I': "INNER JOIN", 'L': "LEFT JOIN", 'R': "RIGHT JOIN", 'F': "FULL JOIN"}[kind]
			osql := "SELECT * FROM " + sqlSrc(l) + " " + kw + " " + sqlSrc(r) + " ON TRUE"
			if want, w, ok := qrows(pr, o, osql); ok {
				o.Count("law_checks:natural_without_common_column")
				if w != v.FieldLen() || canonRows(want) != canonRows(viewRows(v)) {
					o.Law("natural_without_common_column_eq_on_true", map[string]interface{}{"sql": sql, "on_true_sql": osql,
						"rows_natural": v.RecordLen(), "rows_on_true": len(want), "tables": dumpTables(x.tables)})
				}
			}
		}
	}
	for _, t := range x.tables {
		pr.DisposeTable(t.name)
	}
}
