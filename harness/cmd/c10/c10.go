package main

import (
	"bytes"
	"encoding/hex"
	"fmt"
	"io"
	"os"
	"os/exec"
	"path/filepath"
	"sort"
	"strings"
	"time"

	"verifharness/hc"
)

func main() { hc.Main(run) }

func must(err error) {
	if err != nil {
		panic(err)
	}
}

type table struct {
	name string
	old  []byte
}

func csvq(bin, dir string, env []string, args ...string) (string, int) {
	cmd := exec.Command(bin, append([]string{"--repository", dir, "--quiet"}, args...)...)
	cmd.Dir = dir
	cmd.Env = append(append(os.Environ(), "HOME="+dir), env...)
	var out bytes.Buffer
	cmd.Stdout, cmd.Stderr = &out, &out
	done := make(chan error, 1)
	must(cmd.Start())
	go func() { done <- cmd.Wait() }()
	select {
	case err := <-done:
		if err == nil {
			return out.String(), 0
		}
		if ee, ok := err.(*exec.ExitError); ok {
			return out.String(), ee.ExitCode()
		}
		return out.String(), -1
	case <-time.After(20 * time.Second):
		_ = cmd.Process.Kill()
		return out.String() + "\n[timeout]", -2
	}
}

func listDir(dir string) []string {
	ents, _ := os.ReadDir(dir)
	names := []string{}
	for _, e := range ents {
		names = append(names, e.Name())
	}
	sort.Strings(names)
	return names
}

func isControl(name string) bool {
	return strings.HasPrefix(name, ".") && (strings.HasSuffix(name, ".lock") || strings.HasSuffix(name, ".rlock") || strings.HasSuffix(name, ".temp"))
}

func run(seed int64, n int, dir string, _ []string) {
	g := hc.NewGen(seed)
	o := hc.NewOut(dir)
	defer o.Close()
	bin := os.Getenv("VERIF_CSVQ")
	scratch := os.Getenv("VERIF_SCRATCH")
	if bin == "" || scratch == "" {
		panic("VERIF_CSVQ and VERIF_SCRATCH must be set")
	}
	o.Case("c10.check", "ok") // the model-side search over every prefix of the regenerated sequence
	caseTwins(o, bin, scratch)
	thorough := os.Getenv("VERIF_TIER") == "thorough"
	// (generators of their own: the crash rounds below see the same random sequence as before)
	mixedCommits(o, hc.NewGen(seed*7919+1), bin, scratch, map[bool]int{false: 6, true: 40}[thorough])
	encodeFailures(o, hc.NewGen(seed*7919+2), bin, scratch, thorough)

	// ---- the byte-level file model (ftruncate / lseek / write on one descriptor) against the operating system ----
	for i := 0; i < 30+n/4; i++ {
		fp, err := os.CreateTemp(scratch, "fbytes-*")
		must(err)
		var toks []string
		steps := g.Intn(8) + 1
		for k := 0; k < steps; k++ {
			switch g.Intn(5) {
			case 0:
				must(fp.Truncate(0))
				toks = append(toks, "t")
			case 1:
				_, err := fp.Seek(0, io.SeekStart)
				must(err)
				toks = append(toks, "s")
			default:
				b := make([]byte, g.Intn(6))
				for j := range b {
					b[j] = byte(g.Intn(256))
				}
				_, err := fp.Write(b)
				must(err)
				toks = append(toks, "w:"+hex.EncodeToString(b))
			}
		}
		pos, err := fp.Seek(0, io.SeekCurrent)
		must(err)
		content, err := os.ReadFile(fp.Name())
		must(err)
		fp.Close()
		os.Remove(fp.Name())
		o.Case("c10.fbytes "+strings.Join(toks, " "), fmt.Sprintf("%s@%d", hex.EncodeToString(content), pos))
		o.NonTrivial(fmt.Sprintf("fbytes:%d:%v", len(toks), len(content) > 0))
	}

	rounds := n / 40
	if rounds < 2 {
		rounds = 2
	}
	for r := 0; r < rounds; r++ {
		ntab := g.Intn(3) + 1
		base := filepath.Join(scratch, fmt.Sprintf("c10-%d", r))
		must(os.MkdirAll(base, 0o755))
		tabs := make([]table, ntab)
		symlinked := make([]bool, ntab)
		var prog strings.Builder
		for i := range tabs {
			var sb strings.Builder
			sb.WriteString("id,v\n")
			rows := g.Intn(40)
			for k := 0; k < rows; k++ {
				fmt.Fprintf(&sb, "%d,%s\n", k, g.Pick("a", "b", "x y", "\"q,r\"", "", "12"))
			}
			tabs[i] = table{fmt.Sprintf("t%d.csv", i), []byte(sb.String())}
			symlinked[i] = g.Intn(3) == 0 // the table path may be a symbolic link to a file elsewhere
			switch g.Intn(3) {
			case 0:
				fmt.Fprintf(&prog, "UPDATE `%s` SET v = 'u%d' WHERE id %% 2 = 0; ", tabs[i].name, r)
			case 1:
				fmt.Fprintf(&prog, "INSERT INTO `%s` VALUES (1000, 'n'), (1001, 'm'); ", tabs[i].name)
			default:
				fmt.Fprintf(&prog, "DELETE FROM `%s` WHERE id < 3; INSERT INTO `%s` VALUES (2000, 'z'); ", tabs[i].name, tabs[i].name)
			}
		}
		// bystanders: tables the transaction only locks (FOR UPDATE, a data-changing statement that matches no record)
		// or only reads, and an existing EMPTY file — they existed before the transaction too, so they must be
		// complete (= unchanged) at every crash point as well
		bystanders := 0
		if g.Intn(2) == 0 {
			for k, nb := 0, 1+g.Intn(2); k < nb; k++ {
				name := fmt.Sprintf("b%d.csv", k)
				content := "id,v\n1,p\n2,q\n3,r\n"
				switch g.Intn(5) {
				case 0:
					fmt.Fprintf(&prog, "SELECT COUNT(*) FROM `%s` FOR UPDATE; ", name)
				case 1:
					fmt.Fprintf(&prog, "UPDATE `%s` SET v = 'never' WHERE id < 0; ", name)
				case 2:
					fmt.Fprintf(&prog, "DELETE FROM `%s` WHERE v = 'nothing'; ", name)
				case 3:
					fmt.Fprintf(&prog, "SELECT v FROM `%s` WHERE id < 3; ", name)
				default:
					content = "" // a 0-byte table file that nothing refers to
				}
				tabs = append(tabs, table{name, []byte(content)})
				symlinked = append(symlinked, false)
				bystanders++
			}
		}
		// one table of another file format (its own encoder writes the temporary file; single-line fixed-length
		// text has no record separator at all): old or new at every crash point like the CSV tables
		{
			type ft struct{ name, content, stmt string }
			f := []ft{
				{"j0.jsonl", "{\"id\":1,\"v\":\"a\"}\n{\"id\":2,\"v\":\"b\"}\n", "UPDATE `j0.jsonl` SET v = 'u' WHERE id = 2; "},
				{"n0.json", "[{\"id\":1,\"v\":\"a\"},{\"id\":2,\"v\":\"b\"}]\n", "INSERT INTO `n0.json` VALUES (3, 'c'); "},
				{"l0.ltsv", "id:1\tv:a\nid:2\tv:b\n", "DELETE FROM `l0.ltsv` WHERE id = 1; "},
				{"s0.tsv", "id\tv\n1\ta\n2\tb\n", "UPDATE `s0.tsv` SET v = 'long value' WHERE id = 1; "},
				{"x0.txt", "1a 2b 3c 4d ", "UPDATE FIXED('S[1,3]', `x0.txt`, 'UTF8', TRUE) SET c2 = 'x' WHERE c1 = 2; "},
				{"y0.txt", "id v  \n1  ab \n2  cd \n", "UPDATE FIXED('[2,5]', `y0.txt`) SET v = 'zz' WHERE id = 2; "},
			}[r%6]
			tabs = append([]table{{f.name, []byte(f.content)}}, tabs...)
			symlinked = append([]bool{false}, symlinked...)
			prog.WriteString(f.stmt)
			ntab++
			o.Count("format_table:" + f.name)
		}
		if g.Intn(2) == 0 {
			prog.WriteString("CREATE TABLE `created.csv` (a, b); INSERT INTO `created.csv` VALUES (1, 2); ")
		}
		prog.WriteString("COMMIT;")
		program := prog.String()

		fresh := func(name string) string {
			d := filepath.Join(scratch, fmt.Sprintf("c10-%d-%s", r, name))
			_ = os.RemoveAll(d)
			must(os.MkdirAll(d, 0o755))
			for i, t := range tabs {
				if symlinked[i] {
					must(os.MkdirAll(filepath.Join(d, "store"), 0o755))
					must(os.WriteFile(filepath.Join(d, "store", t.name), t.old, 0o644))
					must(os.Symlink(filepath.Join("store", t.name), filepath.Join(d, t.name)))
				} else {
					must(os.WriteFile(filepath.Join(d, t.name), t.old, 0o644))
				}
			}
			return d
		}
		// reference run: the complete new contents, and the list of points reached
		ref := fresh("ref")
		trace := filepath.Join(scratch, fmt.Sprintf("c10-%d-trace", r))
		_ = os.Remove(trace)
		out, rc := csvq(bin, ref, []string{"VERIF_TRACE=" + trace}, program)
		if rc != 0 {
			o.Law("reference_run_failed", map[string]interface{}{"program": program, "rc": rc, "out": out})
			continue
		}
		newC := make([][]byte, len(tabs))
		for i, t := range tabs {
			newC[i], _ = os.ReadFile(filepath.Join(ref, t.name))
		}
		// a table the program never changes is, after the undisturbed run, byte for byte what it was
		for i := ntab; i < len(tabs); i++ {
			if !bytes.Equal(newC[i], tabs[i].old) {
				o.Law("unchanged_table_rewritten_by_commit", map[string]interface{}{"program": program, "table": tabs[i].name, "before": string(tabs[i].old), "after": string(newC[i])})
			}
		}
		tb, _ := os.ReadFile(trace)
		points := strings.Fields(string(tb))
		_ = os.Remove(trace)
		_ = os.RemoveAll(ref)
		seen := map[string]int{}
		commitStarted := false
		for _, pt := range points {
			seen[pt]++
			if strings.HasPrefix(pt, "tx.commit") {
				commitStarted = true
			}
			if !commitStarted {
				continue
			}
			d := fresh("crash")
			spec := fmt.Sprintf("%s#%d", pt, seen[pt])
			out, rc := csvq(bin, d, []string{"VERIF_CRASH_AT=" + spec}, program)
			o.Count("crash_point:" + pt)
			o.Eval()
			if rc != 137 {
				o.Law("crash_point_not_reached", map[string]interface{}{"point": spec, "rc": rc, "out": out})
				_ = os.RemoveAll(d)
				continue
			}
			states := make([]string, len(tabs))
			for i, t := range tabs {
				b, err := os.ReadFile(filepath.Join(d, t.name))
				switch {
				case err != nil:
					states[i] = "missing"
				case bytes.Equal(b, t.old):
					states[i] = "old"
				case bytes.Equal(b, newC[i]):
					states[i] = "new"
				default:
					states[i] = "mixed"
				}
				if states[i] != "old" && states[i] != "new" {
					o.Law("crash_leaves_old_or_new", map[string]interface{}{"crash_at": spec, "table": t.name, "state": states[i], "program": program, "dir_after_crash": listDir(d)})
				}
			}
			// the model's answer for the table whose handler is committing at this point
			if ntab == 1 && bystanders == 0 && strings.HasPrefix(pt, "commit.") && pt != "commit.closefp" {
				// the k-th occurrence of a commit.* point belongs to the k-th handler committed: created files
				// first (openType ForCreate: no commit.closetemp/remove/rename points), then updated files in
				// the order Transaction.Commit iterates them; identify the table as the one currently not
				// "old-with-its-temp-untouched" is fragile, so ask only for the aggregate: does a table in the
				// state predicted by the model exist?
				want := ""
				_ = want
				o.Case("c10.at "+pt, modelView(states, d, tabs))
			}
			// recovery: delete the leftover hidden control files as the manual instructs; the tables load again
			for _, nme := range listDir(d) {
				if isControl(nme) {
					_ = os.Remove(filepath.Join(d, nme))
				}
			}
			for _, t := range tabs {
				q := fmt.Sprintf("SELECT COUNT(*) FROM `%s`", t.name)
				if out, rc := csvq(bin, d, nil, q); rc != 0 {
					o.Law("not_recoverable_after_crash", map[string]interface{}{"crash_at": spec, "table": t.name, "rc": rc, "out": out})
				}
				// usable again means updatable again: no lock of the dead process may survive anywhere else
				// (e.g. beside the target of a symbolic link) once the files beside the table are deleted
				if len(t.old) > 0 {
					u := fmt.Sprintf("SELECT COUNT(*) FROM `%s` FOR UPDATE", t.name)
					if out, rc := csvq(bin, d, nil, "--wait-timeout", "1", u); rc != 0 {
						o.Law("not_updatable_after_recovery", map[string]interface{}{"crash_at": spec, "table": t.name, "rc": rc, "out": out, "dir": listDir(d)})
					}
				}
			}
			o.NonTrivial(fmt.Sprintf("%s:%d:%d:%s:%v", pt, ntab, bystanders, strings.Join(states, ","), symlinked))
			_ = os.RemoveAll(d)
		}
		_ = os.RemoveAll(base)
	}
}

// caseTwins: on a case-sensitive file system `t.csv` and `T.CSV` are different files, yet csvq keys its caches by the
// upper-cased path.  A transaction that changes one and creates / changes the other must leave EACH file complete —
// old or new — whether it is refused, runs to its end or is killed at any point of its COMMIT.
func caseTwins(o *hc.Out, bin, scratch string) {
	progs := []string{
		"UPDATE `t.csv` SET v = 'u' WHERE id = 1; CREATE TABLE `T.CSV` (a, b); INSERT INTO `T.CSV` VALUES (1, 2); COMMIT;",
		"CREATE TABLE `T.CSV` (a, b); UPDATE `t.csv` SET v = 'u' WHERE id = 1; COMMIT;",
		"UPDATE `t.csv` SET v = 'u' WHERE id = 1; UPDATE `T2.csv` SET v = 'w'; SELECT COUNT(*) FROM `t2.CSV`; COMMIT;",
		"INSERT INTO `t.csv` VALUES (9, 'n'); CREATE TABLE `t.CSV` (a); COMMIT;",
	}
	old := map[string]string{"t.csv": "id,v\n1,a\n2,b\n", "T2.csv": "id,v\n1,p\n", "t2.CSV": "id,v\n1,q\n"}
	for pi, prog := range progs {
		fresh := func(tag string) string {
			d := filepath.Join(scratch, fmt.Sprintf("c10-tw-%d-%s", pi, tag))
			_ = os.RemoveAll(d)
			must(os.MkdirAll(d, 0o755))
			for n, b := range old {
				must(os.WriteFile(filepath.Join(d, n), []byte(b), 0o644))
			}
			return d
		}
		ref := fresh("ref")
		trace := filepath.Join(scratch, fmt.Sprintf("c10-tw-%d-trace", pi))
		_ = os.Remove(trace)
		out, rc := csvq(bin, ref, []string{"VERIF_TRACE=" + trace}, prog)
		newC := map[string]string{}
		for n := range old {
			b, err := os.ReadFile(filepath.Join(ref, n))
			if err != nil {
				newC[n] = "<missing>"
			} else {
				newC[n] = string(b)
			}
		}
		tb, _ := os.ReadFile(trace)
		_ = os.Remove(trace)
		rep := map[string]interface{}{"program": prog, "rc": rc, "out": out, "after": newC, "dir": listDir(ref)}
		// what each existing file may hold after the undisturbed run: its old bytes, or its bytes with exactly the
		// program's own change (computed by hand for these four programs)
		allowed := map[string][]string{
			"t.csv":  {old["t.csv"], "id,v\n1,u\n2,b\n", "id,v\n1,a\n2,b\n9,n\n"},
			"T2.csv": {old["T2.csv"], "id,v\n1,w\n"},
			"t2.CSV": {old["t2.CSV"], "id,v\n1,x\n"},
		}
		okContent := func(n, got string) bool {
			for _, a := range allowed[n] {
				if got == a {
					return true
				}
			}
			return false
		}
		for n := range old {
			// (two EXISTING files that differ only in letter case sharing one cached table is known finding F86 of C01;
			// the programs here change at most one file of such a pair)
			if !okContent(n, newC[n]) {
				rep["table"] = n
				o.Law("case_twin_damaged", rep)
			}
			if rc != 0 && newC[n] != old[n] {
				rep["table"] = n
				o.Law("failed_run_changed_file", rep)
			}
		}
		_ = os.RemoveAll(ref)
		seen := map[string]int{}
		started := false
		for _, pt := range strings.Fields(string(tb)) {
			seen[pt]++
			if strings.HasPrefix(pt, "tx.commit") {
				started = true
			}
			if !started {
				continue
			}
			d := fresh("crash")
			spec := fmt.Sprintf("%s#%d", pt, seen[pt])
			_, crc := csvq(bin, d, []string{"VERIF_CRASH_AT=" + spec}, prog)
			if crc == 137 {
				for n := range old {
					b, err := os.ReadFile(filepath.Join(d, n))
					if err != nil || (string(b) != old[n] && string(b) != newC[n]) {
						o.Law("crash_leaves_old_or_new", map[string]interface{}{"crash_at": spec, "table": n, "program": prog, "content": string(b), "dir_after_crash": listDir(d)})
					}
				}
			}
			o.Eval()
			_ = os.RemoveAll(d)
		}
		o.NonTrivial(fmt.Sprintf("casetwin:%d:%d", pi, rc))
	}
}

// modelView renders what the implementation shows for the handler that is in the middle of its commit:
// the table that still has a `.temp` file, or (after the rename) a `.lock` file but no temp.
func modelView(states []string, d string, tabs []table) string {
	names := listDir(d)
	has := func(s string) bool {
		for _, n := range names {
			if n == s {
				return true
			}
		}
		return false
	}
	// the handler being committed is the first table (in directory order of Transaction.Commit's map
	// iteration — unknown) that still holds its lock; prefer one whose temp file is gone or whose data is not old
	best := -1
	for i, t := range tabs {
		if has("." + t.name + ".lock") {
			if best < 0 {
				best = i
			}
			if states[i] != "old" || !has("."+t.name+".temp") {
				best = i
				break
			}
		}
	}
	if best < 0 {
		return "none-locked"
	}
	t := tabs[best]
	s := states[best]
	if has("." + t.name + ".temp") {
		s += "+temp"
	}
	if has("." + t.name + ".lock") {
		s += "+lock"
	}
	return s
}
