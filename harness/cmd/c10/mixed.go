package main

import (
	"bytes"
	"encoding/hex"
	"fmt"
	"os"
	"path/filepath"
	"strings"
	"unicode/utf16"

	"verifharness/hc"
)

// tspec: one table of a transaction with ALL the attributes a written file depends on
type tspec struct {
	name    string
	format  string // csv tsv ltsv fixed fixed1 (single-line) json jsonl
	enc     string // the name the table is read with: UTF8 UTF8M UTF16 UTF16BE UTF16LE UTF16BEM UTF16LEM SJIS
	lb      string // LF CRLF
	delim   string // csv
	noHdr   bool   // csv tsv fixed
	enclose bool   // csv tsv
	rows    int
	vwidth  int // byte width of the text column (fixed-length: the width of its field)
	created bool
	stmt    int // which data-changing statement the transaction runs on it
}

// effEnc: the encoding csvq keeps for the table (UTF16 is decided by the byte order mark of the file)
func (t tspec) effEnc() string {
	if t.enc == "UTF16" {
		return "UTF16LEM"
	}
	return t.enc
}

func (t tspec) modelFormat() string {
	if t.format == "fixed1" {
		return "fixed"
	}
	return t.format
}

func (t tspec) unit() int {
	if strings.HasPrefix(t.enc, "UTF16") && t.format != "json" && t.format != "jsonl" {
		return 2
	}
	return 1
}

func lbText(lb string) string {
	if lb == "CRLF" {
		return "\r\n"
	}
	return "\n"
}

const idWidth = 6

// oldText: the text the table is created with (`v` of record i is vtext(i))
func (t tspec) vtext(i int) string {
	s := fmt.Sprintf("text of record %d ", i)
	for len(s) < t.vwidth-3 {
		s += "abcdefghij"[:1+(i+len(s))%10]
	}
	if len(s) > t.vwidth-3 {
		s = s[:t.vwidth-3]
	}
	return strings.TrimRight(s, " ")
}

func transcode(s string, enc string) []byte {
	be := func(bom bool) []byte {
		var b []byte
		if bom {
			b = append(b, 0xFE, 0xFF)
		}
		for _, u := range utf16.Encode([]rune(s)) {
			b = append(b, byte(u>>8), byte(u))
		}
		return b
	}
	le := func(bom bool) []byte {
		var b []byte
		if bom {
			b = append(b, 0xFF, 0xFE)
		}
		for _, u := range utf16.Encode([]rune(s)) {
			b = append(b, byte(u), byte(u>>8))
		}
		return b
	}
	switch enc {
	case "UTF8M":
		return append([]byte{0xEF, 0xBB, 0xBF}, s...)
	case "UTF16BE":
		return be(false)
	case "UTF16BEM":
		return be(true)
	case "UTF16LE":
		return le(false)
	case "UTF16LEM", "UTF16":
		return le(true)
	}
	return []byte(s) // UTF8, SJIS (the texts here are ASCII)
}

// render: the bytes of the file as it exists before the transaction
func (t tspec) render() []byte {
	var lines []string
	q := func(s string) string {
		if t.enclose {
			return "\"" + s + "\""
		}
		return s
	}
	switch t.format {
	case "csv", "tsv":
		d := t.delim
		if t.format == "tsv" {
			d = "\t"
		}
		if !t.noHdr {
			lines = append(lines, q("id")+d+q("v"))
		}
		for i := 1; i <= t.rows; i++ {
			lines = append(lines, q(fmt.Sprint(i))+d+q(t.vtext(i)))
		}
	case "ltsv":
		for i := 1; i <= t.rows; i++ {
			lines = append(lines, fmt.Sprintf("id:%d\tv:%s", i, t.vtext(i)))
		}
	case "fixed", "fixed1":
		if !t.noHdr && t.format == "fixed" {
			lines = append(lines, fmt.Sprintf("%-*s%-*s", idWidth, "id", t.vwidth, "v"))
		}
		for i := 1; i <= t.rows; i++ {
			lines = append(lines, fmt.Sprintf("%-*d%-*s", idWidth, i, t.vwidth, t.vtext(i)))
		}
		if t.format == "fixed1" {
			return transcode(strings.Join(lines, ""), t.enc)
		}
	case "jsonl":
		for i := 1; i <= t.rows; i++ {
			lines = append(lines, fmt.Sprintf("{\"id\":%d,\"v\":\"%s\"}", i, t.vtext(i)))
		}
	case "json":
		var rs []string
		for i := 1; i <= t.rows; i++ {
			rs = append(rs, fmt.Sprintf("{\"id\":%d,\"v\":\"%s\"}", i, t.vtext(i)))
		}
		lines = append(lines, "["+strings.Join(rs, ",")+"]")
	}
	if t.format == "json" || t.format == "jsonl" {
		return []byte(strings.Join(lines, lbText(t.lb)) + lbText(t.lb))
	}
	return transcode(strings.Join(lines, lbText(t.lb))+lbText(t.lb), t.enc)
}

// ref: how a statement names the table
func (t tspec) ref() string {
	b := func(x bool) string {
		if x {
			return "TRUE"
		}
		return "FALSE"
	}
	switch t.format {
	case "csv":
		return fmt.Sprintf("CSV('%s', `%s`, '%s', %s)", t.delim, t.name, t.enc, b(t.noHdr))
	case "tsv":
		return fmt.Sprintf("CSV('\\t', `%s`, '%s', %s)", t.name, t.enc, b(t.noHdr))
	case "ltsv":
		return fmt.Sprintf("LTSV(`%s`, '%s')", t.name, t.enc)
	case "fixed":
		return fmt.Sprintf("FIXED('[%d,%d]', `%s`, '%s', %s)", idWidth, idWidth+t.vwidth, t.name, t.enc, b(t.noHdr))
	case "fixed1":
		return fmt.Sprintf("FIXED('S[%d,%d]', `%s`, '%s', TRUE)", idWidth, idWidth+t.vwidth, t.name, t.enc)
	case "jsonl":
		return fmt.Sprintf("JSONL('', `%s`)", t.name)
	case "json":
		return fmt.Sprintf("JSON('', `%s`)", t.name)
	}
	panic("format")
}

func (t tspec) cols() (string, string) {
	if (t.noHdr && (t.format == "csv" || t.format == "tsv" || t.format == "fixed")) || t.format == "fixed1" {
		return "c1", "c2"
	}
	return "id", "v"
}

// statements: what the transaction does to the table (all values are texts: a table read from a file holds texts)
func (t tspec) statements(tag string) string {
	id, v := t.cols()
	if t.created {
		b := func(x bool) string {
			if x {
				return "TRUE"
			}
			return "FALSE"
		}
		d := t.delim
		if d == "" {
			d = ","
		}
		return fmt.Sprintf("SET @@WRITE_ENCODING TO %s; SET @@LINE_BREAK TO %s; SET @@ENCLOSE_ALL TO %s; SET @@WRITE_DELIMITER TO '%s'; CREATE TABLE `%s` (id, v); INSERT INTO `%s` VALUES ('1', 'made %s'), ('2', 'in this transaction'); ",
			t.effEnc(), t.lb, b(t.enclose), d, t.name, t.name, tag)
	}
	switch t.stmt % 3 {
	case 0:
		return fmt.Sprintf("UPDATE %s SET %s = 'u%s' WHERE %s %% 2 = 0; ", t.ref(), v, tag, id)
	case 1:
		return fmt.Sprintf("INSERT INTO %s VALUES ('1000', 'n%s'), ('1001', 'm'); ", t.ref(), tag)
	}
	return fmt.Sprintf("DELETE FROM %s WHERE %s < 3; INSERT INTO %s VALUES ('2000', 'z%s'); ", t.ref(), id, t.ref(), tag)
}

// logical: the records (id, v) after `statements`, as texts — for the model's fixed-length writer
func (t tspec) logical(tag string) [][2]string {
	var rows [][2]string
	for i := 1; i <= t.rows; i++ {
		rows = append(rows, [2]string{fmt.Sprint(i), t.vtext(i)})
	}
	switch t.stmt % 3 {
	case 0:
		for i := range rows {
			if (i+1)%2 == 0 {
				rows[i][1] = "u" + tag
			}
		}
	case 1:
		rows = append(rows, [2]string{"1000", "n" + tag}, [2]string{"1001", "m"})
	default:
		if len(rows) >= 2 {
			rows = rows[2:]
		} else {
			rows = nil
		}
		rows = append(rows, [2]string{"2000", "z" + tag})
	}
	return rows
}

func hexOrDash(s string) string {
	if s == "" {
		return "-"
	}
	return hex.EncodeToString([]byte(s))
}

// newfixedOp: the operation line that asks the model for the file a fixed-length table (explicit delimiter positions,
// one record a line) is written as
func (t tspec) newfixedOp(rows [][2]string) string {
	var sb strings.Builder
	wh := "0"
	if t.noHdr {
		wh = "1"
	}
	fmt.Fprintf(&sb, "c10.newfixed %s %s %d,%d", t.lb, wh, idWidth, idWidth+t.vwidth)
	if !t.noHdr {
		fmt.Fprintf(&sb, " %s,%s", hexOrDash("id"), hexOrDash("v"))
	}
	for _, r := range rows {
		fmt.Fprintf(&sb, " %s,%s", hexOrDash(r[0]), hexOrDash(r[1]))
	}
	return sb.String()
}

var allEncodings = []string{"UTF8", "UTF8M", "UTF16", "UTF16BE", "UTF16LE", "UTF16BEM", "UTF16LEM", "SJIS"}

func randomSpec(g *hc.Gen, name string, created bool) tspec {
	t := tspec{created: created, lb: g.Pick("LF", "CRLF"), delim: g.Pick(",", ";", "|"), noHdr: g.Intn(3) == 0, enclose: g.Intn(3) == 0,
		rows: 2 + g.Intn(12), vwidth: 24 + g.Intn(30), stmt: g.Intn(3)}
	if created {
		t.format = g.Pick("csv", "csv", "tsv", "ltsv", "jsonl", "json")
		t.noHdr = false
	} else {
		t.format = g.Pick("csv", "csv", "tsv", "ltsv", "fixed", "jsonl", "json")
	}
	switch t.format {
	case "fixed":
		t.enc = g.Pick("UTF8", "SJIS")
	case "json", "jsonl":
		t.enc = "UTF8"
	default:
		t.enc = allEncodings[g.Intn(len(allEncodings))]
	}
	ext := map[string]string{"csv": ".csv", "tsv": ".tsv", "ltsv": ".ltsv", "fixed": ".txt", "jsonl": ".jsonl", "json": ".json"}[t.format]
	t.name = name + ext
	return t
}

func (t tspec) describe() string {
	return fmt.Sprintf("%s format=%s encoding=%s line_break=%s delimiter=%q no_header=%v enclose_all=%v rows=%d created=%v", t.name, t.format, t.enc, t.lb, t.delim, t.noHdr, t.enclose, t.rows, t.created)
}

func tail(b []byte, n int) string {
	if len(b) > n {
		b = b[len(b)-n:]
	}
	return hex.EncodeToString(b)
}

// mixedCommits: ONE transaction over several tables that differ from each other in every attribute a written file
// depends on (format, encoding, line break, delimiter, header, enclose-all; updated and created).  Each file it
// writes is byte for byte the file a transaction over that table ALONE writes — anything Transaction.Commit keeps
// from one table for the next (a cached ending line break, a reused writer, a shared option set) shows as a
// difference.  The model predicts the bytes every written file ends with (and, for fixed-length tables, the whole
// file); a kill after each rename leaves every existing table its complete old or complete new bytes.
func mixedCommits(o *hc.Out, g *hc.Gen, bin, scratch string, scenarios int) {
	for sc := 0; sc < scenarios; sc++ {
		k := 3 + g.Intn(4)
		var tabs []tspec
		ncreated := g.Intn(3)
		for i := 0; i < k; i++ {
			tabs = append(tabs, randomSpec(g, fmt.Sprintf("m%d", i), i < ncreated))
		}
		// one table on the far side of a writer's buffer
		if big := ncreated + g.Intn(k-ncreated); true {
			tabs[big].rows = 4500/(tabs[big].vwidth+8) + g.Intn(40)
		}
		tag := fmt.Sprint(sc)
		fresh := func(name string) string {
			d := filepath.Join(scratch, fmt.Sprintf("c10-mx-%d-%s", sc, name))
			_ = os.RemoveAll(d)
			must(os.MkdirAll(d, 0o755))
			for _, t := range tabs {
				if !t.created {
					must(os.WriteFile(filepath.Join(d, t.name), t.render(), 0o644))
				}
			}
			return d
		}
		var desc []string
		for _, t := range tabs {
			desc = append(desc, t.describe())
		}
		// each table alone
		newC := make([][]byte, len(tabs))
		okRef := true
		for i, t := range tabs {
			d := fresh("single")
			prog := t.statements(tag) + "COMMIT;"
			if out, rc := csvq(bin, d, nil, prog); rc != 0 {
				o.Law("reference_run_failed", map[string]interface{}{"program": prog, "table": t.describe(), "rc": rc, "out": out})
				okRef = false
			}
			newC[i], _ = os.ReadFile(filepath.Join(d, t.name))
			_ = os.RemoveAll(d)
		}
		if !okRef {
			continue
		}
		// all of them in one transaction, in a shuffled order of statements
		order := make([]int, len(tabs))
		for i := range order {
			order[i] = i
		}
		for i := len(order) - 1; i > 0; i-- {
			j := g.Intn(i + 1)
			order[i], order[j] = order[j], order[i]
		}
		var pb strings.Builder
		for _, i := range order {
			pb.WriteString(tabs[i].statements(tag))
		}
		pb.WriteString("COMMIT;")
		program := pb.String()
		d := fresh("multi")
		trace := filepath.Join(scratch, fmt.Sprintf("c10-mx-%d-trace", sc))
		_ = os.Remove(trace)
		out, rc := csvq(bin, d, []string{"VERIF_TRACE=" + trace}, program)
		tb, _ := os.ReadFile(trace)
		_ = os.Remove(trace)
		if rc != 0 {
			o.Law("reference_run_failed", map[string]interface{}{"program": program, "tables": desc, "rc": rc, "out": out})
			_ = os.RemoveAll(d)
			continue
		}
		for i, t := range tabs {
			got, _ := os.ReadFile(filepath.Join(d, t.name))
			if !bytes.Equal(got, newC[i]) {
				o.Law("multi_table_commit_differs_from_single_table_commit", map[string]interface{}{"program": program, "tables": desc, "table": t.describe(),
					"bytes_in_one_transaction": len(got), "bytes_alone": len(newC[i]), "last_bytes_in_one_transaction": tail(got, 12), "last_bytes_alone": tail(newC[i], 12)})
			}
			// the model: the bytes the file ends with, and for a fixed-length table the whole file
			n := len(lbText(t.lb)) * t.unit()
			o.Context(fmt.Sprintf("table %s; transaction: %s", t.describe(), program))
			o.Case(fmt.Sprintf("c10.endlb %s %s %s", t.modelFormat(), t.effEnc(), t.lb), tail(got, n))
			if t.format == "fixed" && len(got) < 12000 {
				o.Context(fmt.Sprintf("table %s; transaction: %s", t.describe(), program))
				o.Case(t.newfixedOp(t.logical(tag)), hex.EncodeToString(got))
			}
			o.Count("mixed_table:" + t.format + ":" + t.effEnc() + ":" + t.lb)
		}
		// pairs of one transaction that share one attribute and differ in another (what a per-commit memo keyed by
		// too little would mix up)
		for i := range tabs {
			for j := i + 1; j < len(tabs); j++ {
				a, b := tabs[i], tabs[j]
				if a.lb == b.lb && a.effEnc() != b.effEnc() {
					o.Count("pair:same_line_break_other_encoding")
				}
				if a.effEnc() == b.effEnc() && a.lb != b.lb {
					o.Count("pair:same_encoding_other_line_break")
				}
				if a.format == b.format && (a.lb != b.lb || a.effEnc() != b.effEnc() || a.delim != b.delim || a.enclose != b.enclose || a.noHdr != b.noHdr) {
					o.Count("pair:same_format_other_attribute")
				}
			}
		}
		_ = os.RemoveAll(d)
		// killed after each rename, and when everything is encoded but nothing swapped
		seen := map[string]int{}
		for _, pt := range strings.Fields(string(tb)) {
			seen[pt]++
			if pt != "commit.renamed" && pt != "tx.commit.encoded" && pt != "commit.rename" {
				continue
			}
			if pt == "commit.rename" && g.Intn(3) != 0 {
				continue
			}
			spec := fmt.Sprintf("%s#%d", pt, seen[pt])
			cd := fresh("crash")
			_, crc := csvq(bin, cd, []string{"VERIF_CRASH_AT=" + spec}, program)
			o.Eval()
			if crc != 137 {
				o.Law("crash_point_not_reached", map[string]interface{}{"point": spec, "rc": crc, "program": program})
			} else {
				var states []string
				for i, t := range tabs {
					if t.created {
						continue // written in place: not an EXISTING table
					}
					b, err := os.ReadFile(filepath.Join(cd, t.name))
					st := "mixed"
					switch {
					case err != nil:
						st = "missing"
					case bytes.Equal(b, t.render()):
						st = "old"
					case bytes.Equal(b, newC[i]):
						st = "new"
					}
					states = append(states, st)
					if st != "old" && st != "new" {
						o.Law("crash_leaves_old_or_new", map[string]interface{}{"crash_at": spec, "table": t.describe(), "state": st, "program": program, "tables": desc,
							"last_bytes": tail(b, 12), "last_bytes_of_new": tail(newC[i], 12), "dir_after_crash": listDir(cd)})
					}
				}
				o.NonTrivial(fmt.Sprintf("mixed:%s:%s", pt, strings.Join(states, ",")))
			}
			_ = os.RemoveAll(cd)
		}
	}
}

// ---------------------------------------------------------------------------------------------------------------

type offence struct {
	kind   string // what makes the encoder refuse the table
	format string
	enc    string
	noHdr  bool
}

var offences = []offence{
	{"value_longer_than_field", "fixed", "UTF8", false},
	{"value_longer_than_field", "fixed", "SJIS", true},
	{"value_longer_than_field", "fixed1", "UTF8", true},
	{"tab_in_ltsv_value", "ltsv", "UTF8", false},
	{"line_break_in_ltsv_value", "ltsv", "UTF16LE", false},
	{"character_outside_encoding", "csv", "SJIS", false},
	{"character_outside_encoding", "tsv", "SJIS", true},
	{"character_outside_encoding", "ltsv", "SJIS", false},
	{"character_outside_encoding", "fixed", "SJIS", false},
	// the whole table cannot be spelled (a column name): refused at the first record
	{"colon_in_ltsv_label", "ltsv", "UTF8", false},
	{"json_path_through_a_value", "jsonl", "UTF8", false},
	{"json_path_through_a_value", "json", "UTF8", false},
	// not an offence: the text fills its field exactly — the table IS written, byte for byte as the model writes it
	{"value_fills_field_exactly", "fixed", "UTF8", false},
}

// encodeFailures: a COMMIT whose encoder refuses one table (a text longer than its fixed-length field, a character the
// table's encoding cannot spell, a tab inside an LTSV value, an unspellable column name) — in a record early, in the
// middle or late in a table smaller or larger than the writers' buffers (4096 bytes; 65536), beside tables that are
// fine.  The model (Transaction.Commit over the regenerated loop bodies with a failing `encode`:
// encode_error_aborts_before_swap) says NO table is swapped in.  So after the run, and after a kill at every point
// the run reaches from the start of COMMIT, every existing table is byte for byte what it was.
func encodeFailures(o *hc.Out, g *hc.Gen, bin, scratch string, thorough bool) {
	type size struct {
		name  string
		bytes int
	}
	sizes := []size{{"below_4k", 700}, {"just_below_4k", 3900}, {"just_above_4k", 4400}, {"two_buffers", 9100}, {"above_64k", 70000}}
	positions := []string{"early", "middle", "late"}
	type scen struct {
		off offence
		sz  size
		pos string
	}
	var scens []scen
	for _, off := range offences {
		if thorough {
			for _, sz := range sizes {
				for _, pos := range positions {
					scens = append(scens, scen{off, sz, pos})
				}
			}
			continue
		}
		scens = append(scens,
			scen{off, sizes[0], positions[g.Intn(3)]},
			scen{off, sizes[2+g.Intn(2)], "late"},
			scen{off, sizes[1+g.Intn(2)], "middle"},
			scen{off, sizes[g.Intn(4)], "early"})
	}
	if !thorough {
		scens = append(scens, scen{offences[g.Intn(9)], sizes[4], positions[1+g.Intn(2)]})
	}
	for si, s := range scens {
		vw := 30 + g.Intn(25)
		victim := tspec{name: "victim", format: s.off.format, enc: s.off.enc, lb: g.Pick("LF", "CRLF"), delim: g.Pick(",", ";"), noHdr: s.off.noHdr,
			enclose: g.Intn(4) == 0, vwidth: vw}
		victim.name += map[string]string{"csv": ".csv", "tsv": ".tsv", "ltsv": ".ltsv", "fixed": ".txt", "fixed1": ".txt", "jsonl": ".jsonl", "json": ".json"}[victim.format]
		rowLen := (vw + 10) * victim.unit()
		victim.rows = s.sz.bytes/rowLen + 1
		if victim.rows < 3 {
			victim.rows = 3
		}
		K := map[string]int{"early": 1, "middle": victim.rows / 2, "late": victim.rows}[s.pos]
		id, v := victim.cols()
		// the statement that makes the table unwritable, and what the model is told about it
		var offStmt, token string
		offText := ""
		refused := true
		switch s.off.kind {
		case "value_longer_than_field":
			offText = strings.Repeat("L", vw+1+g.Intn(30))
		case "value_fills_field_exactly":
			offText = strings.Repeat("F", vw)
			refused = false
		case "tab_in_ltsv_value":
			offText = "x\ty"
		case "line_break_in_ltsv_value":
			offText = "x\ny"
		case "character_outside_encoding":
			offText = "smile \U0001F600"
		}
		switch s.off.kind {
		case "colon_in_ltsv_label":
			offStmt = fmt.Sprintf("ALTER TABLE %s ADD (`a:b`); ", victim.ref())
			token = "u:fail"
		case "json_path_through_a_value":
			offStmt = fmt.Sprintf("ALTER TABLE %s ADD (`id.x`); ", victim.ref())
			token = "u:fail"
		default:
			lit := strings.NewReplacer("\t", "\\t", "\n", "\\n").Replace(offText)
			offStmt = fmt.Sprintf("UPDATE %s SET %s = '%s' WHERE %s = '%d'; ", victim.ref(), v, lit, id, K)
			w := 0
			if victim.modelFormat() == "fixed" {
				w = vw
			}
			token = fmt.Sprintf("u:%s:%s:%d:%s", victim.modelFormat(), victim.effEnc(), w, hexOrDash(offText))
		}
		goodStmt := fmt.Sprintf("UPDATE %s SET %s = 'g%d' WHERE %s %% 3 = 0; ", victim.ref(), v, si, id)
		// the tables beside it
		tabs := []tspec{victim}
		tokens := []string{token}
		nb := 1 + g.Intn(2)
		for i := 0; i < nb; i++ {
			t := randomSpec(g, fmt.Sprintf("beside%d", i), false)
			tabs = append(tabs, t)
			tokens = append(tokens, "u:ok")
		}
		if g.Intn(2) == 0 {
			t := randomSpec(g, "made", true)
			tabs = append(tabs, t)
			tokens = append(tokens, "c:ok")
		}
		tag := fmt.Sprint(si)
		build := func(withOffence bool) string {
			var pb strings.Builder
			// the victim's statements before, between or after the others'
			at := g.Intn(len(tabs))
			for i, t := range tabs {
				if i == 0 {
					continue
				}
				if i == at {
					pb.WriteString(goodStmt)
					if withOffence {
						pb.WriteString(offStmt)
					}
				}
				pb.WriteString(t.statements(tag))
			}
			if at == 0 {
				pb.WriteString(goodStmt)
				if withOffence {
					pb.WriteString(offStmt)
				}
			}
			pb.WriteString("COMMIT;")
			return pb.String()
		}
		fresh := func(name string) string {
			d := filepath.Join(scratch, fmt.Sprintf("c10-ef-%d-%s", si, name))
			_ = os.RemoveAll(d)
			must(os.MkdirAll(d, 0o755))
			for _, t := range tabs {
				if !t.created {
					must(os.WriteFile(filepath.Join(d, t.name), t.render(), 0o644))
				}
			}
			return d
		}
		var desc []string
		for _, t := range tabs {
			desc = append(desc, t.describe())
		}
		// the transaction without the offending statement: what "new" would be
		refProg := build(false)
		rd := fresh("ref")
		if out, rc := csvq(bin, rd, nil, refProg); rc != 0 {
			o.Law("reference_run_failed", map[string]interface{}{"program": refProg, "tables": desc, "rc": rc, "out": out})
			_ = os.RemoveAll(rd)
			continue
		}
		newC := make([][]byte, len(tabs))
		for i, t := range tabs {
			newC[i], _ = os.ReadFile(filepath.Join(rd, t.name))
		}
		_ = os.RemoveAll(rd)
		program := build(true)
		stateOf := func(d string, i int) (string, []byte) {
			t := tabs[i]
			b, err := os.ReadFile(filepath.Join(d, t.name))
			switch {
			case err != nil && t.created:
				return "absent", nil
			case err != nil:
				return "missing", nil
			case !t.created && bytes.Equal(b, t.render()):
				return "old", b
			case bytes.Equal(b, newC[i]) && (refused || i > 0):
				return "new", b
			case !refused && i == 0:
				return "new", b // the victim's new file holds the text that just fits: compared with the model's bytes below
			}
			return "neither_old_nor_new", b
		}
		// 1. to its end
		d := fresh("run")
		trace := filepath.Join(scratch, fmt.Sprintf("c10-ef-%d-trace", si))
		_ = os.Remove(trace)
		out, rc := csvq(bin, d, []string{"VERIF_TRACE=" + trace}, program)
		tb, _ := os.ReadFile(trace)
		_ = os.Remove(trace)
		var states []string
		var victimBytes []byte
		for i := range tabs {
			st, b := stateOf(d, i)
			states = append(states, st)
			if i == 0 {
				victimBytes = b
			}
		}
		rep := map[string]interface{}{"program": program, "tables": desc, "offence": s.off.kind, "table_size": s.sz.name, "offending_record": s.pos, "rc": rc, "out": out, "states": states, "dir_after": listDir(d)}
		o.Context(fmt.Sprintf("tables: %s; transaction: %s", strings.Join(desc, " | "), program))
		o.Case("c10.txcommit "+strings.Join(tokens, " "), strings.Join(states, " "))
		if refused {
			for i, st := range states {
				if st != "old" && st != "absent" {
					rep["table"] = tabs[i].describe()
					rep["last_bytes"] = tail(victimBytes, 16)
					o.Law("commit_with_refused_table_changed_files", rep)
				}
			}
			if rc == 0 {
				o.Law("unwritable_table_committed", rep)
			}
		} else if rc != 0 {
			o.Law("reference_run_failed", rep)
		}
		for _, nme := range listDir(d) {
			if isControl(nme) {
				rep["leftover"] = nme
				o.Law("control_files_left_after_refused_commit", rep)
			}
		}
		// the model's own writer for the fixed-length victim: the bytes of the new file, or `E` (refused)
		if victim.format == "fixed" && (s.off.kind == "value_longer_than_field" || s.off.kind == "value_fills_field_exactly") && s.sz.bytes < 12000 {
			rows := [][2]string{}
			for i := 1; i <= victim.rows; i++ {
				vv := victim.vtext(i)
				if i%3 == 0 {
					vv = fmt.Sprintf("g%d", si)
				}
				if i == K {
					vv = offText
				}
				rows = append(rows, [2]string{fmt.Sprint(i), vv})
			}
			impl := hex.EncodeToString(victimBytes)
			if rc != 0 && states[0] == "old" {
				impl = "E"
			}
			o.Context(fmt.Sprintf("tables: %s; transaction: %s", strings.Join(desc, " | "), program))
			o.Case(victim.newfixedOp(rows), impl)
		}
		_ = os.RemoveAll(d)
		o.Count("encode_failure:" + s.off.kind + ":" + s.off.format)
		o.Count("encode_failure_size:" + s.sz.name + ":" + s.pos)
		o.NonTrivial(fmt.Sprintf("encfail:%s:%s:%s:%s:%d:%s", s.off.kind, s.off.format, s.sz.name, s.pos, rc, strings.Join(states, ",")))
		// 2. killed at the points the run reaches from the start of COMMIT
		var pts []string
		seen := map[string]int{}
		started := false
		for _, pt := range strings.Fields(string(tb)) {
			seen[pt]++
			if strings.HasPrefix(pt, "tx.commit") {
				started = true
			}
			if started {
				pts = append(pts, fmt.Sprintf("%s#%d", pt, seen[pt]))
			}
		}
		if !thorough && len(pts) > 3 {
			// the first, one in the middle, the last
			pts = []string{pts[0], pts[1+g.Intn(len(pts)-2)], pts[len(pts)-1]}
		}
		for _, spec := range pts {
			cd := fresh("crash")
			_, crc := csvq(bin, cd, []string{"VERIF_CRASH_AT=" + spec}, program)
			o.Eval()
			if crc != 137 {
				// the tables are encoded in the order of a map: this time the COMMIT was given up before the point
				// (the run ended by itself — the files are looked at all the same)
				o.Count("encode_failure_kill_point_not_reached")
			}
			for i, t := range tabs {
				if t.created {
					continue
				}
				st, b := stateOf(cd, i)
				if st != "old" && (refused || st != "new") {
					o.Law("crash_leaves_old_or_new", map[string]interface{}{"crash_at": spec, "rc": crc, "table": t.describe(), "state": st, "program": program, "tables": desc,
						"offence": s.off.kind, "table_size": s.sz.name, "offending_record": s.pos, "bytes": len(b), "bytes_old": len(t.render()), "dir_after_crash": listDir(cd)})
				}
			}
			_ = os.RemoveAll(cd)
		}
	}
}
