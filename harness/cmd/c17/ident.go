// C17 — the identity of result columns (Lean side: Model/ColumnIdent.lean, Props/C17Ident.lean, op `c17.ident`).
//
// View.evalAnalyticFunction asks Header.ContainsObject whether the analytic function it is about to evaluate already
// has a result column; the answer is a comparison of the PRINTED function texts (header.go equalFieldIdentifiers):
// letter case is ignored outside string literals and compared exactly inside.  Every case here puts two to four analytic
// functions into ONE select list whose texts differ only
//   (a) in letter case outside literals                    — the same function: same values;
//   (b) in letter case (or a blank) inside a LATER literal — different functions, each must return ITS OWN values,
//       whatever an EARLIER literal looks like: ending in a backslash, holding escaped / doubled quotes, empty, holding a
//       backquote, written with double quotes; or a quoted identifier in front;
//   (c) in blanks between the tokens                       — the same function: same values.
// Law (implementation alone): analytic_functions_share_result_column — every function of the combined query returns, row
// by row, what it returns in a query of its own; named so when it returns ANOTHER function's values instead.
// Model comparison: op `c17.ident <hex identifier of the field> <hex identifier looked up>` for every ordered pair of the
// functions, answered by Header.ContainsObject on a header holding the first one's identifier.
package main

import (
	"fmt"
	"strings"

	"github.com/mithrandie/csvq/lib/parser"
	"github.com/mithrandie/csvq/lib/query"
	"github.com/mithrandie/csvq/lib/value"

	"verifharness/hc"
)

type part struct {
	text string
	lit  bool // a string literal (source spelling, quotes included): never transformed
}

// earlier literals, in SOURCE spelling
var earlyLits = []string{
	`'\\'`, `'a\\'`, `'x y\\'`, `'\\\\'`, // content ends in a backslash
	`'it\'s'`, `'it''s'`, `'\''`, `''''`, `'\'\\'`, // escaped / doubled quotes
	`''`,                       // empty
	"'`'", "'a`b\\\\'", "'``'", // backquotes
	`"q"`, `"a\\"`, `"say ""x"""`, `'"'`, // double-quoted spelling, a double quote inside
	`'q'`, `'Tab\t'`, `'é\\'`,
}

var lateLits = [][2]string{{"'none'", "'NONE'"}, {"'sep'", "'SEP'"}, {"'x y'", "'X Y'"}, {"'é'", "'É'"}, {"'n\\\\o'", "'N\\\\O'"}}

func swapCase(s string) string {
	var sb strings.Builder
	for _, r := range s {
		switch {
		case 'a' <= r && r <= 'z':
			sb.WriteRune(r - 32)
		case 'A' <= r && r <= 'Z':
			sb.WriteRune(r + 32)
		default:
			sb.WriteRune(r)
		}
	}
	return sb.String()
}

func blanks(s string) string {
	s = strings.ReplaceAll(s, ", ", " ,   ")
	s = strings.ReplaceAll(s, " || ", "  ||\t")
	s = strings.ReplaceAll(s, "OVER (", "OVER  ( ")
	return s
}

func joinParts(ps []part, f func(string) string) string {
	var sb strings.Builder
	for _, p := range ps {
		if p.lit || f == nil {
			sb.WriteString(p.text)
		} else {
			sb.WriteString(f(p.text))
		}
	}
	return sb.String()
}

// the expression of the only select field of `SELECT <call> FROM t`
func fieldExpr(call string) (parser.QueryExpression, bool) {
	stmts, _, err := parser.Parse("SELECT "+call+" FROM t", "", false, false)
	if err != nil || len(stmts) != 1 {
		return nil, false
	}
	sq, ok := stmts[0].(parser.SelectQuery)
	if !ok {
		return nil, false
	}
	se, ok := sq.SelectEntity.(parser.SelectEntity)
	if !ok {
		return nil, false
	}
	sc, ok := se.SelectClause.(parser.SelectClause)
	if !ok || len(sc.Fields) != 1 {
		return nil, false
	}
	f, ok := sc.Fields[0].(parser.Field)
	if !ok {
		return nil, false
	}
	return f.Object, true
}

func identCases(g *hc.Gen, o *hc.Out, pr *hc.Proc, rows [][]value.Primary, cpu int) {
	nrows := len(rows)
	if nrows < 2 {
		return
	}
	early := earlyLits[g.Intn(len(earlyLits))]
	late := lateLits[g.Intn(len(lateLits))]
	over := []string{"OVER (ORDER BY id)", "OVER (PARTITION BY p1 ORDER BY id)", "OVER (ORDER BY id DESC)"}[g.Intn(3)]
	// the parts of the call with a hole for the later literal
	var head, tail []part
	switch g.Intn(6) {
	case 0:
		head = []part{{"LAG(x || ", false}, {early, true}, {", 1, ", false}}
		tail = []part{{") " + over, false}}
	case 1:
		head = []part{{"LEAD(", false}, {early, true}, {" || x, 2, ", false}}
		tail = []part{{") " + over, false}}
	case 2:
		head = []part{{"LAG(CASE WHEN x IS NULL THEN ", false}, {early, true}, {" ELSE x END, 1, ", false}}
		tail = []part{{") " + over, false}}
	case 3:
		head = []part{{"LAG(`x`, 1, ", false}, {early, true}, {" || ", false}}
		tail = []part{{") " + over, false}}
	case 4:
		head = []part{{"FIRST_VALUE(CASE WHEN id < 0 THEN ", false}, {early, true}, {" ELSE ", false}}
		tail = []part{{" END) " + over, false}}
	default:
		head = []part{{"LAG(x, 1, ", false}}
		tail = []part{{" || ", false}, {early, true}, {") " + over, false}}
	}
	mk := func(l string) []part {
		ps := append([]part{}, head...)
		ps = append(ps, part{l, true})
		return append(ps, tail...)
	}
	type fn struct {
		call string
		kind string // base, literal_case, outside_case, blanks, literal_blank
		same int    // index of the function it must share its values with (-1: none)
	}
	fns := []fn{{joinParts(mk(late[0]), nil), "base", -1}, {joinParts(mk(late[1]), nil), "literal_case", -1}}
	extra := []fn{
		{joinParts(mk(late[0]), swapCase), "outside_case", 0},
		{joinParts(mk(late[0]), blanks), "blanks", 0},
		{joinParts(mk(late[0][:len(late[0])-1]+" '"), nil), "literal_blank", -1},
		{joinParts(mk(late[1]), swapCase), "outside_case", 1},
	}
	for _, k := range g.Perm(len(extra))[:g.Intn(3)] {
		fns = append(fns, extra[k])
	}
	o.Count(fmt.Sprintf("ident:functions=%d", len(fns)))
	o.Count("ident:early=" + early)

	// ----- each function in a query of its own -----
	single := make([][]value.Primary, len(fns))
	for k, f := range fns {
		v, err := safeQuery(pr, "SELECT id, "+f.call+" AS r FROM t")
		if err != nil || v.RecordLen() != nrows {
			lawCap(o, "analytic:ident:error", map[string]interface{}{"sql": "SELECT id, " + f.call + " AS r FROM t", "error": fmt.Sprint(err), "table": tableText(rows)})
			return
		}
		single[k] = make([]value.Primary, nrows)
		for i := 0; i < nrows; i++ {
			id := intCell(hc.ViewCell(v, i, 0))
			if id < 0 || id >= nrows {
				return
			}
			single[k][id] = hc.ViewCell(v, i, 1)
		}
	}
	differs := func(a, b int) bool {
		for id := 0; id < nrows; id++ {
			if !sameValue(single[a][id], single[b][id], false) {
				return true
			}
		}
		return false
	}
	if differs(0, 1) {
		o.Count("ident:literal_case_visible_in_values")
	}

	// ----- all of them in ONE select list -----
	perm := g.Perm(len(fns))
	cols := make([]string, len(fns))
	for k, pi := range perm {
		cols[k] = fns[pi].call + fmt.Sprintf(" AS r%d", k+1)
	}
	sql := "SELECT id, " + strings.Join(cols, ", ") + " FROM t"
	replay := func(extra map[string]interface{}) map[string]interface{} {
		m := map[string]interface{}{"sql": sql, "table": tableText(rows), "cpu": cpu}
		for k, v := range extra {
			m[k] = v
		}
		return m
	}
	o.NonTrivial(fmt.Sprintf("ident|%s|n=%d|%s", early, len(fns), head[0].text))
	v, err := safeQuery(pr, sql)
	if err != nil || v.RecordLen() != nrows {
		lawCap(o, "analytic:ident:error", replay(map[string]interface{}{"error": fmt.Sprint(err)}))
		return
	}
	o.Count("law:analytic_functions_share_result_column")
	got := make([][]value.Primary, len(fns)) // per function index
	for k := range got {
		got[k] = make([]value.Primary, nrows)
	}
	for i := 0; i < nrows; i++ {
		id := intCell(hc.ViewCell(v, i, 0))
		if id < 0 || id >= nrows {
			lawCap(o, "analytic:row_count_changed", replay(map[string]interface{}{"unknown_id": id}))
			return
		}
		for k, pi := range perm {
			got[pi][id] = hc.ViewCell(v, i, 1+k)
		}
	}
	for k := range fns {
		bad := -1
		for id := 0; id < nrows; id++ {
			if !sameValue(got[k][id], single[k][id], false) {
				bad = id
				break
			}
		}
		if bad < 0 {
			continue
		}
		// whose values are these?
		other := -1
		for j := range fns {
			if j == k || !differs(j, k) {
				continue
			}
			all := true
			for id := 0; id < nrows; id++ {
				if !sameValue(got[k][id], single[j][id], false) {
					all = false
					break
				}
			}
			if all {
				other = j
				break
			}
		}
		name := "analytic:ident:other"
		m := map[string]interface{}{"function": fns[k].call, "id": bad, "in_combined_query": hc.EncVal(got[k][bad]), "alone": hc.EncVal(single[k][bad]),
			"in_combined_query_text": got[k][bad].String(), "alone_text": single[k][bad].String()}
		if other >= 0 {
			name = "analytic_functions_share_result_column"
			m["returns_the_values_of"] = fns[other].call
		}
		lawCap(o, name, replay(m))
		return
	}
	// (a) / (c): the same function written differently has the same values
	for k, f := range fns {
		if f.same >= 0 && differs(k, f.same) {
			lawCap(o, "analytic:ident:same_function_other_values", replay(map[string]interface{}{"function": f.call, "variant_of": fns[f.same].call, "kind": f.kind}))
			return
		}
	}

	// ----- the model: Header.ContainsObject on the identifiers of every ordered pair -----
	exprs := make([]parser.QueryExpression, len(fns))
	for k, f := range fns {
		e, ok := fieldExpr(f.call)
		if !ok {
			lawCap(o, "analytic:ident:parse_error", replay(map[string]interface{}{"function": f.call}))
			return
		}
		exprs[k] = e
	}
	for a := range fns {
		ia := query.FormatFieldIdentifier(exprs[a])
		h := query.Header{{Identifier: ia}}
		for b := range fns {
			ib := query.FormatFieldIdentifier(exprs[b])
			_, found := h.ContainsObject(exprs[b])
			impl := "0"
			if found {
				impl = "1"
			}
			o.Case("c17.ident "+hc.Hex(ia)+" "+hc.Hex(ib), impl)
			// the answer the stream expects from the construction: the same function up to (a) / (c)
			want := a == b || fns[a].same == b || fns[b].same == a || (fns[a].same >= 0 && fns[a].same == fns[b].same)
			if found != want {
				lawCap(o, "analytic:ident:contains_object", replay(map[string]interface{}{"field": ia, "looked_up": ib, "found": found, "expected": want}))
				return
			}
		}
	}
}
