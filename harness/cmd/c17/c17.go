// C17 — analytic functions equal their per-partition, per-frame definition.
//
// Every case runs `SELECT id, p1, p2, k1, k2, x, <fn> OVER (…) AS r FROM t` through the real processor and
//   (a) hands the same input to the Lean model of the current code (op line / impl line, compared by the
//       orchestrator), and
//   (b) checks the textbook definition directly on the implementation's own output (laws), with the
//       partition / frame of every row derived independently of the analytic code: partition = rows with the
//       same normalised PARTITION BY values (reference normalisation written here), order = the output
//       of a separate real `SELECT id FROM t ORDER BY …` (C07), aggregates = a separate real query over
//       exactly the frame's rows (`WHERE id IN (…)`).
// Law names are stable signatures: analytic:last_value_frame_mirrored, analytic:nth_value_short_frame,
// analytic:count_star_over_rejected, analytic:<fn>:other, …
package main

import (
	"encoding/json"
	"fmt"
	"math"
	"os"
	"regexp"
	"strconv"
	"strings"
	"time"

	"github.com/mithrandie/csvq/lib/query"
	"github.com/mithrandie/csvq/lib/value"

	"verifharness/hc"
)

func main() { hc.Main(run) }

// source: where the analytic query under test takes its rows from — the temporary table `t`, or a derived
// table / CTE over `t` whose rows (read back through a plain SELECT) have also been stored in the temporary
// table `m`; `ref` is the plain table the reference order and the reference aggregates are taken from.
type source struct {
	with, from, ref string
	derived         bool
	baseTable       string // text of `t` for the replay record when the rows are derived
	kind            string
}

var src = source{from: "t", ref: "t"}

func replayTable(rows [][]value.Primary) string {
	if src.derived {
		return src.baseTable
	}
	return tableText(rows)
}

// ---------- reference normalisation (documented ladder; independent of lib/query) ----------

func normRef(p value.Primary) string {
	if value.IsNull(p) {
		return "N"
	}
	if i := value.ToIntegerStrictly(p); !value.IsNull(i) {
		return "I" + strconv.FormatInt(i.(*value.Integer).Raw(), 10)
	}
	if f := value.ToFloat(p); !value.IsNull(f) {
		x := f.(*value.Float).Raw()
		if math.IsNaN(x) {
			return "Fnan"
		}
		return "F" + hc.EncF(x+0)
	}
	if d := value.ToDatetime(p, nil, hc.UTC); !value.IsNull(d) {
		return "D" + strconv.FormatInt(d.(*value.Datetime).Raw().UnixNano(), 10)
	}
	if b := value.ToBoolean(p); !value.IsNull(b) {
		if b.(*value.Boolean).Raw() {
			return "I1"
		}
		return "I0"
	}
	if s, ok := p.(*value.String); ok {
		return "S" + hc.Hex(strings.ToUpper(hc.TrimSpaceRef(s.Raw())))
	}
	return "N"
}

// sortKeyRef: two ORDER BY values are peers iff they are the same number (whatever the notation: 1, 1.0,
// '1', ' 1 ', '1e0'; 0, -0.0), the same instant, or the same text (upper-cased, trimmed), or both NULL —
// the ties of ORDER BY.  (PARTITION BY keys are different: there 1 and 1.0 are different keys, see normRef.)
func sortKeyRef(p value.Primary) string {
	if value.IsNull(p) {
		return "N"
	}
	if i := value.ToIntegerStrictly(p); !value.IsNull(i) {
		n := i.(*value.Integer).Raw()
		if n > 1<<53 || n < -(1<<53) {
			return "#i" + strconv.FormatInt(n, 10) // beyond 2^53 integers are compared exactly, not through float64
		}
		return "#" + hc.EncF(float64(n))
	}
	if f := value.ToFloat(p); !value.IsNull(f) {
		if x := f.(*value.Float).Raw(); !math.IsNaN(x) {
			return "#" + hc.EncF(x+0)
		}
	}
	return normRef(p)
}

// sort cell token: profile~txt (txt = upper(trim(ToString v)) for numbers, as NewSortValue stores it)
func cellTok(p value.Primary) string {
	txt := "-"
	if i := value.ToIntegerStrictly(p); !value.IsNull(i) {
		txt = "x" + hc.Hex(strings.ToUpper(hc.TrimSpaceRef(value.ToString(p).(*value.String).Raw())))
	} else if f := value.ToFloat(p); !value.IsNull(f) {
		txt = "x" + hc.Hex(strings.ToUpper(hc.TrimSpaceRef(value.ToString(p).(*value.String).Raw())))
	}
	return hc.EncProfile(p) + "~" + txt
}

// sortClass: the rung of NewSortValue's ladder a value lands on (documented ladder, written here):
// N null / UNKNOWN, I integer, F float, D datetime, B boolean, S text
func sortClass(p value.Primary) byte {
	switch {
	case value.IsNull(p):
		return 'N'
	case !value.IsNull(value.ToIntegerStrictly(p)):
		return 'I'
	case !value.IsNull(value.ToFloat(p)):
		return 'F'
	case !value.IsNull(value.ToDatetime(p, nil, hc.UTC)):
		return 'D'
	case !value.IsNull(value.ToBoolean(p)):
		return 'B'
	}
	if _, ok := p.(*value.String); ok {
		return 'S'
	}
	return 'N'
}

// colOrder: what the ORDER BY comparison is on the values a column holds.
//   total      SortValue.Less on the column's non-NULL values is a strict weak order ("neither before the other" is
//              transitive): numbers and text only, datetimes only, or booleans only (then nothing is ordered).  A
//              boolean next to anything, a datetime next to a number or a text are incomparable while either may be
//              ordered with a third value: the sorted order then depends on the sort algorithm and on the order of
//              the input, and a second sort of the sorted rows may give another order.
//   tiesEquiv  total, and the rows the comparison leaves tied are exactly the rows that are EquivalentTo one another
//              (not so for booleans: TRUE and FALSE tie but are not equivalent).
type colOrder struct{ total, tiesEquiv bool }

func colOrderOf(rows [][]value.Primary, col int) colOrder {
	var n [256]int
	for _, r := range rows {
		n[sortClass(r[col])]++
	}
	num, dt, b := n['I']+n['F']+n['S'], n['D'], n['B']
	switch {
	case dt == 0 && b == 0, num == 0 && b == 0:
		return colOrder{true, true}
	case num == 0 && dt == 0:
		return colOrder{true, false}
	}
	return colOrder{false, false}
}

// the comparison on k1, k2 of the rows the analytic queries read (the table `t`, or the rows of the derived table)
var curOrd [2]colOrder

func setCurOrd(rows [][]value.Primary) {
	curOrd = [2]colOrder{colOrderOf(rows, cK1), colOrderOf(rows, cK2)}
}

func (c caseSpec) allTotal() bool {
	for _, it := range c.items {
		if it.col >= 0 && !curOrd[it.col-cK1].total {
			return false
		}
	}
	return true
}

func (c caseSpec) allTiesEquiv() bool {
	for _, it := range c.items {
		if it.col >= 0 && !curOrd[it.col-cK1].tiesEquiv {
			return false
		}
	}
	return true
}

// ---------- table generation ----------

const (
	cP1 = iota
	cP2
	cK1
	cK2
	cX
	nCols
)

var colNames = []string{"p1", "p2", "k1", "k2", "x"}

const (
	kInt = iota
	kFloat
	kText
	kDate
	kMixedNum // equal numbers in integer / float / string notation
	kBigInt   // 64-bit integers above 2^53, closer together than the float64 spacing
	kNumText  // typed numbers next to non-numeric strings (compared by the number's text), a consistent total order
	// value classes the sort comparator cannot separate although the values are NOT EquivalentTo one another
	// (SortValue.Less is UNKNOWN, no NULL involved): what RANK & co. call peers is then decided by EquivalentTo alone
	kBool    // booleans, ternaries, boolean-looking strings: no two of them are ordered, TRUE and FALSE are no peers
	kDateMix // datetimes and datetime-looking strings next to numbers, numeric strings and plain strings
	kAnyMix  // every class in one column: integers, floats, numeric strings, datetimes, booleans, ternaries, text, NULL
	kBoolNum // booleans next to the integers 0 / 1 and other numbers (TRUE is EquivalentTo 1 — and 1 to 1.0 — but not ordered with them)
	nSortKinds
)

// the kinds of k1, k2 of the table in use
var curSortKinds [2]int

var mixedNum = [][]value.Primary{
	{value.NewInteger(1), value.NewFloat(1.0), value.NewString("1"), value.NewString(" 1 "), value.NewString("1e0"), value.NewString("1.0")},
	{value.NewInteger(0), value.NewFloat(0), value.NewString("-0.0"), value.NewString("0"), value.NewString("0.0"), value.NewString(" -0 ")},
	{value.NewInteger(2), value.NewFloat(2.0), value.NewString("2"), value.NewString("2.00")},
	{value.NewFloat(2.5), value.NewString("2.5"), value.NewString(" 25e-1 ")},
	{value.NewInteger(-1), value.NewFloat(-1.0), value.NewString("-1"), value.NewString("-1.0")},
}

func partVal(g *hc.Gen, kind int) value.Primary {
	if g.Intn(6) == 0 {
		return value.NewNull()
	}
	switch kind {
	case 0:
		return value.NewInteger(int64(g.Intn(3)))
	case 1:
		return value.NewString(g.Pick("a", "A", " a ", "b", "x:y", "x", "[S]x", "B"))
	case 2: // equal across types
		switch g.Intn(5) {
		case 0:
			return value.NewInteger(1)
		case 1:
			return value.NewString(g.Pick("1", " 1 ", "true", "0", "2", "1e0", "1.0", "-0.0", "0.0"))
		case 2:
			return value.NewFloat([]float64{1.5, 2.5, 1.0, 0}[g.Intn(4)])
		case 3:
			return value.NewString(g.Pick("1.5", "2012-02-03", "2012-02-03 00:00:00"))
		}
		return value.NewInteger(int64(g.Intn(3)))
	case 4: // the bucket rule of C04: equal values in different spellings and types share a partition
		fam := spellings[g.Intn(len(spellings))]
		return fam[g.Intn(len(fam))]
	}
	return value.NewInteger(int64(g.Intn(40))) // many small partitions
}

// families of values that are the same PARTITION BY key (C04: integer, else float, else datetime, else
// boolean, else upper-cased trimmed text); different families are different keys — also 1 vs 1.0
var spellings = [][]value.Primary{
	{value.NewInteger(1), value.NewString("1"), value.NewString("01"), value.NewString("+1"), value.NewString(" 1 "), value.NewString("001"), value.NewBoolean(true), value.NewString("true"), value.NewString(" TRUE "), value.NewTernaryFromString("TRUE")},
	{value.NewInteger(2), value.NewString("2"), value.NewString("02"), value.NewString("+2"), value.NewString("002")},
	{value.NewInteger(0), value.NewString("0"), value.NewString("00"), value.NewString("-0"), value.NewString("+0"), value.NewString("false"), value.NewBoolean(false), value.NewTernaryFromString("FALSE")},
	{value.NewNull(), value.NewTernaryFromString("UNKNOWN")},
	{value.NewInteger(-3), value.NewString("-3"), value.NewString("-03"), value.NewString(" -3")},
	{value.NewFloat(1.0), value.NewString("1.0"), value.NewString("1e0"), value.NewString("1.00"), value.NewString(" 01.0 ")},
	{value.NewFloat(0), value.NewString("0.0"), value.NewString("-0.0"), value.NewString("0e0")},
	{value.NewFloat(2.5), value.NewString("2.5"), value.NewString("2.50"), value.NewString("25e-1"), value.NewString("+2.5")},
	{value.NewString("abc"), value.NewString(" ABC "), value.NewString("Abc"), value.NewString("aBC\t")},
	{value.NewString("x:y"), value.NewString("X:Y"), value.NewString(" x:y")},
	{value.NewDatetime(time.Date(2012, 2, 3, 0, 0, 0, 0, time.UTC)), value.NewString("2012-02-03"), value.NewString("2012-02-03 00:00:00"), value.NewString("2012/02/03"), value.NewString("2012-02-03T00:00:00Z")},
	{value.NewDatetime(time.Date(2012, 2, 3, 9, 18, 15, 0, time.UTC)), value.NewString("2012-02-03 09:18:15"), value.NewString("2012/2/3 9:18:15"), value.NewString("2012-02-03T09:18:15Z")},
}

func boolVal(g *hc.Gen) value.Primary {
	switch g.Intn(4) {
	case 0:
		return value.NewBoolean(g.Intn(2) == 0)
	case 1:
		return value.NewTernaryFromString(g.Pick("TRUE", "FALSE", "TRUE", "FALSE", "UNKNOWN"))
	case 2:
		return value.NewString(g.Pick("true", "false", " TRUE ", "False", "t", "f"))
	}
	return value.NewBoolean(g.Intn(3) == 0)
}

func dateVal(g *hc.Gen) value.Primary {
	t := time.Date(2012, 2, 3+g.Intn(2), 9*g.Intn(2), 0, 0, 0, time.UTC)
	switch g.Intn(3) {
	case 0:
		return value.NewDatetime(t)
	case 1:
		return value.NewString(t.Format("2006-01-02 15:04:05"))
	}
	return value.NewString(t.Format("2006/01/02 15:04:05"))
}

func sortVal(g *hc.Gen, kind int) value.Primary {
	if g.Intn(7) == 0 {
		return value.NewNull()
	}
	switch kind {
	case kBool:
		return boolVal(g)
	case kDateMix:
		switch g.Intn(5) {
		case 0:
			return value.NewInteger(int64(g.Intn(3)))
		case 1:
			return value.NewString(g.Pick("1", "2.5", " 2 ", "a", "B", "2012"))
		case 2:
			return value.NewFloat([]float64{1, 2.5}[g.Intn(2)])
		}
		return dateVal(g)
	case kAnyMix:
		switch g.Intn(6) {
		case 0:
			return boolVal(g)
		case 1:
			return dateVal(g)
		case 2:
			grp := mixedNum[g.Intn(len(mixedNum))]
			return grp[g.Intn(len(grp))]
		case 3:
			return value.NewString(g.Pick("a", "A", " a ", "b", "", "x:y"))
		case 4:
			return value.NewInteger(int64(g.Intn(3)))
		}
		return boolVal(g)
	case kBoolNum:
		switch g.Intn(4) {
		case 0:
			return value.NewInteger(int64(g.Intn(3)))
		case 1:
			return []value.Primary{value.NewFloat(1.0), value.NewFloat(0), value.NewString("1"), value.NewString("1.0"), value.NewString("0"), value.NewFloat(2.5)}[g.Intn(6)]
		}
		return boolVal(g)
	case kBigInt:
		base := []int64{9007199254740992, -9007199254740992, 4611686018427387904, 9223372036854775800, 9007199254740990}[g.Intn(5)]
		v := base + int64(g.Intn(5))
		if base < 0 {
			v = base - int64(g.Intn(5))
		}
		if g.Intn(4) == 0 {
			return value.NewString(strconv.FormatInt(v, 10))
		}
		return value.NewInteger(v)
	case kNumText:
		switch g.Intn(3) {
		case 0:
			return value.NewInteger(int64(1 + g.Intn(9)))
		case 1:
			return value.NewFloat([]float64{2.5, 7.5}[g.Intn(2)])
		}
		return value.NewString(g.Pick("-", "#N/A", "1a", "a", "zz", "B", " 1A "))
	case kMixedNum:
		grp := mixedNum[g.Intn(len(mixedNum))]
		return grp[g.Intn(len(grp))]
	case kInt:
		if g.Intn(5) == 0 {
			return value.NewString(g.Pick("1", " 2 ", "-1", "0", "3"))
		}
		return value.NewInteger(int64(g.Intn(7) - 3))
	case kFloat:
		if g.Intn(5) == 0 {
			return value.NewString(g.Pick("0.5", " 1.5 ", "-0.5", "2.5"))
		}
		return value.NewFloat(float64(g.Intn(9)-4)/2 + 0.25*float64(g.Intn(2)))
	case kDate:
		t := time.Date(2012, 2, 3+g.Intn(3), 9, g.Intn(2), 0, 0, time.UTC)
		if g.Intn(2) == 0 {
			return value.NewDatetime(t)
		}
		return value.NewString(t.Format("2006-01-02 15:04:05"))
	}
	return value.NewString(g.Pick("a", "A", "b", " b", "ab", "abc", "B", "", "zz", "x:y"))
}

const (
	aInts = iota
	aLetters
	aMixed
)

func argVal(g *hc.Gen, kind int) value.Primary {
	if g.Intn(3) == 0 {
		return value.NewNull()
	}
	switch kind {
	case aInts:
		return value.NewInteger(int64(g.Intn(41) - 10))
	case aLetters:
		return value.NewString(g.Pick("a", "b", "c", "dd", "e", "f", "gh"))
	}
	return g.LitVal()
}

// ---------- the analytic clause ----------

type bound struct {
	kind string // up p c f uf
	n    int
}

func (b bound) tok() string {
	if b.kind == "p" || b.kind == "f" {
		return b.kind + strconv.Itoa(b.n)
	}
	return b.kind
}

func (b bound) sql() string {
	switch b.kind {
	case "up":
		return "UNBOUNDED PRECEDING"
	case "uf":
		return "UNBOUNDED FOLLOWING"
	case "c":
		return "CURRENT ROW"
	case "p":
		return strconv.Itoa(b.n) + " PRECEDING"
	}
	return strconv.Itoa(b.n) + " FOLLOWING"
}

// position of the bound for the row at position k of a partition of length n (textbook)
func (b bound) at(k, n int) int {
	switch b.kind {
	case "up":
		return 0
	case "uf":
		return n - 1
	case "c":
		return k
	case "p":
		return k - b.n
	}
	return k + b.n
}

type window struct {
	form   string // none order r b
	lo, hi bound
}

func (w window) tok() string {
	switch w.form {
	case "r":
		return "r:" + w.lo.tok()
	case "b":
		return "b:" + w.lo.tok() + ":" + w.hi.tok()
	}
	return w.form
}

func (w window) sql() string {
	switch w.form {
	case "r":
		return " ROWS " + w.lo.sql()
	case "b":
		return " ROWS BETWEEN " + w.lo.sql() + " AND " + w.hi.sql()
	}
	return ""
}

// the frame [lo, hi] of the row at position k (textbook; before intersecting with [0, n))
func (w window) frame(k, n int) (int, int) {
	switch w.form {
	case "none":
		return 0, n - 1
	case "order":
		return 0, k
	case "r":
		return w.lo.at(k, n), k
	}
	return w.lo.at(k, n), w.hi.at(k, n)
}

func flipB(b bound) bound {
	switch b.kind {
	case "up":
		return bound{kind: "uf"}
	case "uf":
		return bound{kind: "up"}
	case "p":
		return bound{kind: "f", n: b.n}
	case "f":
		return bound{kind: "p", n: b.n}
	}
	return b
}

// the frame LAST_VALUE reads today (reversed partition, unreversed clause)
func (w window) mirrored() window {
	switch w.form {
	case "order":
		return window{form: "b", lo: bound{kind: "c"}, hi: bound{kind: "uf"}}
	case "r":
		return window{form: "b", lo: bound{kind: "c"}, hi: flipB(w.lo)}
	case "b":
		return window{form: "b", lo: flipB(w.hi), hi: flipB(w.lo)}
	}
	return w
}

func (w window) class() string {
	switch w.form {
	case "r":
		return "rows-" + w.lo.kind
	case "b":
		return "between-" + w.lo.kind + "-" + w.hi.kind
	}
	return w.form
}

func genOffset(g *hc.Gen, n int) int {
	return []int{0, 1, 1, 2, 3, 5, n, n + 2, 1000}[g.Intn(9)]
}

func genWindow(g *hc.Gen, n int, hasOrder, allowFrame bool) window {
	if !hasOrder {
		return window{form: "none"}
	}
	if !allowFrame || g.Intn(5) == 0 {
		return window{form: "order"}
	}
	if g.Intn(4) == 0 {
		switch g.Intn(3) {
		case 0:
			return window{form: "r", lo: bound{kind: "up"}}
		case 1:
			return window{form: "r", lo: bound{kind: "c"}}
		}
		return window{form: "r", lo: bound{kind: "p", n: genOffset(g, n)}}
	}
	var lo, hi bound
	switch g.Intn(4) {
	case 0:
		lo = bound{kind: "up"}
	case 1:
		lo = bound{kind: "c"}
	case 2:
		lo = bound{kind: "p", n: genOffset(g, n)}
	default:
		lo = bound{kind: "f", n: genOffset(g, n)}
	}
	switch g.Intn(4) {
	case 0:
		hi = bound{kind: "uf"}
	case 1:
		hi = bound{kind: "c"}
	case 2:
		hi = bound{kind: "p", n: genOffset(g, n)}
	default:
		hi = bound{kind: "f", n: genOffset(g, n)}
	}
	if g.Intn(6) == 0 && (lo.kind == "p" || lo.kind == "f") { // symmetric frames
		lo = bound{kind: "p", n: lo.n}
		hi = bound{kind: "f", n: lo.n}
	}
	return window{form: "b", lo: lo, hi: hi}
}

type orderItem struct {
	col  int // cK1, cK2 or -1 for id
	desc bool
	np   string // "", "f", "l"
}

func (it orderItem) colOrID() int {
	if it.col < 0 {
		return cK1
	}
	return it.col
}

func (it orderItem) sql() string {
	s := "id"
	if it.col >= 0 {
		s = colNames[it.col]
	}
	if it.desc {
		s += " DESC"
	} else if it.np != "" || it.col%2 == 0 {
		s += " ASC"
	}
	switch it.np {
	case "f":
		s += " NULLS FIRST"
	case "l":
		s += " NULLS LAST"
	}
	return s
}

// ---------- functions ----------

var modelFns = []string{"row_number", "rank", "dense_rank", "cume_dist", "percent_rank", "ntile",
	"first_value", "last_value", "nth_value", "lag", "lead", "cells", "count", "count_star", "listagg", "listaggd", "jsonagg", "jsonaggd"}
var sqlAggs = []string{"COUNT", "SUM", "AVG", "MIN", "MAX", "MEDIAN", "STDEV", "STDEVP", "VAR", "VARP"}

var tieSafe = map[string]bool{"rank": true, "dense_rank": true, "cume_dist": true, "percent_rank": true}

var intRe = regexp.MustCompile(`^-?[0-9]+$`)
var colRe = regexp.MustCompile(`\b(id|p1|p2|k1|k2|x)\b`)

// qualify the column references of a call: inside a select list whose aliases reuse the column names an
// unqualified reference would be ambiguous
func qualified(sql, alias string) string { return colRe.ReplaceAllString(sql, alias+".$1") }

func litInt(i int) string {
	if i < 0 {
		return fmt.Sprintf("(-%d)", -i)
	}
	return strconv.Itoa(i)
}

func idList(ids []int) string {
	if len(ids) == 0 {
		return "id < 0"
	}
	s := make([]string, len(ids))
	for i, x := range ids {
		s[i] = strconv.Itoa(x)
	}
	return "id IN (" + strings.Join(s, ", ") + ")"
}

func isNull(p value.Primary) bool { return value.IsNull(p) }

// cells revealed by the user-defined aggregate / LISTAGG: `|a|b|N` → [Sxx;Sxx;N]
func cellsTok(s string, sep string) string {
	if s == "" {
		return "[]"
	}
	parts := strings.Split(strings.TrimPrefix(s, sep), sep)
	out := make([]string, len(parts))
	for i, p := range parts {
		switch {
		case p == "N":
			out[i] = "N"
		case intRe.MatchString(p):
			out[i] = "I" + p
		default:
			out[i] = "S" + hc.Hex(p)
		}
	}
	return "[" + strings.Join(out, ";") + "]"
}

func closeFloat(a, b float64) bool {
	if a == b {
		return true
	}
	d := math.Abs(a - b)
	return d <= 1e-9*math.Max(math.Abs(a), math.Abs(b)) || d < 1e-12
}

func sameValue(a, b value.Primary, approx bool) bool {
	if hc.EncVal(a) == hc.EncVal(b) {
		return true
	}
	if approx {
		fa, ok1 := a.(*value.Float)
		fb, ok2 := b.(*value.Float)
		if ok1 && ok2 {
			return closeFloat(fa.Raw(), fb.Raw())
		}
	}
	return false
}

const udfDecl = `
DECLARE cellsagg AGGREGATE (cur) AS BEGIN
  VAR @v;
  VAR @s := '';
  WHILE @v IN cur DO
    @s := @s || '|' || CASE WHEN @v IS NULL THEN 'N' ELSE STRING(@v) END;
  END WHILE;
  RETURN @s;
END;
DECLARE cellsagg2 AGGREGATE (cur, @tag) AS BEGIN
  VAR @v;
  VAR @s := STRING(@tag) || '#';
  WHILE @v IN cur DO
    @s := @s || '|' || CASE WHEN @v IS NULL THEN 'N' ELSE STRING(@v) END;
  END WHILE;
  RETURN @s;
END;
`

type caseSpec struct {
	witness  string // fixed corpus case with its own expectation
	fn       string // model fn name or "agg:<NAME>"
	a1       *int
	a2       value.Primary // LAG/LEAD default (nil = absent)
	ign      bool
	distinct bool
	udf2     bool
	pcols    []int
	items    []orderItem
	w        window
}

func (c caseSpec) hasOrder() bool { return len(c.items) > 0 }
func (c caseSpec) uniqueOrder() bool {
	return len(c.items) > 0 && c.items[len(c.items)-1].col < 0
}

func (c caseSpec) overSQL() string {
	var sb strings.Builder
	if len(c.pcols) > 0 {
		s := make([]string, len(c.pcols))
		for i, pc := range c.pcols {
			s[i] = colNames[pc]
		}
		sb.WriteString("PARTITION BY " + strings.Join(s, ", "))
	}
	if len(c.items) > 0 {
		if sb.Len() > 0 {
			sb.WriteString(" ")
		}
		s := make([]string, len(c.items))
		for i, it := range c.items {
			s[i] = it.sql()
		}
		sb.WriteString("ORDER BY " + strings.Join(s, ", "))
		sb.WriteString(c.w.sql())
	}
	return "OVER (" + sb.String() + ")"
}

func (c caseSpec) callSQL() string {
	ign := ""
	if c.ign {
		ign = " IGNORE NULLS"
	}
	switch c.fn {
	case "row_number", "rank", "dense_rank", "cume_dist", "percent_rank":
		return strings.ToUpper(c.fn) + "() " + c.overSQL()
	case "ntile":
		return "NTILE(" + litInt(*c.a1) + ") " + c.overSQL()
	case "first_value", "last_value":
		return strings.ToUpper(c.fn) + "(x)" + ign + " " + c.overSQL()
	case "nth_value":
		return "NTH_VALUE(x, " + litInt(*c.a1) + ")" + ign + " " + c.overSQL()
	case "lag", "lead":
		args := "x"
		if c.a1 != nil {
			args += ", " + litInt(*c.a1)
			if c.a2 != nil {
				l, _ := hc.SqlLit(c.a2)
				args += ", " + l
			}
		}
		return strings.ToUpper(c.fn) + "(" + args + ")" + ign + " " + c.overSQL()
	case "cells":
		if c.udf2 {
			return "cellsagg2(x, id) " + c.overSQL()
		}
		return "cellsagg(x) " + c.overSQL()
	case "count":
		return "COUNT(x) " + c.overSQL()
	case "count_star":
		return "COUNT(*) " + c.overSQL()
	case "listagg":
		return "LISTAGG(x, '|') " + c.overSQL()
	case "listaggd":
		return "LISTAGG(DISTINCT x, '|') " + c.overSQL()
	case "jsonagg":
		return "JSON_AGG(x) " + c.overSQL()
	case "jsonaggd":
		return "JSON_AGG(DISTINCT x) " + c.overSQL()
	}
	d := ""
	if c.distinct {
		d = "DISTINCT "
	}
	return strings.TrimPrefix(c.fn, "agg:") + "(" + d + "x) " + c.overSQL()
}

func (c caseSpec) lawName(kind string) string {
	return "analytic:" + strings.ToLower(strings.TrimPrefix(c.fn, "agg:")) + ":" + kind
}

func run(seed int64, n int, dir string, _ []string) {
	g := hc.NewGen(seed)
	o := hc.NewOut(dir)
	defer o.Close()
	pr := hc.NewProc("")
	defer pr.Close()
	if _, err := pr.Exec(udfDecl); err != nil {
		lawCap(o, "analytic:udf_declare_error", err.Error())
		return
	}

	perTable := 14
	tables := n / perTable
	if tables < 6 {
		tables = 6
	}
	witnessDone := false
	for t := 0; t < tables; t++ {
		nrows := []int{0, 1, 2, 3, 4, 5, 7, 9, 12, 16, 25, 40, 70, 120, 250, 400}[g.Intn(16)]
		pkinds := [2]int{g.Intn(5), g.Intn(5)}
		skinds := [2]int{g.Intn(nSortKinds), g.Intn(nSortKinds)}
		curSortKinds = skinds
		akind := []int{aInts, aInts, aLetters, aMixed}[g.Intn(4)]
		rows := make([][]value.Primary, nrows)
		for i := range rows {
			rows[i] = []value.Primary{partVal(g, pkinds[0]), partVal(g, pkinds[1]), sortVal(g, skinds[0]), sortVal(g, skinds[1]), argVal(g, akind)}
		}
		if t == 0 {
			// corpus: the witness table of the pre-findings F8 / F14 always runs first
			nrows, akind = 4, aLetters
			rows = [][]value.Primary{}
			for i, s := range []string{"a", "b", "c", "d"} {
				rows = append(rows, []value.Primary{value.NewInteger(0), value.NewNull(), value.NewInteger(int64(i + 1)), value.NewNull(), value.NewString(s)})
			}
		}
		if t == 1 {
			// corpus: ORDER BY ties between an integer and the equal float (1 = 1.0 is TRUE, ORDER BY leaves
			// them in input order) — RANK must not separate them
			// in both directions (float first, then integer, then float again, then integer)
			nrows, akind = 5, aLetters
			rows = [][]value.Primary{
				{value.NewInteger(0), value.NewNull(), value.NewFloat(1.0), value.NewNull(), value.NewString("a")},
				{value.NewInteger(0), value.NewNull(), value.NewInteger(1), value.NewNull(), value.NewString("b")},
				{value.NewInteger(0), value.NewNull(), value.NewString("1e0"), value.NewNull(), value.NewString("c")},
				{value.NewInteger(0), value.NewNull(), value.NewInteger(1), value.NewNull(), value.NewString("d")},
				{value.NewInteger(0), value.NewNull(), value.NewInteger(2), value.NewNull(), value.NewString("e")},
			}
		}
		if t == 2 {
			// corpus: ORDER BY keys whose values the comparison cannot separate although they are not equivalent
			// (k1: TRUE / FALSE; k2: a datetime next to a number, a text, a boolean) — the peers of RANK, DENSE_RANK,
			// CUME_DIST, PERCENT_RANK are the EquivalentTo rows, not the rows the comparison leaves tied
			nrows, akind = 8, aLetters
			d := value.NewDatetime(time.Date(2012, 2, 3, 0, 0, 0, 0, time.UTC))
			rows = [][]value.Primary{
				{value.NewInteger(0), value.NewNull(), value.NewBoolean(true), d, value.NewString("a")},
				{value.NewInteger(0), value.NewNull(), value.NewString("true"), value.NewInteger(1), value.NewString("b")},
				{value.NewInteger(0), value.NewNull(), value.NewBoolean(false), value.NewString("2012-02-03"), value.NewString("c")},
				{value.NewInteger(0), value.NewNull(), value.NewBoolean(false), value.NewString("a"), value.NewString("d")},
				{value.NewInteger(1), value.NewNull(), value.NewTernaryFromString("TRUE"), d, value.NewString("e")},
				{value.NewInteger(1), value.NewNull(), value.NewBoolean(false), value.NewBoolean(true), value.NewString("f")},
				{value.NewInteger(1), value.NewNull(), value.NewString("false"), d, value.NewNull()},
				{value.NewInteger(1), value.NewNull(), value.NewBoolean(false), value.NewFloat(1.0), value.NewString("h")},
			}
			curSortKinds = [2]int{kBool, kAnyMix}
		}
		if t < 2 {
			curSortKinds = [2]int{kMixedNum, kInt} // the witness tables
		}
		if err := pr.DeclareTable("t", colNames, rows); err != nil {
			lawCap(o, "analytic:declare_table_error", err.Error())
			continue
		}
		setCurOrd(rows)
		for j := 0; j < 2; j++ {
			o.Count(fmt.Sprintf("sortcol:total=%v ties_are_peers=%v", curOrd[j].total, curOrd[j].tiesEquiv))
		}
		cpu := []int{1, 2, 3, 4, 8}[g.Intn(5)]
		pr.SetCPU(cpu)
		o.Count(fmt.Sprintf("table:rows<=%d", sizeBand(nrows)))
		o.Count(fmt.Sprintf("cpu:%d", cpu))

		for ci := 0; ci < perTable; ci++ {
			var c caseSpec
			if t == 0 && !witnessDone {
				one := 1
				switch ci {
				case 0:
					c = caseSpec{fn: "last_value", items: []orderItem{{col: cK1}}, w: window{form: "b", lo: bound{kind: "p", n: 1}, hi: bound{kind: "c"}}}
				case 1:
					c = caseSpec{fn: "count_star", w: window{form: "none"}}
				case 2:
					three := 3
					c = caseSpec{fn: "nth_value", a1: &three, items: []orderItem{{col: cK1}}, w: window{form: "b", lo: bound{kind: "p", n: 1}, hi: bound{kind: "c"}}}
				case 3:
					c = caseSpec{fn: "lead", a1: &one, items: []orderItem{{col: cK1}}, w: window{form: "order"}}
					witnessDone = true
				}
				// the witness ORDER BY is unique (k1 = 1..4), treat as such
				c.items = append(c.items, orderItem{col: -1})
				if c.fn == "count_star" {
					c.items = nil
				}
			} else if t == 1 && ci == 0 {
				c = caseSpec{witness: "rank_int_float_ties", fn: "rank", items: []orderItem{{col: cK1}}, w: window{form: "order"}}
			} else if t == 1 {
				break // the mixed integer / float sort column is outside the generator's domain
			} else if t == 2 && ci < 8 {
				fn := []string{"cume_dist", "percent_rank", "rank", "dense_rank"}[ci%4]
				c = caseSpec{fn: fn, items: []orderItem{{col: cK1 + ci/4}}, w: window{form: "order"}}
				if ci%2 == 1 {
					c.pcols = []int{cP1}
				}
			} else {
				c = genCase(g, nrows, akind)
			}
			runCase(g, o, pr, rows, c, akind, cpu)
		}
		if t >= 2 {
			for d := 0; d < 3; d++ {
				derivedCases(g, o, pr, rows, akind, cpu)
			}
			literalCaseCheck(g, o, pr, rows, cpu)
			literalCaseCheck(g, o, pr, rows, cpu)
			identCases(g, o, pr, rows, cpu)
			if akind != aMixed {
				groupedListAgg(g, o, pr, rows, cpu)
				groupedListAgg(g, o, pr, rows, cpu)
			}
		}
		// the session flags: the same functions under --strict-equal / without it over pools of loosely equal twins
		flagCases(g, o, pr, cpu, 5)
		// analytic functions inside correlated sub-queries: the argument / clause refers to the outer query's row
		for k := 0; k < 3; k++ {
			corrCases(g, o, pr, cpu)
		}
		pr.DisposeTable("t")
	}
}

func sizeBand(n int) int {
	for _, b := range []int{0, 1, 3, 9, 40, 120, 400} {
		if n <= b {
			return b
		}
	}
	return 1000
}

func genCase(g *hc.Gen, nrows, akind int) caseSpec {
	var c caseSpec
	// function
	r := g.Intn(20)
	switch {
	case r < len(modelFns):
		c.fn = modelFns[r]
	default:
		c.fn = "agg:" + sqlAggs[g.Intn(len(sqlAggs))]
	}
	if (c.fn == "cells" || c.fn == "listagg" || c.fn == "listaggd" || c.fn == "jsonagg" || c.fn == "jsonaggd") && akind == aMixed {
		c.fn = "count"
	}
	if strings.HasPrefix(c.fn, "agg:") && akind != aInts {
		// the arithmetic aggregates are compared on exactly summable cells only
		if c.fn != "agg:COUNT" && c.fn != "agg:MIN" && c.fn != "agg:MAX" {
			c.fn = "agg:COUNT"
		}
		if akind == aMixed {
			c.fn = "agg:COUNT"
		}
	}
	// PARTITION BY
	switch g.Intn(4) {
	case 0:
	case 1:
		c.pcols = []int{cP1}
	case 2:
		c.pcols = []int{cP2}
	default:
		c.pcols = []int{cP1, cP2}
		if g.Intn(2) == 0 {
			c.pcols = []int{cP2, cP1}
		}
	}
	// ORDER BY
	nitems := g.Intn(3)
	perm := g.Perm(2)
	for k := 0; k < nitems; k++ {
		c.items = append(c.items, orderItem{col: cK1 + perm[k], desc: g.Intn(2) == 0, np: g.Pick("", "", "f", "l")})
	}
	frameFn := c.fn == "first_value" || c.fn == "last_value" || c.fn == "nth_value" || c.fn == "cells" || c.fn == "count" || c.fn == "count_star" || strings.HasPrefix(c.fn, "agg:")
	unique := g.Intn(5) != 0
	if nitems == 0 {
		unique = g.Intn(3) == 0
	}
	if unique {
		c.items = append(c.items, orderItem{col: -1, desc: g.Intn(4) == 0})
	}
	c.w = genWindow(g, nrows, len(c.items) > 0, frameFn)
	if len(c.items) > 0 && !c.uniqueOrder() {
		// ties in unspecified order: only functions whose value does not depend on the order among ties
		switch {
		case tieSafe[c.fn]:
		case c.fn == "count" || c.fn == "count_star" || c.fn == "agg:COUNT" || c.fn == "agg:SUM" || c.fn == "agg:MIN" || c.fn == "agg:MAX" || c.fn == "agg:AVG" || c.fn == "agg:MEDIAN":
			c.w = window{form: "b", lo: bound{kind: "up"}, hi: bound{kind: "uf"}}
		default:
			c.fn = []string{"rank", "dense_rank", "cume_dist", "percent_rank"}[g.Intn(4)]
			c.w = window{form: "order"}
		}
	}
	switch c.fn {
	case "ntile":
		v := []int{1, 1, 2, 3, 4, 5, 7, nrows, nrows + 1, 2*nrows + 1, 1000, 0, -1}[g.Intn(13)]
		c.a1 = &v
	case "nth_value":
		v := []int{1, 2, 2, 3, 4, 7, nrows, nrows + 1, 0}[g.Intn(9)]
		c.a1 = &v
		c.ign = g.Intn(3) == 0
	case "first_value", "last_value":
		c.ign = g.Intn(2) == 0
	case "lag", "lead":
		c.ign = g.Intn(2) == 0
		if g.Intn(4) != 0 {
			v := []int{0, 1, 1, 2, 3, 7, nrows, nrows + 1, -1}[g.Intn(9)]
			c.a1 = &v
			switch g.Intn(4) {
			case 0:
				c.a2 = value.NewString("dflt")
			case 1:
				c.a2 = value.NewInteger(0)
			case 2:
				c.a2 = value.NewNull()
			}
		}
	case "cells":
		c.udf2 = g.Intn(3) == 0
	}
	if strings.HasPrefix(c.fn, "agg:") {
		c.distinct = g.Intn(6) == 0 && akind != aMixed // DISTINCT over NULL and UNKNOWN depends on row order (C04's domain)
	}
	return c
}

type outRow struct {
	cells []value.Primary // p1 p2 k1 k2 x
	r     value.Primary
}

func runCase(g *hc.Gen, o *hc.Out, pr *hc.Proc, rows [][]value.Primary, c caseSpec, akind, cpu int) {
	nrows := len(rows)
	sql := src.with + "SELECT id, p1, p2, k1, k2, x, " + c.callSQL() + " AS r FROM " + src.from
	replay := func(extra map[string]interface{}) map[string]interface{} {
		m := map[string]interface{}{"sql": sql, "table": replayTable(rows), "cpu": cpu}
		if src.derived {
			m["rows_of_the_derived_table_stored_as_m"] = strings.Replace(tableText(rows), "DECLARE t ", "DECLARE m ", 1)
		}
		for k, v := range extra {
			m[k] = v
		}
		return m
	}
	o.Count("fn:" + c.fn)
	o.Count("frame:" + c.w.class())
	o.Count(fmt.Sprintf("pcols:%d", len(c.pcols)))
	o.Count(fmt.Sprintf("items:%d unique:%v", len(c.items), c.uniqueOrder()))

	// ----- reference partitions and order, independent of the analytic code -----
	order := make([]int, nrows)
	for i := range order {
		order[i] = i
	}
	if c.hasOrder() {
		s := make([]string, len(c.items))
		for i, it := range c.items {
			s[i] = it.sql()
		}
		ov, oerr := safeQuery(pr, "SELECT id FROM "+src.ref+" ORDER BY "+strings.Join(s, ", "))
		if oerr != nil || ov.RecordLen() != nrows {
			lawCap(o, "analytic:reference_order_error", replay(map[string]interface{}{"error": fmt.Sprint(oerr)}))
			return
		}
		for i := range order {
			order[i] = intCell(hc.ViewCell(ov, i, 0))
		}
	}
	// the ORDER BY inside OVER (...) on 64-bit integers must be exact, above 2^53 too
	if c.hasOrder() && !src.derived {
		allBig := true
		for _, it := range c.items {
			if it.col >= 0 && curSortKinds[it.col-cK1] != kBigInt {
				allBig = false
			}
		}
		if allBig {
			less := func(a, b int) bool { // a strictly before b
				for _, it := range c.items {
					if it.col < 0 {
						if a == b {
							continue
						}
						return (a < b) != it.desc
					}
					va, vb := rows[a][it.col], rows[b][it.col]
					na, nb := isNull(va), isNull(vb)
					first := it.np == "f" || (it.np == "" && !it.desc)
					switch {
					case na && nb:
						continue
					case na:
						return first
					case nb:
						return !first
					}
					ia := value.ToIntegerStrictly(va).(*value.Integer).Raw()
					ib := value.ToIntegerStrictly(vb).(*value.Integer).Raw()
					if ia == ib {
						continue
					}
					return (ia < ib) != it.desc
				}
				return false
			}
			for i := 0; i+1 < len(order); i++ {
				if less(order[i+1], order[i]) {
					lawCap(o, "analytic:order_of_big_integers", replay(map[string]interface{}{"position": i, "ids": []int{order[i], order[i+1]},
						"values": []string{hc.EncVal(rows[order[i]][c.items[0].colOrID()]), hc.EncVal(rows[order[i+1]][c.items[0].colOrID()])}}))
					break
				}
			}
			o.Count("law:order_of_big_integers")
		}
	}
	keyIDs := map[string]int{}
	keyOf := make([]int, nrows)
	var parts [][]int // per key id: ids in reference order
	for _, id := range order {
		ks := make([]string, len(c.pcols))
		for j, pc := range c.pcols {
			ks[j] = normRef(rows[id][pc])
		}
		k := strings.Join(ks, "|")
		kid, ok := keyIDs[k]
		if !ok {
			kid = len(keyIDs)
			keyIDs[k] = kid
			parts = append(parts, nil)
		}
		keyOf[id] = kid
		parts[kid] = append(parts[kid], id)
	}
	posOf := make([]int, nrows)
	for _, p := range parts {
		for k, id := range p {
			posOf[id] = k
		}
		o.Count(fmt.Sprintf("partition:size<=%d", sizeBand(len(p))))
	}
	o.NonTrivial(fmt.Sprintf("%s|%s|ign=%v|p%d|o%d|u=%v|parts<=%d|rows<=%d|d=%v|weak=%v|tiespeers=%v", c.fn, c.w.class(), c.ign, len(c.pcols), len(c.items), c.uniqueOrder(), sizeBand(len(parts)), sizeBand(nrows), c.distinct, c.allTotal(), c.allTiesEquiv()))
	if c.hasOrder() {
		o.Count(fmt.Sprintf("order_key:weak_order=%v ties_are_peers=%v unique=%v", c.allTotal(), c.allTiesEquiv(), c.uniqueOrder()))
		if !c.allTiesEquiv() {
			o.Count("fn_over_key_with_incomparable_values:" + c.fn)
		}
	}

	// ----- the operation line for the model of the current code -----
	mfn, mflag := c.fn, c.ign
	if strings.HasPrefix(c.fn, "agg:") {
		// the aggregates the model computes itself (on integer / text / NULL cells)
		mfn, mflag = "", c.distinct
		if akind != aMixed {
			switch c.fn {
			case "agg:SUM":
				mfn = "sum"
			case "agg:AVG":
				mfn = "avg"
			case "agg:MIN":
				mfn = "min"
			case "agg:MAX":
				mfn = "max"
			case "agg:MEDIAN":
				mfn = "median"
			case "agg:COUNT":
				mfn = "countd"
			case "agg:VAR":
				mfn = "var"
			case "agg:VARP":
				mfn = "varp"
			case "agg:STDEV":
				mfn = "stdev"
			case "agg:STDEVP":
				mfn = "stdevp"
			}
			if (mfn == "var" || mfn == "varp" || mfn == "stdev" || mfn == "stdevp") && src.derived && !c.uniqueOrder() {
				// the sum of the squared deviations is a float sum: its last bit depends on the order of the cells, and
				// the order of a derived view that an inner analytic function has re-sorted is not known here
				mfn = ""
			}
		}
	}
	isModelFn := mfn != ""
	op := ""
	if isModelFn {
		a1, a2 := "-", "-"
		if c.a1 != nil {
			a1 = strconv.Itoa(*c.a1)
		}
		if c.a2 != nil {
			a2 = hc.EncVal(c.a2)
		}
		ign := "0"
		if mflag {
			ign = "1"
		}
		var sb strings.Builder
		fmt.Fprintf(&sb, "c17.%s %s %s %s %s %d", mfn, a1, a2, ign, c.w.tok(), len(c.items))
		for _, id := range order {
			fmt.Fprintf(&sb, " %d %d", id, keyOf[id])
			for _, it := range c.items {
				if it.col < 0 {
					sb.WriteString(" " + cellTok(value.NewInteger(int64(id))))
				} else {
					sb.WriteString(" " + cellTok(rows[id][it.col]))
				}
			}
			sb.WriteString(" " + hc.EncVal(rows[id][cX]))
		}
		op = sb.String()
	}

	// ----- run the query -----
	// An inverted frame (High < Low - 1) makes windowValues panic; with several worker goroutines a second
	// panic is not recovered by Analyze (`if !gm.HasError() { recover() }`) and would take the whole process
	// down, so such queries run on one goroutine.
	aggBranch := c.fn == "cells" || c.fn == "count" || c.fn == "count_star" || strings.HasPrefix(c.fn, "agg:")
	inverted := false
	if aggBranch {
		for _, p := range parts {
			for k := range p {
				if lo, hi := c.w.frame(k, len(p)); hi-lo+1 < 0 {
					inverted = true
				}
			}
		}
	}
	if inverted {
		pr.SetCPU(1)
		o.Count("inverted_frame_for_aggregate")
	}
	v, err := safeQuery(pr, sql)
	if inverted {
		pr.SetCPU(cpu)
	}

	// ----- errors -----
	expectErr := (c.fn == "ntile" || c.fn == "nth_value") && c.a1 != nil && *c.a1 < 1 && nrows > 0
	if err != nil {
		switch {
		case strings.Contains(err.Error(), "makeslice: cap out of range"):
			lawCap(o, "analytic:inverted_frame_fatal", replay(map[string]interface{}{"error": firstLine(err.Error()), "frame": c.w.tok(), "inverted_frame_expected": inverted}))
			if isModelFn {
				o.Case(op, "FATAL")
			}
			return
		case c.fn == "count_star" && strings.Contains(err.Error(), "only available in select clause"):
			lawCap(o, "analytic:count_star_over_rejected", replay(map[string]interface{}{"error": err.Error()}))
			return
		case expectErr && hc.ErrCode(err) > 0:
			// falls through to the model comparison with answer E
		default:
			lawCap(o, c.lawName("error"), replay(map[string]interface{}{"error": firstLine(err.Error())}))
			return
		}
	} else if expectErr {
		lawCap(o, c.lawName("invalid_argument_accepted"), replay(nil))
	}

	// ----- the implementation's output, per id -----
	got := make([]*outRow, nrows)
	if err == nil {
		if v.RecordLen() != nrows {
			lawCap(o, "analytic:row_count_changed", replay(map[string]interface{}{"rows": nrows, "out": v.RecordLen()}))
			return
		}
		for i := 0; i < v.RecordLen(); i++ {
			id := intCell(hc.ViewCell(v, i, 0))
			if id < 0 || id >= nrows || got[id] != nil {
				lawCap(o, "analytic:row_count_changed", replay(map[string]interface{}{"duplicate_or_unknown_id": id}))
				return
			}
			or := &outRow{r: hc.ViewCell(v, i, 1+nCols)}
			for j := 0; j < nCols; j++ {
				or.cells = append(or.cells, hc.ViewCell(v, i, 1+j))
			}
			got[id] = or
		}
		for id, or := range got {
			for j := 0; j < nCols; j++ {
				if hc.EncVal(or.cells[j]) != hc.EncVal(rows[id][j]) {
					lawCap(o, "analytic:other_columns_changed", replay(map[string]interface{}{"id": id, "column": colNames[j], "was": hc.EncVal(rows[id][j]), "is": hc.EncVal(or.cells[j])}))
					return
				}
			}
		}
	}

	// ----- (a) the model of the current code -----
	if isModelFn {
		impl := "E"
		if err == nil {
			toks := make([]string, nrows)
			bad := false
			for id, or := range got {
				switch c.fn {
				case "cells":
					s := hc.StrOf(or.r)
					if c.udf2 {
						parts := strings.SplitN(s, "#", 2)
						if len(parts) != 2 || parts[0] != strconv.Itoa(id) {
							lawCap(o, "analytic:udf_argument:other", replay(map[string]interface{}{"id": id, "got": s}))
							bad = true
						} else {
							s = parts[1]
						}
					}
					toks[id] = cellsTok(s, "|")
				case "jsonagg", "jsonaggd":
					tok, ok := jsonCellsTok(hc.StrOf(or.r))
					if !ok {
						lawCap(o, "analytic:json_agg:other", replay(map[string]interface{}{"id": id, "got": hc.EncVal(or.r)}))
						bad = true
					}
					toks[id] = tok
				case "listagg", "listaggd":
					if isNull(or.r) {
						toks[id] = "[]"
					} else {
						toks[id] = cellsTok("|"+hc.StrOf(or.r), "|")
					}
				default:
					toks[id] = hc.EncVal(or.r)
				}
			}
			if bad {
				return
			}
			impl = "-"
			if nrows > 0 {
				impl = strings.Join(toks, ",")
			}
		}
		o.Case(op, impl)
		if c.fn == "dense_rank" {
			// the peer groups of perseCumulativeGroups, numbered: the same values through `cumGroups`
			o.Case(strings.Replace(op, "c17.dense_rank ", "c17.groups ", 1), impl)
		}
		// Analyze end to end: the model orders the rows and computes the partition keys itself
		pickFull := g.Intn(2) == 0
		for _, it := range c.items {
			if it.col >= 0 && (curSortKinds[it.col-cK1] == kBigInt || curSortKinds[it.col-cK1] == kNumText) {
				pickFull = true // the model must order these rows itself
			}
		}
		if !src.derived && (c.uniqueOrder() || !c.hasOrder()) && nrows <= 150 && pickFull && c.allTotal() {
			a1, a2 := "-", "-"
			if c.a1 != nil {
				a1 = strconv.Itoa(*c.a1)
			}
			if c.a2 != nil {
				a2 = hc.EncVal(c.a2)
			}
			flag := "0"
			if mflag {
				flag = "1"
			}
			its := make([]string, len(c.items))
			for i, it := range c.items {
				d, np := "a", "-"
				if it.desc {
					d = "d"
				}
				if it.np != "" {
					np = it.np
				}
				its[i] = d + np
			}
			itok := "-"
			if len(its) > 0 {
				itok = strings.Join(its, ",")
			}
			var sb strings.Builder
			fmt.Fprintf(&sb, "c17.full:%s %s %s %s %s %d %s %d", mfn, a1, a2, flag, c.w.tok(), len(c.items), itok, len(c.pcols))
			for id := 0; id < nrows; id++ {
				fmt.Fprintf(&sb, " %d", id)
				for _, pc := range c.pcols {
					sb.WriteString(" " + hc.EncProfile(rows[id][pc]))
				}
				for _, it := range c.items {
					if it.col < 0 {
						sb.WriteString(" " + cellTok(value.NewInteger(int64(id))))
					} else {
						sb.WriteString(" " + cellTok(rows[id][it.col]))
					}
				}
				sb.WriteString(" " + hc.EncVal(rows[id][cX]))
			}
			o.Case(sb.String(), impl)
			o.Count("full:" + mfn)
		}
	}
	if err != nil {
		return
	}

	if src.derived {
		// the same outer query over the plain temporary table holding the derived table's rows
		msql := "SELECT id, " + c.callSQL() + " AS r FROM m"
		mv, merr := safeQuery(pr, msql)
		if merr != nil || mv.RecordLen() != nrows {
			lawCap(o, "analytic_over_derived_eq_over_materialised", replay(map[string]interface{}{"materialised_sql": msql, "error": fmt.Sprint(merr)}))
			return
		}
		for i := 0; i < mv.RecordLen(); i++ {
			id := intCell(hc.ViewCell(mv, i, 0))
			if id < 0 || id >= nrows || !sameValue(got[id].r, hc.ViewCell(mv, i, 1), approxFn(c)) {
				extra := map[string]interface{}{"materialised_sql": msql, "id": id, "over_materialised": hc.EncVal(hc.ViewCell(mv, i, 1)), "over_materialised_text": hc.ViewCell(mv, i, 1).String()}
				if id >= 0 && id < nrows {
					extra["over_derived"], extra["over_derived_text"] = hc.EncVal(got[id].r), got[id].r.String()
				}
				lawCap(o, "analytic_over_derived_eq_over_materialised", replay(extra))
				break
			}
		}
		o.Count("law:derived_eq_materialised")
	}

	if c.witness == "" {
		multiCheck(g, o, pr, rows, c, akind, cpu, got)
	}

	if c.witness == "rank_int_float_ties" {
		// rows 0..3 tie under ORDER BY k1 (1.0, 1, '1e0', 1): rank 1 each; row 4 (k1 = 2): rank 5
		want := []int64{1, 1, 1, 1, 5}
		for id, w := range want {
			if iv, ok := got[id].r.(*value.Integer); !ok || iv.Raw() != w {
				lawCap(o, "analytic:rank_int_float_ties", replay(map[string]interface{}{"id": id, "got": hc.EncVal(got[id].r), "want": w,
					"note": "1 = 1.0 is TRUE and ORDER BY treats them as ties; SortValue.EquivalentTo must hold between Integer and Float in both directions"}))
				break
			}
		}
		return
	}

	// ----- (b) the textbook definition, directly on the implementation's output -----
	argOf := func(id int) value.Primary { return rows[id][cX] }
	// peers: equal ORDER BY values (reference normalisation); without ORDER BY csvq treats no two rows as peers
	skey := make([]string, nrows)
	for id := range skey {
		if !c.hasOrder() {
			skey[id] = "#" + strconv.Itoa(id)
			continue
		}
		ks := make([]string, len(c.items))
		for j, it := range c.items {
			if it.col < 0 {
				ks[j] = "#" + strconv.Itoa(id)
			} else {
				ks[j] = sortKeyRef(rows[id][it.col])
			}
		}
		skey[id] = strings.Join(ks, "|")
	}
	peers := func(a, b int) bool { return skey[a] == skey[b] }
	frameIDs := func(w window, p []int, k int) []int {
		lo, hi := w.frame(k, len(p))
		if lo < 0 {
			lo = 0
		}
		if hi > len(p)-1 {
			hi = len(p) - 1
		}
		var out []int
		for j := lo; j <= hi; j++ {
			out = append(out, p[j])
		}
		return out
	}
	kept := func(ids []int) []value.Primary {
		var out []value.Primary
		for _, id := range ids {
			if c.ign && isNull(argOf(id)) {
				continue
			}
			out = append(out, argOf(id))
		}
		return out
	}
	intWant := func(id int, want int64) bool {
		iv, ok := got[id].r.(*value.Integer)
		return ok && iv.Raw() == want
	}
	floatWant := func(id int, num, den int) bool {
		fv, ok := got[id].r.(*value.Float)
		return ok && math.Float64bits(fv.Raw()) == math.Float64bits(float64(num)/float64(den))
	}
	fail := func(name string, id int, want string, extra map[string]interface{}) {
		m := map[string]interface{}{"id": id, "position": posOf[id], "partition_size": len(parts[keyOf[id]]), "got": hc.EncVal(got[id].r), "want": want}
		if len(parts[keyOf[id]]) <= 40 {
			m["partition"] = parts[keyOf[id]]
		}
		for k, v := range extra {
			m[k] = v
		}
		lawCap(o, name, replay(m))
	}
	var null value.Primary = value.NewNull()
	sqlBudget := 10
	reported := 0
	// The textbook forms of RANK & co. ("preceding rows that are no peers", "rows up to the last peer") presuppose
	// that peers are adjacent in the sorted partition.  An ORDER BY key holding values the comparison cannot separate
	// although they are not equivalent (TRUE / FALSE; a datetime next to a number) leaves such rows interleaved: there
	// the functions are defined by the code's maximal runs of EquivalentTo rows (the model's `cumGroups`,
	// Csvq.C17.peers_are_equivalence_classes), checked by the model comparison above and by rankFamilyLaw.
	peerLaw := !c.hasOrder() || c.uniqueOrder() || c.allTiesEquiv()
	if tieSafe[c.fn] {
		if peerLaw {
			o.Count("law:rank_family_textbook")
		} else {
			o.Count("law:rank_family_textbook_not_applicable(peers_not_adjacent)")
		}
		rankFamilyLaw(o, pr, c, parts, got, replay)
	}
	for _, p := range parts {
		n := len(p)
		for k, id := range p {
			if reported >= 3 {
				return
			}
			before := reported
			switch c.fn {
			case "row_number":
				if !intWant(id, int64(k+1)) {
					fail(c.lawName("other"), id, strconv.Itoa(k+1), nil)
					reported++
				}
			case "rank", "dense_rank", "cume_dist", "percent_rank":
				if !peerLaw {
					continue
				}
				strictlyBefore, upto := 0, 0
				classes := map[string]bool{}
				for j, jd := range p {
					pe := peers(jd, id)
					if j < k && !pe {
						strictlyBefore++
					}
					if j <= k || pe {
						upto++
					}
					if j <= k {
						classes[skey[jd]] = true
					}
				}
				ok, want := true, ""
				switch c.fn {
				case "rank":
					ok, want = intWant(id, int64(strictlyBefore+1)), strconv.Itoa(strictlyBefore+1)
				case "dense_rank":
					ok, want = intWant(id, int64(len(classes))), strconv.Itoa(len(classes))
				case "cume_dist":
					ok, want = floatWant(id, upto, n), fmt.Sprintf("%d/%d", upto, n)
				case "percent_rank":
					if n > 1 {
						ok, want = floatWant(id, strictlyBefore, n-1), fmt.Sprintf("%d/%d", strictlyBefore, n-1)
					} else {
						ok, want = floatWant(id, 1, 1), "1/1 (csvq's convention for a single-row partition)"
					}
				}
				if !ok {
					fail(c.lawName("other"), id, want, nil)
					reported++
				}
			case "ntile":
				tn := *c.a1
				q, r := n/tn, n%tn
				if q < 1 {
					q, r = 1, 0
				}
				var want int
				if k < r*(q+1) {
					want = k/(q+1) + 1
				} else {
					want = r + (k-r*(q+1))/q + 1
				}
				if !intWant(id, int64(want)) || want > tn {
					fail(c.lawName("other"), id, strconv.Itoa(want), nil)
					reported++
				}
			case "first_value", "last_value", "nth_value":
				nth := 1
				if c.fn == "nth_value" {
					nth = *c.a1
				}
				ids := frameIDs(c.w, p, k)
				ks := kept(ids)
				want := null
				switch {
				case c.fn == "last_value":
					if len(ks) > 0 {
						want = ks[len(ks)-1]
					}
				case len(ks) >= nth:
					want = ks[nth-1]
				}
				if hc.EncVal(got[id].r) != hc.EncVal(want) {
					name := c.lawName("other")
					if c.fn == "last_value" {
						mk := kept(frameIDs(c.w.mirrored(), p, k))
						mv := null
						if len(mk) > 0 {
							mv = mk[len(mk)-1]
						}
						if hc.EncVal(got[id].r) == hc.EncVal(mv) {
							name = "analytic:last_value_frame_mirrored"
						}
					}
					if c.fn == "nth_value" && len(ks) < nth && len(ids) > 0 && hc.EncVal(got[id].r) == hc.EncVal(argOf(ids[len(ids)-1])) {
						name = "analytic:nth_value_short_frame"
					}
					fail(name, id, hc.EncVal(want), map[string]interface{}{"frame_ids": ids, "frame": c.w.tok()})
					reported++
				}
			case "lag", "lead":
				off := 1
				if c.a1 != nil {
					off = *c.a1
				}
				want := null
				if c.a2 != nil {
					want = c.a2
				}
				if off >= 0 {
					step := -1
					if c.fn == "lead" {
						step = 1
					}
					for j := k + step*off; 0 <= j && j < n; j += step {
						if c.ign && isNull(argOf(p[j])) {
							continue
						}
						want = argOf(p[j])
						break
					}
				}
				if hc.EncVal(got[id].r) != hc.EncVal(want) {
					fail(c.lawName("other"), id, hc.EncVal(want), nil)
					reported++
				}
			case "count", "count_star":
				ids := frameIDs(c.w, p, k)
				cnt := 0
				for _, fid := range ids {
					if c.fn == "count_star" || !isNull(argOf(fid)) {
						cnt++
					}
				}
				if !intWant(id, int64(cnt)) {
					fail(c.lawName("other"), id, strconv.Itoa(cnt), map[string]interface{}{"frame_ids": ids})
					reported++
				}
			default:
				if !strings.HasPrefix(c.fn, "agg:") {
					continue
				}
				// a separate real query over exactly the frame's rows
				if sqlBudget <= 0 || (n > 12 && g.Intn(n/6+1) != 0 && k != 0 && k != n-1) {
					continue
				}
				sqlBudget--
				ids := frameIDs(c.w, p, k)
				d := ""
				if c.distinct {
					d = "DISTINCT "
				}
				name := strings.TrimPrefix(c.fn, "agg:")
				rv, rerr := safeQuery(pr, "SELECT "+name+"("+d+"x) FROM "+src.ref+" WHERE "+idList(ids))
				if rerr != nil || rv.RecordLen() != 1 {
					lawCap(o, "analytic:reference_aggregate_error", replay(map[string]interface{}{"error": fmt.Sprint(rerr)}))
					reported++
					continue
				}
				want := hc.ViewCell(rv, 0, 0)
				approx := name == "STDEV" || name == "STDEVP" || name == "VAR" || name == "VARP"
				if !sameValue(got[id].r, want, approx) {
					fail(c.lawName("other"), id, hc.EncVal(want), map[string]interface{}{"frame_ids": ids})
					reported++
				}
				o.Count("law:aggregate_by_separate_query")
			}
			if reported > before {
				break // one report per partition is enough
			}
		}
	}
}

// rankFamilyLaw: RANK, DENSE_RANK, CUME_DIST and PERCENT_RANK over ONE analytic clause are four readings of one
// division of every partition into groups (Csvq.C17.rank_and_cume_dist_agree_on_groups, for every input whatever
// the ORDER BY comparison is): a group that follows c rows and has l rows gives RANK c+1, DENSE_RANK its number,
// CUME_DIST (c+l)/n, PERCENT_RANK c/(n-1) (1 when n = 1).  Checked on the implementation's own outputs of four
// separate queries; the groups are read off DENSE_RANK, the partitions come from the reference normalisation; no
// order and no notion of peer is taken from anywhere else.
func rankFamilyLaw(o *hc.Out, pr *hc.Proc, c caseSpec, parts [][]int, got []*outRow, replay func(map[string]interface{}) map[string]interface{}) {
	nrows := len(got)
	if nrows == 0 {
		return
	}
	fns := []string{"rank", "dense_rank", "cume_dist", "percent_rank"}
	col := map[string][]value.Primary{}
	sqls := map[string]string{}
	for _, fn := range fns {
		vals := make([]value.Primary, nrows)
		if fn == c.fn {
			for id := range got {
				vals[id] = got[id].r
			}
			col[fn] = vals
			continue
		}
		e := c
		e.fn = fn
		sql := src.with + "SELECT id, " + e.callSQL() + " AS r FROM " + src.from
		sqls[fn] = sql
		v, err := safeQuery(pr, sql)
		if err != nil || v.RecordLen() != nrows {
			lawCap(o, "analytic:rank_family_groups_disagree", replay(map[string]interface{}{"other_sql": sql, "error": fmt.Sprint(err)}))
			return
		}
		for i := 0; i < nrows; i++ {
			id := intCell(hc.ViewCell(v, i, 0))
			if id < 0 || id >= nrows || vals[id] != nil {
				lawCap(o, "analytic:rank_family_groups_disagree", replay(map[string]interface{}{"other_sql": sql, "duplicate_or_unknown_id": id}))
				return
			}
			vals[id] = hc.ViewCell(v, i, 1)
		}
		col[fn] = vals
	}
	o.Count("law:rank_family_one_grouping")
	intOf := func(p value.Primary) (int64, bool) {
		iv, ok := p.(*value.Integer)
		if !ok {
			return 0, false
		}
		return iv.Raw(), true
	}
	isFrac := func(p value.Primary, num, den int) bool {
		fv, ok := p.(*value.Float)
		return ok && math.Float64bits(fv.Raw()) == math.Float64bits(float64(num)/float64(den))
	}
	for _, p := range parts {
		n := len(p)
		sizes := map[int64]int{}
		for _, id := range p {
			d, ok := intOf(col["dense_rank"][id])
			if !ok {
				d = -1
			}
			sizes[d]++
		}
		for _, id := range p {
			d, _ := intOf(col["dense_rank"][id])
			before, groupsBefore := 0, 0
			for dd, sz := range sizes {
				if dd < d {
					before += sz
					groupsBefore++
				}
			}
			l := sizes[d]
			rk, rok := intOf(col["rank"][id])
			wantPR, okPR := fmt.Sprintf("%d/%d", before, n-1), false
			if n > 1 {
				okPR = isFrac(col["percent_rank"][id], before, n-1)
			} else {
				wantPR, okPR = "1/1", isFrac(col["percent_rank"][id], 1, 1)
			}
			if d != int64(groupsBefore+1) || !rok || rk != int64(before+1) || !isFrac(col["cume_dist"][id], before+l, n) || !okPR {
				m := map[string]interface{}{"id": id, "partition_size": n,
					"dense_rank": hc.EncVal(col["dense_rank"][id]), "rows_in_groups_before": before, "rows_in_its_group": l,
					"rank": hc.EncVal(col["rank"][id]), "rank_want": before + 1,
					"cume_dist": hc.EncVal(col["cume_dist"][id]), "cume_dist_text": col["cume_dist"][id].String(), "cume_dist_want": fmt.Sprintf("%d/%d", before+l, n),
					"percent_rank": hc.EncVal(col["percent_rank"][id]), "percent_rank_text": col["percent_rank"][id].String(), "percent_rank_want": wantPR,
					"other_sqls": sqls,
					"note": "the four functions over one analytic clause must come from one division of the partition into groups (groups read off DENSE_RANK)"}
				if n <= 40 {
					m["partition"] = p
				}
				lawCap(o, "analytic:rank_family_groups_disagree", replay(m))
				return
			}
		}
	}
}

// at most lawCapN records per law name and run: a frequent (known) finding must not push a different
// failure out of the part of laws.txt the orchestrator reads
const lawCapN = 6

var lawSeen = map[string]int{}

func lawCap(o *hc.Out, name string, replay interface{}) {
	lawSeen[name]++
	if lawSeen[name] > lawCapN {
		o.Count("law_repeat_not_recorded:" + name)
		return
	}
	o.Law(name, replay)
}

func firstLine(s string) string {
	if i := strings.Index(s, "\n"); i >= 0 {
		return s[:i]
	}
	return s
}

// orderRobust: the per-row value is the same whatever order the rows have when the function is
// evaluated (inside a select list with several analytic functions the view has already been
// re-ordered by the functions evaluated before) and however ties of its ORDER BY fall.
func orderRobust(c caseSpec) bool {
	if (c.fn == "ntile" || c.fn == "nth_value") && c.a1 != nil && *c.a1 < 1 {
		return false
	}
	if !c.allTotal() {
		return false // an ORDER BY that is no weak order: a re-sort of the re-ordered view may give another order
	}
	if c.uniqueOrder() {
		return true
	}
	insensitive := c.fn == "count" || c.fn == "count_star"
	switch c.fn {
	case "agg:COUNT", "agg:SUM", "agg:MIN", "agg:MAX", "agg:AVG", "agg:MEDIAN", "agg:STDEV", "agg:STDEVP", "agg:VAR", "agg:VARP":
		insensitive = true
	}
	whole := c.w.form == "none" || (c.w.form == "b" && c.w.lo.kind == "up" && c.w.hi.kind == "uf")
	if len(c.items) == 0 {
		return insensitive && whole
	}
	// RANK & co. do not depend on the order among ties — where the ties of the comparison are the peers
	return (tieSafe[c.fn] && c.allTiesEquiv()) || (insensitive && whole)
}

// mutateOne changes exactly one element of an analytic call: the direction or the NULLS position of an ORDER BY
// item, the partition list, a frame bound, IGNORE NULLS, or an argument.  Returns what was changed ("" = nothing).
func mutateOne(g *hc.Gen, c caseSpec, nrows, akind int) (caseSpec, string) {
	e := c
	e.items = append([]orderItem{}, c.items...)
	e.pcols = append([]int{}, c.pcols...)
	var keyItems []int
	for i, it := range e.items {
		if it.col >= 0 {
			keyItems = append(keyItems, i)
		}
	}
	switch g.Intn(7) {
	case 0:
		if len(keyItems) > 0 {
			i := keyItems[g.Intn(len(keyItems))]
			e.items[i].desc = !e.items[i].desc
			return e, "direction"
		}
	case 1, 2:
		if len(keyItems) > 0 {
			i := keyItems[g.Intn(len(keyItems))]
			switch e.items[i].np {
			case "f":
				e.items[i].np = "l"
			case "l":
				e.items[i].np = "f"
			default:
				e.items[i].np = g.Pick("f", "l")
			}
			return e, "nulls-position"
		}
	case 3:
		switch len(e.pcols) {
		case 0:
			e.pcols = []int{cP1 + g.Intn(2)}
		case 1:
			if g.Intn(2) == 0 {
				e.pcols = []int{cP1 + cP2 - e.pcols[0]}
			} else {
				e.pcols = append(e.pcols, cP1+cP2-e.pcols[0])
			}
		default:
			e.pcols = e.pcols[:1]
		}
		return e, "partition-list"
	case 4:
		if c.w.form == "b" || c.w.form == "r" {
			b := &e.w.lo
			if c.w.form == "b" && g.Intn(2) == 0 {
				b = &e.w.hi
			}
			switch b.kind {
			case "p", "f":
				b.n = b.n + 1
			case "c":
				*b = bound{kind: "p", n: 1}
				if b == &e.w.hi {
					*b = bound{kind: "f", n: 1}
				}
			case "up":
				*b = bound{kind: "p", n: 1}
			case "uf":
				*b = bound{kind: "f", n: 1}
			}
			return e, "frame-bound"
		}
	case 5:
		switch c.fn {
		case "first_value", "last_value", "nth_value", "lag", "lead":
			e.ign = !c.ign
			return e, "ignore-nulls"
		}
	case 6:
		switch c.fn {
		case "ntile", "nth_value":
			v := *c.a1 + 1
			e.a1 = &v
			return e, "argument"
		case "lag", "lead":
			if c.a1 != nil {
				v := *c.a1 + 1
				e.a1 = &v
				if c.a2 != nil && g.Intn(2) == 0 {
					e.a1 = c.a1
					e.a2 = value.NewString("other")
				}
			} else {
				v := 2
				e.a1 = &v
			}
			return e, "argument"
		case "cells":
			e.udf2 = !c.udf2
			return e, "argument"
		}
		if strings.HasPrefix(c.fn, "agg:") && akind != aMixed { // DISTINCT over NULL and UNKNOWN depends on row order (C04's domain)
			e.distinct = !c.distinct
			return e, "argument"
		}
	}
	return c, ""
}

func approxFn(c caseSpec) bool {
	switch c.fn {
	case "agg:STDEV", "agg:STDEVP", "agg:VAR", "agg:VARP":
		return true
	}
	return false
}

// multiCheck: the function under test together with one or two other analytic functions in ONE select
// list (sharing 0-1 PARTITION BY columns, other ORDER BY items) must give, per row id, the value each
// function gives when it is the only analytic function of the query.  (csvq evaluates the functions of a
// select list one after the other on the same view, each re-ordering it; state left behind by one —
// cached sort values, row order — must not leak into the next.)
func multiCheck(g *hc.Gen, o *hc.Out, pr *hc.Proc, rows [][]value.Primary, c caseSpec, akind, cpu int, got []*outRow) {
	nrows := len(rows)
	if nrows == 0 || !orderRobust(c) || g.Intn(5) < 2 {
		return
	}
	type member struct {
		c      caseSpec
		single []value.Primary // per id
	}
	self := member{c: c, single: make([]value.Primary, nrows)}
	for id := range got {
		self.single[id] = got[id].r
	}
	members := []member{self}
	nExtra := 1 + g.Intn(2)
	shared := -1
	for len(members) < 1+nExtra {
		var e caseSpec
		ok := false
		near := ""
		if len(members) == 1 && g.Intn(2) == 0 {
			// the same call with exactly ONE element of it changed
			for try := 0; try < 12 && !ok; try++ {
				e, near = mutateOne(g, c, nrows, akind)
				ok = near != "" && orderRobust(e) && e.callSQL() != c.callSQL()
			}
			if ok {
				o.Count("multi:near-identical:" + near)
			} else {
				near = ""
			}
		}
		for try := 0; try < 30 && !ok; try++ {
			e = genCase(g, nrows, akind)
			ok = orderRobust(e)
		}
		if !ok {
			return
		}
		// share a PARTITION BY column with the function under test in two cases of three
		if near == "" && len(c.pcols) > 0 && g.Intn(3) != 0 {
			shared = c.pcols[g.Intn(len(c.pcols))]
			switch g.Intn(3) {
			case 0:
				e.pcols = []int{shared}
			case 1:
				e.pcols = []int{shared, cP1 + cP2 - shared}
			default:
				e.pcols = []int{cP1 + cP2 - shared, shared}
			}
		}
		v, err := safeQuery(pr, src.with+"SELECT id, "+e.callSQL()+" AS r FROM "+src.from)
		if err != nil || v.RecordLen() != nrows {
			continue // the single-function behaviour of this one is not this check's business
		}
		m := member{c: e, single: make([]value.Primary, nrows)}
		good := true
		for i := 0; i < v.RecordLen(); i++ {
			id := intCell(hc.ViewCell(v, i, 0))
			if id < 0 || id >= nrows || m.single[id] != nil {
				good = false
				break
			}
			m.single[id] = hc.ViewCell(v, i, 1)
		}
		if !good {
			continue
		}
		members = append(members, m)
	}
	// the function under test at a random position of the select list
	perm := g.Perm(len(members))
	colSQL := make([]string, len(members))
	for k, mi := range perm {
		colSQL[k] = members[mi].c.callSQL() + fmt.Sprintf(" AS r%d", k+1)
	}
	sql := src.with + "SELECT id, " + strings.Join(colSQL, ", ") + " FROM " + src.from
	o.Count(fmt.Sprintf("multi:%d functions", len(members)))
	names := make([]string, len(members))
	for k, mi := range perm {
		names[k] = members[mi].c.fn
	}
	o.NonTrivial(fmt.Sprintf("multi|%s|shared=%v|rows<=%d", strings.Join(names, "+"), shared >= 0, sizeBand(nrows)))
	replay := func(extra map[string]interface{}) map[string]interface{} {
		m := map[string]interface{}{"sql": sql, "table": replayTable(rows), "cpu": cpu}
		for k, v := range extra {
			m[k] = v
		}
		return m
	}
	v, err := safeQuery(pr, sql)
	if err != nil {
		lawCap(o, "analytic:multi_function_inconsistent", replay(map[string]interface{}{"error": firstLine(err.Error()), "note": "every function of the list runs alone without error"}))
		return
	}
	if v.RecordLen() != nrows {
		lawCap(o, "analytic:multi_function_inconsistent", replay(map[string]interface{}{"rows": nrows, "out": v.RecordLen()}))
		return
	}
	seen := make([]bool, nrows)
	for i := 0; i < v.RecordLen(); i++ {
		id := intCell(hc.ViewCell(v, i, 0))
		if id < 0 || id >= nrows || seen[id] {
			lawCap(o, "analytic:multi_function_inconsistent", replay(map[string]interface{}{"duplicate_or_unknown_id": id}))
			return
		}
		seen[id] = true
		for k, mi := range perm {
			cell := hc.ViewCell(v, i, 1+k)
			if !sameValue(cell, members[mi].single[id], approxFn(members[mi].c)) {
				lawCap(o, "analytic:multi_function_inconsistent", replay(map[string]interface{}{
					"id": id, "column": fmt.Sprintf("r%d", k+1), "function": members[mi].c.callSQL(),
					"in_combined_query": hc.EncVal(cell), "alone": hc.EncVal(members[mi].single[id]),
					"in_combined_query_text": cell.String(), "alone_text": members[mi].single[id].String(),
					"single_sql": src.with + "SELECT id, " + members[mi].c.callSQL() + " AS r FROM " + src.from}))
				return
			}
		}
	}
}

// derivedCases: analytic functions over a derived table / CTE that itself contains an analytic function,
// with a permuted and renamed select list (the column positions inside differ from the positions outside),
// over `t` directly or through DISTINCT / GROUP BY / LIMIT-OFFSET.  The rows of the derived table are read
// back with a plain SELECT and stored in the temporary table `m`; the outer query over the derived table is
// then checked like every other case against these rows (model, definitional laws, several functions in
// one list) and must equal the same query over `m`.
func derivedCases(g *hc.Gen, o *hc.Out, pr *hc.Proc, base [][]value.Primary, akind, cpu int) {
	nbase := len(base)
	// innermost level: ids stay 0..n'-1
	l0, l0kind, off, q := "t", "plain", 0, "t"
	switch g.Intn(5) {
	case 0:
		l0, l0kind = "(SELECT DISTINCT id, p1, p2, k1, k2, x FROM t) s0", "distinct"
	case 1:
		l0, l0kind = "(SELECT id, MIN(p1) AS p1, MAX(p2) AS p2, MIN(k1) AS k1, MAX(k2) AS k2, MAX(x) AS x FROM t GROUP BY id) s0", "groupby"
	case 2:
		lim := []int{0, 1, 2, 3, nbase / 2, nbase, nbase + 2}[g.Intn(7)]
		if nbase > 1 && g.Intn(2) == 0 {
			off = g.Intn(nbase)
		}
		if off > 0 {
			l0 = fmt.Sprintf("(SELECT id - %d AS id, p1, p2, k1, k2, x FROM t LIMIT %d OFFSET %d) s0", off, lim, off)
		} else {
			l0 = fmt.Sprintf("(SELECT id, p1, p2, k1, k2, x FROM t LIMIT %d) s0", lim)
		}
		l0kind = "limit"
	}
	if l0 != "t" {
		q = "s0"
	}
	// the inner analytic function: integer valued and independent of the order among ties
	var in caseSpec
	ok := false
	for try := 0; try < 60 && !ok; try++ {
		in = genCase(g, nbase, akind)
		switch in.fn {
		case "row_number", "rank", "dense_rank", "ntile", "count", "count_star":
			ok = orderRobust(in) && len(in.items) > 0
		}
	}
	if !ok {
		return
	}
	// the select list of the derived table: renamed and permuted
	names := map[string]string{"p1": "p1", "p2": "p2", "k1": "k1", "k2": "k2", "x": "x"}
	if g.Intn(2) == 0 {
		names["p1"], names["p2"] = "p2", "p1"
	}
	if g.Intn(2) == 0 {
		names["k1"], names["k2"] = "k2", "k1"
	}
	use := g.Pick("x", "k2", "k1", "extra", "extra")
	outKind := akind
	items := []string{"id"}
	for _, out := range []string{"p1", "p2", "k1", "k2", "x"} {
		if out == use {
			items = append(items, qualified(in.callSQL(), q)+" AS "+out)
			if out == "x" {
				outKind = aInts
			}
			continue
		}
		if names[out] == out {
			items = append(items, q+"."+out)
		} else {
			items = append(items, q+"."+names[out]+" AS "+out)
		}
	}
	items[0] = q + ".id"
	if use == "extra" {
		items = append(items, qualified(in.callSQL(), q)+" AS r0")
	}
	perm := g.Perm(len(items))
	list := make([]string, len(items))
	for k, pi := range perm {
		list[k] = items[pi]
	}
	l1 := "SELECT " + strings.Join(list, ", ") + " FROM " + l0
	s := source{ref: "m", derived: true, baseTable: tableText(base), kind: l0kind}
	if g.Intn(3) == 0 {
		s.with, s.from = "WITH d AS ("+l1+") ", "d"
		s.kind += "+cte"
	} else {
		s.from = "(" + l1 + ") d"
	}
	report := func(what string, extra map[string]interface{}) {
		m := map[string]interface{}{"derived_table": s.with + s.from, "table": s.baseTable, "cpu": cpu, "what": what}
		for k, v := range extra {
			m[k] = v
		}
		lawCap(o, "analytic_over_derived_eq_over_materialised", m)
	}
	// read the derived table back and store its rows
	dv, err := safeQuery(pr, s.with+"SELECT id, p1, p2, k1, k2, x FROM "+s.from)
	if err != nil {
		report("the derived table cannot be read", map[string]interface{}{"error": firstLine(err.Error())})
		return
	}
	n := dv.RecordLen()
	rows := make([][]value.Primary, n)
	for i := 0; i < n; i++ {
		id := intCell(hc.ViewCell(dv, i, 0))
		if id < 0 || id >= n || rows[id] != nil {
			report("the ids of the derived table are not 0..n-1", map[string]interface{}{"id": id, "rows": n})
			return
		}
		r := make([]value.Primary, nCols)
		for j := 0; j < nCols; j++ {
			r[j] = hc.ViewCell(dv, i, 1+j)
			if _, ok := hc.SqlLit(r[j]); !ok {
				return // a value without a literal: cannot be stored faithfully
			}
		}
		rows[id] = r
	}
	if err := pr.DeclareTable("m", colNames, rows); err != nil {
		report("the rows of the derived table cannot be stored", map[string]interface{}{"error": firstLine(err.Error())})
		return
	}
	o.Count("derived:" + s.kind)
	o.Count("derived:inner=" + in.fn + " as " + use)
	src = s
	baseOrd := curOrd
	setCurOrd(rows)
	defer func() { curOrd = baseOrd }()
	for k := 0; k < 2; k++ {
		var c caseSpec
		ok := false
		for try := 0; try < 40 && !ok; try++ {
			c = genCase(g, n, outKind)
			ok = orderRobust(c)
		}
		if ok {
			o.NonTrivial(fmt.Sprintf("derived|%s|inner=%s as %s|outer=%s|%s", s.kind, in.fn, use, c.fn, c.w.class()))
			runCase(g, o, pr, rows, c, outKind, cpu)
		}
	}
	src = source{from: "t", ref: "t"}
	pr.DisposeTable("m")
}

// literalCaseCheck: analytic functions in one query that differ ONLY in the letter case of a string-literal
// argument are different functions and must give the values each gives alone; functions that differ only in
// the case of keywords, function names and identifiers are the same function and give the same values.
func literalCaseCheck(g *hc.Gen, o *hc.Out, pr *hc.Proc, rows [][]value.Primary, cpu int) {
	nrows := len(rows)
	if nrows == 0 {
		return
	}
	over := "OVER ("
	if g.Intn(2) == 0 {
		over += "PARTITION BY " + g.Pick("p1", "p2") + " "
	}
	// several functions in one select list re-sort the re-ordered view: only over a key the comparison orders weakly
	key := g.Pick("k1", "k2", "k1 DESC", "k2 DESC NULLS FIRST")
	if !curOrd[int(key[1]-'1')].total {
		key = "id DESC"
		o.Count("literal_case:key_column_not_weakly_ordered")
	}
	over += "ORDER BY " + key + ", id)"
	lit := [][2]string{{"'a'", "'A'"}, {"'dflt'", "'DFLT'"}, {"'x y'", "'X Y'"}, {"'Sep'", "'sEP'"}}[g.Intn(4)]
	form := []string{"LAG(x, 1, %s)", "LEAD(x, 2, %s)", "LISTAGG(x, %s)", "FIRST_VALUE(%s)", "LAST_VALUE(%s)", "NTH_VALUE(%s, 1)",
		"cellsagg2(x, %s)", "LAG(%s, 1, x)"}[g.Intn(8)]
	if strings.HasPrefix(form, "LISTAGG") {
		for _, r := range rows {
			if _, ok := r[cX].(*value.String); !ok && !value.IsNull(r[cX]) {
				if _, ok := r[cX].(*value.Integer); !ok {
					form = "LAG(x, 1, %s)" // LISTAGG of arbitrary values is not this check's business
				}
			}
		}
	}
	calls := []string{fmt.Sprintf(form, lit[0]) + " " + over, fmt.Sprintf(form, lit[1]) + " " + over}
	// the first call again, in another letter case everywhere except inside the literal
	swap := func(s string) string {
		var sb strings.Builder
		inLit := false
		for _, r := range s {
			if r == '\'' {
				inLit = !inLit
			}
			switch {
			case inLit:
				sb.WriteRune(r)
			case 'a' <= r && r <= 'z':
				sb.WriteRune(r - 32)
			case 'A' <= r && r <= 'Z':
				sb.WriteRune(r + 32)
			default:
				sb.WriteRune(r)
			}
		}
		return sb.String()
	}
	calls = append(calls, swap(calls[0]))
	single := make([][]value.Primary, len(calls))
	for k, call := range calls {
		v, err := safeQuery(pr, "SELECT id, "+call+" AS r FROM t")
		if err != nil || v.RecordLen() != nrows {
			return
		}
		single[k] = make([]value.Primary, nrows)
		for i := 0; i < nrows; i++ {
			id := intCell(hc.ViewCell(v, i, 0))
			if id < 0 || id >= nrows {
				return
			}
			single[k][id] = hc.ViewCell(v, i, 1)
		}
	}
	perm := g.Perm(len(calls))
	cols := make([]string, len(calls))
	for k, pi := range perm {
		cols[k] = calls[pi] + fmt.Sprintf(" AS r%d", k+1)
	}
	sql := "SELECT id, " + strings.Join(cols, ", ") + " FROM t"
	o.Count("law:literal_case")
	o.NonTrivial("literal_case|" + form)
	replay := func(extra map[string]interface{}) map[string]interface{} {
		m := map[string]interface{}{"sql": sql, "table": tableText(rows), "cpu": cpu}
		for k, v := range extra {
			m[k] = v
		}
		return m
	}
	v, err := safeQuery(pr, sql)
	if err != nil || v.RecordLen() != nrows {
		lawCap(o, "analytic:literal_case_collision", replay(map[string]interface{}{"error": fmt.Sprint(err)}))
		return
	}
	for i := 0; i < nrows; i++ {
		id := intCell(hc.ViewCell(v, i, 0))
		if id < 0 || id >= nrows {
			lawCap(o, "analytic:literal_case_collision", replay(map[string]interface{}{"unknown_id": id}))
			return
		}
		for k, pi := range perm {
			cell := hc.ViewCell(v, i, 1+k)
			if !sameValue(cell, single[pi][id], false) {
				lawCap(o, "analytic:literal_case_collision", replay(map[string]interface{}{"id": id, "column": fmt.Sprintf("r%d", k+1),
					"function": calls[pi], "in_combined_query": hc.EncVal(cell), "alone": hc.EncVal(single[pi][id]),
					"in_combined_query_text": cell.String(), "alone_text": single[pi][id].String()}))
				return
			}
		}
		// same function in another letter case: same values
		if !sameValue(single[0][id], single[2][id], false) {
			lawCap(o, "analytic:literal_case_collision", replay(map[string]interface{}{"id": id, "note": "the same call in another letter case of keywords / names / identifiers gives another value",
				"function": calls[0], "variant": calls[2], "value": hc.EncVal(single[0][id]), "variant_value": hc.EncVal(single[2][id])}))
			return
		}
	}
}

// a JSON array of integers, strings and nulls → [I1;Sxx;N]
func jsonCellsTok(s string) (string, bool) {
	dec := json.NewDecoder(strings.NewReader(s))
	dec.UseNumber()
	var arr []interface{}
	if err := dec.Decode(&arr); err != nil {
		return "", false
	}
	out := make([]string, len(arr))
	for i, e := range arr {
		switch x := e.(type) {
		case nil:
			out[i] = "N"
		case json.Number:
			if !intRe.MatchString(x.String()) {
				return "", false
			}
			out[i] = "I" + x.String()
		case string:
			out[i] = "S" + hc.Hex(x)
		default:
			return "", false
		}
	}
	return "[" + strings.Join(out, ";") + "]", true
}

// groupedListAgg: LISTAGG([DISTINCT] x, '|') [WITHIN GROUP (ORDER BY …)] … GROUP BY p — compared with the model's
// listAggGrouped (groups in order of first appearance; inside a group the WITHIN GROUP order, else the row order)
func groupedListAgg(g *hc.Gen, o *hc.Out, pr *hc.Proc, rows [][]value.Primary, cpu int) {
	nrows := len(rows)
	pc := cP1 + g.Intn(2)
	distinct := g.Intn(3) == 0
	var items []orderItem
	switch g.Intn(4) {
	case 0:
	case 1:
		items = []orderItem{{col: cK1, desc: g.Intn(2) == 0, np: g.Pick("", "f", "l")}, {col: -1}}
	case 2:
		items = []orderItem{{col: cK2, desc: g.Intn(2) == 0, np: g.Pick("", "f", "l")}, {col: cK1}, {col: -1, desc: true}}
	default:
		items = []orderItem{{col: -1, desc: true}}
	}
	if !(caseSpec{items: items}).allTotal() {
		// the model orders the group itself (reference sort): only over keys the comparison orders weakly
		items = []orderItem{{col: -1, desc: g.Intn(2) == 0}}
		o.Count("grouped_listagg:key_column_not_weakly_ordered")
	}
	d := ""
	if distinct {
		d = "DISTINCT "
	}
	asJSON := g.Intn(3) == 0
	sql := "SELECT LISTAGG(" + d + "x, '|')"
	if asJSON {
		sql = "SELECT JSON_AGG(" + d + "x)"
	}
	its := make([]string, len(items))
	if len(items) > 0 {
		ss := make([]string, len(items))
		for i, it := range items {
			ss[i] = it.sql()
			dd, np := "a", "-"
			if it.desc {
				dd = "d"
			}
			if it.np != "" {
				np = it.np
			}
			its[i] = dd + np
		}
		sql += " WITHIN GROUP (ORDER BY " + strings.Join(ss, ", ") + ")"
	}
	sql += " AS r FROM t GROUP BY " + colNames[pc]
	v, err := safeQuery(pr, sql)
	if err != nil {
		lawCap(o, "analytic:grouped_listagg:error", map[string]interface{}{"sql": sql, "table": tableText(rows), "error": firstLine(err.Error())})
		return
	}
	keyIDs := map[string]int{}
	itok := "-"
	if len(its) > 0 {
		itok = strings.Join(its, ",")
	}
	flag := "0"
	if distinct {
		flag = "1"
	}
	var sb strings.Builder
	opName := "c17.glistagg"
	if asJSON {
		opName = "c17.gjsonagg"
	}
	fmt.Fprintf(&sb, "%s - - %s none %d %s", opName, flag, len(items), itok)
	for id := 0; id < nrows; id++ {
		k := normRef(rows[id][pc])
		kid, ok := keyIDs[k]
		if !ok {
			kid = len(keyIDs)
			keyIDs[k] = kid
		}
		fmt.Fprintf(&sb, " %d %d", id, kid)
		for _, it := range items {
			if it.col < 0 {
				sb.WriteString(" " + cellTok(value.NewInteger(int64(id))))
			} else {
				sb.WriteString(" " + cellTok(rows[id][it.col]))
			}
		}
		sb.WriteString(" " + hc.EncVal(rows[id][cX]))
	}
	toks := make([]string, v.RecordLen())
	for i := range toks {
		r := hc.ViewCell(v, i, 0)
		switch {
		case asJSON:
			tok, ok := jsonCellsTok(hc.StrOf(r))
			if !ok {
				lawCap(o, "analytic:json_agg:other", map[string]interface{}{"sql": sql, "table": tableText(rows), "got": hc.EncVal(r)})
				return
			}
			toks[i] = tok
		case isNull(r):
			toks[i] = "[]"
		default:
			toks[i] = cellsTok("|"+hc.StrOf(r), "|")
		}
	}
	impl := "-"
	if len(toks) > 0 {
		impl = strings.Join(toks, "|")
	}
	o.Case(sb.String(), impl)
	o.Count("grouped_listagg")
	o.NonTrivial(fmt.Sprintf("%s|d=%v|%s|groups<=%d", opName, distinct, itok, sizeBand(len(keyIDs))))
}

func intCell(p value.Primary) int {
	n, err := strconv.Atoi(hc.StrOf(p))
	if err != nil {
		return -1
	}
	return n
}

func safeQuery(pr *hc.Proc, sql string) (v *query.View, err error) {
	defer func() {
		if p := recover(); p != nil {
			err = fmt.Errorf("PANIC: %v", p)
		}
	}()
	return pr.Query(sql)
}

// the table as INSERT-able text, for the replay record
func tableText(rows [][]value.Primary) string {
	if len(rows) > 40 && os.Getenv("C17_FULLTABLE") == "" {
		return fmt.Sprintf("(%d rows; rerun with the recorded seed)", len(rows))
	}
	var sb strings.Builder
	sb.WriteString("DECLARE t VIEW (id, p1, p2, k1, k2, x); ")
	if len(rows) > 0 {
		sb.WriteString("INSERT INTO t VALUES ")
	}
	for i, r := range rows {
		if i > 0 {
			sb.WriteString(", ")
		}
		sb.WriteString("(" + strconv.Itoa(i))
		for _, p := range r {
			l, _ := hc.SqlLit(p)
			sb.WriteString(", " + l)
		}
		sb.WriteString(")")
	}
	sb.WriteString(";")
	return sb.String()
}
