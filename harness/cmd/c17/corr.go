// Analytic functions INSIDE CORRELATED SUB-QUERIES.
//
// The argument of an analytic function is evaluated, for every row of the partition, in the scope made by
// ReferenceScope.CreateScopeForAnalytics: record 0 is the sub-query's own view (the function moves its position),
// records 1.. are the records of the ENCLOSING queries.  An argument may therefore mix inner columns with columns
// of the outer query's current row (`ci.x * co.m`, `co.m`, `COALESCE(ci.x, co.m)`); so may PARTITION BY / ORDER BY
// items and the offset / default of LAG / LEAD (evaluated in other scopes).  The frame offsets of ROWS are INTEGER
// tokens in the grammar (parser.y window_frame_*), no expression can stand there.
//
// Per outer row the expected values are what the definition gives for the inner table with the outer row's values
// SUBSTITUTED as constants:
//   - op `c17.<fn>` (the ordinary operation line of this stream: substitute first, then the unchanged model);
//   - law `correlated_analytic_differs_from_substituted`: the same inner query run stand-alone with literals in
//     place of the outer references (select list), and the rows a WHERE with the sub-query keeps.
package main

import (
	"fmt"
	"strconv"
	"strings"

	"github.com/mithrandie/csvq/lib/value"
	"verifharness/hc"
)

type corrSpec struct {
	fn    string // sum avg min max countd count first_value last_value nth_value lag lead listagg
	arg   int    // 0: ci.x * co.m   1: co.m   2: COALESCE(ci.x, co.m)   3: ci.x + co.m   4: ci.x (no outer reference)
	part  int    // 0 none, 1 ci.g, 2 ci.g * co.z
	ord   int    // 0 none, 1 ci.s, ci.id   2 ci.s * co.d, ci.id   3 ci.id
	w     window
	ign   bool
	a1    int  // NTH_VALUE n / LAG offset (-1: absent)
	a1out bool // LAG / LEAD offset written as co.q
	a2    int  // LAG default: 0 absent, 1 co.e
}

func nullOrInt(p value.Primary) (int64, bool) {
	if value.IsNull(p) {
		return 0, false
	}
	return p.(*value.Integer).Raw(), true
}

func intOrNull(v int64, ok bool) value.Primary {
	if !ok {
		return value.NewNull()
	}
	return value.NewInteger(v)
}

// outer row: k m z d q e ; inner row: g s x
const (
	oM = iota
	oZ
	oD
	oQ
	oE
)
const (
	iG = iota
	iS
	iX
)

func (c corrSpec) argSQL(lit func(int) string) string {
	switch c.arg {
	case 0:
		return "ci.x * " + lit(oM)
	case 1:
		return lit(oM)
	case 2:
		return "COALESCE(ci.x, " + lit(oM) + ")"
	case 3:
		return "ci.x + " + lit(oM)
	}
	return "ci.x"
}

func (c corrSpec) argVal(in, out []value.Primary) value.Primary {
	x, xok := nullOrInt(in[iX])
	m, mok := nullOrInt(out[oM])
	switch c.arg {
	case 0:
		return intOrNull(x*m, xok && mok)
	case 1:
		return intOrNull(m, mok)
	case 2:
		if xok {
			return intOrNull(x, true)
		}
		return intOrNull(m, mok)
	case 3:
		return intOrNull(x+m, xok && mok)
	}
	return intOrNull(x, xok)
}

func (c corrSpec) callSQL(lit func(int) string) string {
	var over []string
	switch c.part {
	case 1:
		over = append(over, "PARTITION BY ci.g")
	case 2:
		over = append(over, "PARTITION BY ci.g * "+lit(oZ))
	}
	switch c.ord {
	case 1:
		over = append(over, "ORDER BY ci.s, ci.id"+c.w.sql())
	case 2:
		over = append(over, "ORDER BY ci.s * "+lit(oD)+", ci.id"+c.w.sql())
	case 3:
		over = append(over, "ORDER BY ci.id"+c.w.sql())
	}
	ov := " OVER (" + strings.Join(over, " ") + ")"
	ign := ""
	if c.ign {
		ign = " IGNORE NULLS"
	}
	a := c.argSQL(lit)
	switch c.fn {
	case "sum", "avg", "min", "max", "count":
		return strings.ToUpper(c.fn) + "(" + a + ")" + ov
	case "countd":
		return "COUNT(DISTINCT " + a + ")" + ov
	case "first_value", "last_value":
		return strings.ToUpper(c.fn) + "(" + a + ")" + ign + ov
	case "nth_value":
		return "NTH_VALUE(" + a + ", " + strconv.Itoa(c.a1) + ")" + ign + ov
	case "lag", "lead":
		args := a
		if c.a1 >= 0 {
			if c.a1out {
				args += ", " + lit(oQ)
			} else {
				args += ", " + strconv.Itoa(c.a1)
			}
			if c.a2 == 1 {
				args += ", " + lit(oE)
			}
		}
		return strings.ToUpper(c.fn) + "(" + args + ")" + ign + ov
	}
	return "LISTAGG(" + a + ", '|')" + ov
}

func corrCases(g *hc.Gen, o *hc.Out, pr *hc.Proc, cpu int) {
	n := 1 + g.Intn(6)
	no := 2 + g.Intn(3)
	inner := make([][]value.Primary, n)
	for i := range inner {
		x := value.Primary(value.NewInteger(int64(g.Intn(13) - 3)))
		if g.Intn(5) == 0 {
			x = value.NewNull()
		}
		inner[i] = []value.Primary{value.NewInteger(int64(g.Intn(3))), value.NewInteger(int64(g.Intn(4))), x}
	}
	outer := make([][]value.Primary, no)
	for i := range outer {
		m := value.Primary(value.NewInteger(int64([]int{-2, 0, 1, 2, 3, 7, 10, 100}[g.Intn(8)])))
		if g.Intn(7) == 0 {
			m = value.NewNull()
		}
		e := value.Primary(value.NewInteger(int64(50 + g.Intn(5))))
		if g.Intn(4) == 0 {
			e = value.NewNull()
		}
		outer[i] = []value.Primary{m, value.NewInteger(int64(g.Intn(2))), value.NewInteger(int64(1 - 2*g.Intn(2))), value.NewInteger(int64(g.Intn(4))), e}
	}
	if err := pr.DeclareTable("ci", []string{"g", "s", "x"}, inner); err != nil {
		lawCap(o, "analytic:declare_table_error", err.Error())
		return
	}
	defer pr.DisposeTable("ci")
	if err := pr.DeclareTable("co", []string{"m", "z", "d", "q", "e"}, outer); err != nil {
		lawCap(o, "analytic:declare_table_error", err.Error())
		return
	}
	defer pr.DisposeTable("co")

	c := corrSpec{a1: -1}
	c.fn = []string{"sum", "avg", "min", "max", "countd", "count", "first_value", "last_value", "nth_value", "lag", "lead", "listagg"}[g.Intn(12)]
	c.arg = []int{0, 0, 1, 2, 2, 3, 3, 4}[g.Intn(8)]
	c.part = g.Intn(3)
	c.ord = 1 + g.Intn(3)
	frames := []window{
		{form: "order"}, {form: "r", lo: bound{kind: "up"}}, {form: "r", lo: bound{kind: "c"}}, {form: "r", lo: bound{kind: "p", n: 1}},
		{form: "b", lo: bound{kind: "up"}, hi: bound{kind: "uf"}}, {form: "b", lo: bound{kind: "p", n: 1}, hi: bound{kind: "f", n: 1}},
		{form: "b", lo: bound{kind: "c"}, hi: bound{kind: "uf"}}, {form: "b", lo: bound{kind: "p", n: 2}, hi: bound{kind: "c"}},
		{form: "b", lo: bound{kind: "c"}, hi: bound{kind: "f", n: 1}},
	}
	c.w = frames[g.Intn(len(frames))]
	switch c.fn {
	case "first_value", "last_value":
		c.ign = g.Intn(3) == 0
	case "nth_value":
		c.a1 = 1 + g.Intn(3)
		c.ign = g.Intn(3) == 0
	case "lag", "lead":
		c.w = window{form: "order"}
		c.ign = g.Intn(3) == 0
		if g.Intn(4) != 0 {
			c.a1 = g.Intn(4)
			c.a1out = g.Intn(2) == 0
			c.a2 = g.Intn(2)
		}
	case "listagg":
		c.w = window{form: "none"}
		c.ord = 0 // LISTAGG OVER ([PARTITION BY ..]): the cells in view order
	}
	if c.fn == "listagg" && c.part == 2 {
		// without ORDER BY the order of the cells is the order the partition sort leaves: keep the inner key
		c.part = 1
	}
	// is there a reference to the outer row at all (otherwise the case is a plain sub-query)
	o.Count("corr:fn:" + c.fn)
	o.Count(fmt.Sprintf("corr:arg:%d part:%d ord:%d", c.arg, c.part, c.ord))

	colLit := func(oi int) func(int) string {
		return func(col int) string {
			l, _ := hc.SqlLit(outer[oi][col])
			if v, ok := nullOrInt(outer[oi][col]); ok && v < 0 {
				return "(" + l + ")"
			}
			return l
		}
	}
	colRef := func(col int) string { return "co." + []string{"m", "z", "d", "q", "e"}[col] }

	// ----- the correlated query: one scalar sub-query per inner row -----
	pr.SetCPU(cpu)
	subs := make([]string, n)
	for j := 0; j < n; j++ {
		subs[j] = "(SELECT " + c.callSQL(colRef) + " FROM ci ORDER BY ci.id LIMIT 1 OFFSET " + strconv.Itoa(j) + ")"
	}
	sql := "SELECT co.id, " + strings.Join(subs, ", ") + " FROM co"
	replay := func(extra map[string]interface{}) map[string]interface{} {
		m := map[string]interface{}{"sql": sql, "cpu": cpu,
			"inner_table_ci": strings.Replace(tableText3(inner, "ci", "g, s, x"), "\n", " ", -1),
			"outer_table_co": strings.Replace(tableText3(outer, "co", "m, z, d, q, e"), "\n", " ", -1)}
		for k, v := range extra {
			m[k] = v
		}
		return m
	}
	cv, cerr := safeQuery(pr, sql)
	if cerr == nil && cv.RecordLen() != no {
		lawCap(o, "analytic:correlated_analytic_differs_from_substituted", replay(map[string]interface{}{"rows": cv.RecordLen(), "expected_rows": no}))
		return
	}
	corr := make([][]value.Primary, no) // per outer id, per inner id
	if cerr == nil {
		for i := 0; i < no; i++ {
			oi := intCell(hc.ViewCell(cv, i, 0))
			if oi < 0 || oi >= no || corr[oi] != nil {
				lawCap(o, "analytic:correlated_analytic_differs_from_substituted", replay(map[string]interface{}{"duplicate_or_unknown_outer_id": oi}))
				return
			}
			corr[oi] = make([]value.Primary, n)
			for j := 0; j < n; j++ {
				corr[oi][j] = hc.ViewCell(cv, i, 1+j)
			}
		}
	}

	whereKept := []int{}
	for oi := 0; oi < no; oi++ {
		// ----- the same inner query stand-alone, the outer row's values as literals -----
		ssql := "SELECT ci.id, " + c.callSQL(colLit(oi)) + " FROM ci"
		sv, serr := safeQuery(pr, ssql)
		if (serr != nil) != (cerr != nil) {
			// an error of the stand-alone query for ONE outer row must be the error of the correlated query, unless an
			// earlier outer row fails first; only "correlated fails, no stand-alone query fails" is decided after the loop
			if serr != nil {
				lawCap(o, "analytic:correlated_analytic_differs_from_substituted", replay(map[string]interface{}{"outer_id": oi, "standalone_sql": ssql, "standalone_error": firstLine(serr.Error()), "correlated": "no error"}))
				return
			}
			continue
		}
		if serr != nil {
			// both fail (LAG with a NULL offset ...): same error code expected
			if hc.ErrCode(serr) != hc.ErrCode(cerr) {
				lawCap(o, "analytic:correlated_analytic_differs_from_substituted", replay(map[string]interface{}{"outer_id": oi, "standalone_sql": ssql, "standalone_error": firstLine(serr.Error()), "correlated_error": firstLine(cerr.Error())}))
			}
			o.Count("corr:error_both")
			return
		}
		if sv.RecordLen() != n {
			lawCap(o, "analytic:row_count_changed", replay(map[string]interface{}{"standalone_sql": ssql, "rows": n, "out": sv.RecordLen()}))
			return
		}
		alone := make([]value.Primary, n)
		for i := 0; i < n; i++ {
			alone[intCell(hc.ViewCell(sv, i, 0))] = hc.ViewCell(sv, i, 1)
		}
		for j := 0; j < n; j++ {
			if alone[j] == nil || hc.EncVal(alone[j]) != hc.EncVal(corr[oi][j]) {
				lawCap(o, "analytic:correlated_analytic_differs_from_substituted", replay(map[string]interface{}{"outer_id": oi, "inner_id": j,
					"standalone_sql": ssql, "standalone": hc.EncVal(alone[j]), "correlated": hc.EncVal(corr[oi][j])}))
				return
			}
		}
		o.Count("law:correlated_analytic_differs_from_substituted")
		if isNull(alone[0]) {
			whereKept = append(whereKept, oi)
		}

		// ----- substitute first, then the unchanged model: the ordinary operation line -----
		items := []string{}
		itemVal := func(id int) []value.Primary { return nil }
		switch c.ord {
		case 1:
			items = []string{"ci.s", "ci.id"}
			itemVal = func(id int) []value.Primary { return []value.Primary{inner[id][iS], value.NewInteger(int64(id))} }
		case 2:
			items = []string{"ci.s * " + colLit(oi)(oD), "ci.id"}
			d, _ := nullOrInt(outer[oi][oD])
			itemVal = func(id int) []value.Primary {
				s, _ := nullOrInt(inner[id][iS])
				return []value.Primary{value.NewInteger(s * d), value.NewInteger(int64(id))}
			}
		case 3:
			items = []string{"ci.id"}
			itemVal = func(id int) []value.Primary { return []value.Primary{value.NewInteger(int64(id))} }
		}
		order := make([]int, n)
		for i := range order {
			order[i] = i
		}
		if len(items) > 0 {
			ov, oerr := safeQuery(pr, "SELECT id FROM ci ORDER BY "+strings.Join(items, ", "))
			if oerr != nil || ov.RecordLen() != n {
				lawCap(o, "analytic:reference_order_error", replay(map[string]interface{}{"error": fmt.Sprint(oerr)}))
				return
			}
			for i := range order {
				order[i] = intCell(hc.ViewCell(ov, i, 0))
			}
		}
		keyIDs := map[string]int{}
		keyOf := make([]int, n)
		for _, id := range order {
			k := "-"
			gv, _ := nullOrInt(inner[id][iG])
			switch c.part {
			case 1:
				k = strconv.FormatInt(gv, 10)
			case 2:
				z, _ := nullOrInt(outer[oi][oZ])
				k = strconv.FormatInt(gv*z, 10)
			}
			kid, ok := keyIDs[k]
			if !ok {
				kid = len(keyIDs)
				keyIDs[k] = kid
			}
			keyOf[id] = kid
		}
		if c.fn == "listagg" && c.part != 0 {
			continue // cell order inside an unordered partition is the sort's business (C07), law only
		}
		a1, a2 := "-", "-"
		if c.a1 >= 0 {
			a1 = strconv.Itoa(c.a1)
			if c.a1out {
				q, _ := nullOrInt(outer[oi][oQ])
				a1 = strconv.FormatInt(q, 10)
			}
			if c.a2 == 1 {
				a2 = hc.EncVal(outer[oi][oE])
			}
		}
		ign := "0"
		if c.ign || c.fn == "countd" {
			ign = "1"
		}
		var sb strings.Builder
		fmt.Fprintf(&sb, "c17.%s %s %s %s %s %d", c.fn, a1, a2, ign, c.w.tok(), len(items))
		for _, id := range order {
			fmt.Fprintf(&sb, " %d %d", id, keyOf[id])
			for _, iv := range itemVal(id) {
				sb.WriteString(" " + cellTok(iv))
			}
			sb.WriteString(" " + hc.EncVal(c.argVal(inner[id], outer[oi])))
		}
		toks := make([]string, n)
		for j := 0; j < n; j++ {
			if c.fn == "listagg" {
				if isNull(corr[oi][j]) {
					toks[j] = "[]"
				} else {
					toks[j] = cellsTok("|"+hc.StrOf(corr[oi][j]), "|")
				}
			} else {
				toks[j] = hc.EncVal(corr[oi][j])
			}
		}
		o.Case(sb.String(), strings.Join(toks, ","))
		o.NonTrivial(fmt.Sprintf("corr|%s|arg%d|p%d|o%d|%s|ign=%v|a1out=%v|a2=%d", c.fn, c.arg, c.part, c.ord, c.w.class(), c.ign, c.a1out, c.a2))
	}
	if cerr != nil {
		// every stand-alone query succeeded (the loop `continue`d), the correlated one failed
		lawCap(o, "analytic:correlated_analytic_differs_from_substituted", replay(map[string]interface{}{"correlated_error": firstLine(cerr.Error()), "standalone": "no error for any outer row"}))
		return
	}

	// ----- the sub-query in WHERE: the outer rows whose value for inner row 0 is NULL -----
	wsql := "SELECT co.id FROM co WHERE " + subs[0] + " IS NULL"
	wv, werr := safeQuery(pr, wsql)
	if werr != nil {
		lawCap(o, "analytic:correlated_analytic_differs_from_substituted", replay(map[string]interface{}{"where_sql": wsql, "error": firstLine(werr.Error())}))
		return
	}
	gotKept := make([]int, wv.RecordLen())
	for i := range gotKept {
		gotKept[i] = intCell(hc.ViewCell(wv, i, 0))
	}
	if fmt.Sprint(gotKept) != fmt.Sprint(whereKept) {
		lawCap(o, "analytic:correlated_analytic_differs_from_substituted", replay(map[string]interface{}{"where_sql": wsql, "kept": gotKept, "expected": whereKept}))
	}
	o.Count("law:correlated_analytic_in_where")
}

func tableText3(rows [][]value.Primary, name, cols string) string {
	var sb strings.Builder
	fmt.Fprintf(&sb, "DECLARE %s VIEW (id, %s);", name, cols)
	for i, r := range rows {
		fmt.Fprintf(&sb, " INSERT INTO %s VALUES (%d", name, i)
		for _, v := range r {
			l, _ := hc.SqlLit(v)
			sb.WriteString(", " + l)
		}
		sb.WriteString(");")
	}
	return sb.String()
}
