// C17 — the session flags as a dimension of the stream (Lean side: Model/AnalyticFlags.lean, op `c17.fl:<fn>`).
//
// Every case runs `SELECT id, <fn> OVER (…) AS r FROM tf` once with @@STRICT_EQUAL off or on, over value pools that
// hold loosely-equal-but-not-identical twins in the PARTITION BY column, the ORDER BY column and the argument:
// letter case ('x' / 'X'), padding blanks ('x ' — identical to 'x', the key of a text is trimmed), spellings of one
// number ('01' / '1' / ' 1' / '1.0' / 1 / 1.0 / '1e0'), booleans next to their texts and numbers (TRUE / 'true' / 1),
// a datetime next to its text.  The model computes partition keys, peers and DISTINCT of the mode itself; the order of
// the view is the output of a separate real ORDER BY query under the same flag (C07).
// Laws on the implementation's own outputs (independent of the model):
//   analytic:strict_count_distinct_below_loose   COUNT(DISTINCT x) OVER (…) under --strict-equal ≥ without it, row by row
//                                                (Csvq.C17.strict_count_distinct_ge; only when the flag does not change
//                                                partitions or order: no PARTITION BY, ORDER BY id)
//   analytic:distinct_count_by_reference_keys    COUNT(DISTINCT x) OVER (ORDER BY id <frame>) = number of distinct
//                                                reference keys of the mode among the non-NULL cells of the frame
package main

import (
	"fmt"
	"strconv"
	"strings"
	"time"

	"github.com/mithrandie/csvq/lib/option"
	"github.com/mithrandie/csvq/lib/value"

	"verifharness/hc"
)

var flagDate = time.Date(2012, 2, 3, 0, 0, 0, 0, time.UTC)

// families of loosely equal values (one C04 key each) whose members are not all identical
var twinFamilies = [][]value.Primary{
	{value.NewString("x"), value.NewString("X"), value.NewString("x "), value.NewString(" X")},
	{value.NewString("ab"), value.NewString("AB"), value.NewString("Ab"), value.NewString("ab\t")},
	{value.NewInteger(1), value.NewString("1"), value.NewString("01"), value.NewString(" 1"), value.NewString("+1"), value.NewBoolean(true), value.NewString("true"), value.NewString("TRUE"), value.NewTernaryFromString("TRUE")},
	{value.NewFloat(1.0), value.NewString("1.0"), value.NewString("1e0"), value.NewString("1.00")},
	{value.NewInteger(2), value.NewString("2"), value.NewString("02"), value.NewString("2 ")},
	{value.NewFloat(2.5), value.NewString("2.5"), value.NewString("2.50"), value.NewString("25e-1")},
	{value.NewInteger(0), value.NewString("0"), value.NewString("00"), value.NewBoolean(false), value.NewString("false"), value.NewString("False")},
	{value.NewInteger(7), value.NewString("7"), value.NewString("07")},
	{value.NewDatetime(flagDate), value.NewString("2012-02-03"), value.NewString("2012-02-03 00:00:00"), value.NewString("2012/02/03")},
}

// what a family may hold for a given use
const (
	twAny     = iota // every value class (PARTITION BY, ORDER BY, COUNT / MIN / MAX / LISTAGG / JSON-free aggregates)
	twNumText        // texts, integers, floats: values with a STRING() form and a plain JSON form
)

func twinVal(g *hc.Gen, use int, nfam int) value.Primary {
	for {
		if g.Intn(7) == 0 {
			return value.NewNull()
		}
		fam := twinFamilies[g.Intn(nfam)]
		v := fam[g.Intn(len(fam))]
		if use == twNumText {
			switch v.(type) {
			case *value.Boolean, *value.Ternary, *value.Datetime:
				continue
			}
		}
		return v
	}
}

// reference keys written here, independent of lib/query: identical = same type and same content (a text trimmed)
func strictRef(p value.Primary) string {
	switch v := p.(type) {
	case *value.String:
		return "S" + hc.Hex(hc.TrimSpaceRef(v.Raw()))
	case *value.Integer:
		return "I" + strconv.FormatInt(v.Raw(), 10)
	case *value.Float:
		return "F" + hc.EncF(v.Raw())
	case *value.Boolean:
		return "B" + strconv.FormatBool(v.Raw())
	case *value.Ternary:
		return "T" + hc.EncT(v.Ternary())
	case *value.Datetime:
		return "D" + strconv.FormatInt(v.Raw().UnixNano(), 10)
	}
	return "N"
}

func refKey(strict bool, p value.Primary) string {
	if strict {
		return strictRef(p)
	}
	return normRef(p)
}

type flagCase struct {
	fn       string // COUNT … VARP, listagg, jsonagg, cells, rank, dense_rank, cume_dist, percent_rank, row_number, first_value, last_value
	distinct bool
	part     bool
	items    []orderItem // col 0 = k, col -1 = id
	w        window
}

func (c flagCase) over() string {
	var parts []string
	if c.part {
		parts = append(parts, "PARTITION BY p")
	}
	if len(c.items) > 0 {
		s := make([]string, len(c.items))
		for i, it := range c.items {
			s[i] = c.itemSQL(it)
		}
		parts = append(parts, "ORDER BY "+strings.Join(s, ", ")+c.w.sql())
	}
	return "OVER (" + strings.Join(parts, " ") + ")"
}

func (c flagCase) itemSQL(it orderItem) string {
	s := "k"
	if it.col < 0 {
		s = "id"
	}
	if it.desc {
		s += " DESC"
	}
	switch it.np {
	case "f":
		s += " NULLS FIRST"
	case "l":
		s += " NULLS LAST"
	}
	return s
}

func (c flagCase) call() string {
	d := ""
	if c.distinct {
		d = "DISTINCT "
	}
	switch c.fn {
	case "rank", "dense_rank", "cume_dist", "percent_rank", "row_number":
		return strings.ToUpper(c.fn) + "() " + c.over()
	case "first_value", "last_value":
		return strings.ToUpper(c.fn) + "(x) " + c.over()
	case "listagg":
		return "LISTAGG(" + d + "x, '|') " + c.over()
	case "jsonagg":
		return "JSON_AGG(" + d + "x) " + c.over()
	case "cells":
		return "cellsagg(" + d + "x) " + c.over()
	}
	return c.fn + "(" + d + "x) " + c.over()
}

var flagAggs = []string{"COUNT", "COUNT", "SUM", "AVG", "MIN", "MAX", "MEDIAN", "STDEV", "STDEVP", "VAR", "VARP", "listagg", "jsonagg", "cells", "cells"}
var flagRanks = []string{"rank", "dense_rank", "cume_dist", "percent_rank"}

func setStrict(pr *hc.Proc, b bool) { _ = pr.P.Tx.SetFlag(option.StrictEqualFlag, b) }

// flagCases: one table, several cases, each under one equality mode
func flagCases(g *hc.Gen, o *hc.Out, pr *hc.Proc, cpu int, ncases int) {
	defer setStrict(pr, false)
	nrows := []int{1, 2, 3, 4, 5, 6, 8, 10, 14, 20, 30, 45}[g.Intn(12)]
	nfam := 2 + g.Intn(len(twinFamilies)-1) // few families: many twins per frame
	use := twAny
	if g.Intn(2) == 0 {
		use = twNumText
	}
	rows := make([][]value.Primary, nrows)
	for i := range rows {
		rows[i] = []value.Primary{twinVal(g, twAny, nfam), twinVal(g, twAny, nfam), twinVal(g, use, nfam)}
	}
	if err := pr.DeclareTable("tf", []string{"p", "k", "x"}, rows); err != nil {
		lawCap(o, "analytic:declare_table_error", err.Error())
		return
	}
	defer pr.DisposeTable("tf")
	table := flagTableText(rows)
	hasFloat := false
	for _, r := range rows {
		if _, ok := r[2].(*value.Float); ok {
			hasFloat = true
		}
	}

	for ci := 0; ci < ncases; ci++ {
		var c flagCase
		strict := g.Intn(3) != 0
		rankCase := g.Intn(4) == 0
		c.part = g.Intn(2) == 0
		if rankCase {
			c.fn = flagRanks[g.Intn(len(flagRanks))]
			c.items = []orderItem{{col: 0, desc: g.Intn(2) == 0, np: g.Pick("", "", "f", "l")}}
			c.w = window{form: "order"}
		} else {
			c.fn = flagAggs[g.Intn(len(flagAggs))]
			if g.Intn(8) == 0 {
				c.fn = []string{"row_number", "first_value", "last_value"}[g.Intn(3)]
			}
			c.distinct = g.Intn(4) != 0
			if c.fn == "row_number" || c.fn == "first_value" || c.fn == "last_value" {
				c.distinct = false
			}
			if use == twAny && (c.fn == "jsonagg" || c.fn == "cells") {
				c.fn = "COUNT" // JSON text / STRING() of booleans and datetimes stay outside this stream
			}
			if c.fn == "jsonagg" && hasFloat {
				c.fn = "listagg" // a float and the equal integer are the same JSON number
			}
			switch g.Intn(4) {
			case 0: // whole partition, no ORDER BY
				c.w = window{form: "none"}
			default:
				if g.Intn(3) == 0 {
					c.items = append(c.items, orderItem{col: 0, desc: g.Intn(2) == 0, np: g.Pick("", "", "f", "l")})
				}
				c.items = append(c.items, orderItem{col: -1, desc: g.Intn(4) == 0})
				frameFn := c.fn != "listagg" && c.fn != "jsonagg" && c.fn != "row_number"
				c.w = genWindow(g, nrows, true, frameFn)
			}
		}
		// (a text key in front of `id` is generated under --strict-equal too: since fix 4d8b777 / F116 SortValue.Less
		// keeps texts that differ only in letter case apart in a fixed order and consults the following items)
		runFlagCase(g, o, pr, rows, table, c, strict, cpu)
	}
}

func flagTableText(rows [][]value.Primary) string {
	var sb strings.Builder
	sb.WriteString("DECLARE tf VIEW (id, p, k, x); ")
	if len(rows) > 0 {
		sb.WriteString("INSERT INTO tf VALUES ")
	}
	for i, r := range rows {
		if i > 0 {
			sb.WriteString(", ")
		}
		sb.WriteString("(" + strconv.Itoa(i))
		for _, p := range r {
			l, _ := hc.SqlLit(p)
			sb.WriteString(", " + l)
		}
		sb.WriteString(")")
	}
	sb.WriteString(";")
	return sb.String()
}

func runFlagCase(g *hc.Gen, o *hc.Out, pr *hc.Proc, rows [][]value.Primary, table string, c flagCase, strict bool, cpu int) {
	nrows := len(rows)
	sql := "SELECT id, " + c.call() + " AS r FROM tf"
	replay := func(extra map[string]interface{}) map[string]interface{} {
		m := map[string]interface{}{"sql": sql, "table": table, "cpu": cpu, "strict_equal": strict, "declare": strings.TrimSpace(udfDecl)}
		for k, v := range extra {
			m[k] = v
		}
		return m
	}
	setStrict(pr, strict)
	o.Count(fmt.Sprintf("flags:strict=%v", strict))
	o.Count("flags:fn:" + c.fn)

	// the order of the view: a separate real ORDER BY query under the same flag
	order := make([]int, nrows)
	for i := range order {
		order[i] = i
	}
	if len(c.items) > 0 {
		s := make([]string, len(c.items))
		for i, it := range c.items {
			s[i] = c.itemSQL(it)
		}
		ov, oerr := safeQuery(pr, "SELECT id FROM tf ORDER BY "+strings.Join(s, ", "))
		if oerr != nil || ov.RecordLen() != nrows {
			lawCap(o, "analytic:reference_order_error", replay(map[string]interface{}{"error": fmt.Sprint(oerr)}))
			return
		}
		for i := range order {
			order[i] = intCell(hc.ViewCell(ov, i, 0))
		}
	}

	v, err := safeQuery(pr, sql)
	if err != nil {
		lawCap(o, "analytic:flags:"+strings.ToLower(c.fn)+":error", replay(map[string]interface{}{"error": firstLine(err.Error())}))
		return
	}
	if v.RecordLen() != nrows {
		lawCap(o, "analytic:row_count_changed", replay(map[string]interface{}{"rows": nrows, "out": v.RecordLen()}))
		return
	}
	got := make([]value.Primary, nrows)
	for i := 0; i < nrows; i++ {
		id := intCell(hc.ViewCell(v, i, 0))
		if id < 0 || id >= nrows || got[id] != nil {
			lawCap(o, "analytic:row_count_changed", replay(map[string]interface{}{"duplicate_or_unknown_id": id}))
			return
		}
		got[id] = hc.ViewCell(v, i, 1)
	}

	// ----- the op line: rows in view order; the model derives keys, peers and DISTINCT of the mode itself -----
	npart := 0
	if c.part {
		npart = 1
	}
	b := func(x bool) string {
		if x {
			return "1"
		}
		return "0"
	}
	var sb strings.Builder
	fmt.Fprintf(&sb, "c17.fl:%s %s %s - %s %d %d", c.fn, b(strict), b(c.distinct), c.w.tok(), len(c.items), npart)
	for _, id := range order {
		fmt.Fprintf(&sb, " %d", id)
		if c.part {
			sb.WriteString(" " + hc.EncProfile(rows[id][0]))
		}
		for _, it := range c.items {
			if it.col < 0 {
				sb.WriteString(" " + cellTok(value.NewInteger(int64(id))))
			} else {
				sb.WriteString(" " + cellTok(rows[id][1]))
			}
		}
		sb.WriteString(" " + hc.EncProfile(rows[id][2]))
	}
	toks := make([]string, nrows)
	for id, r := range got {
		switch c.fn {
		case "jsonagg":
			if value.IsNull(r) {
				toks[id] = "[]"
				continue
			}
			tok, ok := jsonCellsTok(hc.StrOf(r))
			if !ok {
				lawCap(o, "analytic:json_agg:other", replay(map[string]interface{}{"id": id, "got": hc.EncVal(r)}))
				return
			}
			toks[id] = tok
		default:
			toks[id] = hc.EncVal(r)
		}
	}
	o.Case(sb.String(), strings.Join(toks, ","))
	o.NonTrivial(fmt.Sprintf("flags|%s|strict=%v|d=%v|part=%v|o%d|%s|rows<=%d", c.fn, strict, c.distinct, c.part, len(c.items), c.w.class(), sizeBand(nrows)))

	// ----- laws on the implementation's own outputs -----
	if c.fn == "COUNT" && c.distinct && !c.part && len(c.items) == 1 && c.items[0].col < 0 {
		// partitions and order do not depend on the flag here; the frame of the row at position k is known
		for k, id := range order {
			lo, hi := c.w.frame(k, nrows)
			if lo < 0 {
				lo = 0
			}
			if hi > nrows-1 {
				hi = nrows - 1
			}
			keys := map[string]bool{}
			for j := lo; j <= hi; j++ {
				if x := rows[order[j]][2]; !value.IsNull(x) {
					keys[refKey(strict, x)] = true
				}
			}
			if iv, ok := got[id].(*value.Integer); !ok || iv.Raw() != int64(len(keys)) {
				lawCap(o, "analytic:distinct_count_by_reference_keys", replay(map[string]interface{}{"id": id, "position": k, "got": hc.EncVal(got[id]), "want": len(keys)}))
				break
			}
		}
		o.Count("law:distinct_count_by_reference_keys")
		// the same query under the other mode: strict ≥ loose, row by row
		setStrict(pr, !strict)
		ov, oerr := safeQuery(pr, sql)
		setStrict(pr, strict)
		if oerr == nil && ov.RecordLen() == nrows {
			for i := 0; i < nrows; i++ {
				id := intCell(hc.ViewCell(ov, i, 0))
				a, ok1 := got[id].(*value.Integer)
				bb, ok2 := hc.ViewCell(ov, i, 1).(*value.Integer)
				if !ok1 || !ok2 {
					continue
				}
				s, l := a.Raw(), bb.Raw()
				if !strict {
					s, l = l, s
				}
				if s < l {
					lawCap(o, "analytic:strict_count_distinct_below_loose", replay(map[string]interface{}{"id": id, "strict": s, "loose": l}))
					break
				}
			}
			o.Count("law:strict_count_distinct_ge_loose")
		}
	}
}
