//go:build verif

package dml

import (
	"fmt"

	"github.com/mithrandie/csvq/lib/value"

	"verifharness/hc"
)

// SetPoison switches on the hook of lib/value (build tag verif): a discarded String / Integer / Float / Datetime
// object is overwritten with a poison value and not re-pooled, so a read of a discarded LIVE cell shows at once.
func SetPoison(on bool) bool { value.VerifSetPoison(on); return true }

var poisonTokens = []string{
	"S" + hc.Hex(value.VerifPoisonString),
	fmt.Sprintf("I%d", value.VerifPoisonInteger),
	"D-6148914691000000000",
}
