package dml

// Join TREES in the FROM clause of multi-table UPDATE / DELETE (model: lean/Csvq/Model/JoinTree.lean, ops c05.updatet /
// c05.deletet): chains and nested joins of 2-4 sources of every kind (comma, CROSS, [INNER] JOIN … ON, LEFT / RIGHT / FULL
// [OUTER], USING, NATURAL, mixed), updatable tables (file, temporary: loaded with an internal-id column) and sources
// WITHOUT internal ids (sub-queries, inline tables of a WITH clause) at every position, targets at every position.

import (
	"fmt"
	"sort"
	"strings"

	"verifharness/hc"
)

// hfield: one field of the header of a (joined) view as a statement can address it
type hfield struct {
	view, col string
	join      bool // merged column of a USING / NATURAL join: no view name, wins over equally named columns
}

type jnode struct {
	// leaf
	leaf  bool
	name  string // view name (table name, or the alias of an id-less source)
	src   string // id-less source: the table it copies ("" = updatable table)
	cols  []string
	l, r  *jnode
	kind  string // cross | on | using | natural
	dir   string // inner | left | right | full
	on    Ex
	U     []string
	comma bool // cross written as a comma
	paren bool // the left operand is written in parentheses although it need not be
	outer bool // OUTER keyword
	innerKw bool
	hdr   []hfield
	bad   bool // the join is refused (ambiguous / missing column): the header is not meaningful
}

// resolve: Header.FieldIndex for an unqualified name: 1 = found, 0 = not there, 2 = ambiguous; idx of the field
func resolve(h []hfield, c string) (int, int) {
	idx, n := -1, 0
	for i, f := range h {
		if f.col != c {
			continue
		}
		if f.join {
			return 1, i
		}
		n++
		if idx < 0 {
			idx = i
		}
	}
	if n == 0 {
		return 0, -1
	}
	if n > 1 {
		return 2, -1
	}
	return 1, idx
}

func (n *jnode) leaves() []*jnode {
	if n.leaf {
		return []*jnode{n}
	}
	return append(n.l.leaves(), n.r.leaves()...)
}

// header computes the addressable header of the node (the internal-id columns are not addressable and left out)
func (n *jnode) header() {
	if n.leaf {
		n.hdr = nil
		for _, c := range n.cols {
			n.hdr = append(n.hdr, hfield{n.name, c, false})
		}
		return
	}
	n.l.header()
	n.r.header()
	n.bad = n.l.bad || n.r.bad
	merged := append(append([]hfield{}, n.l.hdr...), n.r.hdr...)
	if n.kind == "cross" || n.kind == "on" {
		n.hdr = merged
		return
	}
	U := n.U
	if n.kind == "natural" {
		U = nil
		for _, f := range n.l.hdr {
			switch k, _ := resolve(n.r.hdr, f.col); k {
			case 1:
				U = append(U, f.col)
			case 2:
				n.bad = true
			}
		}
		n.U = U
	}
	if len(U) == 0 {
		n.bad = true
	}
	drop := map[int]bool{}
	var front []hfield
	seen := map[string]bool{}
	for _, c := range U {
		kl, il := resolve(n.l.hdr, c)
		kr, ir := resolve(n.r.hdr, c)
		if kl != 1 || kr != 1 || seen[c] {
			n.bad = true
			continue
		}
		seen[c] = true
		drop[il] = true
		drop[len(n.l.hdr)+ir] = true
		front = append(front, hfield{"", c, true})
	}
	n.hdr = front
	for i, f := range merged {
		if !drop[i] {
			n.hdr = append(n.hdr, f)
		}
	}
}

func refOf(f hfield) Ex { return Col(f.view, f.col, !f.join) }

// firstKw: the first keyword of the join as written
func (n *jnode) kw() string {
	d := map[string]string{"inner": "", "left": "LEFT ", "right": "RIGHT ", "full": "FULL "}[n.dir]
	if n.dir == "inner" && n.innerKw {
		d = "INNER "
	}
	if n.dir != "inner" && n.outer {
		d += "OUTER "
	}
	switch n.kind {
	case "cross":
		return "CROSS JOIN"
	case "natural":
		return "NATURAL " + d + "JOIN"
	}
	return d + "JOIN"
}

// sql renders the tree.  csvq's grammar gives CROSS / FULL / NATURAL / JOIN a (left) precedence but not LEFT / RIGHT / INNER:
// behind a join WITHOUT trailing condition (CROSS, NATURAL) a join that begins with LEFT / RIGHT / INNER would be read as
// the right operand's — the left operand is parenthesised there.  A right operand that is a join is always parenthesised.
func (n *jnode) sql(inline bool) string {
	if n.leaf {
		if n.src == "" || inline {
			return n.name
		}
		return fmt.Sprintf("(SELECT * FROM %s) %s", n.src, n.name)
	}
	L, R := n.l.sql(inline), n.r.sql(inline)
	if !n.r.leaf {
		R = "(" + R + ")"
	}
	if n.comma {
		return L + ", " + R
	}
	kw := n.kw()
	if !n.l.leaf {
		noTail := n.l.kind == "cross" || n.l.kind == "natural"
		first := strings.Fields(kw)[0]
		if n.l.comma || n.paren || (noTail && (first == "LEFT" || first == "RIGHT" || first == "INNER")) {
			L = "(" + L + ")"
		}
	}
	switch n.kind {
	case "on":
		return fmt.Sprintf("%s %s %s ON %s", L, kw, R, n.on.SQL)
	case "using":
		return fmt.Sprintf("%s %s %s USING (%s)", L, kw, R, strings.Join(n.U, ", "))
	}
	return fmt.Sprintf("%s %s %s", L, kw, R)
}

func (n *jnode) tok() string {
	if n.leaf {
		if n.src == "" {
			return "T " + n.name
		}
		return "S " + n.name + " " + n.src
	}
	L, R := n.l.tok(), n.r.tok()
	switch n.kind {
	case "cross":
		return "X " + L + " " + R
	case "on":
		return fmt.Sprintf("O %s %s %s %s", n.dir, n.on.Tok, L, R)
	case "using":
		return fmt.Sprintf("U %s %d %s %s %s", n.dir, len(n.U), strings.Join(n.U, " "), L, R)
	}
	return fmt.Sprintf("N %s %s %s", n.dir, L, R)
}

func (n *jnode) shape() string {
	if n.leaf {
		if n.src == "" {
			return "T"
		}
		return "S"
	}
	k := n.kind
	if n.kind != "cross" {
		k += ":" + n.dir
	}
	return "(" + n.l.shape() + " " + k + " " + n.r.shape() + ")"
}

// buildTree: a random binary tree over the leaves, mostly chains
func buildTree(g *hc.Gen, leaves []*jnode, noCross bool) *jnode {
	if len(leaves) == 1 {
		return leaves[0]
	}
	split := len(leaves) - 1 // left-deep chain
	if g.Intn(3) == 0 {
		split = 1 + g.Intn(len(leaves)-1)
	}
	n := &jnode{}
	n.l = buildTree(g, leaves[:split], noCross)
	n.r = buildTree(g, leaves[split:], noCross)
	n.l.header()
	n.r.header()
	n.paren = g.Intn(4) == 0
	n.outer = g.Intn(3) == 0
	n.innerKw = g.Intn(3) == 0
	n.dir = g.Pick("inner", "inner", "left", "right", "full")
	// columns that can be named in USING: resolvable on both sides
	var common []string
	seen := map[string]bool{}
	for _, f := range n.l.hdr {
		if seen[f.col] {
			continue
		}
		seen[f.col] = true
		kl, _ := resolve(n.l.hdr, f.col)
		kr, _ := resolve(n.r.hdr, f.col)
		if kl == 1 && kr == 1 {
			common = append(common, f.col)
		}
	}
	switch k := g.Intn(10); {
	case k < 3 && !n.l.bad && !n.r.bad:
		n.kind = "natural"
		n.header()
		if n.bad && g.Intn(6) != 0 {
			n.kind = "" // mostly joins that are accepted
		}
	case k < 6 && len(common) > 0:
		n.kind = "using"
		perm := g.Perm(len(common))
		for _, i := range perm[:1+g.Intn(len(common))] {
			n.U = append(n.U, common[i])
		}
	case k < 7 && (!noCross || g.Intn(4) == 0):
		n.kind = "cross"
	}
	if n.kind == "" {
		n.kind = "on"
		n.bad = false
		lf, rf := n.l.hdr[g.Intn(len(n.l.hdr))], n.r.hdr[g.Intn(len(n.r.hdr))]
		// prefer equally named columns (keys that actually match)
		if len(common) > 0 && (noCross || g.Intn(4) != 0) {
			c := common[g.Intn(len(common))]
			_, il := resolve(n.l.hdr, c)
			_, ir := resolve(n.r.hdr, c)
			lf, rf = n.l.hdr[il], n.r.hdr[ir]
		}
		if lf.join && rf.join && lf.col == rf.col {
			// (an unqualified name on both sides would be the same merged column twice)
			n.kind = "cross"
		} else {
			n.on = Bin("=", "eq", refOf(lf), refOf(rf))
			if g.Intn(5) == 0 {
				n.on = Bin("=", "eq", refOf(lf), Bin("+", "+", refOf(rf), Int(1)))
			}
		}
	}
	n.header()
	return n
}

// treeStmt draws one multi-table UPDATE / DELETE over a join tree of the runner's tables.
func (r *Runner) treeStmt(nLeaves int, update bool) (*Stmt, string) {
	g := r.G
	perm := g.Perm(len(r.Tabs))
	var leaves []*jnode
	used := map[string]bool{}
	nsrc := 0
	for i := 0; i < nLeaves; i++ {
		t := r.Tabs[perm[i%len(perm)]]
		if g.Intn(3) == 0 {
			t = r.Tabs[g.Intn(len(r.Tabs))]
		}
		lf := &jnode{leaf: true, name: t.Name, cols: append([]string{}, t.Cols...)}
		if used[t.Name] || g.Intn(4) == 0 {
			nsrc++
			lf.name = fmt.Sprintf("s%d", nsrc)
			lf.src = t.Name
		}
		used[t.Name] = used[t.Name] || lf.src == ""
		leaves = append(leaves, lf)
	}
	var updatable []*jnode
	for _, lf := range leaves {
		if lf.src == "" {
			updatable = append(updatable, lf)
		}
	}
	if len(updatable) == 0 {
		leaves[g.Intn(len(leaves))].src = ""
		for _, lf := range leaves {
			if lf.src == "" {
				lf.name = r.Tabs[perm[0]].Name
				lf.cols = append([]string{}, r.Tabs[perm[0]].Cols...)
				updatable = append(updatable, lf)
			}
		}
	}
	tree := buildTree(g, leaves, update) // (an UPDATE over a product writes every record several times: mostly refused)
	tree.header()
	// a comma list is the outermost level of the FROM clause only (`(a, b)` is no table); one comma: csvq's grammar refuses
	// `a, b, c` unless b is a sub-query (findings_inbox/from-comma-list)
	if !tree.leaf && tree.kind == "cross" && g.Intn(2) == 0 {
		tree.comma = true
	}
	// targets: one or two updatable leaves, in any order
	tp := g.Perm(len(updatable))
	nt := 1
	if len(updatable) > 1 && g.Intn(2) == 0 {
		nt = 2
	}
	var targets []string
	for _, i := range tp[:nt] {
		targets = append(targets, updatable[i].name)
	}
	// every updatable table of the statement is read back and compared
	var all []string
	for _, lf := range updatable {
		all = append(all, lf.name)
	}
	sort.Strings(all)
	// WHERE
	notNull := func(tn string) (Ex, bool) {
		for _, f := range tree.hdr {
			if f.view == tn && !f.join {
				return Not(IsNull(refOf(f))), true
			}
		}
		return True(), false
	}
	wh := True()
	if !tree.bad && len(tree.hdr) > 0 {
		switch g.Intn(4) {
		case 0:
			f := tree.hdr[g.Intn(len(tree.hdr))]
			wh = Bin(">=", "ge", refOf(f), Int(g.Intn(4)))
			if g.Intn(2) == 0 {
				wh = Bin("<", "lt", refOf(f), Int(1+g.Intn(12)))
			}
		case 1, 2:
			// only the joined records in which every target has a record
			first := true
			for _, tn := range targets {
				if e, ok := notNull(tn); ok {
					if first {
						wh = e
					} else {
						wh = Bin("AND", "and", wh, e)
					}
					first = false
				}
			}
		}
	}
	inline := nsrc > 0 && g.Intn(2) == 0
	with := ""
	if inline {
		var ws []string
		for _, lf := range leaves {
			if lf.src != "" {
				ws = append(ws, fmt.Sprintf("%s AS (SELECT * FROM %s)", lf.name, lf.src))
			}
		}
		if len(ws) > 0 {
			with = "WITH " + strings.Join(ws, ", ") + " "
		}
	}
	from := tree.sql(inline)
	st := &Stmt{Targets: all, Wrap: "plain", Outer: "tree"}
	if !update {
		st.Kind = "deletem"
		st.SQL = fmt.Sprintf("%sDELETE %s FROM %s WHERE %s", with, strings.Join(targets, ", "), from, wh.SQL)
		st.Op = fmt.Sprintf("deletet %d %s %s %s", len(targets), strings.Join(targets, " "), tree.tok(), wh.Tok)
		return st, tree.shape()
	}
	st.Kind = "updatem"
	var ss, stk []string
	for _, tn := range targets {
		var free []hfield
		for _, f := range tree.hdr {
			if f.view == tn && !f.join {
				free = append(free, f)
			}
		}
		if tree.bad || len(free) == 0 {
			// (the statement is refused anyway, or every column of the target is a join column)
			var lf *jnode
			for _, x := range updatable {
				if x.name == tn {
					lf = x
				}
			}
			free = []hfield{{tn, lf.cols[g.Intn(len(lf.cols))], false}}
		}
		k := 1
		if len(free) > 1 && g.Intn(3) == 0 {
			k = 2
		}
		fp := g.Perm(len(free))
		for _, i := range fp[:k] {
			f := free[i]
			var e Ex
			if !tree.bad && len(tree.hdr) > 0 && g.Intn(4) != 0 {
				e = Bin("+", "+", refOf(tree.hdr[g.Intn(len(tree.hdr))]), Int(1000*(1+g.Intn(9))))
			} else {
				e = Int(7000 + g.Intn(100))
			}
			ss = append(ss, tn+"."+f.col+" = "+e.SQL)
			stk = append(stk, tn+" "+f.col+" "+e.Tok)
		}
	}
	st.SQL = fmt.Sprintf("%sUPDATE %s SET %s FROM %s WHERE %s", with, strings.Join(targets, ", "), strings.Join(ss, ", "), from, wh.SQL)
	st.Op = fmt.Sprintf("updatet %d %s %s %d %s %s", len(targets), strings.Join(targets, " "), tree.tok(), len(stk), strings.Join(stk, " "), wh.Tok)
	return st, tree.shape()
}

// handTree: a statement of the corpus written by hand
func handTree(kind, sql, op string, all ...string) *Stmt {
	return &Stmt{Kind: kind, SQL: sql, Op: op, Targets: all, Wrap: "plain", Outer: "tree"}
}

// TreeJoinCorpus (c05, on every run): multi-table UPDATE / DELETE over join trees of depth 2-3.  First the chained NATURAL
// joins whose left operand is itself a join or begins with a source without internal id (the internal-id columns of the
// left operand are no join keys, wherever they stand), then `count` drawn statements: every join kind at every level,
// updatable tables and id-less sources (sub-queries, inline tables) first / in the middle / last, one or two targets at any
// position.  After every statement EVERY updatable table of its FROM clause is read back and compared with the model, with
// the reported counts; most statements are followed by ROLLBACK, some runs of statements carry their state.
func TreeJoinCorpus(g *hc.Gen, o *hc.Out, root string, count int) {
	f1 := [][]int{{0, 100, 0}, {1, 101, 1}, {2, 102, 2}, {3, 103, 3}, {4, 104, 9}}
	m2 := [][]int{{1, 10, 200}, {2, 11, 201}, {6, 12, 202}, {5, 13, 203}, {3, 10, 204}}
	f3 := [][]int{{10, 300, 0}, {11, 301, 1}, {12, 302, 7}, {14, 303, 3}}
	m4 := [][]int{{0, 400}, {1, 401}, {3, 402}, {4, 403}, {8, 404}}
	r := newFixedRunner(g, o, root, "corpus-tree", []fixedTab{
		{"f1", true, []string{"id", "a", "k"}, f1}, {"m2", false, []string{"id", "w", "b"}, m2},
		{"f3", true, []string{"w", "z", "k"}, f3}, {"m4", false, []string{"k", "c"}, m4},
	})
	r.OnlyFailureLaws = false
	r.dropTwin()
	defer r.Close()
	run := func(st *Stmt, tag string) {
		out := r.Exec(st, 0)
		o.Count("corpus:tree_join:" + st.Kind)
		res := "ok"
		if out.Err != nil {
			res = fmt.Sprintf("E%d", ErrNum(out.Err))
		}
		o.Count("corpus:tree_join:" + res)
		o.NonTrivial(fmt.Sprintf("tree:%s:%s:%s:%s", st.Kind, tag, res, countsStr(out.Counts)))
	}
	tt := True().Tok
	zge := Bin(">=", "ge", Col("", "z", false), Int(301))
	hand := []*Stmt{
		handTree("deletem", "DELETE f1, m2 FROM f1 NATURAL JOIN m2 NATURAL JOIN f3 WHERE "+zge.SQL,
			"deletet 2 f1 m2 N inner N inner T f1 T m2 T f3 "+zge.Tok, "f1", "f3", "m2"),
		handTree("updatem", "UPDATE f1 SET f1.a = f3.z FROM f1 NATURAL JOIN m2 NATURAL JOIN f3",
			"updatet 1 f1 N inner N inner T f1 T m2 T f3 1 f1 a $f3.z "+tt, "f1", "f3", "m2"),
		handTree("deletem", "WITH s1 AS (SELECT * FROM m4) DELETE f1 FROM s1 NATURAL JOIN f3 NATURAL JOIN f1",
			"deletet 1 f1 N inner N inner S s1 m4 T f3 T f1 "+tt, "f1", "f3"),
		handTree("deletem", "DELETE f3 FROM (SELECT * FROM m4) s1 NATURAL JOIN f1 NATURAL LEFT JOIN f3",
			"deletet 1 f3 N left N inner S s1 m4 T f1 T f3 "+tt, "f1", "f3"),
		handTree("updatem", "UPDATE m2, f3 SET m2.b = f3.z, f3.z = m2.b FROM f1 JOIN m2 USING (id) NATURAL JOIN f3",
			"updatet 2 m2 f3 N inner U inner 1 id T f1 T m2 T f3 2 m2 b $f3.z f3 z $m2.b "+tt, "f1", "f3", "m2"),
	}
	for i, st := range hand {
		run(st, fmt.Sprintf("hand%d", i))
		if len(Marks(r.Pr)) > 2 {
			r.Rollback()
		}
	}
	carry := 0
	for i := 0; i < count; i++ {
		nLeaves := 3
		switch g.Intn(6) {
		case 0:
			nLeaves = 2
		case 1, 2:
			nLeaves = 4
		}
		st, shape := r.treeStmt(nLeaves, g.Intn(2) == 0)
		run(st, shape)
		if carry > 0 {
			carry--
			continue
		}
		if len(Marks(r.Pr)) > 2 {
			r.Rollback()
		}
		if g.Intn(8) == 0 {
			carry = 2 // the next statements see what this run of statements leaves
		}
	}
}
