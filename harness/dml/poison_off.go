//go:build !verif

package dml

func SetPoison(on bool) bool { return false }

var poisonTokens = []string{}
