// Package dml: generator, runner and direct laws shared by the C05 and C08 stream binaries.
//
// Every statement is rendered twice: as csvq program text (run by the REAL processor, in-process) and as
// a prefix-notation op line for the Lean model driver (lean/Csvq/Drive/C05.lean).
package dml

import (
	"context"
	"encoding/hex"
	"fmt"
	"io"
	"os"
	"path/filepath"
	"reflect"
	"regexp"
	"sort"
	"strconv"
	"strings"
	"sync/atomic"
	"time"

	"github.com/mithrandie/csvq/lib/option"
	"github.com/mithrandie/csvq/lib/query"
	"github.com/mithrandie/csvq/lib/value"
	"github.com/mithrandie/ternary"

	"verifharness/hc"
)

// ---------- expressions: SQL text + model tokens ----------

type Ex struct{ SQL, Tok string }

func Lit(p value.Primary) Ex {
	s, ok := hc.SqlLit(p)
	if !ok {
		panic("literal without spelling")
	}
	return Ex{s, "=" + hc.EncProfile(p)}
}
func Int(i int) Ex { return Lit(value.NewInteger(int64(i))) }
func True() Ex     { return Lit(value.NewTernary(ternary.TRUE)) }
func Col(tbl, name string, qualified bool) Ex {
	if qualified {
		return Ex{tbl + "." + name, "$" + tbl + "." + name}
	}
	return Ex{name, "$" + name}
}
func Bin(sqlOp, tokOp string, a, b Ex) Ex {
	return Ex{"(" + a.SQL + " " + sqlOp + " " + b.SQL + ")", tokOp + " " + a.Tok + " " + b.Tok}
}
func Not(a Ex) Ex    { return Ex{"(NOT " + a.SQL + ")", "not " + a.Tok} }
func IsNull(a Ex) Ex { return Ex{"(" + a.SQL + " IS NULL)", "isnull " + a.Tok} }

// CellOf: the scalar sub-query (SELECT col FROM tbl WHERE id = k): NULL, the cell, or "too many records"
func CellOf(tbl, col string, k int) Ex {
	return Ex{fmt.Sprintf("(SELECT %s FROM %s WHERE id = %d)", col, tbl, k), fmt.Sprintf("cell %s %s %s", tbl, col, Int(k).Tok)}
}

// scalar sub-query around an expression: same value, evaluated through Select
// (FROM DUAL: a SELECT without FROM reads the session's STDIN table when there is one)
func SubQ(a Ex) Ex { return Ex{"(SELECT " + a.SQL + " FROM DUAL)", a.Tok} }

// ---------- tables ----------

const (
	KInt = 0
	KStr = 1
)

type Tab struct {
	Name  string
	File  bool
	Stdin bool // the session's STDIN table: in memory, neither a file nor a DECLAREd temporary table
	// Opaque: a file that a plain `SELECT * FROM name` does not parse the way this transaction loaded it (first access through
	// a table function with non-default options): after a COMMIT only its bytes are compared with the control run
	Opaque bool
	// Ext: the extension of the table's file ("" = .csv); LoadSQL: the statement through which the table is first accessed in
	// every transaction (a table function carrying the format attributes a plain name does not imply); after COMMIT and
	// ROLLBACK — which empty the view cache — it is run again on the main and the control processor
	Ext     string
	LoadSQL string
	Cols    []string
	Kind    map[string]int
	NextID  int
	fresh   int
}

func (t *Tab) FileName() string {
	if t.Ext == "" {
		return t.Name + ".csv"
	}
	return t.Name + t.Ext
}

func (t *Tab) dataCols() []string {
	var out []string
	for _, c := range t.Cols {
		if c != "id" {
			out = append(out, c)
		}
	}
	return out
}

func (t *Tab) colsOfKind(k int) []string {
	var out []string
	for _, c := range t.dataCols() {
		if t.Kind[c] == k {
			out = append(out, c)
		}
	}
	return out
}

type Snap struct {
	Header []string
	Rows   [][]string // hc.EncVal of every cell
	IDs    []string
}

// CanonID: the id cell as text, whatever its type (file cells are strings, computed cells integers).
func CanonID(enc string) string {
	if strings.HasPrefix(enc, "S") {
		if b, err := hex.DecodeString(enc[1:]); err == nil {
			return string(b)
		}
	}
	if strings.HasPrefix(enc, "I") {
		return enc[1:]
	}
	return enc
}

func (s *Snap) Dump(name string) string {
	rows := make([]string, len(s.Rows))
	for i, r := range s.Rows {
		rows[i] = strings.Join(r, ",")
	}
	return name + "[" + strings.Join(s.Header, ",") + "]" + strings.Join(rows, ";")
}

func (s *Snap) Equal(o *Snap) bool { return s.Dump("") == o.Dump("") }

func (s *Snap) col(name string) int {
	for i, c := range s.Header {
		if c == name {
			return i
		}
	}
	return -1
}

// ---------- runner ----------

type Runner struct {
	G    *hc.Gen
	O    *hc.Out
	Dir  string
	Pr   *hc.Proc
	Tabs []*Tab
	CPU  int
	// twin (C08): a control processor on a copy of the repository that only runs the statements that succeeded
	TwinDir string
	Twin    *hc.Proc
	created int
	// OnlyFailureLaws (stream c08): the frame / count laws of C05 are not evaluated, only the laws about failed statements
	OnlyFailureLaws bool
	// Wraps: probability (in 1/100) that a statement is executed inside a nested block / function / prepared statement
	Wraps int
	// Poison: value.VerifSetPoison is on for this runner (discarded value objects are overwritten)
	Poison            bool
	afterFailedCommit bool
	commitLaw         bool // a law about COMMIT failed in this runner
	ReloadEachAttempt bool // ScanCancel: ROLLBACK before every attempt
	// SessionObjs: a variable, a function, an open cursor and the failing-body functions vfa…vfd were declared in the block
	// that runs the statements; a failed statement must leave them all in place
	// NumRefs: probability (1/100) that a column is addressed by number (t.N) instead of by name
	NumRefs        int
	SessionObjs    bool
	sessTag        string
	pendingCreated []string // tables CREATEd since the last COMMIT / ROLLBACK (their files exist, locked, uncommitted)
}

var wrapSeq int64

// shortWait: a lock time-out was already reported in this run
var shortWait bool

func applyWait(prs ...*hc.Proc) {
	if shortWait {
		for _, pr := range prs {
			if pr != nil {
				pr.P.Tx.WaitTimeout = 200 * time.Millisecond
			}
		}
	}
}

var WrapKinds = []string{"if", "if2", "while", "func", "prepare"}

// Program renders the statement inside the nested block st.Wrap.  Blocks, loops and function bodies run in a
// child scope of the one that declared the temporary tables; the table is read back after the block has ended.
func Program(sql, wrap string) string {
	n := atomic.AddInt64(&wrapSeq, 1)
	switch wrap {
	case "if":
		return fmt.Sprintf("IF TRUE THEN %s; END IF;", sql)
	case "if2":
		return fmt.Sprintf("IF TRUE THEN IF FALSE THEN SELECT 1; ELSE %s; END IF; END IF;", sql)
	case "while":
		return fmt.Sprintf("VAR @vw%d := 0; WHILE @vw%d < 1 DO %s; @vw%d := @vw%d + 1; END WHILE;", n, n, sql, n, n)
	case "func":
		return fmt.Sprintf("DECLARE vfn%d FUNCTION () AS BEGIN %s; RETURN 1; END; SELECT vfn%d() FROM DUAL;", n, sql, n)
	case "prepare":
		return fmt.Sprintf("PREPARE vps%d FROM %s; EXECUTE vps%d; DISPOSE PREPARE vps%d;", n, option.QuoteString(sql), n, n)
	}
	return sql + ";"
}

func (r *Runner) Tab(name string) *Tab {
	for _, t := range r.Tabs {
		if t.Name == name {
			return t
		}
	}
	return nil
}

func SnapOf(pr *hc.Proc, name string) (*Snap, []value.Primary, error) {
	v, err := pr.Query("SELECT * FROM " + name)
	if err != nil {
		return nil, nil, err
	}
	s := &Snap{}
	for _, h := range v.Header {
		s.Header = append(s.Header, h.Column)
	}
	idc := s.col("id")
	var cells []value.Primary
	for i := 0; i < v.RecordLen(); i++ {
		row := make([]string, len(s.Header))
		for j := range row {
			c := hc.ViewCell(v, i, j)
			row[j] = hc.EncVal(c)
			cells = append(cells, c)
		}
		s.Rows = append(s.Rows, row)
		if idc >= 0 {
			s.IDs = append(s.IDs, CanonID(row[idc]))
		} else {
			s.IDs = append(s.IDs, "")
		}
	}
	return s, cells, nil
}

func (r *Runner) snap(name string) *Snap {
	s, _, err := SnapOf(r.Pr, name)
	if err != nil {
		r.O.Law("select_star_failed", map[string]string{"table": name, "error": err.Error()})
		return &Snap{}
	}
	return s
}

func (r *Runner) snapAll() map[string]*Snap {
	m := map[string]*Snap{}
	for _, t := range r.Tabs {
		m[t.Name] = r.snap(t.Name)
	}
	return m
}

// Marks: the names in Tx.UncommittedViews, sorted.
func Marks(pr *hc.Proc) string {
	var names []string
	add := func(m map[string]*query.FileInfo) {
		for _, fi := range m {
			b := filepath.Base(fi.Path)
			b = strings.TrimSuffix(b, filepath.Ext(b))
			names = append(names, strings.ToLower(b))
		}
	}
	add(pr.P.Tx.UncommittedViews.Created)
	add(pr.P.Tx.UncommittedViews.Updated)
	sort.Strings(names)
	return "m=" + strings.Join(names, ",")
}

// FileInfos: EVERYTHING csvq holds about the tables it has loaded — every exported field of query.FileInfo (format, delimiter,
// delimiter positions, single-line, JSON query, encoding, line break, header, enclose-all, JSON escape, pretty print, view
// type; fields added later are picked up by reflection) — by table: the cached file tables and the temporary tables of
// every block.  Not listed: the path, the handler and the for-update flag (a failing statement may legitimately have taken
// the lock of a table that was cached read-only).
func FileInfos(pr *hc.Proc) map[string]string {
	m := map[string]string{}
	add := func(prefix string, vm query.ViewMap) {
		if vm.IsEmpty() {
			return
		}
		vm.Range(func(_, v interface{}) bool {
			view, ok := v.(*query.View)
			if !ok || view == nil || view.FileInfo == nil {
				return true
			}
			fi := view.FileInfo
			b := filepath.Base(fi.Path)
			key := prefix + strings.ToLower(strings.TrimSuffix(b, filepath.Ext(b)))
			rv := reflect.ValueOf(*fi)
			var fs []string
			for i := 0; i < rv.NumField(); i++ {
				f := rv.Type().Field(i)
				if f.PkgPath != "" || f.Name == "Path" || f.Name == "Handler" || f.Name == "ForUpdate" {
					continue
				}
				fs = append(fs, fmt.Sprintf("%s=%v", f.Name, rv.Field(i).Interface()))
			}
			m[key] = strings.Join(fs, " ")
			return true
		})
	}
	add("", pr.P.Tx.CachedViews)
	for i, b := range pr.P.ReferenceScope.Blocks {
		add(fmt.Sprintf("temp%d:", i), b.TemporaryTables)
	}
	return m
}

// cachedForUpdate: for every cached file table, whether it is held for update (locked) or was only read
func cachedForUpdate(pr *hc.Proc) map[string]bool {
	m := map[string]bool{}
	if pr.P.Tx.CachedViews.IsEmpty() {
		return m
	}
	pr.P.Tx.CachedViews.Range(func(_, v interface{}) bool {
		if view, ok := v.(*query.View); ok && view != nil && view.FileInfo != nil {
			b := filepath.Base(view.FileInfo.Path)
			m[strings.ToLower(strings.TrimSuffix(b, filepath.Ext(b)))] = view.FileInfo.ForUpdate
		}
		return true
	})
	return m
}

// isLoadFailure: the statement failed while it was (re)loading a table: cancellation / lock wait time-out
func isLoadFailure(err error) bool {
	n := ErrNum(err)
	return n == query.ErrorContextCanceled || n == query.ErrorContextDone || n == query.ErrorFileLockTimeout
}

var logRe = regexp.MustCompile(`^(no|\d+) (?:record|field)s? (?:inserted|updated|deleted|replaced|added|dropped|renamed) on "(.*)"\.$`)

// Counts parses the affected-row log lines csvq printed for the statement.
func Counts(stdout string) map[string]int {
	m := map[string]int{}
	for _, line := range strings.Split(stdout, "\n") {
		line = strings.TrimSpace(line)
		g := logRe.FindStringSubmatch(line)
		if g == nil {
			continue
		}
		n := 0
		if g[1] != "no" {
			n, _ = strconv.Atoi(g[1])
		}
		b := filepath.Base(g[2])
		b = strings.ToLower(strings.TrimSuffix(b, filepath.Ext(b)))
		m[b] = n
	}
	return m
}

func countsStr(m map[string]int) string {
	var ks []string
	for k, v := range m {
		ks = append(ks, fmt.Sprintf("%s:%d", k, v))
	}
	sort.Strings(ks)
	return strings.Join(ks, ",")
}

// ---------- set-up of one sequence ----------

var rowBands = []int{0, 1, 2, 3, 3, 5, 5, 8, 8, 12, 20, 20, 60, 150, 400}

func (r *Runner) cellFor(kind int) value.Primary {
	g := r.G
	if g.Intn(8) == 0 {
		return value.NewNull()
	}
	if kind == KInt {
		return value.NewInteger(int64(g.Intn(9) - 2))
	}
	return value.NewString(fmt.Sprintf("k%d", g.Intn(6)))
}

func csvText(p value.Primary) string {
	switch v := p.(type) {
	case *value.Null:
		return ""
	case *value.Integer:
		return strconv.FormatInt(v.Raw(), 10)
	case *value.String:
		return v.Raw()
	}
	panic("csvText")
}

// NewSequence creates the scratch repository, 1-3 tables (file-backed and temporary) and the processors.
func NewSequence(g *hc.Gen, o *hc.Out, root string, seqNo int, twin bool, maxRows int) *Runner {
	r := &Runner{G: g, O: o}
	r.Dir = filepath.Join(root, fmt.Sprintf("seq%d", seqNo))
	_ = os.MkdirAll(r.Dir, 0o755)
	if twin {
		r.TwinDir = filepath.Join(root, fmt.Sprintf("seq%d-twin", seqNo))
		_ = os.MkdirAll(r.TwinDir, 0o755)
	}
	ntab := 1 + g.Intn(3)
	colPool := [][]string{{"a", "b", "c"}, {"e", "f", "h"}, {"p", "q", "r"}}
	type decl struct {
		t    *Tab
		rows [][]value.Primary
	}
	var decls []decl
	stdinAt := -1
	if g.Intn(3) == 0 {
		stdinAt = g.Intn(ntab)
	}
	for k := 0; k < ntab; k++ {
		t := &Tab{Name: fmt.Sprintf("t%d", k+1), File: g.Intn(5) < 3, Kind: map[string]int{"id": KInt}}
		if k == stdinAt {
			t.Name, t.File, t.Stdin = "stdin", false, true
		}
		nc := 1 + g.Intn(3)
		t.Cols = []string{"id"}
		for j := 0; j < nc; j++ {
			c := colPool[k][j]
			t.Cols = append(t.Cols, c)
			t.Kind[c] = KInt
			if j > 0 && g.Intn(3) == 0 {
				t.Kind[c] = KStr
			}
		}
		n := rowBands[g.Intn(len(rowBands))]
		if n > maxRows {
			n = maxRows
		}
		if k > 0 && n > 20 {
			n = 3 + g.Intn(10) // joins: keep the product small
		}
		rows := make([][]value.Primary, n)
		for i := range rows {
			rows[i] = make([]value.Primary, len(t.Cols))
			rows[i][0] = value.NewInteger(int64(i))
			for j := 1; j < len(t.Cols); j++ {
				rows[i][j] = r.cellFor(t.Kind[t.Cols[j]])
			}
		}
		t.NextID = n
		decls = append(decls, decl{t, rows})
		r.Tabs = append(r.Tabs, t)
		if t.File {
			// stream c08 (control run present): a third of the file tables is NOT a comma-separated LF file named by its
			// plain name — another delimiter (first access through the CSV table function), tab-separated (.tsv), CRLF
			// line breaks: their attributes live in the FileInfo only and decide the bytes a COMMIT writes
			sep, lb := ",", "\n"
			if twin {
				switch g.Intn(9) {
				case 0:
					sep = ";"
					t.Opaque = true
					t.LoadSQL = fmt.Sprintf("SELECT * FROM CSV(';', `%s.csv`);", t.Name)
				case 1:
					sep, t.Ext = "\t", ".tsv"
				case 2:
					lb = "\r\n"
				}
			}
			var sb strings.Builder
			sb.WriteString(strings.Join(t.Cols, sep) + lb)
			for _, row := range rows {
				cs := make([]string, len(row))
				for j, c := range row {
					cs[j] = csvText(c)
				}
				sb.WriteString(strings.Join(cs, sep) + lb)
			}
			_ = os.WriteFile(filepath.Join(r.Dir, t.FileName()), []byte(sb.String()), 0o644)
			if twin {
				_ = os.WriteFile(filepath.Join(r.TwinDir, t.FileName()), []byte(sb.String()), 0o644)
			}
			o.Count("file_format:" + map[string]string{",": "csv", ";": "csv_semicolon", "\t": "tsv"}[sep] + map[string]string{"\n": "", "\r\n": "_crlf"}[lb])
		}
	}
	r.CPU = 1 + g.Intn(4)
	mk := func(dir string) *hc.Proc {
		pr := hc.NewProc(dir)
		pr.SetCPU(r.CPU)
		for _, d := range decls {
			if d.t.File {
				continue
			}
			if d.t.Stdin {
				var sb strings.Builder
				sb.WriteString(strings.Join(d.t.Cols, ",") + "\n")
				for _, row := range d.rows {
					cs := make([]string, len(row))
					for j, c := range row {
						cs[j] = csvText(c)
					}
					sb.WriteString(strings.Join(cs, ",") + "\n")
				}
				if err := pr.P.Tx.Session.SetStdin(io.NopCloser(strings.NewReader(sb.String()))); err != nil {
					o.Law("setup_failed", err.Error())
				}
				continue
			}
			var sb strings.Builder
			fmt.Fprintf(&sb, "DECLARE %s VIEW (%s);", d.t.Name, strings.Join(d.t.Cols, ", "))
			for start := 0; start < len(d.rows); start += 100 {
				end := start + 100
				if end > len(d.rows) {
					end = len(d.rows)
				}
				fmt.Fprintf(&sb, "INSERT INTO %s VALUES ", d.t.Name)
				for i := start; i < end; i++ {
					if i > start {
						sb.WriteString(", ")
					}
					ls := make([]string, len(d.rows[i]))
					for j, c := range d.rows[i] {
						ls[j], _ = hc.SqlLit(c)
					}
					sb.WriteString("(" + strings.Join(ls, ", ") + ")")
				}
				sb.WriteString(";")
			}
			sb.WriteString("COMMIT;")
			if _, err := pr.Exec(sb.String()); err != nil {
				o.Law("setup_failed", err.Error())
			}
		}
		return pr
	}
	r.Pr = mk(r.Dir)
	if twin {
		r.Twin = mk(r.TwinDir)
	}
	o.Case("c05.reset", "ok")
	for _, t := range r.Tabs {
		if t.LoadSQL != "" {
			r.reload(t)
		}
		r.SendTable(t)
	}
	return r
}

// SendTable tells the model what the implementation currently holds for t (cells with their coercion profiles).
func (r *Runner) SendTable(t *Tab) {
	s, cells, err := SnapOf(r.Pr, t.Name)
	if err != nil {
		r.O.Law("select_star_failed", map[string]string{"table": t.Name, "error": err.Error()})
		return
	}
	toks := make([]string, len(cells))
	for i, c := range cells {
		toks[i] = hc.EncProfile(c)
	}
	op := fmt.Sprintf("c05.table %s %d %s %s", t.Name, len(s.Header), strings.Join(s.Header, " "), strings.Join(toks, " "))
	r.O.Case(op, s.Dump(t.Name))
}

func (r *Runner) Close() {
	r.Pr.Close()
	if r.Twin != nil {
		r.Twin.Close()
	}
	_ = os.RemoveAll(r.Dir)
	if r.TwinDir != "" {
		_ = os.RemoveAll(r.TwinDir)
	}
}

// ---------- statements ----------

type Fault struct {
	Kind string // "" | div | len | field | dup | where | subq | keynotset | keyfield | pos | cancel | exists
	Row  int    // the id of the record at which evaluation fails (or the VALUES row index)
}

type Stmt struct {
	Kind    string
	SQL     string
	Op      string // without the "c05." prefix; "" = not sent to the model (law-only)
	Targets []string
	Fault   *Fault
	// separate real queries run BEFORE the statement: ids of the records the statement is said to touch
	MatchSQL map[string]string
	// Check: direct laws on the implementation's own before/after tables; returns the names of failed laws
	NewTable string // CREATE TABLE: the table that exists after success
	// Wrap: the nested block the statement is executed in ("" = drawn by the runner, "plain" = top level,
	// if | if2 | while | func | prepare); Prog: the program text that was actually run
	Wrap  string
	Prog  string
	Outer string // multi-table statement over an outer join: left | right | full
	Check func(before, after map[string]*Snap, matched map[string][]string, counts map[string]int) []string
	After func() // bookkeeping after success (new columns, next id …)
}

func fk(f *Fault) string {
	if f == nil {
		return ""
	}
	return f.Kind
}

func (r *Runner) litFor(kind int) value.Primary { return r.cellFor(kind) }

type cref struct {
	tbl, name string
	kind      int
	q         bool
	num       int
}

func (r *Runner) crefs(tabs []*Tab, q bool) []cref {
	var out []cref
	for _, t := range tabs {
		for i, c := range t.Cols {
			n := 0
			if r.NumRefs > 0 && r.G.Intn(100) < r.NumRefs {
				n = i + 1
			}
			out = append(out, cref{tbl: t.Name, name: c, kind: t.Kind[c], q: q, num: n})
		}
	}
	return out
}

// (num > 0: the column is addressed by its NUMBER, `table.N`; the model token stays the name the column has at that position)
func (c cref) ex() Ex {
	e := Col(c.tbl, c.name, c.q)
	if c.num > 0 {
		e.SQL = fmt.Sprintf("%s.%d", c.tbl, c.num)
	}
	return e
}

// nref: the column `c` of t for program text — by name, or (a quarter of the time) by its number `t.N`
func (r *Runner) nref(t *Tab, c string) string {
	if r.NumRefs > 0 && r.G.Intn(100) < r.NumRefs {
		for i, x := range t.Cols {
			if x == c {
				return fmt.Sprintf("%s.%d", t.Name, i+1)
			}
		}
	}
	return c
}

func (r *Runner) atom(cs []cref) Ex {
	g := r.G
	c := cs[g.Intn(len(cs))]
	switch g.Intn(9) {
	case 0:
		return IsNull(c.ex())
	case 1:
		return True()
	case 2:
		if c.kind == KInt {
			return Bin("=", "eq", Bin("%", "%", c.ex(), Int(2)), Int(g.Intn(2)))
		}
	case 3, 4:
		op := [][2]string{{"<", "lt"}, {">=", "ge"}, {"<=", "le"}, {">", "gt"}}[g.Intn(4)]
		return Bin(op[0], op[1], c.ex(), Lit(r.litFor(c.kind)))
	}
	ops := [][2]string{{"=", "eq"}, {"<", "lt"}, {">=", "ge"}, {"<>", "ne"}, {"<=", "le"}, {">", "gt"}}
	op := ops[g.Intn(len(ops))]
	lit := r.litFor(c.kind)
	if c.name == "id" {
		lit = value.NewInteger(int64(g.Intn(12)))
	}
	return Bin(op[0], op[1], c.ex(), Lit(lit))
}

func (r *Runner) cond(cs []cref, depth int) Ex {
	g := r.G
	if depth > 0 && g.Intn(3) == 0 {
		switch g.Intn(3) {
		case 0:
			return Bin("AND", "and", r.cond(cs, depth-1), r.cond(cs, depth-1))
		case 1:
			return Bin("OR", "or", r.cond(cs, depth-1), r.cond(cs, depth-1))
		}
		return Not(r.cond(cs, depth-1))
	}
	return r.atom(cs)
}

// value expression for a column of the given kind, over the columns cs
func (r *Runner) valueEx(kind int, cs []cref, risky bool) Ex {
	g := r.G
	var same []cref
	for _, c := range cs {
		if c.kind == kind {
			same = append(same, c)
		}
	}
	if kind == KStr {
		if len(same) > 0 && g.Intn(3) == 0 {
			return same[g.Intn(len(same))].ex()
		}
		return Lit(r.litFor(KStr))
	}
	if len(same) == 0 {
		return Lit(r.litFor(KInt))
	}
	c := same[g.Intn(len(same))]
	switch g.Intn(7) {
	case 0:
		return c.ex()
	case 1:
		return Bin("+", "+", c.ex(), Int(1+g.Intn(3)))
	case 2:
		return Bin("*", "*", c.ex(), Int(2))
	case 3:
		return Bin("-", "-", c.ex(), same[g.Intn(len(same))].ex())
	case 4:
		if risky {
			return Bin("/", "/", Int(12), c.ex())
		}
	}
	return Lit(r.litFor(KInt))
}

// the expression that fails with a division by zero exactly at the record whose id is row
func failAt(idcol Ex, row int) Ex { return Bin("/", "/", Int(1), Bin("-", "-", idcol, Int(row))) }

func toks(xs []Ex) string {
	s := make([]string, len(xs))
	for i, x := range xs {
		s[i] = x.Tok
	}
	return strings.Join(s, " ")
}
func sqls(xs []Ex) string {
	s := make([]string, len(xs))
	for i, x := range xs {
		s[i] = x.SQL
	}
	return strings.Join(s, ", ")
}

func fieldsTok(fs []string) string {
	if fs == nil {
		return "-"
	}
	return strings.TrimSpace(fmt.Sprintf("%d %s", len(fs), strings.Join(fs, " ")))
}

func inList(x string, xs []string) bool {
	for _, y := range xs {
		if x == y {
			return true
		}
	}
	return false
}

func uniq(xs []string) []string {
	seen := map[string]bool{}
	var out []string
	for _, x := range xs {
		if !seen[x] {
			seen[x] = true
			out = append(out, x)
		}
	}
	return out
}

func sameRows(a, b [][]string) bool {
	if len(a) != len(b) {
		return false
	}
	for i := range a {
		if strings.Join(a[i], ",") != strings.Join(b[i], ",") {
			return false
		}
	}
	return true
}

func sameStrs(a, b []string) bool {
	return strings.Join(a, "\x00") == strings.Join(b, "\x00") && len(a) == len(b)
}

// ----- INSERT / REPLACE -----

func (r *Runner) genInsert(t *Tab, f *Fault, replace bool) *Stmt {
	g := r.G
	var fields []string // nil = all columns
	cols := t.Cols
	if g.Intn(5) < 3 || fk(f) == "field" || fk(f) == "keynotset" {
		fields = []string{"id"}
		for _, c := range t.dataCols() {
			if g.Intn(3) > 0 {
				fields = append(fields, c)
			}
		}
		g.Shuffle(len(fields), func(i, j int) { fields[i], fields[j] = fields[j], fields[i] })
		cols = fields
	}
	var keys []string
	if replace {
		keys = []string{"id"}
		ints := t.colsOfKind(KInt)
		if len(ints) > 0 && g.Intn(8) == 0 {
			k := ints[g.Intn(len(ints))]
			if inList(k, cols) {
				if g.Intn(2) == 0 {
					keys = []string{k}
				} else {
					keys = []string{"id", k}
				}
			}
		}
	}
	m := 1 + g.Intn(4)
	if g.Intn(6) == 0 {
		m = 5 + g.Intn(40)
	}
	rows := make([][]Ex, m)
	given := make([][]string, m) // EncVal of literal cells, "" when not a literal
	newIDs := 0
	for i := range rows {
		rows[i] = make([]Ex, len(cols))
		given[i] = make([]string, len(cols))
		for j, c := range cols {
			var p value.Primary
			if c == "id" {
				if replace && t.NextID > 0 && g.Intn(2) == 0 {
					p = value.NewInteger(int64(g.Intn(t.NextID)))
				} else {
					p = value.NewInteger(int64(t.NextID + newIDs))
					newIDs++
				}
			} else {
				p = r.litFor(t.Kind[c])
			}
			rows[i][j] = Lit(p)
			given[i][j] = hc.EncVal(p)
		}
	}
	// a scalar sub-query that reads a cell of a (cached / temporary) table: (SELECT c FROM src WHERE id = k)
	if g.Intn(5) == 0 || (f != nil && g.Intn(2) == 0) {
		src := r.Tabs[g.Intn(len(r.Tabs))]
		if dc := src.dataCols(); len(dc) > 0 && len(cols) > 1 {
			i, j := g.Intn(m), g.Intn(len(cols))
			if cols[j] != "id" {
				rows[i][j] = CellOf(src.Name, dc[g.Intn(len(dc))], g.Intn(src.NextID+1))
				given[i][j] = ""
			}
		}
	}
	fields2 := fields
	switch fk(f) {
	case "div":
		k := f.Row % m
		j := g.Intn(len(cols))
		rows[k][j] = Bin("/", "/", Int(1), Int(0))
	case "len":
		k := f.Row % m
		if g.Intn(2) == 0 && len(rows[k]) > 1 {
			rows[k] = rows[k][:len(rows[k])-1]
		} else {
			rows[k] = append(rows[k], Int(7))
		}
	case "field":
		fields2 = append(append([]string{}, fields...), "zz")
		for i := range rows {
			rows[i] = append(rows[i], Int(1))
		}
	case "keynotset":
		var miss string
		for _, c := range t.Cols {
			if !inList(c, fields) {
				miss = c
			}
		}
		if miss == "" {
			fields2 = fields[:len(fields)-1]
			miss = fields[len(fields)-1]
			for i := range rows {
				rows[i] = rows[i][:len(rows[i])-1]
			}
			if len(fields2) == 0 {
				return nil
			}
		}
		keys = []string{miss}
	case "keyfield":
		keys = []string{"zz"}
	}
	st := &Stmt{Targets: []string{t.Name}, Fault: f}
	var rowSQL, rowTok []string
	for _, row := range rows {
		rowSQL = append(rowSQL, "("+sqls(row)+")")
		rowTok = append(rowTok, strings.TrimSpace(fmt.Sprintf("%d %s", len(row), toks(row))))
	}
	fieldSQL := ""
	if fields2 != nil {
		fieldSQL = " (" + strings.Join(fields2, ", ") + ")"
	}
	if replace {
		st.Kind = "replace"
		st.SQL = fmt.Sprintf("REPLACE INTO %s%s USING (%s) VALUES %s", t.Name, fieldSQL, strings.Join(keys, ", "), strings.Join(rowSQL, ", "))
		st.Op = strings.TrimSpace(fmt.Sprintf("replace %s %s %d %s %d %s", t.Name, fieldsTok(fields2), len(keys), strings.Join(keys, " "), m, strings.Join(rowTok, " ")))
	} else {
		st.Kind = "insert"
		st.SQL = fmt.Sprintf("INSERT INTO %s%s VALUES %s", t.Name, fieldSQL, strings.Join(rowSQL, ", "))
		st.Op = strings.TrimSpace(fmt.Sprintf("insert %s %s %d %s", t.Name, fieldsTok(fields2), m, strings.Join(rowTok, " ")))
	}
	if f != nil {
		return st
	}
	name := t.Name
	if !replace {
		st.Check = func(before, after map[string]*Snap, _ map[string][]string, counts map[string]int) []string {
			var bad []string
			b, a := before[name], after[name]
			if !sameStrs(b.Header, a.Header) {
				bad = append(bad, "insert_changed_header")
			}
			if len(a.Rows) != len(b.Rows)+m || !sameRows(a.Rows[:min(len(b.Rows), len(a.Rows))], b.Rows) {
				bad = append(bad, "insert_not_appended")
				return bad
			}
			for i := 0; i < m; i++ {
				row := a.Rows[len(b.Rows)+i]
				for j, c := range a.Header {
					want := "N"
					for k, fc := range cols {
						if fc == c {
							want = given[i][k]
							break
						}
					}
					if want != "" && row[j] != want {
						bad = append(bad, "insert_wrong_cell")
						return bad
					}
				}
			}
			if counts[name] != m {
				bad = append(bad, "count_insert")
			}
			return bad
		}
	} else {
		// the count law uses a separate real query for the matched records when the key is `id` alone
		if len(keys) == 1 && keys[0] == "id" {
			var ids []string
			for i := range rows {
				for j, c := range cols {
					if c == "id" {
						ids = append(ids, rows[i][j].SQL)
					}
				}
			}
			st.MatchSQL = map[string]string{name: fmt.Sprintf("SELECT id FROM %s WHERE id IN (%s)", name, strings.Join(ids, ", "))}
		}
		st.Check = func(before, after map[string]*Snap, matched map[string][]string, counts map[string]int) []string {
			var bad []string
			b, a := before[name], after[name]
			if !sameStrs(b.Header, a.Header) {
				bad = append(bad, "replace_changed_header")
			}
			if len(a.Rows) < len(b.Rows) {
				return append(bad, "replace_lost_rows")
			}
			if mt, ok := matched[name]; ok && uniqueIDs(b) {
				appended := len(a.Rows) - len(b.Rows)
				if counts[name] != len(mt)+appended {
					bad = append(bad, "count_replace")
				}
				// the old records keep their place
				if !sameStrs(a.IDs[:len(b.Rows)], b.IDs) {
					bad = append(bad, "replace_moved_rows")
				}
				seen := map[string]bool{}
				for _, id := range b.IDs {
					seen[id] = true
				}
				idc := -1
				for j, c := range cols {
					if c == "id" {
						idc = j
					}
				}
				// the given rows whose key matches no old record are appended, in the given order
				var want, got []string
				for i := range given {
					if id := CanonID(given[i][idc]); !seen[id] {
						want = append(want, id)
					}
				}
				dupKey := false
				for _, id := range a.IDs[len(b.Rows):] {
					if seen[id] {
						dupKey = true // a given row whose key DOES match an old record was appended
					} else {
						got = append(got, id)
					}
				}
				if !sameStrs(got, want) {
					bad = append(bad, "replace_append_order")
				}
				if dupKey {
					bad = append(bad, "replace_appended_row_with_existing_key")
				}
				// columns that are not named are untouched in the old records
				for i := range b.Rows {
					for j, c := range b.Header {
						if !inList(c, cols) && a.Rows[i][j] != b.Rows[i][j] {
							bad = append(bad, "replace_touched_other_column")
							return bad
						}
					}
				}
			}
			return bad
		}
	}
	st.After = func() { t.NextID += newIDs }
	return st
}

// INSERT INTO t (id, c) SELECT (id + K), e FROM src WHERE cond
func (r *Runner) genInsertSelect(t, src *Tab, f *Fault) *Stmt {
	g := r.G
	dc := t.dataCols()
	fields := []string{"id"}
	var c string
	if len(dc) > 0 {
		c = dc[g.Intn(len(dc))]
		fields = append(fields, c)
	}
	cs := r.crefs([]*Tab{src}, false)
	base := t.NextID + 1000
	exprs := []Ex{Bin("+", "+", Col(src.Name, "id", false), Int(base))}
	if c != "" {
		exprs = append(exprs, r.valueEx(t.Kind[c], cs, false))
	}
	cond := r.cond(cs, 1)
	switch fk(f) {
	case "subq":
		exprs[len(exprs)-1] = failAt(Col(src.Name, "id", false), f.Row)
	case "where":
		cond = Bin("=", "eq", failAt(Col(src.Name, "id", false), f.Row), Int(1))
	case "len":
		exprs = append(exprs, Int(1))
	case "field":
		// the failure comes AFTER the source query was evaluated: unknown column in the INSERT column list
		fields = append(fields, "zz")
		exprs = append(exprs, Int(1))
	}
	st := &Stmt{Kind: "insertsel", Targets: []string{t.Name}, Fault: f}
	st.SQL = fmt.Sprintf("INSERT INTO %s (%s) SELECT %s FROM %s WHERE %s", t.Name, strings.Join(fields, ", "), sqls(exprs), src.Name, cond.SQL)
	st.Op = fmt.Sprintf("insertsel %s %s %s %d %s %s", t.Name, fieldsTok(fields), src.Name, len(exprs), toks(exprs), cond.Tok)
	if f != nil {
		return st
	}
	name, sname := t.Name, src.Name
	st.MatchSQL = map[string]string{"src:" + sname: fmt.Sprintf("SELECT id FROM %s WHERE %s", sname, cond.SQL)}
	st.Check = func(before, after map[string]*Snap, matched map[string][]string, counts map[string]int) []string {
		var bad []string
		b, a := before[name], after[name]
		n := len(matched["src:"+sname])
		if len(a.Rows) != len(b.Rows)+n || !sameRows(a.Rows[:min(len(b.Rows), len(a.Rows))], b.Rows) {
			bad = append(bad, "insert_not_appended")
		}
		if counts[name] != n {
			bad = append(bad, "count_insert")
		}
		return bad
	}
	st.After = func() { t.NextID = base + src.NextID + 1 }
	return st
}

// REPLACE INTO t (id, c) USING (id) SELECT id | (id + K), e FROM src WHERE cond
func (r *Runner) genReplaceSelect(t, src *Tab, f *Fault) *Stmt {
	g := r.G
	dc := t.dataCols()
	if len(dc) == 0 {
		return nil
	}
	c := dc[g.Intn(len(dc))]
	fields := []string{"id", c}
	keys := []string{"id"}
	cs := r.crefs([]*Tab{src}, false)
	idEx := Col(src.Name, "id", false)
	base := 0
	if g.Intn(2) == 0 {
		base = t.NextID + 2000
		idEx = Bin("+", "+", idEx, Int(base))
	}
	exprs := []Ex{idEx, r.valueEx(t.Kind[c], cs, false)}
	cond := r.cond(cs, 1)
	switch fk(f) {
	case "subq":
		exprs[1] = failAt(Col(src.Name, "id", false), f.Row)
	case "where":
		cond = Bin("=", "eq", failAt(Col(src.Name, "id", false), f.Row), Int(1))
	case "len":
		exprs = append(exprs, Int(1))
	case "field":
		fields = append(fields, "zz")
		exprs = append(exprs, Int(1))
	case "keyfield":
		keys = []string{"zz"}
	case "keynotset":
		if len(dc) < 2 {
			return nil
		}
		for _, d := range dc {
			if d != c {
				keys = []string{d}
			}
		}
	}
	st := &Stmt{Kind: "replacesel", Targets: []string{t.Name}, Fault: f}
	st.SQL = fmt.Sprintf("REPLACE INTO %s (%s) USING (%s) SELECT %s FROM %s WHERE %s", t.Name, strings.Join(fields, ", "), strings.Join(keys, ", "), sqls(exprs), src.Name, cond.SQL)
	st.Op = fmt.Sprintf("replacesel %s %s %d %s %s %d %s %s", t.Name, fieldsTok(fields), len(keys), strings.Join(keys, " "), src.Name, len(exprs), toks(exprs), cond.Tok)
	if f == nil && base > 0 {
		st.After = func() { t.NextID = base + src.NextID + 1 }
	}
	return st
}

// ----- UPDATE / DELETE, single table -----

func (r *Runner) genUpdate(t *Tab, f *Fault) *Stmt {
	g := r.G
	dc := t.dataCols()
	if len(dc) == 0 {
		return nil
	}
	cs := r.crefs([]*Tab{t}, false)
	nset := 1
	if len(dc) > 1 && g.Intn(3) == 0 {
		nset = 2
	}
	perm := g.Perm(len(dc))
	var setCols []string
	var setEx []Ex
	for k := 0; k < nset; k++ {
		c := dc[perm[k]]
		setCols = append(setCols, c)
		setEx = append(setEx, r.valueEx(t.Kind[c], cs, g.Intn(12) == 0))
	}
	cond := r.cond(cs, 2)
	idc := Col(t.Name, "id", false)
	switch fk(f) {
	case "div":
		setEx[g.Intn(nset)] = failAt(idc, f.Row)
	case "subq":
		setEx[g.Intn(nset)] = SubQ(failAt(idc, f.Row))
	case "field":
		setCols = append(setCols, "zz")
		setEx = append(setEx, Int(1))
	case "dup":
		setCols = append(setCols, setCols[0])
		setEx = append(setEx, Lit(r.litFor(t.Kind[setCols[0]])))
	case "where":
		cond = Bin("=", "eq", failAt(idc, f.Row), Int(1))
	}
	var ss, st []string
	for k := range setCols {
		ss = append(ss, r.nref(t, setCols[k])+" = "+setEx[k].SQL)
		st = append(st, setCols[k]+" "+setEx[k].Tok)
	}
	s := &Stmt{Kind: "update", Targets: []string{t.Name}, Fault: f}
	s.SQL = fmt.Sprintf("UPDATE %s SET %s WHERE %s", t.Name, strings.Join(ss, ", "), cond.SQL)
	s.Op = fmt.Sprintf("update %s %d %s %s", t.Name, len(setCols), strings.Join(st, " "), cond.Tok)
	if f != nil {
		return s
	}
	name := t.Name
	s.MatchSQL = map[string]string{name: fmt.Sprintf("SELECT id FROM %s WHERE %s", name, cond.SQL)}
	s.Check = func(before, after map[string]*Snap, matched map[string][]string, counts map[string]int) []string {
		return updateFrame(name, setCols, before, after, matched, counts)
	}
	return s
}

func updateFrame(name string, setCols []string, before, after map[string]*Snap, matched map[string][]string, counts map[string]int) []string {
	var bad []string
	b, a := before[name], after[name]
	if !uniqueIDs(b) {
		if len(a.Rows) != len(b.Rows) || !sameStrs(b.Header, a.Header) {
			return []string{"update_changed_row_set_or_order"}
		}
		return nil
	}
	if !sameStrs(b.Header, a.Header) {
		return append(bad, "update_changed_header")
	}
	if len(a.Rows) != len(b.Rows) || !sameStrs(a.IDs, b.IDs) {
		return append(bad, "update_changed_row_set_or_order")
	}
	hit := map[string]bool{}
	for _, id := range matched[name] {
		hit[id] = true
	}
	for i := range b.Rows {
		for j, c := range b.Header {
			if a.Rows[i][j] != b.Rows[i][j] && !(hit[b.IDs[i]] && inList(c, setCols)) {
				return append(bad, "update_changed_unnamed_cell")
			}
		}
	}
	if counts[name] != len(hit) {
		bad = append(bad, "count_update")
	}
	return bad
}

func deleteFrame(name string, before, after map[string]*Snap, matched map[string][]string, counts map[string]int) []string {
	var bad []string
	b, a := before[name], after[name]
	if !uniqueIDs(b) {
		if len(a.Rows) > len(b.Rows) || !sameStrs(b.Header, a.Header) {
			return []string{"delete_removed_wrong_rows"}
		}
		return nil
	}
	if !sameStrs(b.Header, a.Header) {
		bad = append(bad, "delete_changed_header")
	}
	hit := map[string]bool{}
	for _, id := range matched[name] {
		hit[id] = true
	}
	var want [][]string
	for i, row := range b.Rows {
		if !hit[b.IDs[i]] {
			want = append(want, row)
		}
	}
	if !sameRows(want, a.Rows) {
		bad = append(bad, "delete_removed_wrong_rows")
	}
	if counts[name] != len(hit) {
		bad = append(bad, "count_delete")
	}
	return bad
}

func (r *Runner) genDelete(t *Tab, f *Fault) *Stmt {
	cs := r.crefs([]*Tab{t}, false)
	cond := r.cond(cs, 2)
	if fk(f) == "where" {
		cond = Bin("=", "eq", failAt(Col(t.Name, "id", false), f.Row), Int(1))
	}
	s := &Stmt{Kind: "delete", Targets: []string{t.Name}, Fault: f}
	s.SQL = fmt.Sprintf("DELETE FROM %s WHERE %s", t.Name, cond.SQL)
	s.Op = fmt.Sprintf("delete %s %s", t.Name, cond.Tok)
	if f != nil {
		return s
	}
	name := t.Name
	s.MatchSQL = map[string]string{name: fmt.Sprintf("SELECT id FROM %s WHERE %s", name, cond.SQL)}
	s.Check = func(before, after map[string]*Snap, matched map[string][]string, counts map[string]int) []string {
		return deleteFrame(name, before, after, matched, counts)
	}
	return s
}

// ----- multi-table forms -----

func (r *Runner) joinCond(a, b *Tab, unique bool) Ex {
	g := r.G
	j := Bin("=", "eq", Col(a.Name, "id", true), Col(b.Name, "id", true))
	if !unique {
		ai, bi := a.colsOfKind(KInt), b.colsOfKind(KInt)
		if len(ai) > 0 && len(bi) > 0 {
			j = Bin("=", "eq", Col(a.Name, ai[g.Intn(len(ai))], true), Col(b.Name, bi[g.Intn(len(bi))], true))
		}
	}
	if g.Intn(2) == 0 {
		j = Bin("AND", "and", j, r.cond(r.crefs([]*Tab{a, b}, true), 1))
	}
	return j
}

// outerJoinOf: `a LEFT|RIGHT|FULL [OUTER] JOIN b ON on`.  The ON conditions are drawn so that the records without a
// partner (whose other side is NULL-padded, internal record id included) come first, in the middle or last in the
// joined view: equal ids (the longer table's tail is unmatched), shifted ids (the head is unmatched), data columns
// and extra conjuncts (anywhere).
func (r *Runner) outerJoinOf(a, b *Tab) (dir, fromSQL string, on Ex) {
	g := r.G
	dir = g.Pick("left", "right", "full")
	ai, bi := Col(a.Name, "id", true), Col(b.Name, "id", true)
	switch g.Intn(6) {
	case 0:
		on = Bin("=", "eq", ai, bi)
	case 1, 2:
		on = Bin("=", "eq", ai, Bin("+", "+", bi, Int(1+g.Intn(3)))) // the first records of a have no partner
	case 3:
		on = Bin("=", "eq", Bin("+", "+", ai, Int(1+g.Intn(3))), bi) // the first records of b have no partner
	default:
		on = r.joinCond(a, b, g.Intn(2) == 0)
	}
	if g.Intn(4) == 0 {
		on = Bin("AND", "and", on, r.cond(r.crefs([]*Tab{a, b}, true), 1))
	}
	kw := strings.ToUpper(dir)
	if g.Intn(3) == 0 {
		kw += " OUTER"
	}
	fromSQL = fmt.Sprintf("%s %s JOIN %s ON %s", a.Name, kw, b.Name, on.SQL)
	return
}

// outerWhere: the WHERE clause over an outer join: TRUE, "every target has a partner" (only matched records remain),
// or a random condition over both tables (padded columns are NULL)
func (r *Runner) outerWhere(a, b *Tab, targets []string) Ex {
	g := r.G
	switch g.Intn(4) {
	case 0:
		return True()
	case 1:
		var w *Ex
		for _, tn := range targets {
			e := Not(IsNull(Col(tn, "id", true)))
			if w == nil {
				w = &e
			} else {
				c := Bin("AND", "and", *w, e)
				w = &c
			}
		}
		return *w
	}
	return r.cond(r.crefs([]*Tab{a, b}, true), 1)
}

// dropNullIDs: the ids a separate SELECT over an outer join returns for a table; NULL = the padded side, no record
func dropNullIDs(ids []string) []string {
	out := ids[:0:0]
	for _, id := range ids {
		if id != "N" {
			out = append(out, id)
		}
	}
	return out
}

// usingJoin: the pieces of `a [INNER|LEFT|RIGHT|FULL] JOIN b USING (U…)` / `a NATURAL … JOIN b`
type usingJoin struct {
	kind    string   // inner | left | right | full
	natural bool     // NATURAL: U = the columns of a, in a's order, that b has too
	U       []string // the join columns in the order they are written
	fromSQL string
	tok     string // "kind A B U" of the op line
}

func mkUsing(a, b *Tab, kind string, natural bool, U []string, outerKw bool) usingJoin {
	u := usingJoin{kind: kind, natural: natural, U: U}
	kw := map[string]string{"inner": "", "left": "LEFT ", "right": "RIGHT ", "full": "FULL "}[kind]
	if outerKw && kind != "inner" {
		kw += "OUTER "
	}
	if natural {
		u.fromSQL = fmt.Sprintf("%s NATURAL %sJOIN %s", a.Name, kw, b.Name)
		u.tok = fmt.Sprintf("%s %s %s natural", kind, a.Name, b.Name)
	} else {
		u.fromSQL = fmt.Sprintf("%s %sJOIN %s USING (%s)", a.Name, kw, b.Name, strings.Join(U, ", "))
		u.tok = fmt.Sprintf("%s %s %s %d %s", kind, a.Name, b.Name, len(U), strings.Join(U, " "))
	}
	return u
}

// commonCols: the columns of a, in a's order, that b has too
func commonCols(a, b *Tab) []string {
	var out []string
	for _, c := range a.Cols {
		if inList(c, b.Cols) {
			out = append(out, c)
		}
	}
	return out
}

// usingRefs: the columns of both tables as they must be written over a USING / NATURAL join: the join columns WITHOUT a
// table (the merged column; `a.k` no longer exists), every other column with its table
func usingRefs(a, b *Tab, U []string) []cref {
	var out []cref
	for _, c := range U {
		out = append(out, cref{tbl: a.Name, name: c, kind: a.Kind[c], q: false})
	}
	for _, t := range []*Tab{a, b} {
		for _, c := range t.Cols {
			if !inList(c, U) {
				out = append(out, cref{tbl: t.Name, name: c, kind: t.Kind[c], q: true})
			}
		}
	}
	return out
}

// genUsing: multi-table UPDATE / DELETE over a USING / NATURAL join.  The SET columns are columns of the target that are no
// join columns (a join column cannot be named as a column of its table any more) — before and after the join columns in
// their table, whatever the position of the join columns.
func (r *Runner) genUsing(a, b *Tab, f *Fault, update bool) *Stmt {
	g := r.G
	common := commonCols(a, b)
	if len(common) == 0 {
		return nil
	}
	natural := g.Intn(3) == 0
	U := common
	if !natural {
		perm := g.Perm(len(common))
		n := 1 + g.Intn(len(common))
		U = nil
		for _, k := range perm[:n] {
			U = append(U, common[k])
		}
	}
	uj := mkUsing(a, b, g.Pick("inner", "inner", "left", "right", "full"), natural, U, g.Intn(3) == 0)
	cs := usingRefs(a, b, U)
	idRef := Col(a.Name, "id", !inList("id", U))
	tabs := []*Tab{a}
	switch g.Intn(4) {
	case 0:
		tabs = []*Tab{b}
	case 1:
		tabs = []*Tab{a, b}
	case 2:
		if g.Intn(2) == 0 {
			tabs = []*Tab{b, a}
		}
	}
	var tn []string
	for _, t := range tabs {
		tn = append(tn, t.Name)
	}
	cond := True()
	switch g.Intn(3) {
	case 0:
		cond = r.cond(cs, 1)
	case 1:
		// only the joined records in which every target has a record
		for i, t := range tabs {
			for _, c := range t.Cols {
				if !inList(c, U) {
					e := Not(IsNull(Col(t.Name, c, true)))
					if i == 0 {
						cond = e
					} else {
						cond = Bin("AND", "and", cond, e)
					}
					break
				}
			}
		}
	}
	if fk(f) == "where" {
		cond = Bin("=", "eq", failAt(idRef, f.Row), Int(1))
	}
	kind := "deletem"
	if update {
		kind = "updatem"
	}
	s := &Stmt{Kind: kind, Targets: tn, Fault: f, Outer: "using:" + uj.kind}
	setCols := map[string][]string{}
	if update {
		var ss, st []string
		for i, t := range tabs {
			var free []string
			for _, c := range t.dataCols() {
				if !inList(c, U) {
					free = append(free, c)
				}
			}
			if len(free) == 0 {
				return nil
			}
			c := free[g.Intn(len(free))]
			e := r.valueEx(t.Kind[c], cs, false)
			if i == 0 && fk(f) == "div" {
				e = failAt(idRef, f.Row)
			}
			ss = append(ss, t.Name+"."+c+" = "+e.SQL)
			st = append(st, t.Name+" "+c+" "+e.Tok)
			setCols[t.Name] = append(setCols[t.Name], c)
		}
		s.SQL = fmt.Sprintf("UPDATE %s SET %s FROM %s WHERE %s", strings.Join(tn, ", "), strings.Join(ss, ", "), uj.fromSQL, cond.SQL)
		s.Op = fmt.Sprintf("updateu %d %s %s %d %s %s", len(tn), strings.Join(tn, " "), uj.tok, len(st), strings.Join(st, " "), cond.Tok)
	} else {
		s.SQL = fmt.Sprintf("DELETE %s FROM %s WHERE %s", strings.Join(tn, ", "), uj.fromSQL, cond.SQL)
		s.Op = fmt.Sprintf("deleteu %d %s %s %s", len(tn), strings.Join(tn, " "), uj.tok, cond.Tok)
	}
	if f != nil || inList("id", U) {
		// (with `id` among the join columns a target's ids cannot be selected separately: `t.id` does not exist and the
		// merged `id` is the other side's where the target is padded — the comparison with the model stands alone)
		return s
	}
	s.MatchSQL = map[string]string{}
	for _, n := range tn {
		s.MatchSQL[n] = fmt.Sprintf("SELECT %s.id FROM %s WHERE %s", n, uj.fromSQL, cond.SQL)
	}
	s.Check = func(before, after map[string]*Snap, matched map[string][]string, counts map[string]int) []string {
		var bad []string
		for _, n := range tn {
			if update {
				bad = append(bad, updateFrame(n, setCols[n], before, after, matched, counts)...)
			} else {
				bad = append(bad, deleteFrame(n, before, after, matched, counts)...)
			}
		}
		return bad
	}
	return s
}

func (r *Runner) genUpdateMulti(a, b *Tab, f *Fault) *Stmt {
	g := r.G
	if len(a.dataCols()) == 0 {
		return nil
	}
	// a fifth of the statements join with USING (…) / NATURAL: the joined view then has another column layout
	if g.Intn(5) == 0 && fk(f) != "dup" && fk(f) != "field" {
		if s := r.genUsing(a, b, f, true); s != nil {
			return s
		}
	}
	targets := []*Tab{a}
	if g.Intn(3) == 0 && len(b.dataCols()) > 0 {
		targets = append(targets, b)
	}
	// a third of the statements go over an OUTER join (a target on the padded side has no record id there)
	outer := g.Intn(3) == 0 && fk(f) != "dup" && fk(f) != "field"
	if outer && len(b.dataCols()) > 0 && g.Intn(3) == 0 {
		targets = []*Tab{b}
		if g.Intn(2) == 0 {
			targets = []*Tab{b, a}
		}
	}
	cs := r.crefs([]*Tab{a, b}, true)
	cond := r.joinCond(a, b, g.Intn(6) != 0 && fk(f) != "dup")
	type set struct {
		t *Tab
		c string
		e Ex
	}
	var sets []set
	for _, t := range targets {
		dc := t.dataCols()
		c := dc[g.Intn(len(dc))]
		sets = append(sets, set{t, c, r.valueEx(t.Kind[c], cs, false)})
	}
	switch fk(f) {
	case "div":
		sets[0].e = failAt(Col(a.Name, "id", true), f.Row)
	case "field":
		// a column of a table that is in FROM but not an update target
		if len(targets) == 2 || len(b.dataCols()) == 0 {
			return nil
		}
		sets = append(sets, set{b, b.dataCols()[0], Int(1)})
	case "dup":
		// every record of a meets every record of b: a record of a would be written more than once
		cond = Bin(">=", "ge", Col(b.Name, "id", true), Int(0))
	case "where":
		cond = Bin("=", "eq", failAt(Col(a.Name, "id", true), f.Row), Int(1))
	}
	var tn, ss, st []string
	for _, t := range targets {
		tn = append(tn, t.Name)
	}
	setCols := map[string][]string{}
	for _, s := range sets {
		ss = append(ss, s.t.Name+"."+s.c+" = "+s.e.SQL)
		st = append(st, s.t.Name+" "+s.c+" "+s.e.Tok)
		setCols[s.t.Name] = append(setCols[s.t.Name], s.c)
	}
	s := &Stmt{Kind: "updatem", Targets: tn, Fault: f}
	from := a.Name + ", " + b.Name
	where := cond.SQL
	if outer {
		dir, fromSQL, on := r.outerJoinOf(a, b)
		if fk(f) != "where" {
			cond = r.outerWhere(a, b, tn)
		}
		from, where = fromSQL, cond.SQL
		s.Op = fmt.Sprintf("updatej %d %s %s %s %s %d %s %s %s", len(tn), strings.Join(tn, " "), dir, a.Name, b.Name, len(sets), strings.Join(st, " "), on.Tok, cond.Tok)
		s.Outer = dir
	} else {
		if g.Intn(3) == 0 {
			from = a.Name + " JOIN " + b.Name + " ON " + cond.SQL
			where = "TRUE"
			cond = Bin("AND", "and", cond, True())
		}
		s.Op = fmt.Sprintf("updatem %d %s 2 %s %s %d %s %s", len(tn), strings.Join(tn, " "), a.Name, b.Name, len(sets), strings.Join(st, " "), cond.Tok)
	}
	s.SQL = fmt.Sprintf("UPDATE %s SET %s FROM %s WHERE %s", strings.Join(tn, ", "), strings.Join(ss, ", "), from, where)
	if f != nil {
		return s
	}
	s.MatchSQL = map[string]string{}
	for _, t := range targets {
		s.MatchSQL[t.Name] = fmt.Sprintf("SELECT %s.id FROM %s WHERE %s", t.Name, from, where)
	}
	s.Check = func(before, after map[string]*Snap, matched map[string][]string, counts map[string]int) []string {
		var bad []string
		for _, n := range tn {
			bad = append(bad, updateFrame(n, setCols[n], before, after, matched, counts)...)
		}
		return bad
	}
	return s
}

func (r *Runner) genDeleteMulti(a, b *Tab, f *Fault) *Stmt {
	g := r.G
	if g.Intn(6) == 0 {
		if s := r.genUsing(a, b, f, false); s != nil {
			return s
		}
	}
	tn := []string{a.Name}
	if g.Intn(3) == 0 {
		tn = append(tn, b.Name)
	}
	// a third of the statements go over an OUTER join: the records without a partner carry no record id for the
	// padded table and are passed over, wherever they stand in the joined view
	outer := g.Intn(3) == 0
	if outer {
		switch g.Intn(4) {
		case 0:
			tn = []string{b.Name}
		case 1:
			tn = []string{b.Name, a.Name}
		}
	}
	cond := r.joinCond(a, b, g.Intn(3) != 0)
	if fk(f) == "where" {
		cond = Bin("=", "eq", failAt(Col(a.Name, "id", true), f.Row), Int(1))
	}
	s := &Stmt{Kind: "deletem", Targets: tn, Fault: f}
	from := a.Name + ", " + b.Name
	if outer {
		dir, fromSQL, on := r.outerJoinOf(a, b)
		if fk(f) != "where" {
			cond = r.outerWhere(a, b, tn)
		}
		from = fromSQL
		s.Op = fmt.Sprintf("deletej %d %s %s %s %s %s %s", len(tn), strings.Join(tn, " "), dir, a.Name, b.Name, on.Tok, cond.Tok)
		s.Outer = dir
	} else {
		s.Op = fmt.Sprintf("deletem %d %s 2 %s %s %s", len(tn), strings.Join(tn, " "), a.Name, b.Name, cond.Tok)
	}
	s.SQL = fmt.Sprintf("DELETE %s FROM %s WHERE %s", strings.Join(tn, ", "), from, cond.SQL)
	if f != nil {
		return s
	}
	s.MatchSQL = map[string]string{}
	for _, n := range tn {
		s.MatchSQL[n] = fmt.Sprintf("SELECT %s.id FROM %s WHERE %s", n, from, cond.SQL)
	}
	s.Check = func(before, after map[string]*Snap, matched map[string][]string, counts map[string]int) []string {
		var bad []string
		for _, n := range tn {
			bad = append(bad, deleteFrame(n, before, after, matched, counts)...)
		}
		return bad
	}
	return s
}

// ----- ALTER TABLE -----

func (r *Runner) genAddCol(t *Tab, f *Fault) *Stmt {
	g := r.G
	cs := r.crefs([]*Tab{t}, false)
	n := 1 + g.Intn(2)
	var names []string
	var defs []*Ex
	for k := 0; k < n; k++ {
		t.fresh++
		names = append(names, fmt.Sprintf("n%d", t.fresh))
		switch g.Intn(4) {
		case 0:
			defs = append(defs, nil)
		case 1:
			e := Lit(r.litFor(KInt))
			defs = append(defs, &e)
		default:
			e := r.valueEx(KInt, cs, false)
			defs = append(defs, &e)
		}
	}
	posSQL, posTok, posIdx := "", "last", len(t.Cols)
	switch g.Intn(5) {
	case 0:
		posSQL, posTok, posIdx = " FIRST", "first", 0
	case 1:
		posSQL = " LAST"
	case 2:
		k := g.Intn(len(t.Cols))
		posSQL, posTok, posIdx = " BEFORE "+r.nref(t, t.Cols[k]), "before:"+t.Cols[k], k
	case 3:
		k := g.Intn(len(t.Cols))
		posSQL, posTok, posIdx = " AFTER "+r.nref(t, t.Cols[k]), "after:"+t.Cols[k], k+1
	}
	switch fk(f) {
	case "div":
		e := failAt(Col(t.Name, "id", false), f.Row)
		defs[g.Intn(n)] = &e
	case "dup":
		names[n-1] = t.Cols[g.Intn(len(t.Cols))]
	case "pos":
		posSQL, posTok = " AFTER zz", "after:zz"
	}
	var ds, dt []string
	for k := range names {
		if defs[k] == nil {
			ds = append(ds, names[k])
			dt = append(dt, names[k]+" 0")
		} else {
			ds = append(ds, names[k]+" DEFAULT "+defs[k].SQL)
			dt = append(dt, names[k]+" 1 "+defs[k].Tok)
		}
	}
	s := &Stmt{Kind: "addcol", Targets: []string{t.Name}, Fault: f}
	s.SQL = fmt.Sprintf("ALTER TABLE %s ADD (%s)%s", t.Name, strings.Join(ds, ", "), posSQL)
	s.Op = fmt.Sprintf("addcol %s %s %d %s", t.Name, posTok, n, strings.Join(dt, " "))
	if f != nil {
		return s
	}
	name := t.Name
	s.Check = func(before, after map[string]*Snap, _ map[string][]string, counts map[string]int) []string {
		var bad []string
		b, a := before[name], after[name]
		want := append(append(append([]string{}, b.Header[:posIdx]...), names...), b.Header[posIdx:]...)
		if !sameStrs(want, a.Header) {
			bad = append(bad, "addcol_header")
		}
		if len(a.Rows) != len(b.Rows) {
			return append(bad, "addcol_row_count")
		}
		for i := range b.Rows {
			got := append(append([]string{}, a.Rows[i][:posIdx]...), a.Rows[i][min(posIdx+n, len(a.Rows[i])):]...)
			if !sameStrs(got, b.Rows[i]) {
				return append(bad, "addcol_touched_other_column")
			}
		}
		if counts[name] != n {
			bad = append(bad, "count_addcol")
		}
		return bad
	}
	s.After = func() {
		for _, c := range names {
			t.Kind[c] = KInt
		}
	}
	return s
}

func (r *Runner) genDropCol(t *Tab, f *Fault) *Stmt {
	g := r.G
	dc := t.dataCols()
	if len(dc) < 2 && f == nil {
		return nil
	}
	var cols []string
	if len(dc) > 0 {
		cols = append(cols, dc[g.Intn(len(dc))])
		if len(dc) > 2 && g.Intn(3) == 0 {
			cols = append(cols, dc[g.Intn(len(dc))]) // possibly the same column twice
		}
	}
	if fk(f) == "field" {
		cols = append(cols, "zz")
	}
	s := &Stmt{Kind: "dropcol", Targets: []string{t.Name}, Fault: f}
	colsSQL := make([]string, len(cols))
	for i, c := range cols {
		colsSQL[i] = r.nref(t, c)
	}
	s.SQL = fmt.Sprintf("ALTER TABLE %s DROP (%s)", t.Name, strings.Join(colsSQL, ", "))
	s.Op = fmt.Sprintf("dropcol %s %d %s", t.Name, len(cols), strings.Join(cols, " "))
	if f != nil {
		return s
	}
	name := t.Name
	s.Check = func(before, after map[string]*Snap, _ map[string][]string, counts map[string]int) []string {
		var bad []string
		b, a := before[name], after[name]
		var keep []int
		var want []string
		for j, c := range b.Header {
			if !inList(c, cols) {
				keep = append(keep, j)
				want = append(want, c)
			}
		}
		if !sameStrs(want, a.Header) {
			bad = append(bad, "dropcol_header")
		}
		if len(a.Rows) != len(b.Rows) {
			return append(bad, "dropcol_row_count")
		}
		for i := range b.Rows {
			var w []string
			for _, j := range keep {
				w = append(w, b.Rows[i][j])
			}
			if !sameStrs(w, a.Rows[i]) {
				return append(bad, "dropcol_touched_other_column")
			}
		}
		if counts[name] != len(uniq(cols)) {
			bad = append(bad, "count_dropcol")
		}
		return bad
	}
	return s
}

func (r *Runner) genRename(t *Tab, f *Fault) *Stmt {
	g := r.G
	dc := t.dataCols()
	if len(dc) == 0 {
		return nil
	}
	old := dc[g.Intn(len(dc))]
	t.fresh++
	nw := fmt.Sprintf("n%d", t.fresh)
	switch fk(f) {
	case "dup":
		nw = t.Cols[g.Intn(len(t.Cols))]
	case "field":
		old = "zz"
	}
	s := &Stmt{Kind: "rename", Targets: []string{t.Name}, Fault: f}
	s.SQL = fmt.Sprintf("ALTER TABLE %s RENAME %s TO %s", t.Name, r.nref(t, old), nw)
	s.Op = fmt.Sprintf("rename %s %s %s", t.Name, old, nw)
	if f != nil {
		return s
	}
	name := t.Name
	s.Check = func(before, after map[string]*Snap, _ map[string][]string, counts map[string]int) []string {
		var bad []string
		b, a := before[name], after[name]
		want := append([]string{}, b.Header...)
		for j := range want {
			if want[j] == old {
				want[j] = nw
			}
		}
		if !sameStrs(want, a.Header) {
			bad = append(bad, "rename_header")
		}
		if !sameRows(a.Rows, b.Rows) {
			bad = append(bad, "rename_touched_cells")
		}
		if counts[name] != 1 {
			bad = append(bad, "count_rename")
		}
		return bad
	}
	s.After = func() { t.Kind[nw] = t.Kind[old] }
	return s
}

// FnBodies: the functions of SessionSetup
var FnBodies = []string{"vfa", "vfb", "vfc", "vfd", "vfs"}

// genFnFail: a data-changing statement one of whose expressions (VALUES, SET, WHERE, DEFAULT) calls a user-defined
// function whose body fails: the statements nested in the function (CREATE TABLE, DML, DECLARE) must leave nothing behind —
// no file, no lock file, no table, no temporary table; the outer statement fails.  Law-only (the model is not told).
func (r *Runner) genFnFail(t *Tab) *Stmt {
	g := r.G
	if !r.SessionObjs {
		return nil
	}
	fn := FnBodies[g.Intn(len(FnBodies))]
	dc := t.dataCols()
	s := &Stmt{Kind: "fnfail", Targets: []string{t.Name}, Fault: &Fault{Kind: fn}, Wrap: "plain"}
	pos := g.Intn(8)
	if len(dc) == 0 || (pos == 3 && len(r.snap(t.Name).Rows) == 0) {
		pos = 0 // (a DEFAULT is not evaluated for a table without records: the ALTER would succeed)
	}
	switch pos {
	case 5:
		// the value expression of ALTER TABLE … SET: evaluated under the operation lock, so the function's statements are refused
		s.SQL = fmt.Sprintf("ALTER TABLE %s SET %s TO %s(1)", t.Name, g.Pick("FORMAT", "ENCODING", "HEADER", "NOPE", "DELIMITER", "LINE_BREAK"), fn)
	case 6:
		s.SQL = fmt.Sprintf("INSERT INTO %s (id) SELECT id FROM %s LIMIT %s(1)", t.Name, t.Name, fn)
	case 7:
		s.SQL = fmt.Sprintf("REPLACE INTO %s (id) USING (id) SELECT id FROM %s LIMIT 1 OFFSET %s(1)", t.Name, t.Name, fn)
	case 0:
		s.SQL = fmt.Sprintf("INSERT INTO %s (id) VALUES (%s(%d))", t.Name, fn, t.NextID+7)
	case 1:
		s.SQL = fmt.Sprintf("UPDATE %s SET %s = %s(1) WHERE TRUE", t.Name, dc[g.Intn(len(dc))], fn)
	case 2:
		s.SQL = fmt.Sprintf("DELETE FROM %s WHERE %s(id) = 0", t.Name, fn)
	case 3:
		t.fresh++
		s.SQL = fmt.Sprintf("ALTER TABLE %s ADD (n%d DEFAULT %s(id))", t.Name, t.fresh, fn)
	default:
		s.SQL = fmt.Sprintf("REPLACE INTO %s (id, %s) USING (id) VALUES (%s(0), 1)", t.Name, dc[0], fn)
	}
	return s
}

// ClauseFaults: a SELECT that fails in exactly one clause position
var ClauseFaults = []struct{ Name, Tail string }{
	{"from", "FROM nosuch_zz"},
	{"where", "FROM %[1]s WHERE 1 / (id - id) = 1"},
	{"groupby", "FROM %[1]s GROUP BY id, 1 / (id - id)"},
	{"having", "FROM %[1]s GROUP BY id HAVING 1 / (id - id) = 1"},
	{"select", "FROM %[1]s WHERE 2 / (id - id) IS NULL OR TRUE ORDER BY 1 / (id - id)"},
	{"orderby", "FROM %[1]s ORDER BY 1 / (id - id)"},
	{"limit", "FROM %[1]s LIMIT 'x'"},
	{"offset", "FROM %[1]s LIMIT 1 OFFSET 'two'"},
	{"offsetvar", "FROM %[1]s OFFSET @nosuchvar"},
	{"setoperand", "FROM %[1]s UNION SELECT 1 FROM nosuch_zz"},
	{"with", ""},
}

// genClauseFail: INSERT…SELECT / REPLACE…SELECT / CREATE TABLE AS / a scalar sub-query in UPDATE whose SELECT fails in one
// clause (FROM, WHERE, GROUP BY, HAVING, ORDER BY, LIMIT, OFFSET, set operand, WITH).  The source needs two records.
func (r *Runner) genClauseFail(t, src *Tab) *Stmt {
	g := r.G
	if len(r.snap(src.Name).Rows) < 2 {
		return nil
	}
	c := ClauseFaults[g.Intn(len(ClauseFaults))]
	sel := "SELECT id " + strings.ReplaceAll(c.Tail, "%[1]s", src.Name)
	with := ""
	if c.Name == "with" {
		with = "WITH vw AS (SELECT 1 AS x FROM nosuch_zz) "
		sel = fmt.Sprintf("SELECT id FROM %s WHERE id IN (SELECT x FROM vw)", src.Name)
	}
	s := &Stmt{Kind: "clausefail", Targets: []string{t.Name}, Fault: &Fault{Kind: c.Name}, Wrap: "plain"}
	dc := t.dataCols()
	switch k := g.Intn(4); {
	case k == 0:
		s.SQL = fmt.Sprintf("%sINSERT INTO %s (id) %s", with, t.Name, sel)
	case k == 1:
		s.SQL = fmt.Sprintf("%sREPLACE INTO %s (id) USING (id) %s", with, t.Name, sel)
	case k == 2 && len(dc) > 0 && c.Name != "setoperand":
		s.SQL = fmt.Sprintf("%sUPDATE %s SET %s = (%s) WHERE TRUE", with, t.Name, dc[0], strings.Replace(sel, "LIMIT 'x'", "LIMIT 'x'", 1))
		if len(r.snap(t.Name).Rows) == 0 {
			return nil
		}
	default:
		r.created++
		s.SQL = fmt.Sprintf("%sCREATE TABLE `tc%d.csv` (id) AS %s", with, r.created, sel)
		s.Targets = []string{}
		if with != "" {
			s.SQL = fmt.Sprintf("%sINSERT INTO %s (id) %s", with, t.Name, sel)
			s.Targets = []string{t.Name}
		}
	}
	return s
}

// genTargetFail: a multi-target DELETE / UPDATE whose later (or earlier) target cannot be changed — the alias of a
// sub-query, an inline table, a name that is not in the FROM clause — while the other target is valid and matched.
func (r *Runner) genTargetFail(t, o *Tab) *Stmt {
	g := r.G
	dc := t.dataCols()
	s := &Stmt{Kind: "targetfail", Targets: []string{t.Name}, Fault: &Fault{Kind: "later_target_invalid"}, Wrap: "plain"}
	a := t.Name
	switch k := g.Intn(6); {
	case k == 0:
		s.SQL = fmt.Sprintf("DELETE %[1]s, sq FROM %[1]s, (SELECT id FROM %[2]s) sq WHERE %[1]s.id = sq.id", a, o.Name)
	case k == 1:
		s.SQL = fmt.Sprintf("DELETE sq, %[1]s FROM %[1]s, (SELECT id FROM %[2]s) sq WHERE %[1]s.id = sq.id", a, o.Name)
	case k == 2:
		s.SQL = fmt.Sprintf("DELETE %[1]s, nosuch FROM %[1]s, %[2]s WHERE %[1]s.id = %[2]s.id", a, o.Name)
	case k == 3:
		s.SQL = fmt.Sprintf("WITH it AS (SELECT id FROM %[2]s) DELETE %[1]s, it FROM %[1]s, it WHERE %[1]s.id = it.id", a, o.Name)
	case len(dc) == 0:
		s.SQL = fmt.Sprintf("DELETE %[1]s, nosuch FROM %[1]s, %[2]s WHERE TRUE", a, o.Name)
	case k == 4:
		s.SQL = fmt.Sprintf("UPDATE %[1]s, sq SET %[1]s.%[3]s = 1 FROM %[1]s, (SELECT id FROM %[2]s) sq WHERE %[1]s.id = sq.id", a, o.Name, dc[0])
	default:
		s.SQL = fmt.Sprintf("UPDATE %[1]s, nosuch SET %[1]s.%[3]s = 1 FROM %[1]s, %[2]s WHERE %[1]s.id = %[2]s.id", a, o.Name, dc[0])
	}
	return s
}

// genLoadFail: a statement that fails WHILE ITS TABLES ARE LOADED, after the first table was already fetched from the
// cache: the same table twice in FROM without alias, a self join without alias, a second table that does not exist.
// Whatever uncommitted changes earlier statements left on the table must still be there.  Law-only.
func (r *Runner) genLoadFail(t *Tab) *Stmt {
	g := r.G
	a := t.Name
	s := &Stmt{Kind: "loadfail", Targets: []string{a}, Fault: &Fault{Kind: "during_load"}, Wrap: "plain"}
	dc := t.dataCols()
	c := "id"
	if len(dc) > 0 {
		c = dc[0]
	}
	switch g.Intn(7) {
	case 0:
		s.SQL = fmt.Sprintf("UPDATE %[1]s SET %[1]s.%[2]s = 1 FROM %[1]s, %[1]s", a, c)
	case 1:
		s.SQL = fmt.Sprintf("DELETE %[1]s FROM %[1]s, %[1]s", a)
	case 2:
		s.SQL = fmt.Sprintf("UPDATE %[1]s SET %[1]s.%[2]s = 1 FROM %[1]s JOIN %[1]s ON TRUE", a, c)
	case 3:
		s.SQL = fmt.Sprintf("UPDATE %[1]s SET %[1]s.%[2]s = 1 FROM %[1]s, nosuch_zz WHERE TRUE", a, c)
	case 4:
		s.SQL = fmt.Sprintf("DELETE %[1]s FROM %[1]s, nosuch_zz WHERE TRUE", a)
	case 5:
		s.SQL = fmt.Sprintf("DELETE %[1]s FROM %[1]s JOIN %[1]s ON %[1]s.id = %[1]s.id", a)
	default:
		s.SQL = fmt.Sprintf("UPDATE %[1]s SET %[1]s.%[2]s = 1 FROM %[1]s x, %[1]s x WHERE TRUE", a, c)
	}
	return s
}

// BadAttrs: ALTER TABLE … SET statements that must fail: an invalid value for every attribute, values of the wrong
// type, an unknown attribute; `combo`: values that are valid by themselves but not for the table's format.
var BadAttrs = []string{
	"FORMAT TO 'XML'", "FORMAT TO NULL", "DELIMITER TO 'ab'", "DELIMITER TO ''", "DELIMITER_POSITIONS TO 'abc'", "DELIMITER_POSITIONS TO '[3, 1'",
	"JSON_ESCAPE TO 'NOPE'", "ENCODING TO 'LATIN9'", "ENCODING TO NULL", "LINE_BREAK TO 'XX'", "HEADER TO 'maybe'", "HEADER TO NULL",
	"ENCLOSE_ALL TO 'maybe'", "PRETTY_PRINT TO 'maybe'", "PRETTY_PRINT TO NULL",
}
var ComboAttrs = []string{"ENCODING TO 'SJIS'", "ENCODING TO 'UTF16'", "ENCODING TO 'UTF8M'"} // refused for JSON / JSONL tables

// genSetAttr: ALTER TABLE t SET attribute TO value on a file-backed table.  Successful ones only change what a plain
// re-read of the CSV file tolerates (line break, quoting); header and records are untouched, the table gets marked.
func (r *Runner) genSetAttr(t *Tab, f *Fault) *Stmt {
	g := r.G
	if !t.File || t.Opaque {
		return nil
	}
	s := &Stmt{Kind: "setattr", Targets: []string{t.Name}, Fault: f, Wrap: "plain"}
	switch fk(f) {
	case "":
		s.SQL = "ALTER TABLE " + t.Name + " SET " + g.Pick("LINE_BREAK TO 'CRLF'", "LINE_BREAK TO 'LF'", "ENCLOSE_ALL TO TRUE", "ENCLOSE_ALL TO FALSE", "PRETTY_PRINT TO TRUE", "JSON_ESCAPE TO 'HEX'")
		s.Op = "setattr " + t.Name
	case "name":
		s.SQL = "ALTER TABLE " + t.Name + " SET NOPE TO 1"
	default:
		s.SQL = "ALTER TABLE " + t.Name + " SET " + BadAttrs[g.Intn(len(BadAttrs))]
	}
	return s
}

func (r *Runner) genCreate(t *Tab, f *Fault) *Stmt {
	g := r.G
	s := &Stmt{Kind: "create", Fault: f, Targets: []string{}}
	switch fk(f) {
	case "dup":
		s.SQL = "CREATE TABLE tdup (a, b, a)"
		s.Op = "create tdup 3 a b a"
		return s
	case "casecoll":
		// a name that differs only in letter case from a table that is OPEN in this transaction (its lock file exists)
		if !t.File || t.Ext != "" {
			return nil
		}
		if _, err := os.Stat(filepath.Join(r.Dir, "."+t.Name+".csv.lock")); err != nil {
			return nil
		}
		up := strings.ToUpper(t.Name) + g.Pick(".CSV", ".csv", ".Csv")
		s.SQL = fmt.Sprintf("CREATE TABLE `%s` (a, b)", up)
		if g.Intn(2) == 0 {
			s.SQL = fmt.Sprintf("CREATE TABLE `%s` (a, b) AS SELECT 1, 2 FROM DUAL", up)
		}
		return s // law-only: the model's table names are exact
	case "exists":
		if !t.File || t.Ext != "" {
			return nil
		}
		s.SQL = fmt.Sprintf("CREATE TABLE `%s.csv` (a, b)", t.Name)
		s.Op = fmt.Sprintf("create %s 2 a b", t.Name)
		return s
	}
	// CREATE TABLE tnK (id, x) AS SELECT id, e FROM t WHERE cond
	if len(r.Tabs) >= 4 || t.NextID > 60 {
		return nil
	}
	r.created++
	name := fmt.Sprintf("tn%d", r.created)
	cs := r.crefs([]*Tab{t}, false)
	cols := []string{"id", "x"}
	exprs := []Ex{Col(t.Name, "id", false), r.valueEx(KInt, cs, false)}
	cond := r.cond(cs, 1)
	switch fk(f) {
	case "subq":
		exprs[1] = failAt(Col(t.Name, "id", false), f.Row)
	case "where":
		cond = Bin("=", "eq", failAt(Col(t.Name, "id", false), f.Row), Int(1))
	case "len":
		exprs = append(exprs, Int(1))
	case "dupas":
		cols = []string{"id", "id"}
	}
	s.SQL = fmt.Sprintf("CREATE TABLE `%s.csv` (%s) AS SELECT %s FROM %s WHERE %s", name, strings.Join(cols, ", "), sqls(exprs), t.Name, cond.SQL)
	s.Op = fmt.Sprintf("createas %s %d %s %s %d %s %s", name, len(cols), strings.Join(cols, " "), t.Name, len(exprs), toks(exprs), cond.Tok)
	s.NewTable = name
	s.After = func() {
		nt := &Tab{Name: name, File: true, Cols: []string{"id", "x"}, Kind: map[string]int{"id": KInt, "x": KInt}, NextID: t.NextID + g.Intn(1)}
		r.Tabs = append(r.Tabs, nt)
	}
	return s
}

// Gen draws one statement.  fault == false: meant to succeed (some fail naturally: division by a 0 cell,
// a record written twice by a multi-table update).  fault == true: an error is injected at a random record.
func (r *Runner) Gen(fault bool) *Stmt {
	g := r.G
	kinds := []string{"insert", "insert", "insert", "insertsel", "insertsel", "replacesel", "replace", "replace", "replace", "update", "update", "update",
		"delete", "delete", "updatem", "updatem", "deletem", "addcol", "addcol", "dropcol", "rename", "create", "setattr", "fnfail", "fnfail", "clausefail", "clausefail", "targetfail", "loadfail", "loadfail"}
	for tries := 0; tries < 80; tries++ {
		t := r.Tabs[g.Intn(len(r.Tabs))]
		var o *Tab
		if len(r.Tabs) > 1 {
			for {
				o = r.Tabs[g.Intn(len(r.Tabs))]
				if o != t {
					break
				}
			}
		}
		kind := kinds[g.Intn(len(kinds))]
		var f *Fault
		if fault {
			fs := FaultsOf[kind]
			f = &Fault{Kind: fs[g.Intn(len(fs))], Row: g.Intn(t.NextID + 2)}
			if g.Intn(4) == 0 && t.NextID > 0 {
				f.Row = []int{0, t.NextID - 1, t.NextID / 2}[g.Intn(3)]
			}
		}
		var s *Stmt
		switch kind {
		case "insert":
			s = r.genInsert(t, f, false)
		case "insertsel":
			src := t
			if o != nil && g.Intn(2) == 0 {
				src = o
			}
			if src.NextID > 60 {
				continue
			}
			if f != nil {
				f.Row = g.Intn(src.NextID + 2)
			}
			s = r.genInsertSelect(t, src, f)
		case "replacesel":
			src := t
			if o != nil && g.Intn(3) > 0 {
				src = o
			}
			if src.NextID > 60 {
				continue
			}
			if f != nil {
				f.Row = g.Intn(src.NextID + 2)
			}
			s = r.genReplaceSelect(t, src, f)
		case "replace":
			s = r.genInsert(t, f, true)
		case "update":
			s = r.genUpdate(t, f)
		case "delete":
			s = r.genDelete(t, f)
		case "updatem":
			if o == nil || t.NextID*o.NextID > 3000 {
				continue
			}
			s = r.genUpdateMulti(t, o, f)
		case "deletem":
			if o == nil || t.NextID*o.NextID > 3000 {
				continue
			}
			s = r.genDeleteMulti(t, o, f)
		case "addcol":
			if len(t.Cols) >= 6 && f == nil {
				continue
			}
			s = r.genAddCol(t, f)
		case "dropcol":
			s = r.genDropCol(t, f)
		case "rename":
			s = r.genRename(t, f)
		case "setattr":
			s = r.genSetAttr(t, f)
		case "fnfail":
			if f == nil {
				continue
			}
			s = r.genFnFail(t)
		case "clausefail":
			if f == nil || o == nil {
				continue
			}
			s = r.genClauseFail(t, o)
		case "targetfail":
			if f == nil || o == nil {
				continue
			}
			s = r.genTargetFail(t, o)
		case "loadfail":
			if f == nil {
				continue
			}
			s = r.genLoadFail(t)
		case "create":
			if f == nil && g.Intn(3) > 0 {
				continue
			}
			s = r.genCreate(t, f)
		}
		if s != nil {
			return s
		}
	}
	return nil
}

// faults applicable to a statement kind
var FaultsOf = map[string][]string{
	"insert":     {"div", "len", "field"},
	"insertsel":  {"subq", "where", "len", "field", "field"},
	"replacesel": {"subq", "where", "len", "field", "keyfield", "keynotset"},
	"replace":    {"div", "len", "field", "keynotset", "keyfield"},
	"update":     {"div", "subq", "field", "dup", "where"},
	"delete":     {"where"},
	"updatem":    {"div", "field", "dup", "where"},
	"deletem":    {"where"},
	"addcol":     {"div", "dup", "pos"},
	"dropcol":    {"field"},
	"rename":     {"dup", "field"},
	"create":     {"dup", "exists", "casecoll", "casecoll", "subq", "where", "len", "dupas"},
	"setattr":    {"value", "value", "combo", "name"},
	"fnfail":     {"fn"},
	"clausefail": {"clause"},
	"targetfail": {"target"},
	"loadfail":   {"load"},
}

// ---------- running ----------

// ErrNum: csvq's error NUMBER (error_code.go), -1 when the error is not a csvq error.
func ErrNum(err error) int {
	if err == nil {
		return 0
	}
	if e, ok := err.(query.Error); ok {
		return e.Number()
	}
	return -1
}

// poisonIn: a cell of the table holds the value lib/value writes into discarded objects
func poisonIn(s *Snap) string {
	for i, row := range s.Rows {
		for j, c := range row {
			for _, p := range poisonTokens {
				if c == p {
					return fmt.Sprintf("record %d, column %d", i, j)
				}
			}
		}
	}
	return ""
}

func uniqueIDs(s *Snap) bool {
	seen := map[string]bool{}
	for _, id := range s.IDs {
		if seen[id] || id == "N" || id == "" {
			return false
		}
		seen[id] = true
	}
	return true
}

type cancelCtx struct {
	context.Context
	n  *int64
	at int64
}

func (c cancelCtx) Err() error {
	if atomic.AddInt64(c.n, 1) >= c.at {
		return context.Canceled
	}
	return nil
}

type Outcome struct {
	TouchedStdin bool // the statement names the STDIN table
	Err          error
	Line         string // the implementation's canonical answer
	Counts       map[string]int
	Failed       []string // direct laws that failed
}

// Exec runs st on the main processor, checks the direct laws, records the case (if the model has an op for it).
func (r *Runner) Exec(st *Stmt, cancelAt int64) *Outcome {
	o := r.O
	applyWait(r.Pr, r.Twin)
	before := r.snapAll()
	marksBefore := Marks(r.Pr)
	filesBefore := r.listing()
	sessBefore := r.sessionState()
	attrsBefore := ""
	if st.Kind == "setattr" {
		attrsBefore = r.Attrs(r.Pr, st.Targets[0])
	}
	fiBefore := FileInfos(r.Pr)
	fuBefore := cachedForUpdate(r.Pr)
	matched := map[string][]string{}
	matchOK := true
	for k, q := range st.MatchSQL {
		v, err := r.Pr.Query(q)
		if err != nil {
			matchOK = false
			continue
		}
		ids := []string{}
		seen := map[string]bool{}
		for i := 0; i < v.RecordLen(); i++ {
			id := CanonID(hc.EncVal(hc.ViewCell(v, i, 0)))
			if !seen[id] || strings.HasPrefix(k, "src:") {
				ids = append(ids, id)
			}
			seen[id] = true
		}
		if st.Outer != "" {
			ids = dropNullIDs(ids) // the padded side of an outer join: no record
		}
		matched[k] = ids
	}
	saved := r.Pr.Ctx
	if cancelAt > 0 {
		var n int64
		r.Pr.Ctx = cancelCtx{saved, &n, cancelAt}
	}
	wrap := st.Wrap
	if wrap == "" {
		wrap = "plain"
		// (a cancelled PROGRAM of several statements may fail after its DML statement completed: cancellation
		// is injected into single statements only)
		if cancelAt == 0 && r.Wraps > 0 && r.G.Intn(100) < r.Wraps {
			wrap = WrapKinds[r.G.Intn(len(WrapKinds))]
		}
	}
	st.Prog = Program(st.SQL, wrap)
	stdout, err := r.Pr.Exec(st.Prog)
	r.Pr.Ctx = saved
	o.Count("block:" + wrap)
	out := &Outcome{Err: err}
	droppedTabs := map[string]bool{}
	if err != nil {
		// a failed statement must not DROP a table from the view cache: with the cached view go the attributes of its
		// first access (a later plain reference parses the file with the defaults).  Reported — under its own name, once
		// per event — when the plain name now shows another table or other attributes than before; the sequence is
		// abandoned then (the plain access cached the table with the defaults, the table function would only find that).
		fiNow := FileInfos(r.Pr)
		for n := range fiBefore {
			if _, ok := fiNow[n]; ok || strings.HasPrefix(n, "temp") || before[n] == nil {
				continue
			}
			o.Count("dropped_cached_table")
			now := r.snap(n)
			fiReloaded := FileInfos(r.Pr)[n]
			if now.Equal(before[n]) && fiReloaded == fiBefore[n] {
				continue // re-read from the file with the same attributes: nothing to see in this process
			}
			rp := map[string]interface{}{"sql": st.Prog, "error": err.Error(), "table": n, "attributes_before": fiBefore[n], "attributes_after": fiReloaded,
				"table_before": clip(before[n].Dump(n)), "table_after": clip(now.Dump(n)), "cached_for_update_before": fuBefore[n]}
			if t := r.Tab(n); t != nil && t.LoadSQL != "" {
				rp["first_access"] = t.LoadSQL
			}
			if cancelAt > 0 {
				rp["cancel_at_ctx_err_call"] = cancelAt
			}
			if !fuBefore[n] && isLoadFailure(err) {
				rp["shape"] = "read-only cached table; the statement failed while it was reloading the table for update"
			}
			o.Law("failed_statement_dropped_cached_table", rp)
			out.Failed = append(out.Failed, "failed_statement_dropped_cached_table")
			droppedTabs[n] = true
		}
	}
	after := r.snapAll()
	replay := func() map[string]interface{} {
		m := map[string]interface{}{"sql": st.Prog, "cpu": r.CPU, "fault": fk(st.Fault)}
		if r.Poison {
			m["poison_discarded_values"] = true
		}
		if cancelAt > 0 {
			m["cancel_at_ctx_err_call"] = cancelAt
		}
		tb := map[string]string{}
		for n, s := range before {
			d := s.Dump(n)
			if len(d) > 1500 {
				d = d[:1500] + "…"
			}
			tb[n] = d
			if t := r.Tab(n); t != nil && t.File {
				tb[n] += " (file)"
			} else {
				tb[n] += " (temporary)"
			}
		}
		m["tables_before"] = tb
		if err != nil {
			m["error"] = err.Error()
		}
		return m
	}
	if r.Poison {
		for n, a := range after {
			if cell := poisonIn(a); cell != "" {
				rp := replay()
				rp["table_with_discarded_value"] = n
				rp["cell"] = cell
				d := a.Dump(n)
				if len(d) > 1500 {
					d = d[:1500] + "…"
				}
				rp["table_after"] = d
				o.Law("poisoned_read", rp)
				out.Failed = append(out.Failed, "poisoned_read")
				break
			}
		}
	}
	if err != nil {
		// C08 on the implementation alone: nothing visible may have changed
		for n, b := range before {
			if !b.Equal(after[n]) && !droppedTabs[n] {
				rp := replay()
				rp["changed_table"] = n
				d := after[n].Dump(n)
				if len(d) > 1500 {
					d = d[:1500] + "…"
				}
				rp["table_after"] = d
				law := "failed_statement_changed_table"
				if cancelAt > 0 {
					law = "cancelled_statement_changed_table"
				}
				o.Law(law, rp)
				out.Failed = append(out.Failed, law)
			}
		}
		if m := Marks(r.Pr); m != marksBefore {
			rp := replay()
			rp["marks_before"], rp["marks_after"] = marksBefore, m
			o.Law("failed_statement_changed_marks", rp)
			out.Failed = append(out.Failed, "failed_statement_changed_marks")
		}
		if sa := r.sessionState(); sa != sessBefore {
			rp := replay()
			rp["session_objects_before"], rp["session_objects_after"] = sessBefore, sa
			o.Law("failed_statement_lost_session_object", rp)
			out.Failed = append(out.Failed, "failed_statement_lost_session_object")
		}
		if st.Kind == "setattr" {
			if a := r.Attrs(r.Pr, st.Targets[0]); a != attrsBefore {
				rp := replay()
				rp["attributes_before"], rp["attributes_after"] = attrsBefore, a
				o.Law("failed_statement_changed_attributes", rp)
				out.Failed = append(out.Failed, "failed_statement_changed_attributes")
			}
		}
		// the table "exactly as it was" includes its ATTRIBUTES: whatever statement failed, every field of the FileInfo of
		// every table that was loaded before is unchanged (a COMMIT writes the file from them)
		fiAfter := FileInfos(r.Pr)
		for n, b := range fiBefore {
			if a, ok := fiAfter[n]; ok && a != b && !droppedTabs[n] {
				rp := replay()
				rp["table"], rp["attributes_before"], rp["attributes_after"] = n, b, a
				o.Law("failed_statement_changed_attributes", rp)
				out.Failed = append(out.Failed, "failed_statement_changed_attributes")
				break
			}
		}
		// files: a failed statement removes nothing (not even the lock / temporary files of tables that are open in
		// the transaction) and leaves no new visible file; it may have opened a table (new hidden lock / temp files)
		filesAfter := r.listing()
		var gone, added []string
		for f := range filesBefore {
			if !filesAfter[f] {
				gone = append(gone, f)
			}
		}
		for f := range filesAfter {
			if !filesBefore[f] && !strings.HasPrefix(f, ".") {
				added = append(added, f)
			}
		}
		if len(gone)+len(added) > 0 {
			sort.Strings(gone)
			sort.Strings(added)
			rp := replay()
			rp["files_removed"], rp["files_created"] = gone, added
			o.Law("failed_statement_changed_files", rp)
			out.Failed = append(out.Failed, "failed_statement_changed_files")
		}
		code := ErrNum(err)
		if code < 0 || code == query.ErrorFatal {
			o.Law("internal_error", replay())
		}
		if code == query.ErrorFileLockTimeout || strings.Contains(err.Error(), "lock wait timeout") {
			// one process, one transaction per repository: nothing else holds a lock; in particular a statement on
			// STDIN / temporary tables never has to wait (the stdin re-lock defect fixed in 1986c14)
			o.Law("stdin_second_statement_timeout", replay())
			out.Failed = append(out.Failed, "stdin_second_statement_timeout")
			// reported once; the rest of the run does not wait the full time-out for every further occurrence
			shortWait = true
		}
		out.Line = fmt.Sprintf("E%d %s", code, Marks(r.Pr))
	} else {
		out.Counts = Counts(stdout)
		// tables that are not named by the statement are untouched
		for n, b := range before {
			if !inList(n, st.Targets) && !b.Equal(after[n]) {
				rp := replay()
				rp["changed_table"] = n
				o.Law("statement_changed_other_table", rp)
			}
		}
		if st.Check != nil && matchOK && !r.OnlyFailureLaws {
			// the laws are evaluated on whatever the implementation returned: a table of an unexpected shape is a finding
			// with its program, never a crash of the harness
			laws := func() (laws []string) {
				defer func() {
					if p := recover(); p != nil {
						laws = append(laws, "table_shape_unexpected")
					}
				}()
				return st.Check(before, after, matched, out.Counts)
			}()
			for _, law := range laws {
				rp := replay()
				rp["counts_reported"] = countsStr(out.Counts)
				rp["matched_by_select"] = matched
				o.Law(law, rp)
				out.Failed = append(out.Failed, law)
			}
		}
		out.Line = fmt.Sprintf("ok %s %s", countsStr(out.Counts), Marks(r.Pr))
		if st.After != nil {
			st.After()
		}
		if st.NewTable != "" {
			r.pendingCreated = append(r.pendingCreated, st.NewTable)
		}
	}
	tg := append([]string{}, st.Targets...)
	if err == nil && st.NewTable != "" {
		tg = append(tg, st.NewTable)
		after[st.NewTable] = r.snap(st.NewTable)
	}
	sort.Strings(tg)
	for _, n := range tg {
		out.Line += " " + after[n].Dump(n)
	}
	out.Line = strings.TrimRight(out.Line, " ")
	for _, t := range r.Tabs {
		if s, ok := after[t.Name]; ok && len(s.Header) > 0 {
			t.Cols = s.Header
		}
	}
	if st.Kind == "setattr" && err == nil && strings.Contains(stdout, "remain unchanged") {
		st.Op = "" // the attribute already had that value: nothing happened, not even the mark
	}
	if st.Op != "" && (cancelAt == 0 || err == nil) {
		o.Case("c05."+st.Op, strings.TrimRight(out.Line, " "))
	}
	out.TouchedStdin = strings.Contains(" "+st.Op+" ", " stdin ") || strings.Contains(st.Op, "$stdin.")
	return out
}

func (r *Runner) SetCPU(n int) {
	r.CPU = n
	r.Pr.SetCPU(n)
}

// TwinExec repeats a statement that succeeded on the control processor.
func (r *Runner) TwinExec(st *Stmt) {
	if r.Twin == nil {
		return
	}
	prog := st.Prog
	if prog == "" {
		prog = st.SQL + ";"
	}
	if _, err := r.Twin.Exec(prog); err != nil {
		r.O.Law("control_run_diverged", map[string]string{"sql": prog, "error": err.Error()})
	}
}

// Resync re-sends every table to the model (after a reported law failure, so that one defect is one report).
func (r *Runner) Resync() {
	for _, t := range r.Tabs {
		r.SendTable(t)
	}
}

// FileText: what a fresh processor reads from the committed file, as text cells.
func FileText(dir, name string) (string, error) {
	pr := hc.NewProc(dir)
	defer pr.Close()
	v, err := pr.Query("SELECT * FROM " + name)
	if err != nil {
		return "", err
	}
	var hs []string
	for _, h := range v.Header {
		hs = append(hs, h.Column)
	}
	rows := make([]string, v.RecordLen())
	for i := range rows {
		cs := make([]string, len(hs))
		for j := range cs {
			c := hc.ViewCell(v, i, j)
			if value.IsNull(c) {
				cs[j] = "N"
			} else if s, ok := c.(*value.String); ok {
				cs[j] = "S" + hc.Hex(s.Raw())
			} else {
				cs[j] = "?" + hc.EncVal(c)
			}
		}
		rows[i] = strings.Join(cs, ",")
	}
	return name + "[" + strings.Join(hs, ",") + "]" + strings.Join(rows, ";"), nil
}

// Commit commits on the main (and twin) processor, compares the committed state with the model, and re-sends
// the file-backed tables (they are re-read from the files, as text, by the following statements).
func (r *Runner) Commit() { r.CommitAt(0) }

// SessionSetup declares, on the main and the control processor, the session objects whose survival is checked after
// failed statements, and the functions whose bodies fail when they are called from inside a data-changing statement:
// vfa: CREATE TABLE with a duplicate column; vfb: a data-changing statement (refused while another one is running);
// vfc: CREATE TABLE … AS SELECT from a table that does not exist; vfd: DECLARE VIEW + INSERT, then a division by zero;
// vfs: INSERT into a table, then the return of a value that no table attribute accepts.
func (r *Runner) SessionSetup(tag string) {
	r.sessTag = tag
	first := r.Tabs[0].Name
	prog := "VAR @vkeep := 7; DECLARE vkeepfn FUNCTION (@n) AS BEGIN RETURN @n + 1; END; " +
		"DECLARE vcur CURSOR FOR SELECT 1 FROM DUAL; OPEN vcur; " +
		"DECLARE vfa FUNCTION (@n) AS BEGIN CREATE TABLE `tq" + tag + "a.csv` (a, b, a); RETURN @n; END; " +
		"DECLARE vfb FUNCTION (@n) AS BEGIN INSERT INTO " + first + " (id) VALUES (999999); RETURN @n; END; " +
		"DECLARE vfc FUNCTION (@n) AS BEGIN CREATE TABLE `tq" + tag + "c.csv` (a, b) AS SELECT 1, 2 FROM nosuch_zz; RETURN @n; END; " +
		"DECLARE vfd FUNCTION (@n) AS BEGIN DECLARE vzz VIEW (x); INSERT INTO vzz VALUES (1); RETURN @n / 0; END; " +
		// vfs: a side effect on a table, then a value no attribute accepts — refused inside a data-changing statement
		"DECLARE vfs FUNCTION (@n) AS BEGIN INSERT INTO " + first + " (id) VALUES (888888); RETURN 'SPREADSHEET'; END;"
	for _, pr := range []*hc.Proc{r.Pr, r.Twin} {
		if pr == nil {
			continue
		}
		if _, err := pr.Exec(prog); err != nil {
			r.O.Law("setup_failed", map[string]string{"sql": prog, "error": err.Error()})
			return
		}
	}
	r.SessionObjs = true
}

// sessionState: the variable, the function, the cursor (open, its record count) as one line, or the error that says
// one of them is gone
func (r *Runner) sessionState() string {
	if !r.SessionObjs {
		return ""
	}
	out, err := r.Pr.Exec("SELECT @vkeep, vkeepfn(2), CURSOR vcur IS OPEN, CURSOR vcur COUNT FROM DUAL;")
	if err != nil {
		return "error: " + err.Error()
	}
	return strings.Join(strings.Fields(out), " ")
}

// Attrs: the attribute listing of a table (SHOW FIELDS: format, delimiter, encoding, line break, header, … and the
// field names), without the Path and Status lines.
func (r *Runner) Attrs(pr *hc.Proc, name string) string {
	out, err := pr.Exec("SHOW FIELDS FROM " + name + ";")
	if err != nil {
		return "error: " + err.Error()
	}
	var keep []string
	for _, l := range strings.Split(out, "\n") {
		t := strings.TrimSpace(l)
		if t == "" || strings.HasPrefix(t, "Path:") || strings.HasPrefix(t, "Status:") || strings.HasPrefix(t, "---") {
			continue
		}
		keep = append(keep, strings.Join(strings.Fields(t), " "))
	}
	return strings.Join(keep, " | ")
}

// listing: the names of all directory entries of the repository, hidden lock / temporary files included
func (r *Runner) listing() map[string]bool {
	m := map[string]bool{}
	es, _ := os.ReadDir(r.Dir)
	for _, e := range es {
		m[e.Name()] = true
	}
	return m
}

// AfterStdin: formerly a COMMIT after every statement that touched STDIN (csvq took the stdin lock again for every
// data-changing statement, fixed in 1986c14); STDIN is now treated like any other table.
func (r *Runner) AfterStdin(out *Outcome) {}

// Rollback: ROLLBACK on the main and the control processor; every table is read back and compared with the model
// (files are re-read from disk, temporary tables return to their restore point, STDIN to the session's copy).
// A table CREATEd in the rolled-back transaction is gone: its file must have been removed.
func (r *Runner) Rollback() {
	o := r.O
	if _, err := r.Pr.Exec("ROLLBACK;"); err != nil {
		o.Law("rollback_failed", err.Error())
		return
	}
	o.Case("c05.rollback", "ok "+Marks(r.Pr))
	if r.Twin != nil {
		if _, err := r.Twin.Exec("ROLLBACK;"); err != nil {
			o.Law("rollback_failed", "twin: "+err.Error())
		}
	}
	for _, n := range r.pendingCreated {
		for _, d := range []string{r.Dir, r.TwinDir} {
			if d == "" {
				continue
			}
			if _, err := os.Stat(filepath.Join(d, n+".csv")); err == nil {
				o.Law("rollback_left_created_file", map[string]string{"table": n, "dir": filepath.Base(d)})
				r.commitLaw = true
			}
		}
		var keep []*Tab
		for _, t := range r.Tabs {
			if t.Name != n {
				keep = append(keep, t)
			}
		}
		r.Tabs = keep
		o.Case("c05.dump "+n, n+"?") // the model no longer has the table either
		o.Count("rollback_of_created_table")
	}
	r.pendingCreated = nil
	r.afterFailedCommit = false
	for _, t := range r.Tabs {
		if t.LoadSQL != "" {
			r.reload(t) // ROLLBACK emptied the view cache
		}
		sn := r.snap(t.Name)
		o.Case("c05.dump "+t.Name, sn.Dump(t.Name))
		if len(sn.Header) > 0 {
			t.Cols = sn.Header
		}
	}
	o.Count("rollback")
}

// CommitOrRollback: mostly COMMIT, sometimes ROLLBACK.
func (r *Runner) CommitOrRollback() {
	if r.G.Intn(3) == 0 {
		r.Rollback()
		return
	}
	r.Commit()
}

func (r *Runner) fileBytes() map[string]string {
	m := map[string]string{}
	fs, _ := filepath.Glob(filepath.Join(r.Dir, "*"))
	for _, f := range fs {
		if strings.HasPrefix(filepath.Base(f), ".") {
			continue
		}
		b, _ := os.ReadFile(f)
		m[filepath.Base(f)] = string(b)
	}
	return m
}

// CommitAt commits on the main processor with the context failing from the cancelAt-th ctx.Err() call on
// (0 = no cancellation).  A COMMIT that fails (the encoders look at the context every 16 records, i.e. after
// bytes of earlier records / earlier tables have reached the temporary files) must change no table, no mark
// and no file; the control run does not see it.  Returns true when the COMMIT was performed.
func (r *Runner) CommitAt(cancelAt int64) bool {
	o := r.O
	var before map[string]*Snap
	var filesBefore map[string]string
	marksBefore := ""
	saved := r.Pr.Ctx
	if cancelAt > 0 {
		before, filesBefore, marksBefore = r.snapAll(), r.fileBytes(), Marks(r.Pr)
		var n int64
		r.Pr.Ctx = cancelCtx{saved, &n, cancelAt}
	}
	_, err := r.Pr.Exec("COMMIT;")
	r.Pr.Ctx = saved
	if err != nil {
		if cancelAt == 0 {
			o.Law("commit_failed", err.Error())
			return false
		}
		o.Count("failed_commit")
		r.afterFailedCommit = true
		rp := map[string]interface{}{"cancel_at_ctx_err_call": cancelAt, "error": err.Error(), "cpu": r.CPU}
		after := r.snapAll()
		for n, b := range before {
			if !b.Equal(after[n]) {
				rp["changed_table"] = n
				o.Law("failed_commit_changed_table", rp)
				r.commitLaw = true
			}
		}
		for f := range filesBefore {
			if _, err := os.Stat(filepath.Join(r.Dir, f)); err != nil {
				rp["file"] = f
				o.Law("failed_commit_removed_file", rp)
				r.commitLaw = true
			}
		}
		if m := Marks(r.Pr); m != marksBefore {
			rp["marks_before"], rp["marks_after"] = marksBefore, m
			o.Law("failed_commit_changed_marks", rp)
			r.commitLaw = true
		}
		created := map[string]bool{}
		for _, n := range r.pendingCreated {
			created[n+".csv"] = true
		}
		for f, b := range r.fileBytes() {
			if created[f] {
				// the file of a table CREATEd in this transaction IS its handler's file (lib/file/handler.go ForCreate, no
				// temporary file): COMMIT encodes into it in place, so after a failed COMMIT it may hold bytes while the table
				// is still marked created (marks compared above), locked and invisible; it is judged after the next
				// ROLLBACK (must be removed) or COMMIT (must be written completely, compared with the control run)
				o.Count("failed_commit_created_file_deferred")
				continue
			}
			if filesBefore[f] != b {
				rp["file"], rp["before"], rp["after"] = f, clip(filesBefore[f]), clip(b)
				o.Law("failed_commit_changed_file", rp)
				r.commitLaw = true
			}
		}
		return false
	}
	o.Case("c05.commit", "ok "+Marks(r.Pr))
	r.pendingCreated = nil
	if r.Twin != nil {
		if _, err := r.Twin.Exec("COMMIT;"); err != nil {
			o.Law("commit_failed", "twin: "+err.Error())
		}
	}
	for _, t := range r.Tabs {
		if !t.File {
			continue
		}
		if !t.Opaque {
			txt, err := FileText(r.Dir, t.Name)
			if err != nil {
				o.Law("committed_file_unreadable", map[string]string{"table": t.Name, "error": err.Error()})
				continue
			}
			o.Case("c05.committed "+t.Name, txt)
		}
		if r.Twin != nil {
			a, _ := os.ReadFile(filepath.Join(r.Dir, t.FileName()))
			b, _ := os.ReadFile(filepath.Join(r.TwinDir, t.FileName()))
			if string(a) != string(b) {
				law := "partial_effects_committed"
				if r.afterFailedCommit {
					// the transaction saw a COMMIT that failed, then statements, then this COMMIT; the control run only the latter two
					law = "commit_after_failed_commit_differs"
				}
				r.commitLaw = true
				o.Law(law, map[string]interface{}{"table": t.Name, "bytes": len(a), "bytes_control": len(b), "file": clip(string(a)), "file_of_control_run": clip(string(b)), "file_tail": tail(string(a))})
			}
		}
		if t.LoadSQL != "" {
			// the view cache is empty after COMMIT: the table is accessed through its table function again, then re-sent
			r.reload(t)
			r.SendTable(t)
			continue
		}
		if t.Opaque {
			continue
		}
		r.SendTable(t)
	}
	r.afterFailedCommit = false
	return true
}

// reload: the first access of a transaction to a table whose format attributes come from a table function
func (r *Runner) reload(t *Tab) {
	for _, pr := range []*hc.Proc{r.Pr, r.Twin} {
		if pr == nil {
			continue
		}
		if _, err := pr.Exec(t.LoadSQL); err != nil {
			r.O.Law("setup_failed", map[string]string{"sql": t.LoadSQL, "error": err.Error()})
		}
	}
}

func tail(s string) string {
	if len(s) > 300 {
		return "…" + s[len(s)-300:]
	}
	return s
}

// keepFirst: DELETE FROM t WHERE id >= k (the "fix the data" step after a failed COMMIT: the encoded table gets shorter)
func keepFirst(t *Tab, k int) *Stmt {
	cond := Bin(">=", "ge", Col(t.Name, "id", false), Int(k))
	return &Stmt{Kind: "delete", Targets: []string{t.Name}, SQL: fmt.Sprintf("DELETE FROM %s WHERE %s", t.Name, cond.SQL),
		Op: fmt.Sprintf("delete %s %s", t.Name, cond.Tok), Wrap: "plain"}
}

// FailedCommitEpisode: COMMIT cancelled at the cancelAt-th context check; if it failed, every file-backed table is cut
// down (in the control run too) and a second COMMIT follows, whose files are compared byte for byte with the control run's.
// Returns (the first COMMIT failed, a law failed).
func (r *Runner) FailedCommitEpisode(cancelAt int64) (bool, bool) {
	if r.CommitAt(cancelAt) {
		return false, r.commitLaw
	}
	if r.commitLaw {
		return true, true
	}
	if len(r.pendingCreated) > 0 && r.G.Intn(2) == 0 {
		// ROLLBACK after the failed COMMIT: the created tables' files (possibly holding encoded bytes) must be removed
		r.Rollback()
		r.CompareTwin("ROLLBACK after a failed COMMIT")
		return true, r.commitLaw
	}
	for _, t := range r.Tabs {
		if !t.File {
			continue
		}
		st := keepFirst(t, 2+r.G.Intn(3))
		out := r.Exec(st, 0)
		if out.Err == nil {
			r.TwinExec(st)
		}
		if len(out.Failed) > 0 {
			return true, true
		}
	}
	r.CompareTwin("after a failed COMMIT")
	r.CommitAt(0)
	return true, r.commitLaw
}

func clip(s string) string {
	if len(s) > 1200 {
		return s[:1200] + "…"
	}
	return s
}

// CompareTwin: every table of the run with failing statements equals the control run's.
func (r *Runner) CompareTwin(where string) {
	if r.Twin == nil {
		return
	}
	for _, t := range r.Tabs {
		a, _, e1 := SnapOf(r.Pr, t.Name)
		b, _, e2 := SnapOf(r.Twin, t.Name)
		if e1 != nil || e2 != nil {
			continue
		}
		if !a.Equal(b) {
			r.O.Law("failed_statement_changed_table", map[string]interface{}{"where": where, "table": t.Name, "with_failed_statements": clip(a.Dump(t.Name)), "control_run": clip(b.Dump(t.Name))})
		}
	}
	files, _ := filepath.Glob(filepath.Join(r.Dir, "*"))
	tfiles, _ := filepath.Glob(filepath.Join(r.TwinDir, "*"))
	names := func(fs []string) string {
		var b []string
		for _, f := range fs {
			if !strings.HasPrefix(filepath.Base(f), ".") {
				b = append(b, filepath.Base(f))
			}
		}
		sort.Strings(b)
		return strings.Join(b, ",")
	}
	if names(files) != names(tfiles) {
		r.O.Law("failed_create_left_file", map[string]string{"where": where, "files": names(files), "control": names(tfiles)})
	}
}

// ReplaceWitness: REPLACE with six unmatched rows on the first table (pre-finding F4).
func (r *Runner) ReplaceWitness() *Stmt {
	t := r.Tabs[0]
	var rs, rt, ids []string
	base := t.NextID + 10
	for i := 0; i < 6; i++ {
		e := Int(base + i)
		rs = append(rs, "("+e.SQL+")")
		rt = append(rt, "1 "+e.Tok)
		ids = append(ids, strconv.Itoa(base+i))
	}
	name := t.Name
	st := &Stmt{Kind: "replace", Targets: []string{name}}
	st.SQL = fmt.Sprintf("REPLACE INTO %s (id) USING (id) VALUES %s", name, strings.Join(rs, ", "))
	st.Op = fmt.Sprintf("replace %s 1 id 1 id 6 %s", name, strings.Join(rt, " "))
	st.Check = func(before, after map[string]*Snap, _ map[string][]string, counts map[string]int) []string {
		b, a := before[name], after[name]
		if len(a.IDs) != len(b.IDs)+6 || !sameStrs(a.IDs[len(b.IDs):], ids) {
			_ = ids
			return []string{"replace_append_order"}
		}
		return nil
	}
	st.After = func() { t.NextID = base + 6 }
	return st
}

// KnownReplaceWitness: the corpus entry of known finding F41, run first on every C05 run whatever the seed:
// table tw(id,v) = (1,a),(2,x); REPLACE INTO tw (id, v) USING (id) VALUES (1,'b'),(1,'c').  The property text
// wants the second given row to update the record with id 1 as well; csvq appends it.
func KnownReplaceWitness(g *hc.Gen, o *hc.Out, root string) {
	r := &Runner{G: g, O: o, CPU: 1}
	r.Dir = filepath.Join(root, "witness-f41")
	_ = os.MkdirAll(r.Dir, 0o755)
	defer os.RemoveAll(r.Dir)
	_ = os.WriteFile(filepath.Join(r.Dir, "tw.csv"), []byte("id,v\n1,a\n2,x\n"), 0o644)
	t := &Tab{Name: "tw", File: true, Cols: []string{"id", "v"}, Kind: map[string]int{"id": KInt, "v": KStr}, NextID: 3}
	r.Tabs = []*Tab{t}
	r.Pr = hc.NewProc(r.Dir)
	r.Pr.SetCPU(1)
	defer r.Pr.Close()
	o.Case("c05.reset", "ok")
	r.SendTable(t)
	rows := [][]Ex{{Int(1), Lit(value.NewString("b"))}, {Int(1), Lit(value.NewString("c"))}}
	var rs, rt []string
	for _, row := range rows {
		rs = append(rs, "("+sqls(row)+")")
		rt = append(rt, "2 "+toks(row))
	}
	st := &Stmt{Kind: "replace", Targets: []string{"tw"}}
	st.SQL = "REPLACE INTO tw (id, v) USING (id) VALUES " + strings.Join(rs, ", ")
	st.Op = "replace tw 2 id v 1 id 2 " + strings.Join(rt, " ")
	st.Check = func(before, after map[string]*Snap, _ map[string][]string, counts map[string]int) []string {
		a := after["tw"]
		if len(a.IDs) > 2 && a.IDs[len(a.IDs)-1] == "1" {
			return []string{"replace_appended_row_with_existing_key"}
		}
		return nil
	}
	r.Exec(st, 0)
	o.Count("corpus:F41")
}

// ---------- fixed corpus of stream c08: cancellation at every ctx.Err() call of two-target statements ----------

type fixedTab struct {
	name string
	file bool // name "stdin" with file == false: the session's STDIN table
	cols []string
	rows [][]int
}

func newFixedRunner(g *hc.Gen, o *hc.Out, root, tag string, tabs []fixedTab) *Runner {
	r := &Runner{G: g, O: o, CPU: 1, OnlyFailureLaws: true}
	atomic.AddInt64(&wrapSeq, 1000) // names of blocks / functions / prepared statements stay unique across processors
	r.Dir = filepath.Join(root, tag)
	r.TwinDir = filepath.Join(root, tag+"-twin")
	_ = os.MkdirAll(r.Dir, 0o755)
	_ = os.MkdirAll(r.TwinDir, 0o755)
	for _, ft := range tabs {
		t := &Tab{Name: ft.name, File: ft.file, Stdin: ft.name == "stdin", Cols: append([]string{}, ft.cols...), Kind: map[string]int{}, NextID: len(ft.rows)}
		for _, c := range ft.cols {
			t.Kind[c] = KInt
		}
		r.Tabs = append(r.Tabs, t)
		if ft.file {
			var sb strings.Builder
			sb.WriteString(strings.Join(ft.cols, ",") + "\n")
			for _, row := range ft.rows {
				cs := make([]string, len(row))
				for j, v := range row {
					cs[j] = strconv.Itoa(v)
				}
				sb.WriteString(strings.Join(cs, ",") + "\n")
			}
			_ = os.WriteFile(filepath.Join(r.Dir, ft.name+".csv"), []byte(sb.String()), 0o644)
			_ = os.WriteFile(filepath.Join(r.TwinDir, ft.name+".csv"), []byte(sb.String()), 0o644)
		}
	}
	mk := func(dir string) *hc.Proc {
		pr := hc.NewProc(dir)
		pr.SetCPU(1)
		for _, ft := range tabs {
			if ft.file {
				continue
			}
			if ft.name == "stdin" {
				var sb strings.Builder
				sb.WriteString(strings.Join(ft.cols, ",") + "\n")
				for _, row := range ft.rows {
					cs := make([]string, len(row))
					for j, v := range row {
						cs[j] = strconv.Itoa(v)
					}
					sb.WriteString(strings.Join(cs, ",") + "\n")
				}
				_ = pr.P.Tx.Session.SetStdin(io.NopCloser(strings.NewReader(sb.String())))
				continue
			}
			var sb strings.Builder
			fmt.Fprintf(&sb, "DECLARE %s VIEW (%s);", ft.name, strings.Join(ft.cols, ", "))
			if len(ft.rows) > 0 {
				fmt.Fprintf(&sb, "INSERT INTO %s VALUES ", ft.name)
				for i, row := range ft.rows {
					if i > 0 {
						sb.WriteString(", ")
					}
					cs := make([]string, len(row))
					for j, v := range row {
						cs[j] = strconv.Itoa(v)
					}
					sb.WriteString("(" + strings.Join(cs, ", ") + ")")
				}
				sb.WriteString(";")
			}
			sb.WriteString("COMMIT;")
			if _, err := pr.Exec(sb.String()); err != nil {
				o.Law("setup_failed", err.Error())
			}
		}
		return pr
	}
	r.Pr = mk(r.Dir)
	r.Twin = mk(r.TwinDir)
	o.Case("c05.reset", "ok")
	for _, t := range r.Tabs {
		r.SendTable(t)
	}
	return r
}

// twoTargetUpdate: UPDATE a, b SET a.ca = (a.ca + 1), b.cb = (b.cb + 1) FROM a JOIN b ON (a.id = b.id) WHERE (a.id < 2)
func twoTargetUpdate(a, ca, b, cb string) *Stmt {
	ea := Bin("+", "+", Col(a, ca, true), Int(1))
	eb := Bin("+", "+", Col(b, cb, true), Int(1))
	on := Bin("=", "eq", Col(a, "id", true), Col(b, "id", true))
	wh := Bin("<", "lt", Col(a, "id", true), Int(2))
	cond := Bin("AND", "and", on, wh)
	st := &Stmt{Kind: "updatem", Targets: []string{a, b}}
	st.SQL = fmt.Sprintf("UPDATE %s, %s SET %s.%s = %s, %s.%s = %s FROM %s JOIN %s ON %s WHERE %s", a, b, a, ca, ea.SQL, b, cb, eb.SQL, a, b, on.SQL, wh.SQL)
	st.Op = fmt.Sprintf("updatem 2 %s %s 2 %s %s 2 %s %s %s %s %s %s %s", a, b, a, b, a, ca, ea.Tok, b, cb, eb.Tok, cond.Tok)
	return st
}

// twoTargetDelete: DELETE a, b FROM a, b WHERE ((a.id = b.id) AND (a.id < 1))
func twoTargetDelete(a, b string) *Stmt {
	cond := Bin("AND", "and", Bin("=", "eq", Col(a, "id", true), Col(b, "id", true)), Bin("<", "lt", Col(a, "id", true), Int(1)))
	st := &Stmt{Kind: "deletem", Targets: []string{a, b}}
	st.SQL = fmt.Sprintf("DELETE %s, %s FROM %s, %s WHERE %s", a, b, a, b, cond.SQL)
	st.Op = fmt.Sprintf("deletem 2 %s %s 2 %s %s %s", a, b, a, b, cond.Tok)
	return st
}

// ScanCancel re-runs st with the context failing from the 1st, 2nd, … ctx.Err() call on, until the statement
// completes; after every cancelled attempt Exec checks that no table and no uncommitted mark changed.
// Returns (number of cancelled attempts, completed, a law failed).
func (r *Runner) ScanCancel(st *Stmt, maxAt int64, mustComplete bool) (int, bool, bool) {
	for at := int64(1); at <= maxAt; at++ {
		if r.ReloadEachAttempt {
			// nothing is pending: ROLLBACK drops the cached tables, so every attempt loads its tables again and the
			// cancellation also falls into the context checks of the LOADING (every 16 records)
			if _, err := r.Pr.Exec("ROLLBACK;"); err != nil {
				r.O.Law("rollback_failed", err.Error())
			}
		}
		out := r.Exec(st, at)
		r.O.Count("fault:cancel_scan")
		if out.Err == nil {
			r.TwinExec(st)
		}
		r.AfterStdin(out)
		if out.Err == nil {
			r.O.Count("cancel_scan_completed:" + st.Kind)
			return int(at - 1), true, false
		}
		r.O.NonTrivial(fmt.Sprintf("scan:%s:%s:%d:E%d", st.Kind, strings.Join(st.Targets, "+"), at, ErrNum(out.Err)))
		if len(out.Failed) > 0 {
			return int(at), false, true
		}
		if n := ErrNum(out.Err); n != query.ErrorContextCanceled && n != query.ErrorContextDone {
			// the statement fails by itself (a record written twice, a division by a 0 cell): nothing to scan
			r.O.Count("cancel_scan_natural_error")
			return int(at), false, false
		}
	}
	if mustComplete {
		r.O.Law("cancel_scan_did_not_complete", map[string]interface{}{"sql": st.SQL, "max_at": maxAt})
	}
	r.O.Count("cancel_scan_cut")
	return int(maxAt), false, false
}

// CancelCorpus runs first on every c08 run, whatever the seed: two-target UPDATE and DELETE over small
// file-backed, temporary and mixed table pairs at @@CPU 1, cancelled at EVERY ctx.Err() call index until the
// statement completes; tables + marks are compared around every attempt, and after each completed statement
// both runs COMMIT and the files are compared with the control run's.
func CancelCorpus(g *hc.Gen, o *hc.Out, root string) {
	rows := [][]int{{0, 5}, {1, 6}, {2, 7}}
	r := newFixedRunner(g, o, root, "corpus-cancel", []fixedTab{
		{"f1", true, []string{"id", "a"}, rows}, {"f2", true, []string{"id", "e"}, rows},
		{"m1", false, []string{"id", "p"}, rows}, {"m2", false, []string{"id", "q"}, rows},
	})
	defer r.Close()
	stmts := []*Stmt{
		twoTargetUpdate("f1", "a", "f2", "e"),
		twoTargetUpdate("m1", "p", "m2", "q"),
		twoTargetUpdate("f2", "e", "m1", "p"),
		twoTargetDelete("f1", "f2"),
		twoTargetDelete("m1", "m2"),
		twoTargetDelete("m2", "f1"),
		twoTargetUpdate("f1", "a", "f2", "e"), // once more, now on tables already loaded and changed in this transaction
		twoTargetDelete("f2", "m1"),
	}
	for k, st := range stmts {
		// the tables carry an uncommitted change of an earlier statement while the cancellation points are scanned
		for _, tn := range st.Targets {
			t := r.Tab(tn)
			a, b := Int(100+k), Int(7)
			pre := &Stmt{Kind: "insert", Targets: []string{tn}, Wrap: "plain", SQL: fmt.Sprintf("INSERT INTO %s (id, %s) VALUES (%s, %s)", tn, t.Cols[1], a.SQL, b.SQL),
				Op: fmt.Sprintf("insert %s 2 id %s 1 2 %s %s", tn, t.Cols[1], a.Tok, b.Tok)}
			if out := r.Exec(pre, 0); out.Err == nil {
				r.TwinExec(pre)
			}
		}
		n, done, failed := r.ScanCancel(st, 5000, true)
		o.Count(fmt.Sprintf("corpus_cancel_attempts~%d", n/10*10))
		if failed || !done {
			return // one defect, one report
		}
		r.CompareTwin("cancel corpus: " + st.SQL)
		r.Commit()
	}
}

// ---------- fixed corpus of stream c05: every statement kind inside every kind of nested block ----------

// NestedCorpus runs first on every c05 run: INSERT / INSERT..SELECT / REPLACE / REPLACE..SELECT / UPDATE / DELETE /
// multi-table UPDATE and DELETE / ALTER ADD, RENAME, DROP against temporary tables declared at the TOP level (and a
// file-backed table), each executed inside IF, nested IF/ELSE, WHILE, a user-defined function body and
// PREPARE/EXECUTE; the table is read back after the block has ended and compared with the model and the frame laws.
func NestedCorpus(g *hc.Gen, o *hc.Out, root string) {
	rows := [][]int{{0, 5, 1}, {1, 6, 0}, {2, 7, 3}, {3, 8, 2}}
	r := newFixedRunner(g, o, root, "corpus-nested", []fixedTab{
		{"m1", false, []string{"id", "a", "b"}, rows}, {"f1", true, []string{"id", "e", "f"}, rows},
		{"m2", false, []string{"id", "p", "q"}, rows},
	})
	r.OnlyFailureLaws = false
	r.dropTwin()
	defer r.Close()
	m1, f1, m2 := r.Tabs[0], r.Tabs[1], r.Tabs[2]
	for _, wrap := range WrapKinds {
		for round, t := range []*Tab{m1, m2, f1} {
			other := m2
			if t == m2 {
				other = f1
			}
			gens := []func() *Stmt{
				func() *Stmt { return r.genInsert(t, nil, false) },
				func() *Stmt { return r.genInsertSelect(t, other, nil) },
				func() *Stmt { return r.genUpdate(t, nil) },
				func() *Stmt { return r.genInsert(t, nil, true) },
				func() *Stmt { return r.genReplaceSelect(t, other, nil) },
				func() *Stmt { return r.genUpdateMulti(t, other, nil) },
				func() *Stmt { return r.genAddCol(t, nil) },
				func() *Stmt { return r.genRename(t, nil) },
				func() *Stmt { return r.genDropCol(t, nil) },
				func() *Stmt { return r.genDeleteMulti(t, other, nil) },
				func() *Stmt { return r.genDelete(t, nil) },
				func() *Stmt { return r.genInsert(t, nil, false) },
			}
			if round == 2 {
				gens = gens[:4] // the file-backed table: a shorter round
			}
			for _, gen := range gens {
				st := gen()
				if st == nil {
					continue
				}
				st.Wrap = wrap
				r.AfterStdin(r.Exec(st, 0))
				o.Count("corpus:nested:" + wrap)
			}
		}
	}
}

// ---------- fixed corpora of stream c08 ----------

func handStmt(kind, sql, op string, targets ...string) *Stmt {
	return &Stmt{Kind: kind, SQL: sql, Op: op, Targets: targets, Wrap: "plain", Fault: &Fault{Kind: "after_source"}}
}

// DiscardCorpus runs first on every c08 run with the poisoning hook of lib/value switched on: statements that fail
// AFTER their source query / scalar sub-query was evaluated (unknown column in the INSERT / REPLACE column list,
// unknown key, wrong column count, a record written twice by UPDATE … FROM), each followed by ordinary statements
// that allocate values; EVERY table (the sources included) is re-read after every statement, then COMMIT and the
// files are compared with the control run's.
func DiscardCorpus(g *hc.Gen, o *hc.Out, root string) {
	on := SetPoison(true)
	defer SetPoison(false)
	rows := [][]int{{0, 5}, {1, 6}, {2, 7}}
	r := newFixedRunner(g, o, root, "corpus-discard", []fixedTab{
		{"f1", true, []string{"id", "a"}, rows}, {"m1", false, []string{"id", "p"}, rows},
		{"f2", true, []string{"id", "e"}, rows}, {"m2", false, []string{"id", "q"}, rows},
	})
	r.Poison = on
	defer r.Close()
	tt := True()
	failing := []*Stmt{
		handStmt("insertsel", "INSERT INTO f2 (id, zz) SELECT id, a FROM f1 WHERE TRUE", "insertsel f2 2 id zz f1 2 $id $a "+tt.Tok, "f2"),
		handStmt("insertsel", "INSERT INTO m2 (id, zz) SELECT id, p FROM m1 WHERE TRUE", "insertsel m2 2 id zz m1 2 $id $p "+tt.Tok, "m2"),
		handStmt("insert", "INSERT INTO f2 (id, e, zz) VALUES (9, (SELECT a FROM f1 WHERE id = 1), 1)", "insert f2 3 id e zz 1 3 "+Int(9).Tok+" "+CellOf("f1", "a", 1).Tok+" "+Int(1).Tok, "f2"),
		handStmt("insert", "INSERT INTO m2 (id, q, zz) VALUES (9, (SELECT p FROM m1 WHERE id = 2), 1)", "insert m2 3 id q zz 1 3 "+Int(9).Tok+" "+CellOf("m1", "p", 2).Tok+" "+Int(1).Tok, "m2"),
		handStmt("replacesel", "REPLACE INTO f2 (id, e) USING (zz) SELECT id, p FROM m1 WHERE TRUE", "replacesel f2 2 id e 1 zz m1 2 $id $p "+tt.Tok, "f2"),
		handStmt("replacesel", "REPLACE INTO m2 (id, q, zz) USING (id) SELECT id, a, 1 FROM f1 WHERE TRUE", "replacesel m2 3 id q zz 1 id f1 3 $id $a "+Int(1).Tok+" "+tt.Tok, "m2"),
		handStmt("insertsel", "INSERT INTO f2 (id) SELECT id, p FROM m1 WHERE TRUE", "insertsel f2 1 id m1 2 $id $p "+tt.Tok, "f2"),
		handStmt("updatem", "UPDATE f2 SET f2.e = m1.p FROM f2, m1 WHERE (m1.id >= 0)", "updatem 1 f2 2 f2 m1 1 f2 e $m1.p "+Bin(">=", "ge", Col("m1", "id", true), Int(0)).Tok, "f2"),
	}
	next := 100
	for _, st := range failing {
		out := r.Exec(st, 0)
		o.Count("corpus:discard")
		if out.Err == nil {
			o.Law("corpus_statement_did_not_fail", map[string]string{"sql": st.SQL})
			return
		}
		if len(out.Failed) > 0 {
			return
		}
		// ordinary allocating statements
		for _, tn := range []string{"m2", "f2"} {
			t := r.Tab(tn)
			c := t.Cols[1]
			rowsSQL, rowsTok := []string{}, []string{}
			for k := 0; k < 6; k++ {
				a, b := Int(next), Lit(value.NewString(fmt.Sprintf("v%d", next)))
				if k%2 == 0 {
					b = Int(next * 3)
				}
				next++
				rowsSQL = append(rowsSQL, "("+a.SQL+", "+b.SQL+")")
				rowsTok = append(rowsTok, "2 "+a.Tok+" "+b.Tok)
			}
			al := &Stmt{Kind: "insert", Targets: []string{tn}, Wrap: "plain"}
			al.SQL = fmt.Sprintf("INSERT INTO %s (id, %s) VALUES %s", tn, c, strings.Join(rowsSQL, ", "))
			al.Op = fmt.Sprintf("insert %s 2 id %s 6 %s", tn, c, strings.Join(rowsTok, " "))
			ao := r.Exec(al, 0)
			if ao.Err == nil {
				r.TwinExec(al)
			}
			if len(ao.Failed) > 0 {
				return
			}
		}
		r.CompareTwin("discard corpus: after " + st.SQL)
	}
	r.Commit()
}

// CommitCorpus runs first on every c08 run: "COMMIT fails after bytes reached the temporary files → the data is
// fixed (made SHORTER) → COMMIT again", with the failure injected at the 1st, 2nd, … context check of the COMMIT
// (the encoders look at the context every 16 records) until a COMMIT completes; three file-backed tables (two of
// them larger than the 4096-byte write buffer, so that either the failing table or an earlier one has already
// been flushed), compared byte for byte with a control run that never saw the failed COMMIT.
func CommitCorpus(g *hc.Gen, o *hc.Out, root string) {
	small := [][]int{{0, 1000000, 2000000}, {1, 1000001, 2000001}, {2, 1000002, 2000002}}
	big := make([][]int, 400)
	for i := range big {
		big[i] = []int{i, 1000000 + i, 2000000 + i}
	}
	r := newFixedRunner(g, o, root, "corpus-commit", []fixedTab{
		{"f1", true, []string{"id", "a", "b"}, small}, {"f2", true, []string{"id", "e", "f"}, small},
		{"f3", true, []string{"id", "p", "q"}, small}, {"src", false, []string{"id", "x", "y"}, big},
	})
	defer r.Close()
	tt := True()
	for k := int64(1); k <= 150; k++ {
		// grow f1 and f3 beyond the write buffer, touch f2
		for i, tn := range []string{"f1", "f3", "f2"} {
			t := r.Tab(tn)
			base := int(k)*10000 + i*1000 + 1000
			idEx := Bin("+", "+", Col("src", "id", false), Int(base))
			cond := tt
			if tn == "f2" {
				cond = Bin("<", "lt", Col("src", "id", false), Int(2))
			}
			st := &Stmt{Kind: "insertsel", Targets: []string{tn}, Wrap: "plain"}
			st.SQL = fmt.Sprintf("INSERT INTO %s (%s) SELECT %s, x, y FROM src WHERE %s", tn, strings.Join(t.Cols, ", "), idEx.SQL, cond.SQL)
			st.Op = fmt.Sprintf("insertsel %s %s src 3 %s $x $y %s", tn, fieldsTok(t.Cols), idEx.Tok, cond.Tok)
			out := r.Exec(st, 0)
			if out.Err != nil || len(out.Failed) > 0 {
				o.Law("corpus_statement_failed", map[string]string{"sql": st.SQL})
				return
			}
			r.TwinExec(st)
		}
		failed, law := r.FailedCommitEpisode(k)
		o.Count("corpus:commit_episode")
		if law {
			return
		}
		if !failed {
			o.Count("corpus:commit_scan_completed")
			return
		}
	}
	o.Law("commit_scan_did_not_complete", "150 context checks")
}

func (r *Runner) dropTwin() {
	if r.Twin != nil {
		r.Twin.Close()
		r.Twin = nil
	}
}

// StdinCorpus runs first on every c05 run: the session's STDIN table — an updatable in-memory table that is neither a
// file nor a DECLAREd temporary table — as the target of every statement kind (and as one of the tables of the
// multi-table forms), at the top level and inside nested blocks, read back in the same session after every statement.
func StdinCorpus(g *hc.Gen, o *hc.Out, root string) {
	rows := [][]int{{0, 5, 1}, {1, 6, 0}, {2, 7, 3}, {3, 8, 2}}
	r := newFixedRunner(g, o, root, "corpus-stdin", []fixedTab{
		{"stdin", false, []string{"id", "a", "b"}, rows}, {"f1", true, []string{"id", "e", "f"}, rows},
		{"m1", false, []string{"id", "p", "q"}, rows},
	})
	r.OnlyFailureLaws = false
	r.dropTwin()
	defer r.Close()
	sd, f1, m1 := r.Tabs[0], r.Tabs[1], r.Tabs[2]
	for round, wrap := range []string{"plain", "if", "func", "plain"} {
		other := f1
		if round%2 == 1 {
			other = m1
		}
		gens := []func() *Stmt{
			func() *Stmt { return r.genInsert(sd, nil, false) },
			func() *Stmt { return r.genInsertSelect(sd, other, nil) },
			func() *Stmt { return r.genUpdate(sd, nil) },
			func() *Stmt { return r.genInsert(sd, nil, true) },
			func() *Stmt { return r.genReplaceSelect(sd, other, nil) },
			func() *Stmt { return r.genUpdateMulti(sd, other, nil) },
			func() *Stmt { return r.genUpdateMulti(other, sd, nil) },
			func() *Stmt { return r.genAddCol(sd, nil) },
			func() *Stmt { return r.genRename(sd, nil) },
			func() *Stmt { return r.genDropCol(sd, nil) },
			func() *Stmt { return r.genDeleteMulti(sd, other, nil) },
			func() *Stmt { return r.genInsertSelect(other, sd, nil) },
			func() *Stmt { return r.genDelete(sd, nil) },
			func() *Stmt { return r.genInsert(sd, nil, false) },
		}
		for _, gen := range gens {
			st := gen()
			if st == nil {
				continue
			}
			st.Wrap = wrap
			r.AfterStdin(r.Exec(st, 0))
			o.Count("corpus:stdin")
		}
		// one transaction per round: many statements on STDIN, files and temporary tables together, then COMMIT or ROLLBACK
		if round == 1 {
			r.Rollback()
		} else {
			r.Commit()
		}
	}
}

// LoadCancelCorpus (c08, first on every run): cancellation at EVERY context check of statements over file-backed
// tables of 40 and 100 records that are loaded afresh in every attempt (ROLLBACK before it), so that the check
// falls into the LOADING of a table (every 16 records) as well as into the statement's own evaluation; tables, marks
// and files around every attempt, and after the completed statement a COMMIT compared with the control run.
func LoadCancelCorpus(g *hc.Gen, o *hc.Out, root string) {
	mk := func(n int) [][]int {
		rows := make([][]int, n)
		for i := range rows {
			rows[i] = []int{i, 100 + i}
		}
		return rows
	}
	r := newFixedRunner(g, o, root, "corpus-loadcancel", []fixedTab{
		{"f1", true, []string{"id", "a"}, mk(40)}, {"f2", true, []string{"id", "e"}, mk(100)}, {"m1", false, []string{"id", "p"}, mk(3)},
	})
	defer r.Close()
	r.ReloadEachAttempt = true
	upd := func(t, c string) *Stmt {
		e := Bin("+", "+", Col(t, c, false), Int(1))
		cond := Bin("<", "lt", Col(t, "id", false), Int(3))
		return &Stmt{Kind: "update", Targets: []string{t}, Wrap: "plain",
			SQL: fmt.Sprintf("UPDATE %s SET %s = %s WHERE %s", t, c, e.SQL, cond.SQL),
			Op:  fmt.Sprintf("update %s 1 %s %s %s", t, c, e.Tok, cond.Tok)}
	}
	insSel := func(t, src string) *Stmt {
		idEx := Bin("+", "+", Col(src, "id", false), Int(1000))
		cond := Bin("<", "lt", Col(src, "id", false), Int(2))
		tt := r.Tab(t)
		return &Stmt{Kind: "insertsel", Targets: []string{t}, Wrap: "plain",
			SQL: fmt.Sprintf("INSERT INTO %s (%s) SELECT %s, %s FROM %s WHERE %s", t, strings.Join(tt.Cols, ", "), idEx.SQL, r.Tab(src).Cols[1], src, cond.SQL),
			Op:  fmt.Sprintf("insertsel %s %s %s 2 %s $%s %s", t, fieldsTok(tt.Cols), src, idEx.Tok, r.Tab(src).Cols[1], cond.Tok)}
	}
	stmts := []*Stmt{upd("f1", "a"), upd("f2", "e"), insSel("m1", "f2"), insSel("f1", "f2"), keepFirst(r.Tab("f2"), 30)}
	for _, st := range stmts {
		n, done, failed := r.ScanCancel(st, 3000, true)
		o.Count(fmt.Sprintf("corpus_loadcancel_attempts~%d", n/50*50))
		if failed || !done {
			return
		}
		r.CompareTwin("load-cancel corpus: " + st.SQL)
		r.Commit()
	}
}

// CreateCorpus (c08, first on every run): CREATE TABLE statements that must fail while tables are open in the
// transaction — a name that collides only case-insensitively with an open table, an existing file, duplicate columns,
// a failing AS SELECT — with tables, marks and the directory (lock / temporary files of the open tables included)
// compared around each, then further updates and a COMMIT compared with the control run.
func CreateCorpus(g *hc.Gen, o *hc.Out, root string) {
	rows := [][]int{{0, 5}, {1, 6}, {2, 7}}
	r := newFixedRunner(g, o, root, "corpus-create", []fixedTab{
		{"f1", true, []string{"id", "a"}, rows}, {"f2", true, []string{"id", "e"}, rows}, {"m1", false, []string{"id", "p"}, rows},
	})
	defer r.Close()
	bump := func(t, c string) bool {
		e := Bin("+", "+", Col(t, c, false), Int(1))
		st := &Stmt{Kind: "update", Targets: []string{t}, Wrap: "plain", SQL: fmt.Sprintf("UPDATE %s SET %s = %s WHERE TRUE", t, c, e.SQL),
			Op: fmt.Sprintf("update %s 1 %s %s %s", t, c, e.Tok, True().Tok)}
		out := r.Exec(st, 0)
		if out.Err == nil {
			r.TwinExec(st)
		}
		return out.Err == nil && len(out.Failed) == 0
	}
	if !bump("f1", "a") || !bump("f2", "e") {
		return
	}
	law := func(sql string) *Stmt {
		return &Stmt{Kind: "create", SQL: sql, Targets: []string{}, Wrap: "plain", Fault: &Fault{Kind: "casecoll"}}
	}
	failing := []*Stmt{
		law("CREATE TABLE `F1.CSV` (a, b)"),
		law("CREATE TABLE `F2.csv` (a, b) AS SELECT 1, 2 FROM DUAL"),
		law("CREATE TABLE `f1.CSV` (x)"),
		{Kind: "create", SQL: "CREATE TABLE `f1.csv` (a, b)", Op: "create f1 2 a b", Targets: []string{}, Wrap: "plain", Fault: &Fault{Kind: "exists"}},
		{Kind: "create", SQL: "CREATE TABLE tdup (a, b, a)", Op: "create tdup 3 a b a", Targets: []string{}, Wrap: "plain", Fault: &Fault{Kind: "dup"}},
		law("CREATE TABLE `tq.csv` (a, b) AS SELECT id, 1 / (id - 1) FROM f2"),
	}
	for _, st := range failing {
		out := r.Exec(st, 0)
		o.Count("corpus:create")
		if out.Err == nil {
			o.Law("corpus_statement_did_not_fail", map[string]string{"sql": st.SQL})
			return
		}
		if len(out.Failed) > 0 {
			return
		}
		r.CompareTwin("create corpus: after " + st.SQL)
		if !bump("f1", "a") {
			return
		}
	}
	r.Commit()
	r.CompareTwin("create corpus: after COMMIT")
}

// AttrCorpus (c08, first on every run): failing `ALTER TABLE … SET <attribute>` — every attribute with invalid values,
// the wrong type, an unknown name, and combinations that are invalid for the table's format — on tables of every
// file format holding non-ASCII data.  Around every failing statement the full attribute listing (SHOW FIELDS),
// `SELECT *` and the uncommitted marks are compared; then a successful attribute change, a data change and COMMIT
// run on the main and the control processor and the files are compared byte for byte.
func AttrCorpus(g *hc.Gen, o *hc.Out, root string) {
	files := map[string]string{
		"c.csv":   "id,v\n1,é\n2,日本\n",
		"t.tsv":   "id\tv\n1\té\n2\tb\n",
		"j.json":  `[{"id":1,"v":"é"},{"id":2,"v":"日本"}]`,
		"x.jsonl": "{\"id\":1,\"v\":\"é\"}\n{\"id\":2,\"v\":\"b\"}\n",
		"l.ltsv":  "id:1\tv:é\nid:2\tv:b\n",
	}
	dirA, dirB := filepath.Join(root, "corpus-attr"), filepath.Join(root, "corpus-attr-twin")
	for _, d := range []string{dirA, dirB} {
		_ = os.MkdirAll(d, 0o755)
		for f, c := range files {
			_ = os.WriteFile(filepath.Join(d, f), []byte(c), 0o644)
		}
	}
	defer os.RemoveAll(dirA)
	defer os.RemoveAll(dirB)
	r := &Runner{G: g, O: o, CPU: 1, Dir: dirA, TwinDir: dirB}
	r.Pr, r.Twin = hc.NewProc(dirA), hc.NewProc(dirB)
	defer r.Pr.Close()
	defer r.Twin.Close()
	tables := []string{"c", "t", "j", "x", "l"}
	state := func(pr *hc.Proc) map[string]string {
		m := map[string]string{"(marks)": Marks(pr)}
		for _, t := range tables {
			m[t+" attributes"] = r.Attrs(pr, t)
			if sn, _, err := SnapOf(pr, t); err == nil {
				m[t+" records"] = sn.Dump(t)
			} else {
				m[t+" records"] = "error: " + err.Error()
			}
		}
		return m
	}
	both := func(sql string) bool {
		_, e1 := r.Pr.Exec(sql)
		_, e2 := r.Twin.Exec(sql)
		if (e1 == nil) != (e2 == nil) {
			o.Law("control_run_diverged", map[string]string{"sql": sql, "main": fmt.Sprint(e1), "control": fmt.Sprint(e2)})
			return false
		}
		return e1 == nil
	}
	for _, t := range tables {
		stmts := append(append([]string{}, BadAttrs...), "NOPE TO 1")
		stmts = append(stmts, ComboAttrs...)
		for _, a := range stmts {
			sql := "ALTER TABLE " + t + " SET " + a + ";"
			before := state(r.Pr)
			_, err := r.Pr.Exec(sql)
			o.Count("corpus:attr")
			if err == nil {
				// valid for this format (e.g. SJIS for a CSV table): the control run does the same
				if _, e2 := r.Twin.Exec(sql); e2 != nil {
					o.Law("control_run_diverged", map[string]string{"sql": sql, "control": e2.Error()})
					return
				}
				o.Count("corpus:attr_valid_here")
				continue
			}
			o.NonTrivial("attr:" + t + ":" + a)
			after := state(r.Pr)
			for k, b := range before {
				if after[k] != b {
					law := "failed_statement_changed_table"
					switch {
					case strings.HasSuffix(k, "attributes"):
						law = "failed_statement_changed_attributes"
					case k == "(marks)":
						law = "failed_statement_changed_marks"
					}
					o.Law(law, map[string]string{"sql": sql, "error": err.Error(), "what": k, "before": clip(b), "after": clip(after[k])})
					return // one defect, one report
				}
			}
		}
	}
	// successful attribute changes + data changes, then COMMIT, on both processors
	for _, sql := range []string{
		"ALTER TABLE c SET LINE_BREAK TO 'CRLF';", "UPDATE c SET v = 'ü' WHERE id = 1;",
		"ALTER TABLE t SET FORMAT TO 'CSV';", "INSERT INTO t VALUES (3, 'ö');",
		"ALTER TABLE j SET FORMAT TO 'CSV';", "UPDATE j SET v = 'ß' WHERE id = 2;",
		"ALTER TABLE x SET FORMAT TO 'JSON';", "ALTER TABLE x SET PRETTY_PRINT TO TRUE;",
		"ALTER TABLE l SET FORMAT TO 'TSV';", "DELETE FROM l WHERE id = 1;",
	} {
		if !both(sql) {
			o.Law("corpus_statement_failed", map[string]string{"sql": sql})
			return
		}
	}
	sa, sb := state(r.Pr), state(r.Twin)
	for k, a := range sa {
		if sb[k] != a {
			o.Law("failed_statement_changed_attributes", map[string]string{"where": "main against control run before COMMIT", "what": k, "main": clip(a), "control": clip(sb[k])})
			return
		}
	}
	_, e1 := r.Pr.Exec("COMMIT;")
	_, e2 := r.Twin.Exec("COMMIT;")
	if e1 != nil || e2 != nil {
		o.Law("commit_failed", map[string]string{"main": fmt.Sprint(e1), "control": fmt.Sprint(e2)})
		return
	}
	for f := range files {
		a, _ := os.ReadFile(filepath.Join(dirA, f))
		b, _ := os.ReadFile(filepath.Join(dirB, f))
		if string(a) != string(b) {
			o.Law("partial_effects_committed", map[string]interface{}{"table": f, "after": "failed ALTER TABLE SET statements", "file": clip(string(a)), "file_of_control_run": clip(string(b))})
		}
	}
}

// fmtTab: a table of one file format with its format attributes (FormatCorpus, FormatCommitCorpus)
type fmtTab struct {
	name, file, content, load, idc, vc string
	pre                                []string // attribute changes that succeed, run at the start of every episode
}

// noHeader: the file has no header line (column names c1, c2 … on every read)
func (t fmtTab) noHeader() bool { return t.idc == "c1" }

// fixedExplicit: fixed-length with explicit delimiter positions (a change of the column set makes csvq measure them anew)
func (t fmtTab) fixedExplicit() bool {
	return strings.HasSuffix(t.file, ".txt") && t.name != "fs"
}

func formatTabs() []fmtTab {
	fixed := "id    v         \n1     a         \n2     bb        \n3     c         \n4     dd        \n"
	fixedNH := "1     a         \n2     bb        \n3     c         \n4     dd        \n"
	return []fmtTab{
		{"fx", "fx.txt", fixed, "SELECT * FROM FIXED('[6, 16]', `fx.txt`);", "id", "v", nil},
		{"fn", "fn.txt", fixedNH, "SELECT * FROM FIXED('[6, 16]', `fn.txt`, 'UTF8', TRUE);", "c1", "c2", nil},
		{"fs", "fs.txt", "1  a  2  bb 3  c  4  dd ", "SELECT * FROM FIXED('S[3, 6]', `fs.txt`);", "c1", "c2", nil},
		{"fp", "fp.txt", fixed, "SELECT * FROM FIXED('SPACES', `fp.txt`);", "id", "v", []string{"ALTER TABLE fp SET DELIMITER_POSITIONS TO '[6, 16]';"}},
		{"sc", "sc.csv", "id;v\n1;a\n2;bb\n3;c\n4;dd\n", "SELECT * FROM CSV(';', `sc.csv`);", "id", "v", nil},
		{"ea", "ea.csv", "id,v\n1,a\n2,bb\n3,c\n4,dd\n", "SELECT * FROM ea;", "id", "v", []string{"ALTER TABLE ea SET ENCLOSE_ALL TO TRUE;"}},
		{"cr", "cr.csv", "id,v\r\n1,a\r\n2,bb\r\n3,c\r\n4,dd\r\n", "SELECT * FROM cr;", "id", "v", nil},
		{"sj", "sj.csv", "id,v\n1,\x83A\n2,\x83C\n3,c\n4,dd\n", "SELECT * FROM CSV(',', `sj.csv`, 'SJIS');", "id", "v", nil},
		{"bm", "bm.csv", "\xef\xbb\xbfid,v\n1,é\n2,bb\n3,c\n4,dd\n", "SELECT * FROM bm;", "id", "v", nil},
		{"nh", "nh.csv", "1,a\n2,bb\n3,c\n4,dd\n", "SELECT * FROM CSV(',', `nh.csv`, 'UTF8', TRUE);", "c1", "c2", nil},
		{"ts", "ts.tsv", "id\tv\n1\ta\n2\tbb\n3\tc\n4\tdd\n", "SELECT * FROM ts;", "id", "v", nil},
		{"jp", "jp.json", `[{"id":1,"v":"a"},{"id":2,"v":"bb"},{"id":3,"v":"c"},{"id":4,"v":"dd"}]`, "SELECT * FROM jp;", "id", "v", []string{"ALTER TABLE jp SET PRETTY_PRINT TO TRUE;"}},
		{"je", "je.json", `[{"id":1,"v":"é"},{"id":2,"v":"日本"},{"id":3,"v":"c"},{"id":4,"v":"dd"}]`, "SELECT * FROM je;", "id", "v", []string{"ALTER TABLE je SET JSON_ESCAPE TO 'HEX';"}},
		{"jl", "jl.jsonl", "{\"id\":1,\"v\":\"a\"}\n{\"id\":2,\"v\":\"bb\"}\n{\"id\":3,\"v\":\"c\"}\n{\"id\":4,\"v\":\"dd\"}\n", "SELECT * FROM jl;", "id", "v", nil},
		{"lt", "lt.ltsv", "id:1\tv:a\nid:2\tv:bb\nid:3\tv:c\nid:4\tv:dd\n", "SELECT * FROM lt;", "id", "v", nil},
	}
}

// cellAsText: a cell as the text a file holds for it (NULL = no text; an integral float as the integer)
func cellAsText(p value.Primary) string {
	switch v := p.(type) {
	case *value.Null:
		return ""
	case *value.String:
		return v.Raw()
	case *value.Integer:
		return strconv.FormatInt(v.Raw(), 10)
	case *value.Float:
		f := v.Raw()
		if f == float64(int64(f)) && f < 1e15 && f > -1e15 {
			return strconv.FormatInt(int64(f), 10)
		}
		return strconv.FormatFloat(f, 'g', -1, 64)
	}
	return hc.EncVal(p)
}

// TextTable: header and records of a table as texts
type TextTable struct {
	Header []string
	Rows   [][]string
}

func textTableOf(pr *hc.Proc, name string) (*TextTable, error) {
	v, err := pr.Query("SELECT * FROM " + name)
	if err != nil {
		return nil, err
	}
	t := &TextTable{}
	for _, h := range v.Header {
		t.Header = append(t.Header, h.Column)
	}
	for i := 0; i < v.RecordLen(); i++ {
		row := make([]string, len(t.Header))
		for j := range row {
			row[j] = cellAsText(hc.ViewCell(v, i, j))
		}
		t.Rows = append(t.Rows, row)
	}
	return t, nil
}

func (t *TextTable) dump(withHeader bool) string {
	rows := make([]string, len(t.Rows))
	for i, r := range t.Rows {
		rows[i] = strings.Join(r, "|")
	}
	h := fmt.Sprintf("%d columns", len(t.Header))
	if withHeader {
		h = strings.Join(t.Header, ",")
	}
	return "[" + h + "] " + strings.Join(rows, " ; ")
}

// readBack: what a FRESH process reads from the committed file of a format table, through the same first access (for a
// fixed-length table whose column set was changed: with measured positions — csvq wrote it with measured positions)
func readBack(dir string, t fmtTab, columnsChanged bool) (*TextTable, string, error) {
	pr := hc.NewProc(dir)
	defer pr.Close()
	load := t.load
	if columnsChanged && t.fixedExplicit() {
		load = strings.Replace(strings.Replace(load, "'[6, 16]'", "'SPACES'", 1), "FIXED('SPACES', `fp.txt`)", "FIXED('SPACES', `fp.txt`)", 1)
	}
	if _, err := pr.Exec(load); err != nil {
		return nil, load, err
	}
	tt, err := textTableOf(pr, t.name)
	return tt, load, err
}

// commitStmt: a statement of the FormatCommitCorpus
type commitStmt struct {
	kind, sql      string
	columnsChanged bool
	headerChanged  bool // the change is in the column NAMES only: invisible in a file without header line
	lineBreak      string
}

// FormatCommitCorpus (c05, first on every run): `committed_file_is_what_the_session_saw`.  Tables of EVERY file format with
// their format attributes (the 15 tables of the FormatCorpus) × every kind of successful change — ALTER TABLE ADD at the end
// / FIRST / AFTER a column, DROP, RENAME, SET LINE_BREAK, INSERT, UPDATE, DELETE, REPLACE — as the FIRST, SECOND and THIRD
// change of the table in its transaction (zero, one, two earlier successful changes of the same table), then COMMIT; a
// FRESH process reads the committed file through the same first access, and header, number of records and every cell (as
// text) must be what `SELECT *` showed in the session right before COMMIT (for SET LINE_BREAK: the line break the fresh
// process detects).  COMMIT encodes every table with the FileInfo that the table's FIRST change registered: a later
// statement working on a private copy of the attributes (C05-m18, C02-m13) is invisible in the session and lost in the file.
func FormatCommitCorpus(g *hc.Gen, o *hc.Out, root string) {
	dir := filepath.Join(root, "corpus-format-commit")
	_ = os.MkdirAll(dir, 0o755)
	defer os.RemoveAll(dir)
	pr := hc.NewProc(dir)
	defer func() { pr.Close() }()
	r := &Runner{G: g, O: o, CPU: 1, Dir: dir}
	for _, t := range formatTabs() {
		n, id, v := t.name, t.idc, t.vc
		stmts := []commitStmt{
			{"add_last", fmt.Sprintf("ALTER TABLE %s ADD (zz DEFAULT 'd');", n), true, false, ""},
			{"add_first", fmt.Sprintf("ALTER TABLE %s ADD (zz DEFAULT 'd') FIRST;", n), true, false, ""},
			{"add_middle", fmt.Sprintf("ALTER TABLE %s ADD (zy DEFAULT 'm', zz DEFAULT 'd') AFTER %s;", n, id), true, false, ""},
			{"rename", fmt.Sprintf("ALTER TABLE %s RENAME %s TO w;", n, v), false, true, ""},
			{"insert", fmt.Sprintf("INSERT INTO %s VALUES ('7', 'x'), ('9', 'y');", n), false, false, ""},
			{"update", fmt.Sprintf("UPDATE %s SET %s = 'uu' WHERE %s = 2;", n, v, id), false, false, ""},
			{"delete", fmt.Sprintf("DELETE FROM %s WHERE %s = 3;", n, id), false, false, ""},
			{"replace", fmt.Sprintf("REPLACE INTO %s (%s, %s) USING (%s) VALUES ('1', 'r'), ('6', 'n');", n, id, v, id), false, false, ""},
		}
		if n != "lt" { // (a single-field LTSV record is skipped by the reader: known finding F26)
			stmts = append(stmts, commitStmt{"drop", fmt.Sprintf("ALTER TABLE %s DROP %s;", n, v), true, false, ""})
		}
		switch n {
		case "sc", "ts", "lt", "fx", "nh", "ea":
			stmts = append(stmts, commitStmt{"set_line_break", fmt.Sprintf("ALTER TABLE %s SET LINE_BREAK TO 'CRLF';", n), false, false, "CRLF"})
		case "cr":
			stmts = append(stmts, commitStmt{"set_line_break", fmt.Sprintf("ALTER TABLE %s SET LINE_BREAK TO 'LF';", n), false, false, "LF"})
		}
		earlier := []string{
			fmt.Sprintf("UPDATE %s SET %s = 'e1' WHERE %s = 4;", n, v, id),
			fmt.Sprintf("INSERT INTO %s VALUES ('8', 'e2');", n),
		}
		for _, st := range stmts {
			ks := []int{0, 1, 2}
			if !st.columnsChanged && !st.headerChanged && st.lineBreak == "" {
				ks = []int{0, 2}
			}
			for _, k := range ks {
				_ = os.WriteFile(filepath.Join(dir, t.file), []byte(t.content), 0o644)
				prog := []string{t.load}
				prog = append(prog, t.pre...)
				prog = append(prog, earlier[:k]...)
				prog = append(prog, st.sql)
				failed := ""
				for _, sql := range prog {
					if _, err := pr.Exec(sql); err != nil {
						failed = sql + ": " + err.Error()
						break
					}
				}
				o.Count("corpus:format_commit")
				rp := map[string]interface{}{"table": t.file, "file_before": clip(t.content), "transaction": prog, "earlier_changes_of_the_table": k, "statement": st.sql}
				if failed != "" {
					rp["failed"] = failed
					o.Law("corpus_statement_failed", rp)
					_, _ = pr.Exec("ROLLBACK;")
					return
				}
				saw, err := textTableOf(pr, n)
				if err != nil {
					rp["failed"] = "SELECT *: " + err.Error()
					o.Law("corpus_statement_failed", rp)
					return
				}
				lbSession := ""
				if st.lineBreak != "" {
					lbSession = lineBreakOf(r.Attrs(pr, n))
				}
				if _, err := pr.Exec("COMMIT;"); err != nil {
					rp["commit_error"] = err.Error()
					rp["session_table_before_commit"] = saw.dump(true)
					o.Law("committed_file_is_what_the_session_saw", rp)
					o.NonTrivial("format_commit:" + n + ":" + st.kind + ":commit_failed")
					// (the transaction is still open with its changes: a new processor for the next episode)
					pr.Close()
					pr = hc.NewProc(dir)
					continue
				}
				got, load, err := readBack(dir, t, st.columnsChanged)
				b, _ := os.ReadFile(filepath.Join(dir, t.file))
				rp["committed_file"], rp["read_back_through"] = clip(string(b)), load
				withHeader := !t.noHeader()
				rp["session_table_before_commit"] = saw.dump(withHeader)
				law := "committed_file_is_what_the_session_saw"
				if t.name == "fs" && st.columnsChanged {
					// known finding F113: a single-line fixed-length table has no way to take a changed column set (its positions
					// cannot be measured anew): COMMIT writes with the old positions — under its own name, so that it cannot
					// stand in front of another table's report
					law = "single_line_fixed_column_change_lost_at_commit"
				}
				switch {
				case err != nil:
					rp["read_back_error"] = err.Error()
					o.Law(law, rp)
				case got.dump(withHeader) != saw.dump(withHeader):
					rp["table_read_back"] = got.dump(withHeader)
					o.Law(law, rp)
				case st.lineBreak != "":
					want := "\n"
					if st.lineBreak == "CRLF" {
						want = "\r\n"
					}
					body := string(b)
					if lbSession != st.lineBreak || !strings.Contains(body, want) || (st.lineBreak == "LF" && strings.Contains(body, "\r\n")) {
						rp["line_break_in_session"], rp["line_break_set"] = lbSession, st.lineBreak
						o.Law("committed_file_is_what_the_session_saw", rp)
					}
				}
				o.NonTrivial(fmt.Sprintf("format_commit:%s:%s:%d", n, st.kind, k))
			}
		}
	}
}

var lineBreakRe = regexp.MustCompile(`LineBreak: (\w+)`)

func lineBreakOf(attrs string) string {
	if m := lineBreakRe.FindStringSubmatch(attrs); m != nil {
		return m[1]
	}
	return ""
}

// FormatCorpus (c08, first on every run): tables of EVERY file format with their format attributes — fixed-length with
// explicit delimiter positions (given by the table function or by ALTER TABLE SET; with and without header line),
// single-line fixed-length; CSV with another delimiter, enclose-all, CRLF, Shift-JIS, UTF-8 with BOM, without header line; TSV; JSON
// pretty-printed / with hexadecimal escapes; JSON Lines; LTSV — and EVERY statement kind that can fail part-way: ALTER
// TABLE ADD with a default failing at the first / a middle / the last record or a duplicate after a valid name, DROP and
// RENAME with a missing column after a valid one, SET <attribute> with invalid values, UPDATE / DELETE failing at record
// k, INSERT / REPLACE failing at the k-th row, ADD and UPDATE cancelled at the k-th context check.  One episode per
// (table, statement): first access through the table function (both runs), zero / one / two earlier successful changes of
// the same table (both runs), the failing statement (main run only) with records, marks and ALL attributes (FileInfo)
// compared around it and with the control run, a later successful change of the same table (both runs), COMMIT (both) —
// the bytes of every file compared with the control run's, and the committed file read back by a fresh process compared
// with the table the session showed before COMMIT (law committed_file_is_what_the_session_saw).
func FormatCorpus(g *hc.Gen, o *hc.Out, root string) {
	tabs := formatTabs()
	dirA, dirB := filepath.Join(root, "corpus-format"), filepath.Join(root, "corpus-format-twin")
	for _, d := range []string{dirA, dirB} {
		_ = os.MkdirAll(d, 0o755)
		for _, t := range tabs {
			_ = os.WriteFile(filepath.Join(d, t.file), []byte(t.content), 0o644)
		}
	}
	defer os.RemoveAll(dirA)
	defer os.RemoveAll(dirB)
	r := &Runner{G: g, O: o, CPU: 1, Dir: dirA, TwinDir: dirB}
	r.Pr, r.Twin = hc.NewProc(dirA), hc.NewProc(dirB)
	defer r.Pr.Close()
	defer r.Twin.Close()
	type fail struct {
		kind, sql string
		cancelAt  int64
	}
	state := func(pr *hc.Proc, t string) map[string]string {
		m := map[string]string{"marks": Marks(pr), "attributes (SHOW FIELDS)": r.Attrs(pr, t)}
		if sn, _, err := SnapOf(pr, t); err == nil {
			m["records"] = sn.Dump(t)
		} else {
			m["records"] = "error: " + err.Error()
		}
		for k, v := range FileInfos(pr) {
			m["attributes (FileInfo) of "+k] = v
		}
		return m
	}
	both := func(sql string) bool {
		_, e1 := r.Pr.Exec(sql)
		_, e2 := r.Twin.Exec(sql)
		if e1 != nil || e2 != nil {
			o.Law("corpus_statement_failed", map[string]string{"sql": sql, "main": fmt.Sprint(e1), "control": fmt.Sprint(e2)})
			return false
		}
		return true
	}
	ep := 0
	for ti, t := range tabs {
		n, id, v := t.name, t.idc, t.vc
		fails := []fail{
			{"add_default_fails_at_first_record", fmt.Sprintf("ALTER TABLE %s ADD (zz DEFAULT 1 / (INTEGER(%s) - 1));", n, id), 0},
			{"add_default_fails_at_middle_record", fmt.Sprintf("ALTER TABLE %s ADD (zz DEFAULT 10 / (2 - INTEGER(%s))) FIRST;", n, id), 0},
			{"add_default_fails_at_last_record", fmt.Sprintf("ALTER TABLE %s ADD (zy, zz DEFAULT 1 / (INTEGER(%s) - 4)) AFTER %s;", n, id, id), 0},
			{"add_duplicate_after_valid", fmt.Sprintf("ALTER TABLE %s ADD (zy, %s);", n, v), 0},
			{"add_cancelled", fmt.Sprintf("ALTER TABLE %s ADD (zz DEFAULT %s);", n, id), 1 + int64(ti%3)},
			{"drop_missing_after_valid", fmt.Sprintf("ALTER TABLE %s DROP (%s, zz);", n, v), 0},
			{"rename_missing", fmt.Sprintf("ALTER TABLE %s RENAME zz TO zy;", n), 0},
			{"rename_to_existing", fmt.Sprintf("ALTER TABLE %s RENAME %s TO %s;", n, v, id), 0},
			{"update_fails_at_first_record", fmt.Sprintf("UPDATE %s SET %s = 1 / (INTEGER(%s) - 1);", n, v, id), 0},
			{"update_fails_at_last_record", fmt.Sprintf("UPDATE %s SET %s = 1 / (INTEGER(%s) - 4);", n, v, id), 0},
			{"update_cancelled", fmt.Sprintf("UPDATE %s SET %s = 'q';", n, v), 1 + int64((ti+1)%3)},
			{"insert_fails_at_second_row", fmt.Sprintf("INSERT INTO %s VALUES (7, 'x'), (8, 1 / 0);", n), 0},
			{"replace_fails_at_second_row", fmt.Sprintf("REPLACE INTO %s (%s, %s) USING (%s) VALUES (1, 'r'), (2, 1 / 0);", n, id, v, id), 0},
			{"delete_fails_at_third_record", fmt.Sprintf("DELETE FROM %s WHERE 1 / (INTEGER(%s) - 3) = 1;", n, id), 0},
		}
		for k := 0; k < 4; k++ {
			a := BadAttrs[(ti*4+k)%len(BadAttrs)]
			fails = append(fails, fail{"set_invalid:" + strings.SplitN(a, " ", 2)[0], fmt.Sprintf("ALTER TABLE %s SET %s;", n, a), 0})
		}
		for _, f := range fails {
			ep++
			// first access of the transaction: through the table function; then the successful attribute changes
			if !both(t.load) {
				return
			}
			for _, sql := range t.pre {
				if !both(sql) {
					return
				}
			}
			// zero, one or two earlier successful changes of the same table in this transaction
			if ep%3 >= 1 {
				if !both(fmt.Sprintf("UPDATE %s SET %s = 'p%d' WHERE %s = 3;", n, v, ep, id)) {
					return
				}
			}
			if ep%3 == 2 {
				if !both(fmt.Sprintf("INSERT INTO %s VALUES ('%d', 'q%d');", n, 100+ep, ep)) {
					return
				}
			}
			before := state(r.Pr, n)
			saved := r.Pr.Ctx
			if f.cancelAt > 0 {
				var cnt int64
				r.Pr.Ctx = cancelCtx{saved, &cnt, f.cancelAt}
			}
			_, err := r.Pr.Exec(f.sql)
			r.Pr.Ctx = saved
			o.Count("corpus:format")
			stop := false // a law failed: the episode is still carried through COMMIT (the bytes show the damage), then the corpus ends
			if err == nil {
				// (e.g. a cancellation index beyond the statement's context checks): an ordinary statement, repeated in the control run
				o.Count("corpus:format_did_not_fail:" + f.kind)
				if f.cancelAt == 0 {
					o.Law("corpus_statement_did_not_fail", map[string]string{"table": t.file, "sql": f.sql})
					return
				}
				if _, e2 := r.Twin.Exec(f.sql); e2 != nil {
					o.Law("control_run_diverged", map[string]string{"sql": f.sql, "control": e2.Error()})
					return
				}
			} else {
				o.NonTrivial(fmt.Sprintf("format:%s:%s:E%d", n, f.kind, ErrNum(err)))
				after := state(r.Pr, n)
				ctl := state(r.Twin, n)
				rp := map[string]interface{}{"table": t.file, "first_access": t.load, "attribute_changes_before": t.pre, "failing_statement": f.sql, "error": err.Error()}
				if f.cancelAt > 0 {
					rp["cancel_at_ctx_err_call"] = f.cancelAt
				}
				for k, b := range before {
					a, ok := after[k]
					if !ok || a == b {
						continue
					}
					law := "failed_statement_changed_table"
					switch {
					case strings.HasPrefix(k, "attributes"):
						law = "failed_statement_changed_attributes"
					case k == "marks":
						law = "failed_statement_changed_marks"
					}
					rp["what"], rp["before"], rp["after"] = k, clip(b), clip(a)
					o.Law(law, rp)
					stop = true // one defect, one report
					break
				}
				for k, c := range ctl {
					if a, ok := after[k]; ok && a != c && !stop {
						rp["what"], rp["with_failed_statement"], rp["control_run"] = k, clip(a), clip(c)
						o.Law("failed_statement_changed_attributes", rp)
						stop = true
					}
				}
			}
			// a later successful change of the same table, then COMMIT: the file is written from the attributes
			if !both(fmt.Sprintf("UPDATE %s SET %s = 'u%d' WHERE %s = 2;", n, v, ep, id)) {
				return
			}
			saw, sawErr := textTableOf(r.Pr, n)
			if !both("COMMIT;") {
				return
			}
			// the committed file, read back by a fresh process, is the table the session showed before COMMIT
			colsChanged := err == nil && strings.HasPrefix(f.kind, "add")
			if sawErr == nil && !(t.name == "fs" && colsChanged) {
				got, load, e := readBack(dirA, t, colsChanged)
				withHeader := !t.noHeader()
				if e != nil || got.dump(withHeader) != saw.dump(withHeader) {
					rp := map[string]interface{}{"table": t.file, "first_access": t.load, "attribute_changes_before": t.pre, "earlier_changes_of_the_table": ep % 3,
						"failing_statement": f.sql, "error": fmt.Sprint(err), "then": "a successful UPDATE and COMMIT", "read_back_through": load,
						"session_table_before_commit": saw.dump(withHeader)}
					if e != nil {
						rp["read_back_error"] = e.Error()
					} else {
						rp["table_read_back"] = got.dump(withHeader)
					}
					o.Law("committed_file_is_what_the_session_saw", rp)
					return
				}
			}
			a, _ := os.ReadFile(filepath.Join(dirA, t.file))
			b, _ := os.ReadFile(filepath.Join(dirB, t.file))
			if string(a) != string(b) {
				o.Law("partial_effects_committed", map[string]interface{}{"table": t.file, "first_access": t.load, "attribute_changes_before": t.pre,
					"failing_statement": f.sql, "error": fmt.Sprint(err), "then": "a successful UPDATE and COMMIT",
					"file": clip(string(a)), "file_of_control_run": clip(string(b))})
				return
			}
			if stop {
				return
			}
		}
	}
}

// DroppedCacheWitness (c08, first on every run): the corpus entry of the known finding "a statement that fails while it
// reloads a read-only cached table for update drops the cached view": `sc.csv` (';'-separated) is first read through
// CSV(';', …); another process holds its lock; UPDATE sc … fails with a lock wait time-out; afterwards the plain name
// parses the file with the default delimiter (one column `id;v`).  cacheViewFromFile disposes the cached view BEFORE it
// has the lock and the new view.
func DroppedCacheWitness(g *hc.Gen, o *hc.Out, root string) {
	dir := filepath.Join(root, "witness-dropped-cache")
	_ = os.MkdirAll(dir, 0o755)
	defer os.RemoveAll(dir)
	_ = os.WriteFile(filepath.Join(dir, "sc.csv"), []byte("id;v\n1;a\n2;b\n"), 0o644)
	r := &Runner{G: g, O: o, CPU: 1, Dir: dir, OnlyFailureLaws: true}
	r.Pr = hc.NewProc(dir)
	defer r.Pr.Close()
	r.Pr.P.Tx.WaitTimeout = 30 * time.Millisecond
	r.Pr.P.Tx.RetryDelay = 5 * time.Millisecond
	t := &Tab{Name: "sc", File: true, Opaque: true, LoadSQL: "SELECT * FROM CSV(';', `sc.csv`);", Cols: []string{"id", "v"}, Kind: map[string]int{"id": KInt, "v": KStr}, NextID: 3}
	r.Tabs = []*Tab{t}
	r.reload(t)
	lock := filepath.Join(dir, ".sc.csv.lock")
	_ = os.WriteFile(lock, nil, 0o644) // "another process" holds the table
	st := &Stmt{Kind: "update", Targets: []string{"sc"}, Wrap: "plain", SQL: "UPDATE sc SET v = 'x' WHERE id = 1", Fault: &Fault{Kind: "lock_held_by_another_process"}}
	before := r.snap("sc")
	_, err := r.Pr.Exec(st.SQL + ";")
	_ = os.Remove(lock)
	o.Count("corpus:dropped_cache_witness")
	if err == nil {
		o.Law("corpus_statement_did_not_fail", map[string]string{"sql": st.SQL})
		return
	}
	after := r.snap("sc")
	if !before.Equal(after) {
		o.Law("failed_statement_dropped_cached_table", map[string]interface{}{"sql": st.SQL + ";", "error": err.Error(), "table": "sc",
			"first_access": t.LoadSQL, "cached_for_update_before": false,
			"shape":        "read-only cached table; the statement failed while it was reloading the table for update",
			"table_before": before.Dump("sc"), "table_after": after.Dump("sc")})
	} else {
		o.Count("corpus:dropped_cache_witness_repaired")
	}
}

// LoadFuncCorpus (c08, first on every run): tables whose FIRST access in the transaction goes through a table function
// with non-default options (no header line, another delimiter, another encoding); then a FAILING and a succeeding
// data-changing statement name them plainly (the for-update reload must keep the attributes of the first load).
// Header and records after every statement against the model and the control run, then COMMIT and the bytes.
func LoadFuncCorpus(g *hc.Gen, o *hc.Out, root string) {
	r := newFixedRunner(g, o, root, "corpus-loadfunc", []fixedTab{{"f1", true, []string{"id", "a"}, [][]int{{0, 5}, {1, 6}}}})
	defer r.Close()
	type ft struct {
		name, file, content, load string
		cols                      []string
	}
	tabs := []ft{
		{"nh", "nh.csv", "1,a\n2,b\n3,c\n", "SELECT * FROM CSV(',', `nh.csv`, 'UTF8', TRUE);", []string{"c1", "c2"}},
		{"sc", "sc.csv", "id;v\n1;a\n2;b\n3;c\n", "SELECT * FROM CSV(';', `sc.csv`);", []string{"id", "v"}},
		{"sj", "sj.csv", "id,v\n1,\x83A\n2,\x83C\n", "SELECT * FROM CSV(',', `sj.csv`, 'SJIS');", []string{"id", "v"}},
		{"nh2", "nh2.csv", "1,a\n2,b\n", "SELECT * FROM CSV(',', `nh2.csv`, 'UTF8', TRUE);", []string{"c1", "c2"}},
	}
	for _, t := range tabs {
		for _, d := range []string{r.Dir, r.TwinDir} {
			_ = os.WriteFile(filepath.Join(d, t.file), []byte(t.content), 0o644)
		}
		for _, pr := range []*hc.Proc{r.Pr, r.Twin} {
			if _, err := pr.Exec(t.load); err != nil {
				o.Law("setup_failed", map[string]string{"sql": t.load, "error": err.Error()})
				return
			}
		}
		tab := &Tab{Name: t.name, File: true, Opaque: true, Cols: t.cols, Kind: map[string]int{}, NextID: 10}
		r.Tabs = append(r.Tabs, tab)
		r.SendTable(tab)
	}
	lit := func(s string) Ex { return Lit(value.NewString(s)) }
	hs := func(kind, sql, op, target string, fail bool) *Stmt {
		st := &Stmt{Kind: kind, SQL: sql, Op: op, Targets: []string{target}, Wrap: "plain"}
		if fail {
			st.Fault = &Fault{Kind: "after_function_load"}
		}
		return st
	}
	tt := True().Tok
	stmts := []*Stmt{
		// nh: failing first, then succeeding
		hs("update", "UPDATE nh SET c2 = 1 / (c1 - 2) WHERE TRUE", "update nh 1 c2 / "+Int(1).Tok+" - $c1 "+Int(2).Tok+" "+tt, "nh", true),
		hs("update", "UPDATE nh SET c2 = 'z' WHERE c1 = 1", "update nh 1 c2 "+lit("z").Tok+" eq $c1 "+Int(1).Tok, "nh", false),
		// sc: failing INSERT (unknown column: after the load), then DELETE
		hs("insert", "INSERT INTO sc (id, zz) VALUES (4, 1)", "insert sc 2 id zz 1 2 "+Int(4).Tok+" "+Int(1).Tok, "sc", true),
		hs("delete", "DELETE FROM sc WHERE id = 1", "delete sc eq $id "+Int(1).Tok, "sc", false),
		// sj: failing ALTER, then UPDATE
		hs("addcol", "ALTER TABLE sj ADD (x DEFAULT 1 / (id - 1))", "addcol sj last 1 x 1 / "+Int(1).Tok+" - $id "+Int(1).Tok, "sj", true),
		hs("update", "UPDATE sj SET v = 'q' WHERE id = 2", "update sj 1 v "+lit("q").Tok+" eq $id "+Int(2).Tok, "sj", false),
		// nh2: a succeeding statement is the first plain access
		hs("insert", "INSERT INTO nh2 VALUES (3, 'c')", "insert nh2 - 1 2 "+Int(3).Tok+" "+lit("c").Tok, "nh2", false),
	}
	for _, st := range stmts {
		out := r.Exec(st, 0)
		o.Count("corpus:loadfunc")
		if (out.Err != nil) != (st.Fault != nil) {
			o.Law("corpus_statement_unexpected_result", map[string]string{"sql": st.SQL, "error": fmt.Sprint(out.Err)})
			return
		}
		if out.Err == nil {
			r.TwinExec(st)
		}
		if len(out.Failed) > 0 {
			return
		}
		r.CompareTwin("load-function corpus: after " + st.SQL)
	}
	r.Commit()
}

// NestedFailCorpus (c08, first on every run): (1) every failing-body function (CREATE TABLE with a duplicate column,
// a nested data-changing statement, CREATE TABLE AS SELECT from a missing table, DECLARE VIEW + division by zero) called
// from VALUES / SET / WHERE / DEFAULT / REPLACE VALUES of statements on a file-backed table, a temporary table and
// STDIN; (2) INSERT…SELECT, REPLACE…SELECT, CREATE TABLE AS and a scalar sub-query in UPDATE whose SELECT fails in
// each clause position.  After every statement: all tables (temporary and STDIN included), the marks, the directory
// listing with lock files, and the session objects (variable, function, open cursor) are those of before.
func NestedFailCorpus(g *hc.Gen, o *hc.Out, root string) {
	rows := [][]int{{0, 5}, {1, 6}, {2, 7}}
	r := newFixedRunner(g, o, root, "corpus-nestedfail", []fixedTab{
		{"f1", true, []string{"id", "a"}, rows}, {"m1", false, []string{"id", "p"}, rows},
		{"stdin", false, []string{"id", "s"}, rows}, {"f2", true, []string{"id", "e"}, rows},
	})
	defer r.Close()
	r.SessionSetup("corpus")
	if !r.SessionObjs {
		return
	}
	run := func(st *Stmt) bool {
		out := r.Exec(st, 0)
		o.Count("corpus:nestedfail")
		if out.Err == nil {
			o.Law("corpus_statement_did_not_fail", map[string]string{"sql": st.SQL})
			return false
		}
		o.NonTrivial("nestedfail:" + st.Kind + ":" + fk(st.Fault) + ":" + strings.Join(st.Targets, "+") + fmt.Sprintf(":E%d", ErrNum(out.Err)))
		return len(out.Failed) == 0
	}
	law := func(kind, fault, sql string, targets ...string) *Stmt {
		return &Stmt{Kind: kind, SQL: sql, Targets: targets, Wrap: "plain", Fault: &Fault{Kind: fault}}
	}
	// every table carries UNCOMMITTED changes of an earlier statement while the failing statements run
	for k, t := range []string{"f1", "m1", "stdin", "f2"} {
		c := r.Tab(t).Cols[1]
		a, b := Int(50+k), Int(500+k)
		st := &Stmt{Kind: "insert", Targets: []string{t}, Wrap: "plain", SQL: fmt.Sprintf("INSERT INTO %s (id, %s) VALUES (%s, %s)", t, c, a.SQL, b.SQL),
			Op: fmt.Sprintf("insert %s 2 id %s 1 2 %s %s", t, c, a.Tok, b.Tok)}
		out := r.Exec(st, 0)
		if out.Err != nil || len(out.Failed) > 0 {
			o.Law("corpus_statement_failed", map[string]string{"sql": st.SQL, "error": fmt.Sprint(out.Err)})
			return
		}
		r.TwinExec(st)
	}
	for _, t := range []string{"f1", "m1", "stdin"} {
		c := r.Tab(t).Cols[1]
		// failures DURING LOADING, after the table was fetched from the cache
		for _, sql := range []string{
			fmt.Sprintf("UPDATE %[1]s SET %[1]s.%[2]s = 1 FROM %[1]s, %[1]s", t, c),
			fmt.Sprintf("DELETE %[1]s FROM %[1]s, %[1]s", t),
			fmt.Sprintf("UPDATE %[1]s SET %[1]s.%[2]s = 1 FROM %[1]s JOIN %[1]s ON TRUE", t, c),
			fmt.Sprintf("UPDATE %[1]s SET %[1]s.%[2]s = 1 FROM %[1]s, nosuch_zz WHERE TRUE", t, c),
			fmt.Sprintf("DELETE %[1]s FROM %[1]s, nosuch_zz WHERE TRUE", t),
			fmt.Sprintf("UPDATE %[1]s SET %[1]s.%[2]s = 1 FROM %[1]s x, f2 x WHERE TRUE", t, c),
			fmt.Sprintf("DELETE f2 FROM f2 CROSS JOIN %[1]s CROSS JOIN %[1]s", t),
		} {
			if !run(law("loadfail", "during_load", sql, t)) {
				return
			}
		}
		for _, fn := range FnBodies {
			for _, sql := range []string{
				fmt.Sprintf("INSERT INTO %s (id, %s) VALUES (%s(9), 1)", t, c, fn),
				fmt.Sprintf("UPDATE %s SET %s = %s(1) WHERE id < 2", t, c, fn),
				fmt.Sprintf("DELETE FROM %s WHERE %s(id) = 0", t, fn),
				fmt.Sprintf("ALTER TABLE %s ADD (nx DEFAULT %s(id))", t, fn),
				fmt.Sprintf("REPLACE INTO %s (id, %s) USING (id) VALUES (%s(0), 1), (8, 2)", t, c, fn),
				fmt.Sprintf("INSERT INTO %s (id, %s) SELECT id + 20, %s(e) FROM f2", t, c, fn),
				fmt.Sprintf("ALTER TABLE %s SET FORMAT TO %s(1)", t, fn),
				fmt.Sprintf("ALTER TABLE %s SET HEADER TO %s(1)", t, fn),
				fmt.Sprintf("ALTER TABLE %s SET NOPE TO %s(1)", t, fn),
				fmt.Sprintf("INSERT INTO %s (id) SELECT id FROM f2 LIMIT %s(1)", t, fn),
				fmt.Sprintf("INSERT INTO %s (id) SELECT id FROM f2 LIMIT 1 OFFSET %s(1)", t, fn),
			} {
				if !run(law("fnfail", fn, sql, t)) {
					return
				}
			}
		}
		for _, cf := range ClauseFaults {
			sel := "SELECT id " + strings.ReplaceAll(cf.Tail, "%[1]s", "f2")
			with := ""
			if cf.Name == "with" {
				with = "WITH vw AS (SELECT 1 AS x FROM nosuch_zz) "
				sel = "SELECT id FROM f2 WHERE id IN (SELECT x FROM vw)"
			}
			progs := []string{
				fmt.Sprintf("%sINSERT INTO %s (id) %s", with, t, sel),
				fmt.Sprintf("%sREPLACE INTO %s (id) USING (id) %s", with, t, sel),
			}
			if with == "" {
				progs = append(progs, fmt.Sprintf("CREATE TABLE `tcc_%s_%s.csv` (id) AS %s", t, cf.Name, sel))
				if cf.Name != "setoperand" {
					progs = append(progs, fmt.Sprintf("UPDATE %s SET %s = (%s) WHERE TRUE", t, c, sel))
					progs = append(progs, fmt.Sprintf("DELETE FROM %s WHERE id IN (%s)", t, sel))
				}
			}
			for _, sql := range progs {
				tg := []string{t}
				if strings.HasPrefix(sql, "CREATE") {
					tg = []string{}
				}
				if !run(law("clausefail", cf.Name, sql, tg...)) {
					return
				}
			}
		}
		// multi-target statements whose LATER target is invalid while the earlier one is valid and matched (and the reverse)
		for _, sql := range []string{
			fmt.Sprintf("DELETE %[1]s, sq FROM %[1]s, (SELECT id FROM f2) sq WHERE %[1]s.id = sq.id", t),
			fmt.Sprintf("DELETE sq, %[1]s FROM %[1]s, (SELECT id FROM f2) sq WHERE %[1]s.id = sq.id", t),
			fmt.Sprintf("DELETE %[1]s, nosuch FROM %[1]s, f2 WHERE %[1]s.id = f2.id", t),
			fmt.Sprintf("WITH it AS (SELECT id FROM f2) DELETE %[1]s, it FROM %[1]s, it WHERE %[1]s.id = it.id", t),
			fmt.Sprintf("UPDATE %[1]s, sq SET %[1]s.%[2]s = 1 FROM %[1]s, (SELECT id FROM f2) sq WHERE %[1]s.id = sq.id", t, c),
			fmt.Sprintf("UPDATE %[1]s, nosuch SET %[1]s.%[2]s = 1 FROM %[1]s, f2 WHERE %[1]s.id = f2.id", t, c),
			fmt.Sprintf("UPDATE %[1]s, sq SET %[1]s.%[2]s = 1, sq.id = 2 FROM %[1]s, (SELECT id FROM f2) sq WHERE %[1]s.id = sq.id", t, c),
		} {
			if !run(law("targetfail", "later_target_invalid", sql, t)) {
				return
			}
		}
		r.CompareTwin("nested-failure corpus: " + t)
	}
	// the transaction is still usable: ordinary statements, then COMMIT compared with the control run
	for _, t := range []string{"f1", "m1", "stdin"} {
		st := keepFirst(r.Tab(t), 2)
		out := r.Exec(st, 0)
		if out.Err == nil {
			r.TwinExec(st)
		}
		if out.Err != nil || len(out.Failed) > 0 {
			o.Law("corpus_statement_failed", map[string]string{"sql": st.SQL, "error": fmt.Sprint(out.Err)})
			return
		}
	}
	r.CompareTwin("nested-failure corpus: before COMMIT")
	r.Commit()
}

// NumberRefCorpus (c05, first on every run): columns addressed BY NUMBER (`table.N`) in every statement kind, in the
// same transaction after DROP / ADD / RENAME of non-last columns — on a file-backed table, a temporary table and STDIN.
// The model's columns are positions of the current header, so `t.N` is the N-th name.
func NumberRefCorpus(g *hc.Gen, o *hc.Out, root string) {
	rows := [][]int{{0, 5, 1, 7}, {1, 6, 0, 8}, {2, 7, 3, 9}, {3, 8, 2, 6}}
	r := newFixedRunner(g, o, root, "corpus-numref", []fixedTab{
		{"f1", true, []string{"id", "a", "b", "c"}, rows}, {"m1", false, []string{"id", "a", "b", "c"}, rows},
		{"stdin", false, []string{"id", "a", "b", "c"}, rows},
	})
	r.OnlyFailureLaws = false
	r.dropTwin()
	defer r.Close()
	hs := func(kind, t, sql, op string) *Stmt {
		return &Stmt{Kind: kind, SQL: sql, Op: op, Targets: []string{t}, Wrap: "plain"}
	}
	for _, t := range []string{"f1", "m1", "stdin"} {
		stmts := []*Stmt{
			hs("dropcol", t, fmt.Sprintf("ALTER TABLE %s DROP a", t), fmt.Sprintf("dropcol %s 1 a", t)), // id b c
			hs("update", t, fmt.Sprintf("UPDATE %[1]s SET %[1]s.3 = %[1]s.2 + 1 WHERE %[1]s.1 < 2", t),
				fmt.Sprintf("update %s 1 c + $b %s lt $id %s", t, Int(1).Tok, Int(2).Tok)),
			hs("addcol", t, fmt.Sprintf("ALTER TABLE %[1]s ADD (x DEFAULT %[1]s.3 * 2) AFTER %[1]s.2", t),
				fmt.Sprintf("addcol %s after:b 1 x 1 * $c %s", t, Int(2).Tok)), // id b x c
			hs("rename", t, fmt.Sprintf("ALTER TABLE %[1]s RENAME %[1]s.3 TO y", t), fmt.Sprintf("rename %s x y", t)), // id b y c
			hs("dropcol", t, fmt.Sprintf("ALTER TABLE %[1]s DROP %[1]s.2", t), fmt.Sprintf("dropcol %s 1 b", t)),      // id y c
			hs("update", t, fmt.Sprintf("UPDATE %[1]s SET %[1]s.2 = %[1]s.3 - %[1]s.1 WHERE %[1]s.3 > 7", t),
				fmt.Sprintf("update %s 1 y - $c $id gt $c %s", t, Int(7).Tok)),
			hs("addcol", t, fmt.Sprintf("ALTER TABLE %[1]s ADD (z DEFAULT %[1]s.2) BEFORE %[1]s.2", t),
				fmt.Sprintf("addcol %s before:y 1 z 1 $y", t)), // id z y c
			hs("delete", t, fmt.Sprintf("DELETE FROM %[1]s WHERE %[1]s.4 = 9", t), fmt.Sprintf("delete %s eq $c %s", t, Int(9).Tok)),
			hs("dropcol", t, fmt.Sprintf("ALTER TABLE %[1]s DROP (%[1]s.2, y)", t), fmt.Sprintf("dropcol %s 2 z y", t)), // id c
			hs("update", t, fmt.Sprintf("UPDATE %[1]s SET %[1]s.2 = %[1]s.2 + 100 WHERE TRUE", t),
				fmt.Sprintf("update %s 1 c + $c %s %s", t, Int(100).Tok, True().Tok)),
		}
		for _, st := range stmts {
			out := r.Exec(st, 0)
			o.Count("corpus:numref")
			if out.Err != nil {
				o.Law("corpus_statement_failed", map[string]string{"sql": st.SQL, "error": out.Err.Error()})
				return
			}
		}
	}
	r.Commit()
}

// FixedAddWitness (c05, first on every run): the corpus entry of the known finding "a column added to a fixed-length table
// that was read with explicit delimiter positions is not written by COMMIT": fx.txt read through FIXED('[6, 16]', …);
// ALTER TABLE fx ADD (w DEFAULT 5) reports "1 field added", SELECT * shows the column, COMMIT reports the file as updated —
// and writes only the two columns the positions cover.  The property text: ADD touches only the named columns AND the
// change is what the committed file holds.
func FixedAddWitness(g *hc.Gen, o *hc.Out, root string) {
	dir := filepath.Join(root, "witness-fixed-add")
	_ = os.MkdirAll(dir, 0o755)
	defer os.RemoveAll(dir)
	content := "id    v         \n1     a         \n2     bb        \n"
	_ = os.WriteFile(filepath.Join(dir, "fx.txt"), []byte(content), 0o644)
	pr := hc.NewProc(dir)
	prog := "SELECT * FROM FIXED('[6, 16]', `fx.txt`); ALTER TABLE fx ADD (w DEFAULT 5);"
	_, err := pr.Exec(prog)
	var inSession []string
	if sn, _, e := SnapOf(pr, "fx"); e == nil {
		inSession = sn.Header
	}
	if err == nil {
		_, err = pr.Exec("COMMIT;")
	}
	pr.Close()
	o.Count("corpus:fixed_add_witness")
	if err != nil {
		o.Law("corpus_statement_failed", map[string]string{"sql": prog + " COMMIT;", "error": err.Error()})
		return
	}
	b, _ := os.ReadFile(filepath.Join(dir, "fx.txt"))
	lines := strings.Split(string(b), "\n")
	if len(lines) == 0 || !strings.Contains(lines[0], "w") {
		o.Law("added_column_not_written_by_commit", map[string]interface{}{"file_before": content, "program": prog + " COMMIT;",
			"header_in_session": inSession, "file_after_commit": string(b)})
	} else {
		o.Count("corpus:fixed_add_witness_repaired")
	}
}

// UsingJoinCorpus (c05, first on every run): multi-table UPDATE and DELETE over `A … JOIN B USING (…)` and NATURAL joins —
// INNER / LEFT / RIGHT / FULL; one and several join columns, written in table order and not; the join column FIRST, in the
// MIDDLE and LAST in a table (A = id, x, k, y, m;  B = m, p, k, q, id; common: id, k, m); the SET columns BEFORE and AFTER
// the join columns in their table (every column of the target that is no join column is SET in one statement, each to a
// value that names the column); the target on either side or both.  joinViews moves the merged columns to the front of
// the joined view and drops both originals: a column's position in the joined view says nothing about its position in
// its table.  Every statement is followed by ROLLBACK.
func UsingJoinCorpus(g *hc.Gen, o *hc.Out, root string) {
	rowsA := [][]int{{0, 100, 0, 200, 10}, {1, 101, 1, 201, 11}, {2, 102, 2, 202, 12}, {3, 103, 3, 203, 13}, {4, 104, 4, 204, 14}}
	rowsB := [][]int{{10, 300, 0, 400, 0}, {11, 301, 1, 401, 1}, {99, 302, 2, 402, 2}, {13, 303, 7, 403, 3}, {14, 304, 8, 404, 5}}
	r := newFixedRunner(g, o, root, "corpus-using", []fixedTab{
		{"f1", true, []string{"id", "x", "k", "y", "m"}, rowsA}, {"m2", false, []string{"m", "p", "k", "q", "id"}, rowsB},
	})
	r.OnlyFailureLaws = false
	r.dropTwin()
	defer r.Close()
	a, b := r.Tabs[0], r.Tabs[1]
	usings := [][]string{{"k"}, {"m"}, {"id"}, {"k", "m"}, {"m", "k"}, {"m", "id", "k"}, nil} // nil = NATURAL
	for _, kind := range []string{"inner", "left", "right", "full"} {
		for ui, U := range usings {
			natural := U == nil
			if natural {
				U = commonCols(a, b)
			}
			uj := mkUsing(a, b, kind, natural, U, ui%2 == 1)
			for _, tabs := range [][]*Tab{{a}, {b}, {a, b}, {b, a}} {
				var tn []string
				for _, t := range tabs {
					tn = append(tn, t.Name)
				}
				// WHERE: everything / only the joined records in which every target has a record
				guard := True()
				for i, t := range tabs {
					for _, c := range t.Cols {
						if !inList(c, U) {
							e := Not(IsNull(Col(t.Name, c, true)))
							if i == 0 {
								guard = e
							} else {
								guard = Bin("AND", "and", guard, e)
							}
							break
						}
					}
				}
				for wi, wh := range []Ex{True(), guard} {
					var ss, st []string
					for _, t := range tabs {
						for ci, c := range t.Cols {
							if inList(c, U) || c == "id" {
								continue
							}
							e := Bin("+", "+", Col(t.Name, c, true), Int(1000*(ci+1)))
							ss = append(ss, t.Name+"."+c+" = "+e.SQL)
							st = append(st, t.Name+" "+c+" "+e.Tok)
						}
					}
					u := &Stmt{Kind: "updatem", Targets: tn, Wrap: "plain", Outer: "using:" + kind}
					u.SQL = fmt.Sprintf("UPDATE %s SET %s FROM %s WHERE %s", strings.Join(tn, ", "), strings.Join(ss, ", "), uj.fromSQL, wh.SQL)
					u.Op = fmt.Sprintf("updateu %d %s %s %d %s %s", len(tn), strings.Join(tn, " "), uj.tok, len(st), strings.Join(st, " "), wh.Tok)
					stmts := []*Stmt{u}
					if wi == 0 && ui%2 == 0 {
						d := &Stmt{Kind: "deletem", Targets: tn, Wrap: "plain", Outer: "using:" + kind}
						d.SQL = fmt.Sprintf("DELETE %s FROM %s WHERE %s", strings.Join(tn, ", "), uj.fromSQL, wh.SQL)
						d.Op = fmt.Sprintf("deleteu %d %s %s %s", len(tn), strings.Join(tn, " "), uj.tok, wh.Tok)
						stmts = append(stmts, d)
					}
					for _, st := range stmts {
						out := r.Exec(st, 0)
						o.Count("corpus:using_join:" + st.Kind)
						res := "ok"
						if out.Err != nil {
							res = fmt.Sprintf("E%d", ErrNum(out.Err))
						}
						o.NonTrivial(fmt.Sprintf("using:%s:%s:%d:%s:u%d:w%d:%s", st.Kind, kind, len(tn), tn[0], ui, wi, res))
						if len(Marks(r.Pr)) > 2 {
							r.Rollback()
						}
					}
				}
			}
		}
	}
}

// OuterJoinCorpus (c05, first on every run): multi-table DELETE and UPDATE whose FROM clause is a LEFT / RIGHT / FULL
// join, with one or two targets in either order, over tables in which the records WITHOUT a partner stand first, in the
// middle and last (and one record has two partners).  On the padded side of such a record the target has no internal
// record id: DELETE passes it over and goes on, UPDATE refuses the statement ("value … to set in the field … is
// ambiguous") unless WHERE removes those records.  Every statement is followed by ROLLBACK, so each one sees the same tables.
func OuterJoinCorpus(g *hc.Gen, o *hc.Out, root string) {
	a := [][]int{{0, 10}, {1, 11}, {2, 12}, {3, 13}, {4, 14}}
	patterns := [][]int{
		{9, 2, 3, 9, 4, 9}, // a: 0,1 unmatched FIRST;   b: unmatched first, middle, last
		{0, 1, 9, 3, 4, 4}, // a: 2 unmatched in the MIDDLE, 4 has two partners
		{0, 1, 2, 2, 9, 3}, // a: 4 unmatched LAST, 2 has two partners
	}
	for pi, ks := range patterns {
		b := make([][]int, len(ks))
		for i, k := range ks {
			b[i] = []int{i, k, 20 + i}
		}
		// storage: file + temporary, temporary + file, file + STDIN
		tabs := [][]fixedTab{
			{{"f1", true, []string{"id", "x"}, a}, {"m2", false, []string{"id", "k", "y"}, b}},
			{{"m1", false, []string{"id", "x"}, a}, {"f2", true, []string{"id", "k", "y"}, b}},
			{{"f1", true, []string{"id", "x"}, a}, {"stdin", false, []string{"id", "k", "y"}, b}},
		}[pi]
		r := newFixedRunner(g, o, root, fmt.Sprintf("corpus-outer%d", pi), tabs)
		r.OnlyFailureLaws = false
		r.dropTwin()
		ta, tb := r.Tabs[0], r.Tabs[1]
		an, bn := ta.Name, tb.Name
		on := Bin("=", "eq", Col(an, "id", true), Col(bn, "k", true))
		notNull := func(tn string) Ex { return Not(IsNull(Col(tn, "id", true))) }
		for _, dir := range []string{"left", "right", "full"} {
			from := fmt.Sprintf("%s %s JOIN %s ON %s", an, strings.ToUpper(dir), bn, on.SQL)
			for _, tn := range [][]string{{an}, {bn}, {an, bn}, {bn, an}} {
				wheres := []Ex{True(), Bin(">=", "ge", Col(bn, "y", true), Int(21))}
				guard := notNull(tn[0])
				if len(tn) == 2 {
					guard = Bin("AND", "and", guard, notNull(tn[1]))
				}
				wheres = append(wheres, guard)
				for wi, wh := range wheres {
					var stmts []*Stmt
					// DELETE
					d := &Stmt{Kind: "deletem", Targets: tn, Wrap: "plain", Outer: dir}
					d.SQL = fmt.Sprintf("DELETE %s FROM %s WHERE %s", strings.Join(tn, ", "), from, wh.SQL)
					d.Op = fmt.Sprintf("deletej %d %s %s %s %s %s %s", len(tn), strings.Join(tn, " "), dir, an, bn, on.Tok, wh.Tok)
					d.MatchSQL = map[string]string{}
					for _, n := range tn {
						d.MatchSQL[n] = fmt.Sprintf("SELECT %s.id FROM %s WHERE %s", n, from, wh.SQL)
					}
					dtn := tn
					d.Check = func(before, after map[string]*Snap, matched map[string][]string, counts map[string]int) []string {
						var bad []string
						for _, n := range dtn {
							bad = append(bad, deleteFrame(n, before, after, matched, counts)...)
						}
						return bad
					}
					stmts = append(stmts, d)
					// UPDATE (the WHERE `y >= 21` variant is left to DELETE: an UPDATE writing a record twice fails anyway)
					if wi != 1 {
						var ss, st []string
						setCols := map[string][]string{}
						for _, n := range tn {
							c := "x"
							if n == bn {
								c = "y"
							}
							// the value comes from the OTHER table: NULL where that side is padded
							src := Col(bn, "y", true)
							if n == bn {
								src = Col(an, "x", true)
							}
							e := Bin("+", "+", src, Int(100))
							ss = append(ss, n+"."+c+" = "+e.SQL)
							st = append(st, n+" "+c+" "+e.Tok)
							setCols[n] = []string{c}
						}
						u := &Stmt{Kind: "updatem", Targets: tn, Wrap: "plain", Outer: dir}
						u.SQL = fmt.Sprintf("UPDATE %s SET %s FROM %s WHERE %s", strings.Join(tn, ", "), strings.Join(ss, ", "), from, wh.SQL)
						u.Op = fmt.Sprintf("updatej %d %s %s %s %s %d %s %s %s", len(tn), strings.Join(tn, " "), dir, an, bn, len(tn), strings.Join(st, " "), on.Tok, wh.Tok)
						u.MatchSQL = d.MatchSQL
						u.Check = func(before, after map[string]*Snap, matched map[string][]string, counts map[string]int) []string {
							var bad []string
							for _, n := range dtn {
								bad = append(bad, updateFrame(n, setCols[n], before, after, matched, counts)...)
							}
							return bad
						}
						stmts = append(stmts, u)
					}
					for _, st := range stmts {
						out := r.Exec(st, 0)
						o.Count("corpus:outer_join:" + st.Kind)
						res := "ok"
						if out.Err != nil {
							res = fmt.Sprintf("E%d", ErrNum(out.Err))
						}
						o.NonTrivial(fmt.Sprintf("outer:%s:%s:%d:%s:p%d:w%d:%s", st.Kind, dir, len(tn), tn[0], pi, wi, res))
						if len(Marks(r.Pr)) > 2 {
							r.Rollback()
						}
					}
				}
			}
		}
		r.Close()
	}
}

// BigKeyCorpus (c05, first on every run): key matching with 16-19 digit integer keys that are adjacent beyond 2^53 (equal
// float64 images) — as integers (temporary table) and as digit strings (file-backed table): REPLACE … USING (id) with
// VALUES and with SELECT, multi-table UPDATE and DELETE joined on the key.
func BigKeyCorpus(g *hc.Gen, o *hc.Out, root string) {
	const b = 9007199254740992 // 2^53
	rows := [][]int{{b, 1}, {b + 1, 2}, {b + 2, 3}, {b * 512, 4}, {b*512 + 1, 5}, {7, 6}}
	src := [][]int{{b + 1, 10}, {b + 3, 30}, {b*512 + 1, 50}, {b*512 + 2, 60}}
	r := newFixedRunner(g, o, root, "corpus-bigkey", []fixedTab{
		{"f1", true, []string{"id", "a"}, rows}, {"m1", false, []string{"id", "a"}, rows},
		{"f2", true, []string{"id", "e"}, src}, {"m2", false, []string{"id", "e"}, src},
	})
	r.OnlyFailureLaws = false
	r.dropTwin()
	defer r.Close()
	hs := func(kind, sql, op string, targets ...string) *Stmt {
		return &Stmt{Kind: kind, SQL: sql, Op: op, Targets: targets, Wrap: "plain"}
	}
	tt := True().Tok
	for _, p := range [][2]string{{"f1", "m2"}, {"m1", "f2"}, {"f1", "f2"}, {"m1", "m2"}} {
		t, s := p[0], p[1]
		k1, k2, k3 := Int(b+1), Int(b+3), Int(b*512+2)
		stmts := []*Stmt{
			hs("replace", fmt.Sprintf("REPLACE INTO %s (id, a) USING (id) VALUES (%s, 100), (%s, 300), (%s, 600)", t, k1.SQL, k2.SQL, k3.SQL),
				fmt.Sprintf("replace %s 2 id a 1 id 3 2 %s %s 2 %s %s 2 %s %s", t, k1.Tok, Int(100).Tok, k2.Tok, Int(300).Tok, k3.Tok, Int(600).Tok), t),
			hs("replacesel", fmt.Sprintf("REPLACE INTO %s (id, a) USING (id) SELECT id, e FROM %s WHERE TRUE", t, s),
				fmt.Sprintf("replacesel %s 2 id a 1 id %s 2 $id $e %s", t, s, tt), t),
			hs("updatem", fmt.Sprintf("UPDATE %[1]s SET %[1]s.a = %[2]s.e + 1 FROM %[1]s, %[2]s WHERE %[1]s.id = %[2]s.id", t, s),
				fmt.Sprintf("updatem 1 %[1]s 2 %[1]s %[2]s 1 %[1]s a + $%[2]s.e %[3]s eq $%[1]s.id $%[2]s.id", t, s, Int(1).Tok), t),
			hs("deletem", fmt.Sprintf("DELETE %[1]s FROM %[1]s, %[2]s WHERE %[1]s.id = %[2]s.id AND %[2]s.e = 30", t, s),
				fmt.Sprintf("deletem 1 %[1]s 2 %[1]s %[2]s and eq $%[1]s.id $%[2]s.id eq $%[2]s.e %[3]s", t, s, Int(30).Tok), t),
		}
		for _, st := range stmts {
			out := r.Exec(st, 0)
			o.Count("corpus:bigkey")
			if out.Err != nil {
				o.Law("corpus_statement_failed", map[string]string{"sql": st.SQL, "error": out.Err.Error()})
				return
			}
		}
	}
	r.Commit()
}
