from .core import BASE_TRUST

META = {
    "category": "proof",
    "text": "Lean 4 theorems over an executable model of Insert / Update / Delete / Replace / AddColumns / DropColumns / RenameColumn written in the shape of lib/query/query.go and view.go (copy with internal record ids, filtered view, write-back by id, the 'value ambiguous' rule, first-match REPLACE, index-placed ADD): for ALL tables, field lists, value lists, conditions and expressions (arbitrary functions Row -> Except Err _) INSERT = old rows ++ given rows (column mapping by name, missing columns NULL); UPDATE rewrites exactly the SET columns of exactly the records whose condition is TRUE, from the OLD record, keeping header, row count and order; DELETE = filter; REPLACE rewrites each existing record from its first key-equivalent given row and appends the rows no record matched first, in the given order; ADD/DROP/RENAME touch only the named columns; the reported count = inserted / matched / removed; rectangularity is preserved by every statement; folding the per-statement specifications over any statement history equals folding the implementation model. Model tied to /repo by a differential correspondence through the real processor: statement sequences (<= 30, state carried) over the three kinds of updatable tables (file-backed, DECLAREd temporary, the session's STDIN table), SELECT * and the logged count compared after EVERY statement, plus frame / count laws computed on the implementation's own before/after tables with the matched set obtained by a separate real SELECT",
    "design_ref": "DESIGN.md section 5, C05",
    "note": "trusted: Lean kernel; harness + driver (its tiny expression language is evaluated with C06's comparison / arithmetic model on coercion profiles reported by the real value.To* functions); column names compared exactly (generators use distinct lower-case identifiers); REPLACE's key equivalence is a parameter of the theorems (the driver uses C07's SortVal.equiv); multi-table UPDATE/DELETE: the new tables are computed per target table over the filtered cross join, the reported error by a row-major scan in the order of the Go loop; known finding F41: a REPLACE whose VALUES list repeats a key that already exists appends the later duplicate (first-match semantics of View.replace); stated as counter-witness + partial theorem, re-established by a corpus witness on every run",
    "technique": "Lean 4 machine-checked proof (refinement of the id-indirected impl model to map/filter specifications, frame theorems, history fold) + differential correspondence with the Go implementation",
}


def run(run):
    q = run.tier == "quick"
    run.assumptions += [
        "expressions / conditions are arbitrary functions of the record (the theorems do not depend on csvq's evaluator); the correspondence stream uses comparison, AND/OR/NOT, IS NULL and integer arithmetic on integer / NULL / plain-string cells",
        "statements executed inside nested blocks (IF, WHILE, function bodies, PREPARE/EXECUTE) have the semantics of the same statement at the top level: the model has one level of tables (publication to the DECLARING block - ReplaceTemporaryTable - is observed by the stream, not proved)",
        "STDIN is treated like any other table (several data-changing statements per transaction, COMMIT and ROLLBACK); a lock wait time-out (error 90082) is never legitimate in these single-process runs: law stdin_second_statement_timeout (fixed finding, 1986c14)",
        "the frame / count laws are evaluated on whatever table shape the implementation returns: an unexpected shape is reported as law table_shape_unexpected with its program, never as a crash of the harness",
        "REPLACE key equivalence: any Boolean relation in the theorems; SortValues.EquivalentTo (C07 model) in the driver",
        "known finding F41 - property-text reading 'REPLACE appends the OTHERS': proved only when the given rows have pairwise non-equivalent keys (replace_appended_keys_are_new_partial); the code appends a later given row whose key exists (replace_appended_keys_are_new_counterexample compiles on every run; the corpus witness REPLACE INTO tw (id, v) USING (id) VALUES (1,'b'),(1,'c') on tw = (1,a),(2,x) is run first for every seed and must still fail the law replace_appended_row_with_existing_key); the model describes the code as it behaves",
    ]
    run.obligations_for(["Csvq.Props.C05"])
    run.stream("c05", 2500 if q else 30000)
    if not q:
        for k in range(1, 4):
            run.stream("c05", 20000, seed_offset=k)
    return run.finish(
        level="proof",
        rule="corpus first (F41 witness; the STDIN table as the target of every statement kind and as one table of the multi-table forms, at top level and inside blocks; every statement kind against top-level temporary tables and a file table executed inside IF / nested IF-ELSE / WHILE / a user-defined function body / PREPARE-EXECUTE, the table read back after the block ended; F4 witness), then statement sequences of 1-30 statements (state carried, COMMIT and ROLLBACK interleaved, every table read back and compared with the model after a ROLLBACK) over 1-3 tables per sequence, file-backed CSV, temporary (DECLARE VIEW) and - in a third of the sequences - the session's STDIN table, 0-400 rows, @@CPU 1-4: INSERT VALUES / INSERT SELECT, single- and multi-table UPDATE / DELETE (cross join and JOIN ON, one or two targets), REPLACE (VALUES and SELECT source) with 0-44 unmatched rows and keys id / data column / both, VALUES cells that are scalar sub-queries reading a cell of another table, a quarter of the statements wrapped in a nested block / function / prepared statement, ALTER ADD (FIRST/LAST/BEFORE/AFTER, DEFAULT expr) / DROP / RENAME, ALTER TABLE SET LINE_BREAK / ENCLOSE_ALL / PRETTY_PRINT / JSON_ESCAPE (records untouched, table marked); cells integers, NULL, plain strings; conditions from =,<>,<,<=,>,>=, IS NULL, %, AND/OR/NOT; non-trivial = distinct (statement kind, outcome, storage, size band, cpu, position in sequence, count band) signature",
        trusted_base=BASE_TRUST + ["C06 comparison/arithmetic model and C07 SortVal.equiv used by the driver's expression evaluator"],
        checker_cmd="cd /verif/lean && lake build Csvq.Props.C05 && lake env lean <#print axioms for every theorem>",
    )
