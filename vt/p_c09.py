from .core import BASE_TRUST, Problem

META = {
    "category": "proof",
    "text": "Lean 4 theorem mutex_inv: in every state reachable by ANY interleaving of the individual system calls of ANY number of processes running the lock protocol of lib/file (O_EXCL `.lock`, `.rlock` created only under the lock, writer re-check), there are never two writers and never a writer together with a reader; lock files are removed only by their creator; a process that gives up has changed nothing; no_lost_update: under that mutual exclusion a read-modify-write by any number of writers in any interleaving ends as the update applied once per effective commit; gen_commit_publishes_before_release: the regenerated Handler.commit renames the new file into place before it removes the lock. The protocol the theorem is about is tied to the source by regenerated effect lists and protocol flags (extract/fsproto, gen_eq_ref theorems) and by schedule replay: goroutine 'virtual processes' run the REAL handler code with every VerifPoint a yield point under seeded schedules (uniformly random, priority based with change points (PCT), and a systematic 'park one process after k steps while the others run' sweep); control files after every step are compared with the model and mutual exclusion / no-lost-update / no-leftover laws are checked on the real code",
    "design_ref": "DESIGN.md section 5, C09",
    "note": "trusted: Lean kernel; extract/fsproto; open(O_CREAT|O_EXCL) and unlink are atomic, glob sees a consistent directory snapshot; flock(2) on the data file is a second mechanism in the code that the model does not need; the VerifPoint hooks (tag verif); virtual processes share one OS process (flock is per open file description, so conflicts behave as across processes)",
    "technique": "Lean 4 machine-checked inductive invariant over an unbounded-process transition system + regenerated protocol tie + schedule replay of the real handler code",
}


def run(run):
    q = run.tier == "quick"
    run.assumptions += ["O_EXCL create / unlink atomic; directory listing consistent", "random rlock suffixes do not collide"]
    run.regen("fsproto", ["go", "run", "-C", "extract/fsproto", "."], "Csvq/Gen/FsProto.lean")
    ok = run.obligations_for(["Csvq.Props.C09"])
    csvq = run.build_csvq()
    env = {"VERIF_CSVQ": str(csvq)} if csvq else {}
    run.stream("c09", 240 if q else 6000, env=env, timeout=3000)
    # "...or lose an update": a transaction that read a table and then changes it must work on the data
    # as of the moment it takes the lock (session histories with a second writer, model of C01/C20)
    run.stream("c01", 400 if q else 3000, seed_offset=200, model="C01", timeout=3000)
    if not q:
        for k in range(1, 3):
            run.stream("c09", 3000, seed_offset=k, timeout=3000)
    if not ok:
        # search the model with the regenerated protocol flags for a schedule that breaks mutual exclusion
        import subprocess
        from .core import LEAN
        try:
            out = subprocess.run([str(LEAN / ".lake" / "build" / "bin" / "model-c09")], input="c09.search 3\n", capture_output=True, text=True, timeout=600).stdout.strip()
            run.problems.append(Problem("build", "model-search", "BFS over the executable protocol with the regenerated flags (3 processes): " + out, concrete=out.startswith("violating")))
        except Exception as e:
            run.problems.append(Problem("build", "model-search", "search failed: %s" % e))
    return run.finish(
        level="proof",
        rule="2-4 virtual processes (writers doing read-modify-write increments, readers) on one table, every VerifPoint of lib/file a yield point, seeded random schedules; non-trivial = distinct (roles, schedule length, outcomes) signature",
        trusted_base=BASE_TRUST + ["extract/fsproto", "POSIX open(O_EXCL)/unlink/glob semantics"],
        checker_cmd="cd /verif/lean && lake build Csvq.Props.C09 && lake env lean <#print axioms for every theorem>",
    )
