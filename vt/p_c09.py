from .core import BASE_TRUST, Problem

META = {
    "category": "proof",
    "text": "Lean 4 theorem mutex_inv: in every state reachable by ANY interleaving of the individual system calls of ANY number of processes running the lock protocol of lib/file (O_EXCL `.lock`, `.rlock` created only under the lock, writer re-check), there are never two writers and never a writer together with a reader; lock files are removed only by their creator; a process that gives up has changed nothing; no_lost_update: under that mutual exclusion a read-modify-write by any number of writers in any interleaving ends as the update applied once per effective commit; gen_commit_publishes_before_release: the regenerated Handler.commit renames the new file into place before it removes the lock. The protocol the theorem is about is tied to the source by regenerated effect lists and protocol flags (extract/fsproto, gen_eq_ref theorems) and by schedule replay: goroutine 'virtual processes' run the REAL handler code with every VerifPoint a yield point under seeded schedules (uniformly random, priority based with change points (PCT), and a systematic 'park one process after k steps while the others run' sweep); control files after every step are compared with the model and mutual exclusion / no-lost-update / no-leftover laws are checked on the real code. THE WAITING SIDE ('a process that cannot get access within --wait-timeout fails with a lock-timeout error and changes nothing') is inside the model, regenerated: extract/fsproto -retry translates (go/ast, fail closed) the three TryCreate...File functions, the dispatch tryCreateControlFile, the retry loop CreateControlFileContext (per round: attempt, test of the attempt's result, test of the context, select between ctx.Done() and the timer - IN SOURCE ORDER), the recording method Handler.CreateControlFileContext and NewHandlerForRead / NewHandlerForUpdate with their error returns into the typed IRs of Model/Retry.lean (Gen/RetryLoop.lean). The environment is an arbitrary function of time (what other processes have lying in the directory at every instant, failing creates, lengths of sleeps) and the context ends at an arbitrary instant T - before the call, between two steps of the successful attempt, between the attempt and the test behind it, during a sleep. Theorems over the regenerated programs for ALL environments, all T, all starting instants and numbers of rounds: retry_timeout_changes_nothing (an error return leaves no control file created by the call), retry_success_owns_file (a returned file exists, is the one the last attempt created, and nothing else of the call exists), retry_returns (the loop returns within T+1 rounds), handler_records_what_it_creates (every existing control file of the process is recorded in the handler, before and after), new_handler_for_update_all_or_nothing / new_handler_for_read_all_or_nothing (a failing constructor leaves nothing and holds nothing; a succeeding one owns and records exactly .lock+.temp / .rlock). They are obtained from path enumerations proved sound once (run_outcome_mem: every run ends in an enumerated outcome) and evaluated on the regenerated values, so a reordering of the loop's statements changes the definition the theorem is about; when an obligation breaks the executable model is searched (3 file types x 17 environments x 24 instants) and prints the violating schedule step by step. Dynamic tie: op lines c09.cancelat (lib/file's CreateControlFileContext with the context cancelled at every step of the first attempt / a held table with a real timeout, compared with the regenerated loop run by the Lean driver); law timeout_or_cancel_left_control_file on real csvq processes held (VERIF_PAUSE_AT) at lock.check / lock.create / lock.recheck / update.open / temp.create / rlock.stat / rlock.createlock / rlock.create / the removal of the reader's transient lock / read.open for longer than their --wait-timeout with NO other process in the way, and with SIGINT / SIGTERM delivered at those steps (whatever is reported: an error means no control file, an unchanged table and a second process that updates at once; success means the change is committed), and in-process on lib/file with a context whose deadline passes between two consecutive looks at it for every position, with real timeout contexts held at each step and cancellations at each step",
    "design_ref": "DESIGN.md section 5, C09",
    "note": "trusted: Lean kernel; extract/fsproto; open(O_CREAT|O_EXCL) and unlink are atomic, glob sees a consistent directory snapshot; flock(2) on the data file is a second mechanism in the code that the model does not need; the VerifPoint hooks (tag verif); virtual processes share one OS process (flock is per open file description, so conflicts behave as across processes); waiting side: extract/fsproto -retry (pattern translation of ~120 source lines, every unrecognised statement ends the run); one instant per statement of the IR (a system call is atomic; the context is looked at only where the source looks at it); ControlFile.Close is modelled as succeeding (a remove(2) that fails or is interrupted on the RELEASE side is not modelled: the file then stays, and no theorem covers that); a positive retry delay (with --retry-delay 0 Go's select may pick the timer although the context is over); NewHandlerForCreate does not wait (TryCreateLockFile directly) and is covered by pausedCreate and gen_forcreate_eq_ref only",
    "technique": "Lean 4 machine-checked inductive invariant over an unbounded-process transition system + regenerated protocol tie + schedule replay of the real handler code; for the waiting side: regenerated typed IR of the retry loop + path enumeration proved sound for every environment and every instant of expiry, evaluated by the kernel on the regenerated programs + concrete replay on processes held / signalled at each step",
}


def run(run):
    q = run.tier == "quick"
    run.assumptions += ["O_EXCL create / unlink atomic; directory listing consistent", "random rlock suffixes do not collide"]
    run.regen("fsproto", ["go", "run", "-C", "extract/fsproto", "."], "Csvq/Gen/FsProto.lean")
    # the waiting side: the retry loop, the three attempts, the recording method and the constructors as typed IRs
    run.regen("fsproto-retry", ["go", "run", "-C", "extract/fsproto", ".", "-retry"], "Csvq/Gen/RetryLoop.lean")
    ok = run.obligations_for(["Csvq.Props.C09", "Csvq.Props.C09Retry"])
    csvq = run.build_csvq()
    env = {"VERIF_CSVQ": str(csvq)} if csvq else {}
    run.stream("c09", 240 if q else 6000, env=env, timeout=3000)
    # "...or lose an update": a transaction that read a table and then changes it must work on the data
    # as of the moment it takes the lock (session histories with a second writer, model of C01/C20)
    run.stream("c01", 400 if q else 3000, seed_offset=200, model="C01", timeout=3000)
    if not q:
        for k in range(1, 3):
            run.stream("c09", 3000, seed_offset=k, timeout=3000)
    if not ok:
        # search the model with the regenerated protocol flags for a schedule that breaks mutual exclusion
        import subprocess
        from .core import LEAN
        try:
            out = subprocess.run([str(LEAN / ".lake" / "build" / "bin" / "model-c09")], input="c09.search 3\n", capture_output=True, text=True, timeout=600).stdout.strip()
            run.problems.append(Problem("build", "model-search", "BFS over the executable protocol with the regenerated flags (3 processes): " + out, concrete=out.startswith("violating")))
        except Exception as e:
            run.problems.append(Problem("build", "model-search", "search failed: %s" % e))
        # ... and the regenerated retry loop for an environment and an instant at which the context ends such that
        # CreateControlFileContext returns an error and leaves a control file behind
        try:
            out = subprocess.run([str(LEAN / ".lake" / "build" / "bin" / "model-c09")], input="c09.retrysearch\n", capture_output=True, text=True, timeout=600).stdout.strip()
            run.problems.append(Problem("build", "retry-search", "search over the regenerated retry loop (3 file types x 17 environments x 24 instants at which the context ends): " + out, concrete=out.startswith("violating")))
        except Exception as e:
            run.problems.append(Problem("build", "retry-search", "search failed: %s" % e))
    return run.finish(
        level="proof",
        rule="2-4 virtual processes (writers doing read-modify-write increments, readers) on one table, every VerifPoint of lib/file a yield point, seeded random schedules; non-trivial = distinct (roles, schedule length, outcomes) signature",
        trusted_base=BASE_TRUST + ["extract/fsproto (both modes)", "POSIX open(O_EXCL)/unlink/glob semantics"],
        checker_cmd="cd /verif/lean && lake build Csvq.Props.C09 Csvq.Props.C09Retry && lake env lean <#print axioms for every theorem>",
    )
