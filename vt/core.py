"""Orchestrator core: regenerate -> build obligations -> audit -> correspondence -> triage -> evidence.

Stdlib only.  One check run = `./check <Cxx> [--tier quick|thorough] [--replay file]`.
"""
import fcntl, hashlib, json, os, re, shutil, subprocess, sys, tempfile, time
from pathlib import Path

VERIF = Path(__file__).resolve().parent.parent
REPO = Path(os.environ.get("VERIF_REPO", "/repo"))
LEAN = VERIF / "lean"
HARNESS = VERIF / "harness"
EXTRACT = VERIF / "extract"
ALLOWED_AXIOMS = {"propext", "Classical.choice", "Quot.sound"}
FORBIDDEN = re.compile(r"\b(sorry|admit|native_decide|bv_decide|implemented_by)\b|^\s*axiom\s|\bunsafe\s|maxHeartbeats\s+0")

GOENV = dict(os.environ, GOFLAGS="-mod=mod", GOPROXY="off", GOSUMDB="off", GOTOOLCHAIN="local",
             CGO_ENABLED=os.environ.get("CGO_ENABLED", "0"))
GOENV.setdefault("GOCACHE", str(Path.home() / ".cache" / "go-build"))


def sh(cmd, cwd=None, env=None, timeout=None, input=None):
    """run, return (rc, stdout+stderr)"""
    try:
        p = subprocess.run(cmd, cwd=cwd, env=env, timeout=timeout, input=input,
                           stdout=subprocess.PIPE, stderr=subprocess.STDOUT, text=True, errors="replace")
        return p.returncode, p.stdout
    except subprocess.TimeoutExpired as e:
        out = e.stdout or ""
        if isinstance(out, bytes):
            out = out.decode("utf-8", "replace")
        return 124, out + "\n[timeout]"


class Lock:
    """serialise lake / generator work between concurrently running checks"""
    def __init__(self, name):
        self.path = VERIF / (".lock-" + name)
    def __enter__(self):
        self.f = open(self.path, "w")
        fcntl.flock(self.f, fcntl.LOCK_EX)
    def __exit__(self, *a):
        fcntl.flock(self.f, fcntl.LOCK_UN)
        self.f.close()


class Problem:
    """something that no longer checks.  kind: gen | build | audit | forbidden | law | diff | direct"""
    def __init__(self, kind, name, detail, concrete=False, signature=None):
        self.kind, self.name, self.detail, self.concrete = kind, name, detail, concrete
        self.signature = signature or (kind + ":" + name)
    def to_json(self):
        return {"kind": self.kind, "name": self.name, "detail": self.detail, "concrete_failing_input": self.concrete,
                "signature": self.signature}


class Run:
    def __init__(self, pid, tier, seed):
        self.pid, self.tier, self.seed = pid, tier, seed
        self.t0 = time.time()
        self.scratch = Path(tempfile.mkdtemp(prefix="vt-%s-" % pid))
        self.problems = []
        self.cov = {"evaluations": 0, "distinct_nontrivial": 0, "samples": [], "streams": {}, "obligation_names": []}
        self.assumptions = []
        self.obligations = 0
        self.discharged = 0
        self.harness_bins = {}
        self.notes = []

    def cleanup(self):
        shutil.rmtree(self.scratch, ignore_errors=True)

    # ---------------- 1. regenerate ----------------
    def regen(self, name, argv, out_rel):
        """run an extractor (argv, cwd=/verif) whose stdout is the generated Lean file"""
        out = LEAN / out_rel
        rc, txt = sh(argv, cwd=str(VERIF), env=GOENV, timeout=600)
        if rc != 0:
            self.problems.append(Problem("gen", name, "extractor failed (construct outside the supported subset, or source no longer found):\n" + txt[-3000:]))
            return False
        with Lock("lake"):
            old = out.read_text() if out.exists() else None
            if old != txt:
                out.parent.mkdir(parents=True, exist_ok=True)
                out.write_text(txt)
        return True

    # ---------------- 2. build obligations ----------------
    def lake_build(self, targets):
        with Lock("lake"):
            rc, txt = sh(["lake", "build"] + targets, cwd=str(LEAN), timeout=3000)
        (self.scratch / "lake.log").write_text(txt)
        return rc, txt

    def theorems_of(self, module):
        """names of the theorems stated in a Props module, with their line numbers"""
        path = LEAN / (module.replace(".", "/") + ".lean")
        ns, out = [], []
        for i, line in enumerate(path.read_text().splitlines(), 1):
            m = re.match(r"^namespace\s+(\S+)", line)
            if m:
                ns.append(m.group(1))
            m = re.match(r"^end\s+(\S+)", line)
            if m and ns and ns[-1] == m.group(1):
                ns.pop()
            m = re.match(r"^(?:private\s+|protected\s+)?theorem\s+([^\s:({\[]+)", line)
            if m:
                out.append((".".join(ns + [m.group(1)]), i))
        return path, out

    def obligations_for(self, modules):
        """build the Props modules, count obligations, audit axioms.  Returns True if all discharged."""
        all_ok = True
        rc, txt = self.lake_build(modules + ["model-" + self.pid.lower()] if (LEAN / "Drivers" / (self.pid + ".lean")).exists() else modules)
        build_failed_modules = set()
        if rc != 0:
            all_ok = False
            for m in re.finditer(r"^error: (\S+?\.lean):(\d+):\d+: (.*)$", txt, re.M):
                build_failed_modules.add(m.group(1))
        names = []
        for mod in modules:
            path, ths = self.theorems_of(mod)
            rel = str(path.relative_to(LEAN))
            self.obligations += len(ths)
            names += [n for n, _ in ths]
            errs = [(int(m.group(2)), m.group(3)) for m in re.finditer(r"^error: (\S+?\.lean):(\d+):\d+: (.*)$", txt, re.M) if m.group(1) == rel]
            if rc != 0 and not errs and not any(rel == f for f in build_failed_modules):
                # a dependency failed: none of this module's theorems is checked
                others = ["%s:%s: %s" % (m.group(1), m.group(2), m.group(3)[:160]) for m in re.finditer(r"^error: (\S+?\.lean):(\d+):\d+: (.*)$", txt, re.M) if m.group(1) != rel][:4]
                errs = [(0, "a module this file imports no longer builds" + (": " + " | ".join(others) if others else ""))]
            failed = set()
            for ln, msg in errs:
                owner = None
                for n, l in ths:
                    if l <= ln:
                        owner = n
                owner = owner or (ths[0][0] if ths else rel)
                if ln == 0:
                    failed.update(n for n, _ in ths)
                else:
                    failed.add(owner)
                self.problems.append(Problem("build", owner, "%s:%d: %s" % (rel, ln, msg)))
            self.discharged += len(ths) - len(failed & {n for n, _ in ths})
        if rc != 0 and not any(p.kind == "build" for p in self.problems):
            self.problems.append(Problem("build", "lake", txt[-3000:]))
        self.cov["obligation_names"] = names
        if rc == 0:
            all_ok = self.audit(modules, names) and all_ok
            if self.tier == "thorough" and "leanchecker" not in self.cov:
                # independent re-check of the compiled modules (and everything they import) by the toolchain's
                # stand-alone kernel front end
                with Lock("lake"):
                    all_ok = self.leanchecker(modules) and all_ok
        return all_ok

    def audit(self, modules, names):
        ok = True
        src = "".join("import %s\n" % m for m in modules) + "".join("#print axioms %s\n" % n for n in names)
        f = LEAN / (".audit_%s.lean" % self.pid)
        f.write_text(src)
        try:
            rc, txt = sh(["lake", "env", "lean", str(f)], cwd=str(LEAN), timeout=1200)
        finally:
            f.unlink(missing_ok=True)
        seen = {}
        for m in re.finditer(r"'([^']+)' depends on axioms: \[([^\]]*)\]", txt.replace("\n ", " ")):
            seen[m.group(1)] = {a.strip() for a in m.group(2).replace("\n", " ").split(",") if a.strip()}
        for m in re.finditer(r"'([^']+)' does not depend on any axioms", txt):
            seen[m.group(1)] = set()
        axioms_used = set()
        for n in names:
            if n not in seen:
                ok = False
                self.discharged -= 1
                self.problems.append(Problem("audit", n, "no `#print axioms` answer: " + txt[-500:]))
            else:
                axioms_used |= seen[n]
                extra = seen[n] - ALLOWED_AXIOMS
                if extra:
                    ok = False
                    self.discharged -= 1
                    self.problems.append(Problem("audit", n, "depends on axioms outside the allowed set: %s" % sorted(extra)))
        self.cov["axioms_used"] = sorted(axioms_used)
        # forbidden tokens in every Lean source this property's theorems and driver depend on (comments stripped)
        for p in self.lean_closure(modules + ["Drivers." + self.pid]):
            text = re.sub(r"/-.*?-/", "", p.read_text(), flags=re.S)
            for i, line in enumerate(text.splitlines(), 1):
                line = line.split("--")[0]
                if FORBIDDEN.search(line):
                    ok = False
                    self.problems.append(Problem("forbidden", str(p.relative_to(LEAN)), "line %d: %s" % (i, line.strip())))
        return ok

    def lean_closure(self, modules):
        """source files of the given modules and everything under lean/ they import, transitively"""
        seen, todo = {}, list(modules)
        while todo:
            m = todo.pop()
            if m in seen:
                continue
            f = LEAN / (m.replace(".", "/") + ".lean")
            if not f.exists():
                continue
            seen[m] = f
            for line in f.read_text().splitlines():
                mm = re.match(r"^\s*(?:public\s+)?import\s+(\S+)", line)
                if mm:
                    todo.append(mm.group(1))
        return sorted(seen.values())

    def leanchecker(self, modules):
        rc, txt = sh(["lake", "env", "leanchecker"] + modules, cwd=str(LEAN), timeout=3000)
        self.cov["leanchecker"] = "ok" if rc == 0 else "FAILED"
        if rc != 0:
            self.problems.append(Problem("audit", "leanchecker", txt[-2000:]))
        return rc == 0

    # ---------------- 3. correspondence ----------------
    def build_harness(self, name, tags="verif", race=False):
        """build /verif/harness/cmd/<name> against /repo's working tree"""
        key = name + ("-race" if race else "")
        if key in self.harness_bins:
            return self.harness_bins[key]
        env = dict(GOENV)
        cmd = ["go", "build", "-tags", tags]
        if race:
            cmd.append("-race")
            env["CGO_ENABLED"] = "1"
        out = self.scratch / ("vh-" + key)
        if str(REPO) != "/repo":
            # checks run against another tree (seeded changes in a scratch worktree): same harness, other replace target
            mf = self.scratch / "harness.mod"
            mf.write_text((HARNESS / "go.mod").read_text().replace("=> /repo", "=> %s" % REPO))
            shutil.copyfile(REPO / "go.sum", self.scratch / "harness.sum")
            cmd += ["-modfile", str(mf)]
        with Lock("harness"):
            if not (HARNESS / "go.sum").exists() or (HARNESS / "go.sum").read_bytes() != (REPO / "go.sum").read_bytes():
                shutil.copyfile(REPO / "go.sum", HARNESS / "go.sum")
        rc, txt = sh(cmd + ["-o", str(out), "./cmd/" + name], cwd=str(HARNESS), env=env, timeout=900)
        if rc != 0:
            self.problems.append(Problem("build", "harness:" + name, "the harness no longer builds against /repo (exported API it drives changed):\n" + txt[-3000:]))
            return None
        self.harness_bins[key] = out
        return out

    def build_csvq(self, tags="verif", race=False):
        out = self.scratch / ("csvq-race" if race else "csvq")
        if out.exists():
            return out
        env = dict(GOENV)
        cmd = ["go", "build", "-tags", tags, "-o", str(out)]
        if race:
            cmd.insert(2, "-race")
            env["CGO_ENABLED"] = "1"
        rc, txt = sh(cmd + ["."], cwd=str(REPO), env=env, timeout=900)
        if rc != 0:
            self.problems.append(Problem("build", "csvq", txt[-3000:]))
            return None
        return out

    def stream(self, name, n, extra=(), seed_offset=0, timeout=1800, model=None, race=False, env=None):
        """run one harness stream (binary cmd/<name>), then the model driver on its op lines, compare line by line"""
        hb = self.build_harness(name, race=race)
        if not hb:
            return None
        MODEL_BIN = LEAN / ".lake" / "build" / "bin" / ("model-" + (model or self.pid).lower())
        tag = name + ("".join(extra)) + ("-%d" % seed_offset if seed_offset else "")
        d = self.scratch / ("s-" + re.sub(r"[^A-Za-z0-9_.-]", "_", tag))
        rc, txt = sh([str(hb), "-seed", str(self.seed + seed_offset), "-n", str(n), "-out", str(d)] + list(extra),
                     cwd=str(self.scratch), env=dict(GOENV, VERIF_SCRATCH=str(self.scratch), VERIF_REPO=str(REPO), VERIF_TIER=self.tier, **(env or {})), timeout=timeout)
        if rc != 0:
            self.problems.append(Problem("direct", "harness:" + name, "harness stream crashed (rc=%d):\n%s" % (rc, txt[-3000:]), concrete=False))
            return None
        ops, impl = d / "ops.txt", d / "impl.txt"
        stats = json.loads((d / "stats.json").read_text())
        model_lines = []
        if ops.stat().st_size > 0:
            if not MODEL_BIN.exists():
                self.problems.append(Problem("build", "model-driver", "model driver binary missing: " + str(MODEL_BIN)))
                return None
            with open(ops) as fi, open(d / "model.txt", "w") as fo:
                p = subprocess.run([str(MODEL_BIN)], stdin=fi, stdout=fo, stderr=subprocess.PIPE, timeout=timeout)
            if p.returncode != 0:
                self.problems.append(Problem("build", "csvq-model", "model driver failed: " + p.stderr.decode()[-1000:]))
                return None
            model_lines = (d / "model.txt").read_text().split("\n")
        ndiff = 0
        ctx = {}
        if (d / "ctx.txt").exists():
            for line in (d / "ctx.txt").read_text().splitlines():
                k, _, t = line.partition("\t")
                try:
                    ctx[int(k)] = json.loads(t)
                except Exception:
                    pass
        with open(ops) as fo, open(impl) as fi:
            for k, (op, im) in enumerate(zip(fo, fi)):
                op, im = op.rstrip("\n"), im.rstrip("\n")
                mo = model_lines[k] if k < len(model_lines) else "<missing>"
                if mo != im:
                    ndiff += 1
                    if ndiff <= 25:
                        head = op.split(" ", 1)[0]
                        detail = {"stream": name, "op": op, "impl": im, "model": mo}
                        if k in ctx:
                            detail["context"] = ctx[k]
                        self.problems.append(Problem("diff", head, detail, concrete=True,
                                                     signature="diff:" + head))
        laws = []
        for line in (d / "laws.txt").read_text().splitlines():
            try:
                laws.append(json.loads(line))
            except Exception:
                pass
        per_law = {}
        for rec in laws:
            ln = rec.get("law", "?")
            per_law[ln] = per_law.get(ln, 0) + 1
            if per_law[ln] <= 3:   # a few full records per law name; the rest are only counted
                self.problems.append(Problem("law", ln, {"stream": name, "case": rec.get("case")}, concrete=True,
                                             signature="law:" + ln))
        self.cov["evaluations"] += stats["evaluations"]
        self.cov["distinct_nontrivial"] += stats["distinct_nontrivial"]
        self.cov["streams"][tag] = {
            "evaluations": stats["evaluations"], "distinct_nontrivial": stats["distinct_nontrivial"],
            "model_impl_disagreements": ndiff, "law_failures": len(laws), "law_failures_by_name": per_law,
            "distribution": stats.get("stats", {})}
        self.cov["samples"] += stats.get("samples", [])[:4]
        return stats

    # ---------------- 4. triage, evidence ----------------
    def known_findings(self):
        f = VERIF / "known_findings.jsonl"
        out = []
        if f.exists():
            for line in f.read_text().splitlines():
                line = line.strip()
                if line and not line.startswith("#"):
                    out.append(json.loads(line))
        return [k for k in out if k.get("property") == self.pid]

    def finish(self, level, rule, trusted_base, checker_cmd, extra_cov=None):
        known = [k for k in self.known_findings() if k.get("status") == "known"]
        matched, remaining = {}, []
        for p in self.problems:
            hit = None
            for k in known:
                if re.fullmatch(k["signature"], p.signature) and (not k.get("detail_regex") or re.search(k["detail_regex"], json.dumps(p.detail))):
                    hit = k
                    break
            if hit:
                matched.setdefault(hit["id"], (hit, []))[1].append(p)
            else:
                remaining.append(p)
        for kid, (k, ps) in matched.items():
            print("KNOWN-FINDING: property=%s %s (%s; %d occurrence(s) this run)" % (self.pid, k["what"], kid, len(ps)))
        cov = dict(self.cov)
        cov.update({"obligations": self.obligations, "discharged": max(self.discharged, 0),
                    "checker_cmd": checker_cmd, "trusted_base": trusted_base, "rule": rule,
                    "known_findings_seen": sorted(matched)})
        if extra_cov:
            cov.update(extra_cov)
        if not cov["samples"]:
            cov["samples"] = cov["obligation_names"][:5] or ["(none)"]
        cov["samples"] = cov["samples"][:12]
        ev = {"property_id": self.pid, "tier": self.tier, "seed": self.seed, "level": level, "coverage": cov,
              "assumptions": self.assumptions, "wall_s": round(time.time() - self.t0, 2), "violations": len(remaining)}
        (VERIF / "evidence").mkdir(exist_ok=True)
        (VERIF / "evidence" / (self.pid + ".json")).write_text(json.dumps(ev, indent=1, default=str))
        rc = 0
        if remaining:
            (VERIF / "replay").mkdir(exist_ok=True)
            rp = VERIF / "replay" / ("%s-%s-%d.json" % (self.pid, self.tier, self.seed))
            concrete = [p for p in remaining if p.concrete]
            rp.write_text(json.dumps({"property": self.pid, "tier": self.tier, "seed": self.seed,
                                      "how_to_replay": "./check %s --replay %s" % (self.pid, rp),
                                      "no_longer_checks": [p.to_json() for p in remaining if not p.concrete][:50],
                                      "failing_inputs": [p.to_json() for p in concrete][:80]}, indent=1, default=str))
            line = "VIOLATION property=%s replay=%s" % (self.pid, rp)
            if not concrete:
                line += " no-failing-input-found"
            print(line)
            for p in remaining[:8]:
                print("  - [%s] %s: %s" % (p.kind, p.name, json.dumps(p.detail, default=str)[:300]))
            rc = 1
        else:
            print("OK property=%s tier=%s obligations=%d discharged=%d evaluations=%d wall=%.1fs" % (
                self.pid, self.tier, self.obligations, self.discharged, cov["evaluations"], time.time() - self.t0))
        return rc


BASE_TRUST = [
    "Lean 4.33.0 kernel; axioms limited to propext, Classical.choice, Quot.sound (audited per theorem on every run)",
    "the correspondence harness (/verif/harness): drivers, canonicalisation, generators; the Lean driver's line parser",
    "Go standard library (strconv, strings, unicode, time, sort, sync), IEEE-754 hardware arithmetic",
]
