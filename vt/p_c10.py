from .core import BASE_TRUST

META = {
    "category": "proof",
    "text": "Lean 4 theorem crash_old_or_new: for any number of tables, any contents and any interleaving of the tables' commit operations, after EVERY prefix (a crash at any instant) each existing table file holds its complete old or complete new contents, and is therefore usable again once the control files are deleted. The operation sequence is REGENERATED on every run from lib/file/handler.go and lib/query/transaction.go by extract/fsproto (so an edit of the commit code changes the definition the theorem is about); encode-before-swap, lock-before-temp, encode-into-an-emptied-file (truncate and rewind before every encode) and equality with the reviewed list are theorems over the regenerated effect lists; at byte level (Model/FileBytes.lean: contents + write position under ftruncate/lseek/write, NUL-filled holes) a scanner over the regenerated loop bodies is proved sound (scan_sound) and gives gen_encode_loops_write_exact_bytes: the file swapped in is byte for byte the new encoding + ending line break for EVERY earlier content and position of the temp file and every cutting of the encoder's output into writes; the byte model itself is compared with the operating system on random truncate/seek/write sequences. Tied to the running code by killing the real csvq process at every named point reached during COMMIT (os.Exit without deferred calls = SIGKILL for the file system) and inspecting the directory",
    "design_ref": "DESIGN.md section 5, C10",
    "note": "trusted: Lean kernel; extract/fsproto (go/ast, fails closed); POSIX rename(2) replaces atomically; data written before close(2) is on disk after a crash (no page-cache model); the crash points are the VerifPoint hooks (build tag verif), i.e. between - not inside - system calls",
    "technique": "Lean 4 machine-checked proof over a regenerated operation sequence (parametric in contents, all prefixes, all table interleavings) + process-kill enumeration of every crash point of the real binary",
}


def run(run):
    q = run.tier == "quick"
    run.assumptions += ["rename(2) over an existing file is atomic", "contents written to the temp file before close are durable (no page cache model)"]
    run.regen("fsproto", ["go", "run", "-C", "extract/fsproto", "."], "Csvq/Gen/FsProto.lean")
    run.obligations_for(["Csvq.Props.C10"])
    csvq = run.build_csvq()
    if csvq:
        run.stream("c10", 320 if q else 1600, env={"VERIF_CSVQ": str(csvq)}, timeout=3000)
    return run.finish(
        level="proof",
        rule="transactions updating 1-3 existing CSV tables (UPDATE / INSERT / DELETE+INSERT, 0-40 rows) and optionally creating one, killed at every VerifPoint reached from the start of COMMIT (each occurrence separately); non-trivial = distinct (crash point, number of tables, per-table state) signature",
        trusted_base=BASE_TRUST + ["extract/fsproto", "POSIX rename/unlink/open(O_EXCL) semantics"],
        checker_cmd="cd /verif/lean && lake build Csvq.Props.C10 && lake env lean <#print axioms for every theorem>",
    )
