from .core import BASE_TRUST

META = {
    "category": "proof",
    "text": "Lean 4 theorem crash_old_or_new: for any number of tables, any contents and any interleaving of the tables' commit operations, after EVERY prefix (a crash at any instant) each existing table file holds its complete old or complete new contents, and is therefore usable again once the control files are deleted. The operation sequence is REGENERATED on every run from lib/file/handler.go and lib/query/transaction.go by extract/fsproto (so an edit of the commit code changes the definition the theorem is about); encode-before-swap, lock-before-temp, encode-into-an-emptied-file (truncate and rewind before every encode) and equality with the reviewed list are theorems over the regenerated effect lists; at byte level (Model/FileBytes.lean: contents + write position under ftruncate/lseek/write, NUL-filled holes) a scanner over the regenerated loop bodies is proved sound (scan_sound) and gives gen_encode_loops_write_exact_bytes: the file swapped in is byte for byte the new encoding + ending line break for EVERY earlier content and position of the temp file and every cutting of the encoder's output into writes; the byte model itself is compared with the operating system on random truncate/seek/write sequences; Transaction.Commit over the regenerated loop bodies WITH FAILING STEPS (Model/TxCommit.lean: an `if{ return }` directly behind an effect is its error check) gives encode_error_aborts_before_swap: for any created and updated tables and whatever else fails, an encoder that refuses ONE table makes Transaction.Commit return before ANY table is swapped in (gen_encode_loops_return_on_error is checked over every combination of failing steps). Tied the running code by killing the real csvq process at every named point reached during COMMIT (os.Exit without deferred calls = SIGKILL for the file system) and inspecting the directory; by transactions whose encoder refuses one table (a text longer than its fixed-length field, a character outside the table's encoding, a tab / line break in an LTSV value, an unspellable LTSV label or JSON path) in a record early / in the middle / late of tables below and above the writers' buffer sizes (4096, 65536 bytes), beside tables that are fine and a created one, run to their end and killed at the points they reach: the model's answer (nothing swapped: every table old) is compared with the files, and for fixed-length tables the model's own writer gives the expected bytes or the refusal; and by ONE transaction over 3-6 tables that differ pairwise in format, encoding (UTF-8 / BOM / UTF-16 LE BE with and without BOM / Shift_JIS), line break, delimiter, header and enclose-all (updated and created): every written file is byte for byte the file a transaction over that table alone writes, ends with the bytes the model gives for ITS encoding and line break, and is old or new after a kill behind each rename",
    "design_ref": "DESIGN.md section 5, C10",
    "note": "trusted: Lean kernel; extract/fsproto (go/ast, fails closed); POSIX rename(2) replaces atomically; data written before close(2) is on disk after a crash (no page-cache model); the crash points are the VerifPoint hooks (build tag verif), i.e. between - not inside - system calls",
    "technique": "Lean 4 machine-checked proof over a regenerated operation sequence (parametric in contents, all prefixes, all table interleavings) + process-kill enumeration of every crash point of the real binary",
}


def run(run):
    q = run.tier == "quick"
    run.assumptions += ["rename(2) over an existing file is atomic", "contents written to the temp file before close are durable (no page cache model)"]
    run.regen("fsproto", ["go", "run", "-C", "extract/fsproto", "."], "Csvq/Gen/FsProto.lean")
    run.obligations_for(["Csvq.Props.C10"])
    csvq = run.build_csvq()
    if csvq:
        run.stream("c10", 320 if q else 1600, env={"VERIF_CSVQ": str(csvq)}, timeout=3000)
    return run.finish(
        level="proof",
        rule="transactions updating 1-3 existing CSV tables (UPDATE / INSERT / DELETE+INSERT, 0-40 rows) and optionally creating one, killed at every VerifPoint reached from the start of COMMIT (each occurrence separately); 13 kinds of table an encoder refuses (or just accepts) x 4 table sizes around 4096 bytes (+ one above 65536) x offending record early / middle / late, with 1-2 innocent tables and a created one, to their end and killed at the first / a middle / the last point reached (thorough: the full grid, every point); 6 (thorough 40) transactions over 3-6 tables of pairwise different attributes against single-table commits; non-trivial = distinct (crash point, number of tables, per-table state) signature",
        trusted_base=BASE_TRUST + ["extract/fsproto", "POSIX rename/unlink/open(O_EXCL) semantics"],
        checker_cmd="cd /verif/lean && lake build Csvq.Props.C10 && lake env lean <#print axioms for every theorem>",
    )
