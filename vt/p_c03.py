from .core import BASE_TRUST

META = {
    "category": "proof",
    "text": "Lean 4 theorems, for ALL tables, ALL conditions (arbitrary functions Row -> Tern) and ALL cuttings of the outer record range into worker chunks (= every --cpu and table size): View.filter keeps exactly the rows whose condition is TRUE, in source order and with source multiplicities; CrossJoin / InnerJoin equal the left-major nested-loop specification (inner = selection of the cross product); OuterJoin (LEFT, RIGHT with the view swap, FULL with per-worker match flags OR-ed afterwards) equals the specification that pads exactly the unmatched rows with NULLs (characterisation: a left row has a partner iff its padded copy is absent; row count = sum over left rows of max(1, partners); FULL appends exactly the partnerless right rows); the USING / NATURAL merge emits each joined column once, first, coalesced; select-list projection; recursive CTE with UNION ALL = concatenation of the generations up to the first empty one, with UNION (distinct) = the first-occurrence de-duplication by comparison key of those generations (de-duplicating the anchor early or late gives the same result; no key twice, no key lost), limit error iff the first `limit` generations are non-empty; an OUTER join against an empty other side pads every preserved row whatever the condition (a NATURAL join without a common column has no condition: INNER = cross product, OUTER still pads). Model tied to /repo by differential correspondence: generated query plans (1-4 sources, every join kind incl. NATURAL/USING, WHERE over comparison/logic/IS NULL/BETWEEN/IN, sub-selects to depth 3, CTEs, recursive CTEs) rendered to SQL and run through the real processor at --cpu 1-8 on tables of 0-400 rows, result rows compared in order; plus laws checked on the implementation alone (WHERE vs per-row SELECT (cond); outer = inner + padded unmatched; LEFT/RIGHT mirror; USING vs ON merged; LATERAL vs plain joins and the empty-left header; recursive CTE vs iterated queries). field references by name resolve as Header.FieldIndex does (resolve_unique: field k iff k is the only match; resolve_ambiguous_iff: an error iff two or more match; not found iff none; FieldNumberIndex, ContainsObject's loop and SearchIndex modelled and tied to the regenerated predicates; `*` / `t.*` list exactly the table columns (of that view) in header order; NATURAL / USING name resolution of ParseJoinCondition; an outer join pads iff no partner makes ON TRUE, UNKNOWN counting like FALSE; sound; two candidates without a join column = AMBIGUOUS; the merged column of a USING/NATURAL join wins only inside the join's own query, View.Fix clears the flag, so a derived table joined with a table of an equally named column makes the unqualified name ambiguous); sub-queries inside expressions, evaluated per record with the record on the stack of outer records (scalar: no record = NULL, several = error; EXISTS never UNKNOWN; x IN (q) = x = ANY (q), NOT IN = <> ALL = NOT (IN) by De Morgan in Kleene logic, with the NULL-in-list counter-witness to the naive reading; correlated EXISTS = semi-join; correlated scalar sub-query = LEFT JOIN under a unique key, counter-witness without); set-operator chains (UNION ALL / UNION / INTERSECT ALL associative, EXCEPT not, INTERSECT binds tighter - counter-witnesses); LATERAL records = per-record application (header lost for an empty left table: F15 counter-witness); header order after USING / NATURAL (join columns first, t.* never lists them); every select item is evaluated on its own (the k-th column = the k-th item alone); a FROM name denotes the recursive working view, else a CTE, else a temporary table, else a file; inside the recursive member of WITH RECURSIVE r the name r denotes the records of the PREVIOUS iteration wherever it is written - a second time in the FROM list, in a derived table, in LATERAL sub-selects and in sub-queries evaluated per record at any depth - whatever common table expression, temporary table or file of the same name exists (recursive_reference_any_depth over every chain of the scope constructors createScope / CreateNode / CreateChild, which all inherit RecursiveTable, RecursiveTmpView, RecursiveCount: deriveAll_inherits), inside the anchor member it is what it was outside (anchor_reference_is_outer), every other name is looked up as without recursion; only the set operator of the recursive table's OWN query is the recursion (own_set_operator_is_recursion), a set operator anywhere below it - per-record sub-queries, LATERAL sub-selects, derived tables of the anchor or the member, a parenthesised right-hand side - is an ordinary UNION / EXCEPT / INTERSECT evaluated in the scope where it stands (nested_set_operator_is_ordinary, anchor_nested_set_operator_is_ordinary: the recursion-root mark is inherited by no scope constructor), for `anchor UNION ALL (m1 <op> m2)` every generation is the combination of both members applied to the generation before (two_member_generation, two_member_union_all_ends_iff); conditions with open references evaluate with eval.go's short-circuits and agree with the total evaluation when nothing is open. The code the model mirrors is REGENERATED from lib/query/{header,utils,view,load_view,join,reference_scope,query,inline_tables}.go on every run (extract/relfacts): the origin of every field of the ReferenceScope that createScope / CreateChild / CreateNode return (inherited / fresh / zero, read from their composite literals; a field the model does not know = [gen]) with gen_scope_derive_eq_model (= the model's NameScope.derive), gen_scope_inherits_tx_cache_now and gen_scope_root_not_inherited (recursionRoot is zero in every derived scope), every call of selectQuery and every write of .recursionRoot in lib/query (gen_recursion_bodies_eq_ref), the bodies of the three constructors, selectSet, selectSetForRecursion and InlineTableMap.Set pinned as token lists; Header.FieldIndex's loop as a Lean function with gen_fieldIndex_eq_model (= the model's fieldIndex for all headers and references), the order of loadObject's tests with gen_table_kind_order_eq_model, the keep tests of filter / InnerJoin / OuterJoin, the FULL-join flag update, the Merge operand order and the padding test with gen_*_eq_model theorems, CalcMinimumRequired as an integer function, and the statements of View.Fix, the writes of IsJoinColumn / Aliases, joinViews' dispatch, the join bodies, SearchIndex / ContainsObject / Header.Update as token lists pinned against the reviewed lean/Csvq/Ref/RelFacts.lean. Proof level for the modelled operator set; functions and clauses outside it (GROUP BY/HAVING, aggregates, analytic functions, ORDER BY/LIMIT, set operators other than UNION ALL in a recursive CTE, scalar/EXISTS subqueries, arithmetic in conditions, file-backed tables) are not claimed here",
    "design_ref": "DESIGN.md section 5, C03",
    "note": "F101 (a set operator nested in a member of a recursive CTE ran as a recursion of its own) was found by this generator and is repaired; still open on the tree: the recursion-limit error of a recursive CTE whose right-hand side is parenthesised is a panic (error.go searchSelectClauseInSelectEntity on a parser.Subquery) - measured at the start of every run (count finding:limit_error_of_parenthesised_member_panics); while it panics the parenthesised form is generated only where the recursion ends by itself; chains a UNION ALL b UNION ALL c inside a recursive definition are not generated; trusted: Lean kernel; harness + driver (plan -> SQL renderer, name resolution to column indices, canonicalisation); the evaluation of single comparisons is C06's model (coercion profiles supplied by the real value.To* functions); LATERAL is checked by direct laws only (not modelled); the step from the Go loops to the list recursion of Model/Rel.lean is by reading",
    "technique": "Lean 4 machine-checked proof (refinement of chunked worker loops to sequential relational specifications; go/ast re-derivation of the mirrored functions with equality theorems) + differential correspondence with the Go implementation + direct law checks",
}


def _rows(s):
    parts = s.split(" ", 1)
    return parts[0], sorted(parts[1].split("|")) if len(parts) > 1 else []


def _readable(op):
    """SQL text, tables and plan of an op line (see lean/Csvq/Drive/C03.lean for the encoding)"""
    t = op.split(" ")
    out = {}
    try:
        if t[-1].startswith("#"):
            out["sql"] = bytes.fromhex(t[-1][1:]).decode("utf-8", "replace")
            t = t[:-1]
        i = 2 if t[0] == "c03.q" else 3
        if t[0] != "c03.q":
            out["limit_recursion"] = t[2]
        out["cpu"] = t[1]
        nv = int(t[i]); vals = [v.split(";")[0] for v in t[i + 1:i + 1 + nv]]; i += 1 + nv
        nt = int(t[i]); i += 1
        tables = []
        for _ in range(nt):
            nc, nr = int(t[i]), int(t[i + 1]); i += 2
            rows = [",".join(vals[int(x)] for x in t[i + r * nc:i + (r + 1) * nc]) for r in range(min(nr, 30))]
            if nr > 30:
                rows.append("... %d rows in total" % nr)
            tables.append({"columns": nc, "rows": rows}); i += nc * nr
        out["tables_in_plan_order"] = tables
        out["plan"] = " ".join(t[i:])[:3000]
    except Exception as e:  # never let the report formatting hide the finding
        out["decode_error"] = repr(e)
    return out


def classify(run):
    """a model/implementation disagreement is an ORDER mismatch when the two results are equal as multisets;
    the failing case is rewritten into a readable form (SQL first)"""
    for p in run.problems:
        if p.kind == "diff" and isinstance(p.detail, dict) and str(p.name).startswith("c03."):
            d = p.detail
            cls = "order" if _rows(d.get("impl", "")) == _rows(d.get("model", "")) else "content"
            nd = {"class": cls}
            nd.update(_readable(d.get("op", "")))
            for k in ("impl", "model", "op"):
                v = d.get(k, "")
                nd[k] = v if len(v) <= 6000 else v[:6000] + "...[truncated; re-run with the same seed for the full line]"
            nd["stream"] = d.get("stream")
            p.detail = nd
            p.signature = "diff:%s:%s" % (p.name, cls)


def run(run):
    q = run.tier == "quick"
    run.assumptions += [
        "cells enter with the coercion profile reported by the real value.To* functions (C06's tie)",
        "temporary tables hold the literal values they were filled with (INSERT is C05's subject)",
    ]
    # what Model/Rel.lean mirrors is re-derived from the Go source on every run (a construct outside the
    # translator's subset = [gen]; a translated function that differs from the model / the reviewed list = [build])
    run.regen("relfacts", ["go", "run", "-C", "extract/relfacts", "."], "Csvq/Gen/RelFacts.lean")
    run.obligations_for(["Csvq.Props.C03"])
    run.stream("c03", 900 if q else 3000, timeout=3000)
    if not q:
        for k in range(1, 4):
            run.stream("c03", 2000, seed_offset=k, timeout=3000)
    classify(run)
    return run.finish(
        level="proof",
        rule="typed query generator: 1-4 sources over temporary tables of 0-400 rows (NULLs, duplicate rows, mixed text/numeric strings, few distinct key values), join trees of depth <= 3 of kinds CROSS/INNER/LEFT/RIGHT/FULL with ON, USING or NATURAL, WHERE and ON conditions over comparison (= == < <= > >= <>), AND/OR/NOT, IS [NOT] NULL, [NOT] BETWEEN, [NOT] IN, bare truth values; sub-selects in FROM nested to depth 3, CTEs (also referenced twice), recursive CTEs with UNION ALL and UNION over edge tables (random DAGs, chains of depth >= 3, diamonds, cycles, self-loops) and anchors with duplicate rows / no rows / rows sharing successors, --limit-recursion 0-6 or 1000; derived tables / CTEs built from USING/NATURAL/ON joins re-joined with a table sharing column names, with unqualified / qualified / upper-case references by name in ON, WHERE and select lists (outcome rows or AMBIGUOUS / NOT FOUND compared with the model's own resolution); scalar sub-queries, EXISTS, IN / ANY / ALL (sub-query) in WHERE and select lists, correlated up to two levels, with outcomes rows / too many records / too many fields; chains of 2-4 UNION / EXCEPT / INTERSECT [ALL] operands plain and parenthesised; CROSS / INNER / LEFT JOIN LATERAL incl. empty left tables; `*`, `t.*` and CTE column lists over USING / NATURAL / ON joins - all compared with the model; select lists of several computed, near-identical items (literals, conditions as values, CASE, differing only in the letter case of a string literal / one operand / the operand order) compared with the model, each item also with itself evaluated alone (law select_item_independent, also over ||, +, COALESCE and two RAND() items; ORDER BY / GROUP BY next to a near-identical item against a derived table); Header.SearchIndex / ContainsObject called directly on described headers (letter case, blanks, aliases, flagged join columns anywhere, column numbers, computed columns) as op c03.resolve; USING (names) / NATURAL resolved by the model itself, also with names that are ambiguous or unknown on a side; LEFT / RIGHT / FULL joins with ON conditions that are UNKNOWN for some pairs and FALSE for others (law outer_join_pads_iff_no_true_match against NOT EXISTS); sessions where a CTE, a temporary table and a file carry the same name (all 7 combinations; CTE over itself-named table, self-join, CTE local to a sub-select); recursive CTEs written by NAME (plan node WR, UNION ALL and UNION, --limit-recursion 0-5 / 1000, graphs dag / chain / diamond / cycle) whose recursive member refers to the recursive table more than once: self-join of the working view in the FROM list, the working view inside a derived table, CROSS / INNER JOIN LATERAL sub-selects and sub-queries evaluated per record of every kind (IN / NOT IN, [NOT] EXISTS, scalar in WHERE and as select item, ANY, ALL, two levels deep, a self-join inside the sub-query), the edge table also through a common table expression read from inside per-record sub-queries - in sessions without and with decoys of the same name and the same columns (file, temporary table, both, a CTE of the enclosing query, that and a temporary table), the anchor member reading the decoy directly or from a sub-query, the body reading the finished table also from a per-record sub-query, outcomes rows / recursion limit / too many records / ambiguous compared with the model; law recursive_named_eq_iterated (the same generations by separate non-recursive queries over a temporary table holding the previous generation), set operators UNION / EXCEPT / INTERSECT [ALL] below the recursive table's own one: inside the per-record sub-queries (IN / EXISTS / scalar / ANY / ALL) and LATERAL sub-selects of the recursive member, as derived tables in the FROM of the anchor (also over the decoy) and of the recursive member, as a parenthesised right-hand side `anchor UNION [ALL] (m1 <op> m2)` with both members reading the working view, and in a common table expression defined after the recursive one over the finished table; witness now_inherited_by_nested_scopes (NOW() in LATERAL / per-record / derived-table scopes = NOW() of the statement); the full grid NATURAL/USING x {no, one, two, all columns shared} x {INNER, LEFT, RIGHT, FULL} x {0, 1, many rows} per side (144 combinations per run); --cpu 1-8; ordered comparison of result rows with the Lean model, disagreements classified order/content; non-trivial = distinct (plan skeleton incl. join kinds/forms and condition heads, result-size band, parallel path taken) signature, plus distinct law-case signatures",
        trusted_base=BASE_TRUST + ["extract/relfacts (go/ast translator: boolean / string / integer subset of FieldIndex, the keep tests and CalcMinimumRequired; token lists elsewhere)", "C06 comparison model as the evaluator of single conditions", "harness name resolution (plan -> column indices) and SQL renderer"],
        checker_cmd="cd /verif/lean && lake build Csvq.Props.C03 && lake env lean <#print axioms for every theorem>",
    )
