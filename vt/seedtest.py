"""Run checks against a seeded change without touching /repo or /verif:
   python3 -m vt.seedtest <seeded-dir-with-patch.diff> <Cxx> [<Cyy> ...]
   Creates a scratch worktree of /repo with the patch applied and a scratch copy of /verif (own Lean
   build), runs `./check Cxx` there with VERIF_REPO pointing at the worktree, prints the verdicts,
   removes both."""
import json, os, shutil, subprocess, sys, tempfile
from pathlib import Path

VERIF = Path(__file__).resolve().parent.parent


def main():
    seeded = Path(sys.argv[1]).resolve()
    pids = sys.argv[2:]
    patch = seeded / "patch.diff"
    base = Path(tempfile.mkdtemp(prefix="seedtest-"))
    wt, vcopy = base / "repo", base / "verif"
    results = {}
    try:
        subprocess.run(["git", "-C", "/repo", "worktree", "add", "-q", "--detach", str(wt), "HEAD"], check=True)
        r = subprocess.run(["git", "-C", str(wt), "apply", "--3way", str(patch)], capture_output=True, text=True)
        if r.returncode != 0:
            r = subprocess.run(["git", "-C", str(wt), "apply", str(patch)], capture_output=True, text=True)
        if r.returncode != 0:
            print("PATCH DOES NOT APPLY:", r.stderr[-500:])
            return 2
        # files of checks running at the same time may vanish while the copy is taken (rsync exit 24): not an error
        r = subprocess.run(["rsync", "-a", "--exclude", ".git", "--exclude", "replay", "--exclude", "__pycache__", "--exclude", ".audit_*", str(os.environ.get("SEED_VERIF_SRC", VERIF)).rstrip("/") + "/", str(vcopy) + "/"])
        if r.returncode not in (0, 24):
            raise SystemExit("rsync failed with status %d" % r.returncode)
        env = dict(os.environ, VERIF_REPO=str(wt))
        for pid in pids:
            p = subprocess.run(["./check", pid, "--tier", os.environ.get("SEED_TIER", "quick")], cwd=str(vcopy), env=env, capture_output=True, text=True, timeout=3600)
            lines = [l for l in p.stdout.splitlines() if l.startswith(("VIOLATION", "OK", "  - "))]
            results[pid] = {"rc": p.returncode, "lines": [l[:300] for l in lines[:8]]}
            print("==", pid, "rc=%d" % p.returncode)
            for l in lines[:8]:
                print("   ", l[:300])
            if p.returncode not in (0, 1):
                print(p.stdout[-1500:], p.stderr[-1500:])
    finally:
        subprocess.run(["git", "-C", "/repo", "worktree", "remove", "--force", str(wt)], capture_output=True)
        shutil.rmtree(base, ignore_errors=True)
    print("RESULT " + json.dumps(results))
    return 0


if __name__ == "__main__":
    sys.exit(main())
