from .core import BASE_TRUST

META = {
    "category": "proof",
    "text": "(floats written as text are INSIDE the model since Model/FormatFloat.lean: strconv.FormatFloat(x, fmt, -1, 64) for fmt = 'f' (value.Float64ToStr, STRING(float), the key payload, the encoders), 'g' (scientific notation) and 'e' (ENOTATION) — NaN / +Inf / -Inf / ±0 and the shortest digits that read back, the closest among the shortest, by exact integer arithmetic on x*2^1074, laid out as %f / %e / %g; theorems of Props/C06Fmt.lean for ALL values: fmt_parse_roundtrip / fmtG_ / fmtE_ (ParseFloat of the text is x, for every binary64 value — proved through the exact decimal expansion n*5^1074/10^1074 that stands behind every candidate text, each candidate being checked by the model's own ParseFloat), fmt_injective / fmtG_ / fmtE_ (on the whole of FVal), fmt_bytes, fmt_clean (neither ':' nor '\\'), fmt_int_agrees (FormatFloat(float64(i)) = FormatInt(i) for |i| < 2^53), isDouble_fin_iff (the binary64 values among fin n are exactly the m*2^e with m < 2^53, e <= 2045), isDouble_ofInt, fmt_parse_roundtrip_counterexample (why the hypothesis is there); tied by stream op c06.ffmt: the three texts of 17000+ binary64 values per run — every power of two and of ten with both neighbours, subnormals, 2^53 and beyond, integers, decimal fractions, 15/16/17-digit values, the %g thresholds, random bit patterns — equal to strconv's byte for byte, and c06.cast string = STRING(value) by direct call and through SELECT text) (texts read as numbers are INSIDE the model since Model/ParseFloat.lean: option.TrimSpace on arbitrary bytes incl. the Unicode White_Space runes, strconv.ParseInt, strconv.ParseFloat with special values, decimal and hexadecimal mantissas, the exponent clamp, underscoreOK, correct rounding to binary64, overflow = NULL; theorems int_text_float_agrees — every text ParseInt accepts as i is accepted by ParseFloat as float64(i), so the integer and the float rung of the ladder agree —, text_profile_int_float, cast_integer_text, cast_float_text; tied by stream op c06.sflt: ToIntegerStrictly / ToFloat / ToInteger / ToBoolean / Ternary of 8000+ spellings per run incl. rounding boundaries, denormals, overflow, hex floats, underscores, Unicode spaces, mutations) (the comparison core of lib/value/comparison.go is TRANSLATED into Lean on every run by extract/cmpfacts — compareInteger, compareFloat, the datetime / boolean / string rungs and the ladder order of CompareCombinedly, the six operators as functions of its result, the dispatch of Compare, Equivalent, the order of Identical — and proved equal to the model: gen_compareInteger_eq, gen_compareFloat_eq, gen_rung*_eq, cmp_eq_gen, gen_ops_eq_model, gen_dispatch, gen_equivalent_shape, gen_identical_ladder) Lean 4 theorems over a model of the comparison ladder, ternary logic, BETWEEN/IN/ANY/ALL/IS/CASE and arithmetic, for all coercion profiles and all lists (incl. the empty set a sub-query can produce: any_empty / all_empty), exactness of the float image of integers and of float +, -, * on integers below 2^53 (float_int_*_agree), casts; model tied to /repo by a differential correspondence run (direct library calls and SELECT text) on every run",
    "design_ref": "DESIGN.md section 5, C06",
    "note": "trusted: Lean kernel (axioms propext, Classical.choice, Quot.sound only), harness + driver, IEEE-754 hardware (FloatOps parameter); strconv.ParseInt / ParseFloat / ParseBool / FormatInt / FormatFloat are model functions (Model/Text, ParseFloat, FormatFloat) whose equality with the Go functions is established by correspondence on every run, not by proof over the Go source; time.Parse enters as the dt? field of text profiles where the model does not compute it; FVal.fin n also has inhabitants that are no binary64 value — the round-trip theorems carry the hypothesis FVal.IsDouble (every value of the stream satisfies it), injectivity and the byte repertoire hold without it",
    "technique": "Lean 4 machine-checked proof over a hand-written model + differential correspondence with the Go implementation",
}


def run(run):
    q = run.tier == "quick"
    run.assumptions += [
        "strings enter the model with the coercion profile the real value.To* functions report (theorems hold for all profiles)",
        "the model's strconv.FormatFloat (FF.fmtF / fmtG / fmtE) and ParseFloat are compared with the Go functions by correspondence (c06.ffmt, c06.sflt) on every run, not derived from the Go source; the round trip is proved for FVal.IsDouble values (all that Go can hold)",
        "float + - * / are a FloatOps parameter in the theorems; the driver's round-to-nearest-even instance is validated against the hardware by stream c06 (arith, prof)",
    ]
    run.regen("cmpfacts", ["go", "run", "-C", "extract/cmpfacts", "."], "Csvq/Gen/CmpFacts.lean")
    run.obligations_for(["Csvq.Props.C06", "Csvq.Props.C06Fmt"])
    run.stream("c06", 4000 if q else 200000)
    if not q:
        for k in range(1, 4):
            run.stream("c06", 100000, seed_offset=k)
    return run.finish(
        level="proof",
        rule="operand pairs/triples/lists drawn from every value class of C06 (int64 bounds, +-0, NaN, +-Inf, subnormals, 2^53+-1, padded/cased numeric, boolean and datetime strings, plain strings, booleans, ternaries, datetimes, NULL), by direct library call and through SELECT text; non-trivial = distinct (stream, operand classes, result) signature",
        trusted_base=BASE_TRUST + ["coercion profiles: results of strconv.ParseInt/ParseFloat/ParseBool and time.Parse are taken from the implementation"],
        checker_cmd="cd /verif/lean && lake build Csvq.Props.C06 Csvq.Props.C06Fmt && lake env lean <#print axioms for every theorem>",
    )
