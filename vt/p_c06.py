from .core import BASE_TRUST

META = {
    "category": "proof",
    "text": "(texts read as numbers are INSIDE the model since Model/ParseFloat.lean: option.TrimSpace on arbitrary bytes incl. the Unicode White_Space runes, strconv.ParseInt, strconv.ParseFloat with special values, decimal and hexadecimal mantissas, the exponent clamp, underscoreOK, correct rounding to binary64, overflow = NULL; theorems int_text_float_agrees — every text ParseInt accepts as i is accepted by ParseFloat as float64(i), so the integer and the float rung of the ladder agree —, text_profile_int_float, cast_integer_text, cast_float_text; tied by stream op c06.sflt: ToIntegerStrictly / ToFloat / ToInteger / ToBoolean / Ternary of 8000+ spellings per run incl. rounding boundaries, denormals, overflow, hex floats, underscores, Unicode spaces, mutations) (the comparison core of lib/value/comparison.go is TRANSLATED into Lean on every run by extract/cmpfacts — compareInteger, compareFloat, the datetime / boolean / string rungs and the ladder order of CompareCombinedly, the six operators as functions of its result, the dispatch of Compare, Equivalent, the order of Identical — and proved equal to the model: gen_compareInteger_eq, gen_compareFloat_eq, gen_rung*_eq, cmp_eq_gen, gen_ops_eq_model, gen_dispatch, gen_equivalent_shape, gen_identical_ladder) Lean 4 theorems over a model of the comparison ladder, ternary logic, BETWEEN/IN/ANY/ALL/IS/CASE and arithmetic, for all coercion profiles and all lists (incl. the empty set a sub-query can produce: any_empty / all_empty), exactness of the float image of integers and of float +, -, * on integers below 2^53 (float_int_*_agree), casts; model tied to /repo by a differential correspondence run (direct library calls and SELECT text) on every run",
    "design_ref": "DESIGN.md section 5, C06",
    "note": "trusted: Lean kernel (axioms propext, Classical.choice, Quot.sound only), harness + driver, Go stdlib conversions (enter as profiles), IEEE-754 hardware (FloatOps parameter)",
    "technique": "Lean 4 machine-checked proof over a hand-written model + differential correspondence with the Go implementation",
}


def run(run):
    q = run.tier == "quick"
    run.assumptions += [
        "strings enter the model with the coercion profile the real value.To* functions report (theorems hold for all profiles)",
        "float + - * / are a FloatOps parameter in the theorems; the driver's round-to-nearest-even instance is validated against the hardware by stream c06 (arith, prof)",
    ]
    run.regen("cmpfacts", ["go", "run", "-C", "extract/cmpfacts", "."], "Csvq/Gen/CmpFacts.lean")
    run.obligations_for(["Csvq.Props.C06"])
    run.stream("c06", 4000 if q else 200000)
    if not q:
        for k in range(1, 4):
            run.stream("c06", 100000, seed_offset=k)
    return run.finish(
        level="proof",
        rule="operand pairs/triples/lists drawn from every value class of C06 (int64 bounds, +-0, NaN, +-Inf, subnormals, 2^53+-1, padded/cased numeric, boolean and datetime strings, plain strings, booleans, ternaries, datetimes, NULL), by direct library call and through SELECT text; non-trivial = distinct (stream, operand classes, result) signature",
        trusted_base=BASE_TRUST + ["coercion profiles: results of strconv.ParseInt/ParseFloat/ParseBool and time.Parse are taken from the implementation"],
        checker_cmd="cd /verif/lean && lake build Csvq.Props.C06 && lake env lean <#print axioms for every theorem>",
    )
