import json, re
from .core import BASE_TRUST, LEAN, Problem

META = {
    "category": "proof",
    "text": "PARTIAL. Lean 4 proof of the access discipline (own-index with disjoint ranges / sole goroutine / common lock / synchronisation object / read-only => no data race in ANY interleaving of ANY fork-join execution, all n, all access lists) and of the partition GoroutineTaskManager.RecordRange as generated from the source on every run (disjoint, tiles [0,len) in order, all len, all n>0; plus the stride and partition index spaces); the access facts of every worker closure of lib/query are regenerated from /repo and checked by `decide` (theorems facts_ok, facts_consistent, manager_fields_locked: consistent per location, NO unguarded access; pre-finding F7 was repaired in /repo by commit bec97d6 and stays watched: a new unguarded access breaks facts_ok and is reported as race:<file>:<function>:<variable>). TRUSTED, not proved: the step 'syntactic class => actual access pattern of the running program' (methods called on shared objects of foreign types are summarised from their source) and the Go memory model; since the interprocedural extension the functions CALLED from the closures are analysed too (call graph of lib/query, lib/value, lib/option resolved with go/types; every access through an object several goroutines can reach, with the locks held in the function, at all its call sites, or handed on by a callee: theorems callee_facts_ok, callee_locks_consistent, no_unguarded_package_state (process-wide caches and pools are sync.Map / sync.Pool / sync.Once / own lock), reachable_set_pinned (ways out of the analysed code and the set of functions that write shared state are pinned)); a known finding pins WHAT is known (Csvq.C13.pinnedUnguarded: location, function, read / write, locks held — a pinned writer that loses its lock, a new writer, a reader that gives up its lock break callee_facts_ok and are reported with their site); the abstraction 'shared or own object' is syntactic and stays trusted; cross-checked on every run by the Go race detector over filter/join/group/order/distinct/analytic/DML/file-load workloads at @@CPU 2..8. Objects that reach two goroutines WITHOUT a closure capturing them are covered by two further fact families checked by `decide` (release facts: no path of lib/query gives a node scope / block scope / merged record / key buffer back to its sync.Pool twice, deferred calls included — theorems pooled_objects_released_at_most_once, scopes_released_exactly_once; header facts: a view that takes another view's header instead of a copy is not written through — shared_headers_not_written, header_write_sites_reviewed) and by laws on the real code in the race workloads (pool probe after every failing statement of a history: objects taken from the scope pools while all are held are pairwise distinct; results of parallel sub-query statements unchanged after a history of failures; evaluating an expression for one record leaves the view's header and records unchanged)",
    "design_ref": "DESIGN.md section 5, C13",
    "note": "trusted: Lean kernel (propext, Classical.choice, Quot.sound only), the extractor extract/parfacts (syntactic, go/types; refuses unknown constructs), the lockset definition of a race in Csvq/Model/ForkJoin.lean as a rendering of the Go memory model for fork-join regions, Go's race detector (finds only races that occur in the executed schedules), 64-bit overflow ignored in RecordRange",
    "technique": "Lean 4 machine-checked proof of a race-freedom discipline + facts regenerated from the Go source (go/ast, go/types) checked by kernel evaluation + dynamic cross-check with `go build -race`",
}

FACT_RE = re.compile(r'⟨"([^"]*)", (\d+), "([^"]*)", (\d+), "([^"]*)", (true|false), \.(r|w), \.(\w+), "([^"]*)", (true|false)⟩')


def parse_facts():
    p = LEAN / "Csvq" / "Gen" / "ParFacts.lean"
    out = []
    if not p.exists():
        return out
    for m in FACT_RE.finditer(p.read_text()):
        out.append({"file": m.group(1), "line": int(m.group(2)), "fn": m.group(3), "region": int(m.group(4)), "var": m.group(5),
                    "elem": m.group(6) == "true", "rw": m.group(7), "cls": m.group(8), "how": m.group(9)})
    return out


def site(f):
    return "race:%s:%s:%s" % (f["file"], f["fn"], f["var"])


def run(run):
    q = run.tier == "quick"
    run.assumptions += [
        "KNOWN FINDING F79 (not repaired): the cursor status readers (Cursor.IsOpen/IsInRange/Count/Pointer, first line of Fetch) read c.view/c.index/c.fetched without c.mtx; re-found statically and by the race detector on every run, accepted only under its own signature",
        "F7 (HasError/Err without the mutex; pos/err shared by the loader goroutines) is fixed in /repo (bec97d6); the sites are still extracted, proved guarded/atomic/sole-goroutine on every run and exercised under the race detector",
        "TRUSTED: an access the extractor classifies ownIndex/guarded/chan/wg/readOnly really has that access pattern at run time (functions CALLED from the worker closures are not analysed, except METHODS called on a shared object: their source (module, dependencies, standard library) is summarised into reads/writes of the receiver's fields, transitively over the type's own methods and one level into the fields' methods; unresolved effects count as writes; package-level variables of lib/query, lib/value and lib/option written by any function (assignment, element assignment, receiver-changing method) need a lock, a sync.Once or a concurrency-safe type, because every function may run on a worker; fields and package-level variables handed to sync/atomic anywhere in lib/query must not be accessed plainly elsewhere (mixed atomic / plain access, the shape of F81); objects a function takes from the context (ctx.Value(key).(*T)) are treated as shared by all workers of the statement, so a write to one needs a lock; a receiver handed on as an argument and local aliases of receiver fields are not followed)",
        "INTERPROCEDURAL (extract/parfacts/interproc.go): the functions of lib/query, lib/value, lib/option the worker bodies reach are found with a call graph resolved by go/types (static calls, methods, interface methods by the implementing types of these packages, function values by signature among the functions and literals whose value is taken); calls into the standard library stop there (packages pinned), other calls out of the three packages and unresolved ones are pinned as opaque (methods by receiver type). Whether an object is shared (reachable from a captured variable of a worker closure, a parameter of a goroutine body, a package-level variable) or the executing goroutine's own (composite literal, make, new, sync.Pool.Get, what a function returns that makes it, a struct value copy) is an inclusion-based abstraction: one abstract object per allocation site / variable version with fields, elements and element 0, flow-sensitive for plain local variables (branches joined, loops to a fixpoint, nil-guarded overwrites `if x.f != nil { x.f = … }` recognised), context-insensitive (the arguments of all call sites of a function are joined; locks held on entry = held at EVERY call site; a lock a function returns holding on its success path is held by the caller after the call). TRUSTED about it: an own object stored into a shared structure is still treated as own afterwards; what a callee stores into the fields of its caller's own object is seen only through results; reflection / unsafe are not followed; conditions are not evaluated (a write under `if 0 < len(alias)` counts whatever the callers pass) — facts that exist only because of the joins are on the reviewed list of Csvq/Props/C13.lean with the reason",
        "KNOWN (finding F110, accepted by Csvq.C13.openLocations): a user-defined function evaluated by parallel workers that executes SOURCE / loads a file (file.Container.m, a plain map: Container.Add / Remove — confirmed by the race detector), ALTER TABLE … SET (FileInfo.*), COMMIT or tables from URLs / STDIN (Transaction.UrlCache, stdinIsLocked) changes state that other workers read without a common lock",
        "TRUSTED: Go memory model; a data race is rendered as: two accesses of different goroutines of one fork-join region, same location, one a write, disjoint locksets, not both operations of a synchronisation object",
        "index space 'partition' (analytic functions): the row numbers a worker draws from its own partitions[...] element belong to that partition (proved: distinct partitions are disjoint, partitions_disjoint)",
        "RecordRange arithmetic is translated over unbounded Int (no 64-bit overflow: every intermediate value is at most recordLen)",
        "the race detector only sees the schedules that occurred in this run",
        "release facts: the releasers are found from the source (sync.Pool.Put and every function that hands its receiver / a parameter on to one); the count of releases per path is syntactic (structured control flow, loops unrolled 4 times, capped at 3; a release inside an expression, a goto, or a releaser called outside lib/query stops the extractor); objects are identified by the text of the released expression, an assignment of anything but nil starts a new object; the value pools of lib/value belong to C14",
        "header facts: 'made anew' is syntactic (make / composite literal / Copy() / a function whose every return is such / a local all of whose definitions are); 'written afterwards' looks at the statements that follow the assignment in the enclosing statement lists of the same function (header-writing callees found transitively over lib/query); a header handed on through a struct field or a return value is not followed",
        "OPEN (reported, off by default, switches C13_UDF_SETFLAG=1 / C13_ALIAS_SPARE=1 of the c13 stream): SET @@flag inside a user-defined function evaluated by parallel workers races with the unlocked reads of Tx.Flags; Header.Copy shares the Aliases backing arrays (a column with three names gets a fourth appended in place by every worker's JSON_OBJECT)",
    ]
    argv = ["go", "run", "-C", "extract/parfacts", "."]
    ok1 = run.regen("parfacts", argv + ["parfacts"], "Csvq/Gen/ParFacts.lean")
    ok2 = run.regen("recordrange", argv + ["recordrange"], "Csvq/Gen/RecordRange.lean")

    facts = parse_facts() if ok1 else []
    # the interprocedural region (callees of the worker bodies): unguarded accesses are accepted at the known / reviewed /
    # open locations listed in Csvq/Props/C13.lean (the lists are read from there: one source), a write only in a pinned function
    callee_region, lists = -1, {}
    pfile = LEAN / "Csvq" / "Gen" / "ParFacts.lean"
    if ok1 and pfile.exists():
        m = re.search(r"def calleeRegion : Nat := (\d+)", pfile.read_text())
        if m:
            callee_region = int(m.group(1))
    props = (LEAN / "Csvq" / "Props" / "C13.lean").read_text()
    for nm in ("f105Locations", "f79Locations", "reviewedLocations", "openLocations"):
        m = re.search(r"def %s : List String := \[(.*?)\]\n" % nm, props, re.S)
        lists[nm] = set(re.findall(r'"((?:[^"\\]|\\.)*)"', m.group(1))) if m else set()
    # WHAT is known there: (location, element?, function, is a write, locks held) of every unguarded write and every
    # unguarded read under some lock (Csvq.C13.pinnedUnguarded; the theorem callee_facts_ok compares the same lists)
    pinned = []
    m = re.search(r"def pinnedUnguarded : List \(String × Bool × String × Bool × String\) := \[(.*?)\]\n", props, re.S)
    if m:
        for g in re.finditer(r'\("([^"]*)", (true|false), "([^"]*)", (true|false), "([^"]*)"\)', m.group(1)):
            pinned.append((g.group(1), g.group(2) == "true", g.group(3), g.group(4) == "true", g.group(5)))
    pinned_set = set(pinned)
    callee_status = {"F105": 0, "F79": 0, "reviewed": 0, "OPEN": 0}
    open_sites = set()
    seen_pins = set()

    def callee_accepted(f):
        if f["region"] != callee_region:
            return False
        st = ("F105" if f["var"] in lists["f105Locations"] else "F79" if f["var"] in lists["f79Locations"] else
              "reviewed" if f["var"] in lists["reviewedLocations"] else "OPEN" if f["var"] in lists["openLocations"] else None)
        if st is None:
            return False
        if f["rw"] == "w" or f["how"] != "":
            key = (f["var"], f["elem"], f["fn"], f["rw"] == "w", f["how"])
            if key not in pinned_set:
                return False     # a new writer, or a pinned access whose locks changed: reported with its site below
            seen_pins.add(key)
        callee_status[st] += 1
        if st == "OPEN":
            open_sites.add("%s in %s" % (f["var"], f["fn"]) if f["rw"] == "w" else f["var"])
        return True

    ung = [f for f in facts if f["cls"] == "unguarded" and not callee_accepted(f)]
    if open_sites:
        # recorded as known finding F110 (same class as F105): reported through the known-findings triage, not printed here
        run.problems.append(Problem(
            "direct", "race:callee:session_state_written_by_statement_in_user_function",
            {"what": "state of the session / transaction / table files changed without a common lock by a statement that a user-defined function executes while parallel workers evaluate it (static callee facts; accepted by Csvq.C13.openLocations)",
             "sites": sorted(open_sites)[:60]}, concrete=False))
    sites = {}
    for f in ung:
        sites.setdefault(site(f), []).append(f)
    for sg in sorted(sites):
        fs = sites[sg]
        detail = {"what": "unsynchronised access to a variable shared between goroutines of one fork-join region (static classification)",
                  "function": fs[0]["fn"], "variable": fs[0]["var"], "file": fs[0]["file"],
                  "accesses": ["%s:%d %s" % (f["file"], f["line"], "write" if f["rw"] == "w" else "read") for f in fs][:12]}
        if fs[0]["region"] == callee_region:
            was = sorted({"%s under [%s]" % ("write" if k[3] else "read", k[4]) for k in pinned if k[0] == fs[0]["var"] and k[2] == fs[0]["fn"]})
            detail["what"] = "access through a shared object in a function the worker bodies reach, without a lock common to every conflicting access (interprocedural facts)"
            detail["locks_held_now"] = sorted({"%s under [%s]" % ("write" if f["rw"] == "w" else "read", f["how"]) for f in fs})
            detail["pinned_for_this_function_and_location"] = was or "nothing (a new unguarded access)"
        run.problems.append(Problem("direct", sg, detail, concrete=False, signature=sg))
    if ok1 and callee_region >= 0:
        for k in pinned:
            if k not in seen_pins:
                sg = "race:callee:%s:%s" % (k[2], k[0])
                if not any(p.signature == sg for p in run.problems):
                    run.problems.append(Problem("direct", sg, {
                        "what": "an access pinned in Csvq.C13.pinnedUnguarded is no longer there in this form (the function holds other locks now, or does not touch the location any more): the pinned list describes what is known and has to be reviewed",
                        "pinned": "%s of %s%s in %s under [%s]" % ("write" if k[3] else "read", k[0], "[]" if k[1] else "", k[2], k[4])}, concrete=False, signature=sg))

    # Copy-style methods that keep a map / slice / pointer of the original (see Csvq.C13.copies_share_nothing)
    allowed_shared = {"copyshare:view.go:View.Copy:FileInfo"}
    copy_shared = []
    pf = LEAN / "Csvq" / "Gen" / "ParFacts.lean"
    if ok1 and pf.exists():
        _, _, tail = pf.read_text().partition("def copyFacts")
        for m in re.finditer(r'⟨"([^"]*)", (\d+), "([^"]*)", "([^"]*)", (true|false), "((?:[^"\\]|\\.)*)"⟩', tail):
            sg = "copyshare:%s:%s:%s" % (m.group(1), m.group(3), m.group(4))
            if m.group(5) == "false" and sg not in allowed_shared:
                copy_shared.append(sg)
                run.problems.append(Problem("direct", sg, {"what": "a Copy-style method leaves a reference-typed field of the copy pointing at the original's data: objects meant to be private to one goroutine share it",
                                                           "where": "%s:%s" % (m.group(1), m.group(2)), "how": m.group(6)}, concrete=False, signature=sg))

    # Release facts (every object given back to a sync.Pool) and header facts (per-record views that take the outer
    # header), see Csvq.C13.pooled_objects_released_at_most_once / shared_headers_not_written
    allowed_leaks = {"releaseleak:inline_tables.go:InlineTableMap.Set:scope", "releaseleak:calc.go:Calc:scope.CreateNode()"}
    scope_releasers = {"ReferenceScope.CloseCurrentNode", "ReferenceScope.CloseCurrentBlock", "Processor.Close", "PutNodeScope", "PutBlockScope",
                       "PutComparisonkeysBuf", "never released (left to the garbage collector)"}
    reviewed_header_writes = {
        "headerwrite:Header.Update:h:View", "headerwrite:Header.Update:h:Column", "headerwrite:Header.Update:h:Aliases",
        "headerwrite:joinViews:view.Header:View", "headerwrite:joinViews:view.Header:Number", "headerwrite:joinViews:view.Header:IsJoinColumn",
        "headerwrite:RenameColumn:view.Header:Column", "headerwrite:View.group:view.Header:IsGroupKey", "headerwrite:View.evalColumn:view.Header:Aliases"}
    double_release, release_leaks, header_shared, header_writes, n_release, n_hshare, n_hwrite = [], [], [], [], 0, 0, 0
    if ok1 and pf.exists():
        txt = pf.read_text()
        S = r'"((?:[^"\\]|\\.)*)"'
        _, _, tail = txt.partition("def releaseFacts")
        tail = tail.partition("def headerShareFacts")[0]
        for m in re.finditer(r'⟨%s, (\d+), %s, %s, %s, (\d+), (\d+), (\d+), (\d+)⟩' % (S, S, S, S), tail):
            n_release += 1
            file, line, fn, key, via = m.group(1), m.group(2), m.group(3), m.group(4), m.group(5)
            nsites, defers, lo, hi = (int(m.group(i)) for i in (6, 7, 8, 9))
            if hi > 1:
                sg = "doublerelease:%s:%s:%s" % (file, fn, key)
                double_release.append(sg)
                run.problems.append(Problem("direct", sg, {
                    "what": "a pooled object is given back to its sync.Pool more than once on some path through the function (the pool then hands it to two goroutines that both believe it is theirs)",
                    "where": "%s:%s" % (file, line), "function": fn, "object": key, "released_through": via, "release_sites": nsites, "deferred_among_them": defers,
                    "releases_on_a_path": "%d … %d" % (lo, hi),
                    "failing_input": "see the laws pool_hands_out_distinct_scopes / parallel_result_after_failures of the race workloads (a history of failing statements, then the probe)"},
                    concrete=False, signature=sg))
            elif via in scope_releasers and lo != 1:
                sg = "releaseleak:%s:%s:%s" % (file, fn, key)
                if sg not in allowed_leaks:
                    release_leaks.append(sg)
                    run.problems.append(Problem("direct", sg, {"what": "a scope / buffer taken from a pool is not given back on some path (not a race: the object is lost to the pool; reviewed list in Csvq.C13.allowedLeaks)",
                                                               "where": "%s:%s" % (file, line), "function": fn, "object": key}, concrete=False, signature=sg))
        _, _, tail = txt.partition("def headerShareFacts")
        tail = tail.partition("def headerWriteFacts")[0]
        for m in re.finditer(r'⟨%s, (\d+), %s, %s, %s, (true|false), (true|false), %s⟩' % (S, S, S, S, S), tail):
            n_hshare += 1
            if m.group(6) == "false" and m.group(7) == "true":
                sg = "headershare:%s:%s:%s" % (m.group(1), m.group(3), m.group(4))
                header_shared.append(sg)
                run.problems.append(Problem("direct", sg, {
                    "what": "a view built inside a function takes the header of another view (no copy) and the function then writes header fields through it: every goroutine that evaluates a record of the outer view writes the one shared header",
                    "where": "%s:%s" % (m.group(1), m.group(2)), "function": m.group(3), "header_taken_from": m.group(5), "then": m.group(8),
                    "failing_input": "see the laws record_evaluation_leaves_view_unchanged / inner_names_stay_inside and the race reports of the record-view workloads"},
                    concrete=False, signature=sg))
        _, _, tail = txt.partition("def headerWriteFacts")
        for m in re.finditer(r'⟨%s, (\d+), %s, %s, %s, (true|false)⟩' % (S, S, S, S), tail):
            n_hwrite += 1
            sg = "headerwrite:%s:%s:%s" % (m.group(3), m.group(4), m.group(5))
            if m.group(6) == "false" and sg not in reviewed_header_writes:
                header_writes.append(sg)
                run.problems.append(Problem("direct", sg, {"what": "a statement writes a field of an element of a header its function did not make (not in the reviewed list Csvq.C13.reviewedHeaderWrites): is the header reachable from several goroutines?",
                                                           "where": "%s:%s" % (m.group(1), m.group(2))}, concrete=False, signature=sg))

    go_writes = []
    if ok1 and pf.exists():
        m = re.search(r"def outsideGoWrites : List \(String × String × String\) := \[(.*?)\]\n", pf.read_text(), re.S)
        if m:
            for g in re.finditer(r'\("([^"]*)", "([^"]*)", "([^"]*)"\)', m.group(1)):
                sg = "gowrite:%s:%s:%s" % g.groups()
                go_writes.append(sg)
                run.problems.append(Problem("direct", sg, {"what": "a goroutine literal outside lib/query assigns a variable of the function around it: written by the goroutine, read by its parent, nothing orders the two (results are to be handed over through a channel)",
                                                           "file": g.group(1), "function": g.group(2), "variable": g.group(3)}, concrete=False, signature=sg))

    if ok1 and ok2:
        run.obligations_for(["Csvq.Props.C13"])

    before = len(run.problems)
    stats = run.stream("c13", 48 if q else 1500, race=True, timeout=1500)
    # tie the race reports to the static classification: a report one of whose two accesses is at a
    # line the facts call `unguarded` confirms that site (same signature); any other report means the
    # classification (or an unanalysed callee) is wrong and keeps its own signature law:race:<frames>
    by_line = {}      # (file, line) of an unguarded fact -> [(region, site)]
    regions_at = {}   # (file, line) of any fact -> regions
    for f in facts:
        regions_at.setdefault((f["file"], f["line"]), set()).add(f["region"])
        if f["cls"] == "unguarded" and f["region"] != callee_region:
            # (race reports in the callees keep their own signature law:race:<frames>: the known findings are recorded under it)
            by_line.setdefault((f["file"], f["line"]), []).append((f["region"], site(f)))
    confirmed, unexplained = set(), 0
    for p in run.problems[before:]:
        if p.kind == "law" and p.name.startswith("race:") and isinstance(p.detail, dict):
            case = p.detail.get("case")
            frames = case.get("frames", []) if isinstance(case, dict) else []
            keys = [(fr.get("file"), fr.get("line")) for fr in frames]
            hits = []
            for k in keys:
                for region, sg in by_line.get(k, []):
                    # the report confirms a static site only if BOTH accesses are accesses of that site's region
                    if all(region in regions_at.get(k2, set()) for k2 in keys):
                        hits.append(sg)
            hits = sorted(set(hits))
            if hits:
                p.signature = hits[0]
                p.name = hits[0] + " (race detector report)"
                confirmed.add(hits[0])
            else:
                unexplained += 1
                p.detail["note"] = "race report at accesses the static facts classify as safe (or inside an unanalysed callee)"
    for p in run.problems:
        if p.kind == "direct" and isinstance(p.detail, dict) and p.signature.startswith("race:"):
            p.detail["confirmed_by_race_detector"] = p.signature in confirmed

    if stats is not None:
        run.cov["evaluations"] = max(run.cov["evaluations"], stats.get("evaluations", 0))
    dist = {}
    for f in facts:
        dist[f["cls"]] = dist.get(f["cls"], 0) + 1
    extra = {
        "access_facts": len(facts), "access_fact_classes": dist, "fork_join_regions": len({f["region"] for f in facts}),
        "unguarded_sites_static": sorted(sites), "unguarded_sites_confirmed_by_race_detector": sorted(confirmed),
        "race_reports_outside_unguarded_sites": unexplained, "copy_methods_sharing_state": copy_shared,
        "callee_facts": len([f for f in facts if f["region"] == callee_region]), "callee_unguarded_accepted_by_status": callee_status,
        "callee_open_sites": sorted(open_sites),
        "goroutine_literals_outside_query_assigning_captured_variables": go_writes,
        "release_facts": n_release, "double_releases_static": double_release, "release_leaks_not_reviewed": release_leaks,
        "header_share_facts": n_hshare, "shared_headers_written_static": header_shared, "header_write_facts": n_hwrite, "header_writes_not_reviewed": header_writes,
    }
    if facts:
        run.cov["samples"] = ["fact %s:%d %s %s%s %s -> %s (%s)" % (f["file"], f["line"], f["fn"], f["var"], "[]" if f["elem"] else "", f["rw"], f["cls"], f["how"])
                              for f in facts[:: max(1, len(facts) // 5)]][:5] + run.cov["samples"]
    return run.finish(
        level="proof",
        rule="static: every access to a shared variable in every fork-join region of lib/query (closures passed to GoroutineTaskManager.Run / EvaluateSequentially, bodies started with go, the parent between fork and join, methods of the manager types), classified and checked by kernel evaluation; dynamic: a load matrix first (CSV, TSV, fixed-length, LTSV, JSONL, JSON; from a file and from stdin; with and without header; row counts 159/161/299/301/650 in the quick tier and 1..2500 around 80, 160, 300, 320, 600, 640 in the thorough tier, on both sides of the 300-record loader buffer and of the 80-rows-per-worker threshold; @@CPU 1, 2, 4, 8), then correlated sub-queries (EXISTS, IN, scalar, NOT EXISTS under GROUP BY) with 10-12 distinct outer-column references over an outer table below and above the per-worker split size, then loads that fail in the middle of a file (surplus field, broken quote, LTSV line without separator, broken / non-object JSON line; at record 2, 350, 690 of 700; file and stdin) and loads cancelled after 50 µs … 8 ms, then inline tables (JSON_INLINE, CSV_INLINE) inside per-record sub-queries and set operations inside a sub-query of a recursive term (F80, F81, both fixed), then the function grid (every built-in scalar function of the Functions map evaluated per record over 700 rows, one type vector per first-argument type, in batches of 8 at @@CPU 2/4/8, plus value-dependent FORMAT / REGEXP / DATETIME / NUMBER_FORMAT calls) and STDIN touched for the first time inside a per-record sub-query (IN, EXISTS, scalar, LATERAL, ORDER BY), then ALTER TABLE ADD with columns without DEFAULT, with sub-query defaults and in every position on a 700-row table, then histories (every clause of a SELECT — WITH, select list, FROM, derived table, join condition, WHERE, GROUP BY, HAVING, ORDER BY, LIMIT, LIMIT PERCENT, OFFSET with and without LIMIT / WITH — made to fail by a missing field, a wrong argument count, a sub-query with too many rows or a user-defined function that raises, the failing SELECT standing as a statement, in WHERE IN / EXISTS / select list / ORDER BY of a parallel outer query, as derived table, LATERAL, set-operation operand, cursor query, INSERT … SELECT, UPDATE WHERE / SET, DELETE, CREATE TABLE AS, inside a function body, an IF block, a WHILE block and SELECT INTO: quick 56 of the 252 combinations, every clause and every position, thorough all; pass 1 at @@CPU 1 with the pool probe after every failing statement, pass 2 at @@CPU 4 (thorough 4, 2, 8) all failing statements, then five parallel statements with aliased sub-queries, joins and WITH per record whose output is compared with the output before the history), then per-record view builders (JSON_OBJECT with no members, *, table.*, plain columns, plain columns renamed, renamed to the same name, column numbers, * plus a renamed column, computed members, a sub-query member, a user-function member, nested JSON_OBJECT; correlated scalar / EXISTS / IN sub-queries, nested user-function calls, CASE over JSON_OBJECT, NOW / RAND) in the select list and WHERE of a 330-row (thorough 700) table for every expression and in ORDER BY / GROUP BY / HAVING / join condition / aggregate argument / analytic argument / UPDATE SET / INSERT … SELECT rotating (thorough: every clause, @@CPU 2, 4, 8), with the deterministic laws record_evaluation_leaves_view_unchanged and inner_names_stay_inside, then user-defined functions that change state per record (own variables, session variables, own temporary tables, cursors, nested functions, environment variables, blocks, recursion) in WHERE / select list / ORDER BY / GROUP BY / a sub-query, then state of the transaction that is not per query (an HTTP server on the loopback interface inside the workload process serves remote tables: a not-yet-cached URL table in EXISTS / IN / scalar / LATERAL / ORDER BY sub-queries evaluated per record by 2-8 workers, one to three distinct URLs per statement, CSV and JSON, with the law remote_table_requested_once; and a user-defined function that INSERTs / UPDATEs / REPLACEs / DELETEs one of twelve tables chosen by its argument, called per record from WHERE / select list / ORDER BY of a 172-row table while the other workers read @#UNCOMMITTED / @#CREATED / @#UPDATED / @#UPDATED_VIEWS / @#LOADED_TABLES, with the law changed_tables_registered_once), then RAND / NOW / JSON_OBJECT, a user-defined function that FETCHes an outer cursor called from a parallel WHERE / select list next to CURSOR … IS OPEN / IS IN RANGE / COUNT (known finding F79), list aggregates WITHIN GROUP ordered by expressions over derived tables with many groups, prepared statements executed USING literals, variables, arithmetic and sub-queries (positional and named placeholders, GROUP BY/HAVING, UPDATE, cursors declared for prepared statements), then statements of 47 kinds (6 file formats, filters, 7 join forms, GROUP BY/HAVING, ORDER BY, DISTINCT, set operators, 4 analytic families, recursive CTE, DML, cursor, 6 failing statements) on tables of 200-3000 rows with @@CPU drawn from 2..8 under the race detector; non-trivial = distinct (statement kind, @@CPU, row band, error code)",
        trusted_base=BASE_TRUST + [
            "extract/parfacts: syntactic access classification (go/ast + go/types), refuses constructs without a rule; callees of the worker closures through a go/types call graph and an inclusion-based shared/own abstraction (context-insensitive); method summaries are syntactic; release facts (paths counted over structured control flow) and header facts (syntactic freshness, statements following in the same function)",
            "the Go memory model, rendered as the lockset race definition of Csvq/Model/ForkJoin.lean",
            "the Go race detector (dynamic cross-check; sees only the schedules that occurred)"],
        checker_cmd="cd /verif && go run -C extract/parfacts . parfacts > lean/Csvq/Gen/ParFacts.lean && go run -C extract/parfacts . recordrange > lean/Csvq/Gen/RecordRange.lean && cd lean && lake build Csvq.Props.C13 && lake env lean <#print axioms for every theorem>; cd /verif/harness && CGO_ENABLED=1 go build -race -tags verif ./cmd/c13",
        extra_cov=extra,
    )
