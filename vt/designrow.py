"""Insert a table row into DESIGN.md section 11.9's table of new model code (before the marker line):
   python3 -m vt.designrow < row.txt"""
import sys
from pathlib import Path
p = Path(__file__).resolve().parent.parent / "DESIGN.md"
s = p.read_text()
marker = "\n\n(Rows for "
i = s.index(marker, s.index("### 11.9"))
row = sys.stdin.read().strip()
p.write_text(s[:i] + "\n" + row + s[i:])
print("inserted", len(row))
