"""Prepare a seeding wave: for each property id write <dir>/<id>-out/{prompt.txt,property.txt} and create the scratch
   worktree <dir>/<id> (a detached checkout of /repo HEAD).  The prompt carries ONLY the property text and one-line
   summaries of the changes adopted so far (so that the next ones differ) — nothing from /verif's machinery.
   python3 -m vt.seedprompt <dir> <first-number> <id> [<id>...]"""
import json, subprocess, sys
from pathlib import Path

VERIF = Path(__file__).resolve().parent.parent

TEMPLATE = """You are helping to test a verification tool by writing a realistic faulty change ("seeded defect") for the Go program csvq (an SQL-like language over CSV/TSV/LTSV/fixed-width/JSON files). Work ONLY inside the scratch git worktree {wt} (a checkout of csvq) and the output directory {out}. Do NOT read or use anything under /verif and do not touch /repo.

The property to break is in {out}/property.txt — read it first, then read the code it is anchored in.

Task: produce TWO different, independent changes to csvq's non-test Go source ({a} and {b}), each of which
  * BREAKS the property (the behaviour the statement promises no longer holds for some input / schedule / crash point / history),
  * still COMPILES and still PASSES the existing test suite unedited:  cd {wt} && export GOFLAGS=-mod=mod GOPROXY=off GOSUMDB=off GOTOOLCHAIN=local && go build ./... && go test -vet=off -count=1 ./...   (takes ~10 s; there is no network),
  * is REALISTIC (looks like a plausible refactoring slip, optimisation, off-by-one, wrong guard, missing case, reordered steps — a few lines, not sabotage with magic constants), and
  * needs SOMETHING SPECIFIC to manifest — a particular interleaving, a crash or fault at a particular point, a multi-step sequence of operations, an unusual input (boundary value, special character, table size above a threshold, particular type mix), or two cooperating sites that each look fine alone — NOT something that ordinary use or the first smoke test would expose at once.
For each change also write a DEMONSTRATION that fails with the change and passes without it: either a Go test file (to be dropped into the named package directory, using only exported or package-internal API as appropriate) or a shell script that builds csvq and runs it on small input files — self-contained, deterministic, finishing in seconds, printing PASS/FAIL and exiting 0/1.

Procedure for each of {a}, {b}: start from a clean tree (`git -C {wt} checkout -- . && git -C {wt} clean -fdq`), make the change, run build + full tests (must pass), save `git diff` as {out}/mK/patch.diff, save the demonstration as {out}/mK/demo_test.go or demo.sh (state in meta.json where it has to be placed / how to run it), run the demonstration WITH the change (must fail) and, after reverting the change, WITHOUT it (must pass), and write {out}/mK/meta.json: {{"property": "{pid}", "summary": one sentence, "what_it_needs_to_manifest": …, "files_changed": […], "demo": how to run, "verified": {{"build": true, "tests_pass_with_change": true, "demo_fails_with_change": true, "demo_passes_without_change": true}}}}. Leave the worktree clean at the end. Keep the two changes in different functions/mechanisms if possible. Final answer: a short description of {a} and {b}.


Name the two output directories {a} and {b} (not m1/m2).

Other people have ALREADY produced the following changes for this property; yours must be DIFFERENT in mechanism and location (another function, another feature or clause of the property statement, another kind of slip):
{earlier}

Prefer clauses of the property statement, code paths, statement kinds, option settings and data shapes that the list above does not touch — read the WHOLE statement and quantifier again, list for yourself every clause and every code path that implements it (including helper packages, option handling, rarely used statement forms, table kinds such as STDIN / temporary tables / inline tables / JSON tables, formats other than CSV), and pick something nobody has tried. Subtle is better than loud: a change whose effect needs two or three conditions to coincide. Every shell call that uses go needs: export GOFLAGS=-mod=mod GOPROXY=off GOSUMDB=off GOTOOLCHAIN=local ; when running `go test` use a private temp dir (TMPDIR=$(mktemp -d)) because other test runs on this machine share the default one (and remove it afterwards). Demonstration shell scripts must be POSIX sh (they are run with `sh`), take the source tree as optional first argument, and build csvq into a private temp dir.{extra}
"""

EXTRA = {
    "C19": "\n\nIf, while exploring, you find an input on the UNMODIFIED tree that ends in a Fatal Error, panic or hang, write its reproducer into {out}/baseline_crashes.txt (one per line) — that is a separate, welcome result.",
    "C13": "\n\nIf, while exploring with `go build -race`, you find a data race on the UNMODIFIED tree, write the reproducer and the first frames of the report into {out}/baseline_races.txt — that is a separate, welcome result.",
}


def main():
    base, first, pids = Path(sys.argv[1]), int(sys.argv[2]), sys.argv[3:]
    props = {json.loads(l)["id"]: json.loads(l) for l in (VERIF / "properties.jsonl").read_text().splitlines() if l.strip()}
    base.mkdir(parents=True, exist_ok=True)
    for pid in pids:
        out, wt = base / (pid + "-out"), base / pid
        out.mkdir(exist_ok=True)
        (out / "property.txt").write_text(json.dumps(props[pid], indent=1, ensure_ascii=False) + "\n")
        earlier = []
        for d in sorted((VERIF / "seeded").glob(pid + "-*")):
            try:
                earlier.append(" - " + json.loads((d / "meta.json").read_text()).get("summary", "")[:300])
            except Exception:
                pass
        a, b = "m%d" % first, "m%d" % (first + 1)
        (out / "prompt.txt").write_text(TEMPLATE.format(wt=wt, out=out, a=a, b=b, pid=pid, earlier="\n".join(earlier) or " (none yet)",
                                                        extra=EXTRA.get(pid, "").format(out=out)))
        if not wt.exists():
            subprocess.run(["git", "-C", "/repo", "worktree", "add", "-q", "--detach", str(wt), "HEAD"], check=True)
        print(pid, "->", out / "prompt.txt", "(%d earlier)" % len(earlier))


if __name__ == "__main__":
    main()
