"""Per-property check definitions."""
from .core import Run, BASE_TRUST

Q = "quick"


def n_for(run, quick, thorough):
    return quick if run.tier == Q else thorough


def c06(run):
    run.assumptions += [
        "strings enter the model with the coercion profile the real value.To* functions report (theorems hold for all profiles)",
        "float + - * / are a FloatOps parameter in the theorems; the driver's round-to-nearest-even instance is validated against the hardware by stream c06 (arith, prof)",
    ]
    run.obligations_for(["Csvq.Props.C06"])
    run.stream("c06", n_for(run, 4000, 200000))
    if run.tier != Q:
        for k in range(1, 4):
            run.stream("c06", 100000, seed_offset=k)
    return run.finish(
        level="proof",
        rule="operand pairs/triples/lists drawn from every value class of C06 (int64 bounds, ±0, NaN, ±Inf, subnormals, 2^53±1, padded/cased numeric, boolean and datetime strings, plain strings, booleans, ternaries, datetimes, NULL), by direct library call and through SELECT text; non-trivial = distinct (stream, operand classes, result) signature",
        trusted_base=BASE_TRUST + ["coercion profiles: results of strconv.ParseInt/ParseFloat/ParseBool and time.Parse are taken from the implementation"],
        checker_cmd="cd /verif/lean && lake build Csvq.Props.C06 && lake env lean <#print axioms for every theorem>",
    )


PROPS = {
    "C06": c06,
}
