"""Per-property check definitions are modules vt/p_cXX.py, each exporting run(run) and META."""
import importlib


def load(pid):
    return importlib.import_module("vt.p_" + pid.lower())
