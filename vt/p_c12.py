import re

from .core import BASE_TRUST, LEAN, Problem

META = {
    "category": "proof",
    "text": "Lean 4 theorems: each parallel shape of lib/query (slot-wise Run callbacks, per-worker lists concatenated in worker order for filter/join, per-worker key maps merged for GROUP BY) equals a sequential specification for EVERY cutting of the record range into contiguous chunks, hence is independent of --cpu and of the schedule; the real cutting function RecordRange is regenerated from the source and proved to tile [0,len) in order (C13's recordRange_tiles); the slot bookkeeping that decides the worker number (AssignRoutineNumber, Release, Done, NewGoroutineTaskManager's literal, Flags.SetCPU) is regenerated too and proved: 1 <= n <= --cpu in every reachable state, shared count = sum of outstanding slots over every history (never negative, nothing leaks), single worker below the threshold, and end to end the assigned workers' ranges tile [0,len) (assigned_ranges_tile). Tied to /repo by (a) the regenerated definitions + a model/impl comparison of worker numbers, ranges, slot histories (new/done sequences) and SetCPU, (b) a direct law check on the implementation: the same program run at --cpu 1,2,3,4,8,16, twice each, on tables of 80k-1/80k/80k+1 rows must give identical result rows, order and written file bytes (22+ query shapes incl. joins driven by the short and by the long table, multi-analytic queries, user-defined aggregates / functions; 6 DML programs); (c) the clause pipeline over a formula table of 20-40k rows (every stage cut: WHERE, GROUP BY, HAVING, DISTINCT, ORDER BY, OFFSET, LIMIT rows / PERCENT / WITH TIES / FETCH, alone, combined and through derived tables) at every --cpu value twice against BOTH Model/Pipeline.runImpl (op c12.pipe: the driver rebuilds the table from four numbers and runs the same stage list under cuts of its own) and the slices the harness takes from the table itself (law stage_result_differs_from_table_slice); (d) session flags whose handling keeps state or caches (--datetime-format lists incl. mutually ambiguous formats, --timezone, --strict-equal, --ansi-quotes, --without-null, @@ flags SET / ADDed / REMOVEd between the statements) over a table of dates in many spellings: value.StrToTime under a format list against Model/ParseTimeUser (op c12.strtotime: formats in the given order, first match wins, then the built-in spellings), every program at every --cpu value twice, and law value_depends_on_other_rows - every row of a row-wise select list has the value the same program gives a table of that row ALONE in a fresh session (single rows taken in two orders: value_depends_on_history), GROUP BY over a converted key agrees with the grouping made from the single-row keys - a reference that does not depend on the evaluation order, valid at --cpu 1 too; (e) THE STEP FROM THE GO CLOSURES TO THE SHAPES IS REGENERATED AND AN OBLIGATION (extract/shapefacts, go/ast + go/types, fails closed): every fan-out of lib/query to goroutines (GoroutineTaskManager.Run callbacks, EvaluateSequentially callbacks, `go f(i)` closures, the two drivers, the producer / consumer pairs of the loaders; any other `go` statement makes the extractor fail) and, for every variable a worker shares and WRITES, the class of the write (slot = indexed by the own record index, slotAffine / slotVia, perWorker = indexed by the worker number, singleWriter, role, chan, guardedAppend / Assign / MapInsert / Count under a mutex, atomic, pool, syncMap, extCall, other; local aliases, methods that write through their receiver and captured closures are followed), how the per-worker pieces are used after the join, reads of a slot-written variable at a foreign index, the text of MergeRecordSetList and of the two driver loops, every range over a map in lib/query, which scope constructor every worker calls and where those constructors take the records of the new scope from (with C08's extract/copyfacts: gen_worker_scopes_have_own_caches - the FieldIndexCache of a worker's scope is a copy whose map and both slices are newly made). Model/Shapes gives each class its meaning over ANY scheduler interleaving; Props/C12Shapes proves every meaning but the ordered one independent of the schedule and of the cut (by reduction to the shape theorems), proves that a list appended to under a mutex IS the schedule, and kernel-evaluates gen_worker_shapes_ok over the regenerated facts with a reviewed, pinned exception table (13 entries, each with the reason why the order cannot reach a result): a NEW guarded append / map insert / atomic / pool / sync.Map, a write at a foreign index, a new map range, a changed merge or driver loop is a broken obligation whose replay names the fact and its source position; (f) STATE SHARED WITHOUT BEING CAPTURED: the same extractor takes a census of every write (assignment, ++/--, atomic add / store, map insert, delete, append, sync.Map / atomic.Value store) to a field of query.Transaction, query.Session, option.Flags and to package-level variables of lib/query, lib/value, lib/option, with the enclosing function and whether a worker body can reach it (static call graph over the three packages: direct calls, interface methods by name and arity, function values by signature); Props/C12Session gives a limit-checked counter its meaning over the traces (shared_counter_limit_depends_on_schedule: one session-wide counter reset at the start of each recursion, two workers of depth d, d <= L < 2d - sequentially they pass, started together they fail; per_evaluation_counter_indep_of_schedule / _is_own_depth: a counter allocated per evaluation compares the worker's OWN depth with the limit under every schedule) and kernel-evaluates gen_no_session_counter_written_by_workers (no reachable counter, the three reviewed constant stores) and gen_session_writes_of_workers_are_the_reviewed_ones (51 reachable writes pinned: statement-only / once / flag); dynamic: per-record sub-queries containing WITH RECURSIVE of depth 3-8 under --limit-recursion just above the depth at every --cpu value twice (law cpu_dependent_output); (g) OBJECTS WITH HIDDEN STATE REACHED THROUGH SESSION-WIDE STATE (extract/shapefacts/stateful.go): census of every use - call of a state-changing method, or passing the object to a function - of a value of a reviewed list of stateful library types (os.File, bufio Reader / Scanner / Writer, the csv / fixedlen / ltsv / json readers and writers of go-text, encoding/csv, encoding/json, hash.Hash, rand.Rand, strings.Builder / Reader, bytes.Buffer / Reader, x/text transformers / cases.Caser / encoders, time.Timer) that derives from a Transaction / Session / Flags / file.Container / ViewMap or a package-level variable (followed through local variables; objects only made by New* / Create* / Open* in the same function are not shared), with the mutexes held at that point (Lock / Unlock / defer Unlock in source order, an Unlock inside a branch counts from there on) and reachability from a worker body; Model/SharedCursor gives one handle its meaning over the traces (shared_file_position_depends_on_schedule: two workers that seek and read twice - under one schedule worker 0 reads the file, under another the first element twice; locked_use_is_sequential: a use nobody interrupts reads what a handle of its own gives, whatever happened before and after) and Props/C12Stateful kernel-evaluates gen_shared_stateful_objects_used_under_lock (every reachable use holds a mutex, the loader's uses all hold Transaction.viewLoadingMutex, the 6 reachable uses are the reviewed ones); dynamic: a file held open by the transaction (SELECT ... FOR UPDATE / an UPDATE matching nothing) of 12-16 KB read as CSV_INLINE / JSON_INLINE / INLINE:: inside per-record scalar / EXISTS sub-queries and LATERAL joins over 400-560 outer rows at --cpu 1, 2, 4, 8 twice each (law cpu_dependent_output, error number compared, message reported)",
    "design_ref": "DESIGN.md section 5, C12",
    "note": "a WHOLE query: Model/Pipeline.lean composes the shapes into the clause pipeline of a SELECT (WHERE, GROUP BY, HAVING, select list, ORDER BY, OFFSET, LIMIT, Fix) with an arbitrary cut at every stage; Props/C12Pipe: pipeline_eq_spec / pipeline_indep_of_cuts (any two runs, whatever cuts each stage got, return the same rows in the same order), the stage order and the primitive under every View method regenerated from query.go / view.go (extract/pipefacts: gen_clause_order, gen_stage_shapes); OFFSET / LIMIT as concrete stages (offsetStage, limitStage, limitPercentStage, limitTiesStage; pipeline_offset_limit_spec: = ((rows.filter p).drop n).take k under every cut) and the in-place move of View.Offset as a write schedule (Model/Shift: shift_sequential_spec - one worker in ascending order leaves exactly drop n; shift_two_workers_counterexample - an interleaving of two chunks loses a row, which is why gen_offset_shift_is_ascending_loop pins the regenerated loop). Props/C12Time: value.StrToTime with the process-wide format cache threaded through as state (Model/ParseTimeUser) returns what the cache-free function returns for every reachable cache (strToTime_state_indep), so a column is a map (column_is_map), a row's value does not depend on the rows around it nor on what was converted before (row_value_indep_of_other_rows, column_order_irrelevant), the first fitting format wins (first_fitting_format_wins); the loop over the formats, the package-level state StrToTime touches and the fields / Get of the cache are regenerated from lib/value/conv.go (extract/timefacts: gen_user_format_loop, gen_strtotime_state, gen_format_cache_is_memo). trusted: Lean kernel; harness; the Go scheduler itself is outside the model, which is why the chunking/schedule is universally quantified in the theorems rather than sampled; Props/C12Shapes (worker shapes as an obligation): Interleave = every trace a scheduler can produce from the workers' index lists; slot_indep_of_cut, run_fills_slots (n workers over the real RecordRange under any schedule fill exactly slots 0..len-1), pieces_are_chunks / pieces_indep_of_cut with filter_ / join_ / group_pieces_indep (reduction to filter_chunks_indep, join_chunks_indep, group_indep_of_cut), accum_indep_of_cut (+ counter / flag set / single writer commute), error_flag_indep_of_cut and first_error_value_depends_on_schedule, role_indep_of_schedule, sorted_append_indep_of_cut, guarded_append_depends_on_schedule, fanout_schedule_independent (a fan-out all of whose facts are of independent kinds has the same shared state after the join for every schedule and every cut), gen_worker_shapes_ok, gen_reviewed_exceptions_exact, gen_pieces_combined_in_worker_order, gen_no_cross_reads, gen_worker_scopes_have_own_caches, gen_driver_loops, gen_workers_loop_over_own_range, gen_merge_record_set_list + merge_model_is_flatten, gen_map_ranges_are_the_reviewed_ones. Props/C12Session: per_evaluation_counter_eq_seq, per_evaluation_counter_indep_of_schedule, per_evaluation_counter_is_own_depth, shared_counter_limit_depends_on_schedule, gen_no_session_counter_written_by_workers, gen_session_writes_of_workers_are_the_reviewed_ones, reviewed_session_classes. Props/C12Stateful: locked_use_is_sequential, shared_file_position_depends_on_schedule, gen_shared_stateful_objects_used_under_lock. still by reading: the list of stateful types and of creator names in stateful.go, values that reach a stateful object through a plain function result or a struct field of a non-session type (not followed), that a callee handed the object uses it only during the call, the call graph's treatment of function values and interface methods (over-approximated by signature / name), writes made through methods of the field's own type (ViewMap, the datetime-format cache: C13 / timefacts), that a statement of a given class behaves as the class's meaning says (one assignment at a time, no longer a whole closure), the 13 reviewed reasons, that the VALUE a worker computes is a function of its own index (writes made inside callees such as Evaluate are C13's interprocedural facts and the multi---cpu runs), the extractor itself",
    "technique": "Lean 4 machine-checked proof (chunk-independence / refinement to a sequential spec) + regenerated RecordRange and slot bookkeeping + worker-shape facts regenerated from the closures of lib/query and kernel-evaluated against a pinned exception table + multi---cpu differential runs of the real implementation",
}


ALWAYS_ORDERED = {"syncMap", "extCall", "other", "noOwnLoop"}
NEEDS_REVIEW = {"slotAffine", "slotVia", "guardedAppend", "guardedAssign", "guardedMapInsert", "atomic", "pool"}


def _tuples(text, name):
    m = re.search(r"^def %s :[^\n]*:= \[\n(.*?)^\]" % name, text, re.S | re.M)
    return [tuple(re.findall(r'"((?:[^"\\]|\\.)*)"', ln)) for ln in (m.group(1).splitlines() if m else []) if ln.strip().startswith("(")]


def explain_shapes(run):
    """when one of the shape obligations of Props/C12Shapes is broken: name the fact that no longer checks, with its
    position in the source (the positions are in lists no theorem mentions)"""
    broken = {p.name.split(".")[-1] for p in run.problems if p.kind == "build"}
    if not broken & {"gen_worker_shapes_ok", "gen_reviewed_exceptions_exact", "gen_no_cross_reads", "gen_map_ranges_are_the_reviewed_ones",
                     "gen_pieces_combined_in_worker_order", "gen_workers_loop_over_own_range", "gen_merge_record_set_list", "gen_driver_loops",
                     "gen_fanout_kinds_known", "gen_worker_scopes_have_own_caches",
                     "gen_no_session_counter_written_by_workers", "gen_session_writes_of_workers_are_the_reviewed_ones",
                     "gen_shared_stateful_objects_used_under_lock"}:
        return
    gen = (LEAN / "Csvq/Gen/ShapeFacts.lean").read_text()
    props = (LEAN / "Csvq/Props/C12Shapes.lean").read_text()  # (the scope-copy obligation is in Props/C12ScopeCopies.lean)
    facts = _tuples(gen, "workerFacts")
    sites = {}
    for ln in gen.splitlines():
        m = re.match(r'\s*\("([^"]*)", \[(.*)\]\),?$', ln)
        if m:
            sites.setdefault(m.group(1), re.findall(r'"((?:[^"\\]|\\.)*)"', m.group(2)))
    reviewed = set(re.findall(r'^\s*\("([^"]*)", "([^"]*)", "([^"]*)", \.\w+\)', props.split("def reviewed :")[1].split("\ntheorem")[0], re.M))
    seen = set()
    for f in facts:
        fn, fan, var, kind, how, via = f
        bad = kind in ALWAYS_ORDERED or (kind == "chan" and how != "singleSender") or (kind in NEEDS_REVIEW and (fn, var, kind) not in reviewed)
        if bad:
            run.problems.append(Problem("build", "shape-fact", {"no_longer_checks": "a worker of %s writes the shared variable %s in a way whose result depends on the schedule" % (fn, var),
                                        "function": fn, "fan_out": fan, "variable": var, "class": kind, "operation": how, "through": via,
                                        "where": sites.get("%s %s %s" % (fn, var, kind), [])[:4]}, signature="shape:%s:%s:%s" % (fn, var, kind)))
        seen.add((fn, var, kind))
    for r in sorted(reviewed - seen):
        run.problems.append(Problem("build", "shape-fact", {"no_longer_checks": "the reviewed exception %s / %s / %s is no longer in the source: remove it from the table" % r}, signature="shape-gone:%s:%s:%s" % r))
    for c in _tuples(gen, "crossReads"):
        run.problems.append(Problem("build", "shape-fact", {"no_longer_checks": "a worker of %s reads %s, which the workers write slot-wise, at an index that is not its own (%s)" % (c[0], c[2], c[3]),
                                    "where": re.findall(r'"([^"]*)"', gen.split("def crossReadSites")[1].split("\n")[0])[:4]}, signature="shape-cross:%s:%s" % (c[0], c[2])))
    if broken & {"gen_no_session_counter_written_by_workers", "gen_session_writes_of_workers_are_the_reviewed_ones"}:
        sess = (LEAN / "Csvq/Props/C12Session.lean").read_text()
        rs = set(re.findall(r'^\s*\("([^"]*)", "([^"]*)", "([^"]*)", "\w+"\)', sess.split("def reviewedSessionWrites")[1].split("\ndef reachableWrites")[0], re.M))
        ssites = dict(x.split(": ", 1) for x in re.findall(r'"([^"]*)"', gen.split("def sessionWriteSites")[1].split("\n")[0]) if ": " in x)
        got = set()
        for m in re.finditer(r'^\s*\("([^"]*)", "([^"]*)", "([^"]*)", "([^"]*)", (true|false)\)', gen.split("def sessionWrites")[1].split("\n]")[0], re.M):
            pk, fn, tg, op, rch = m.groups()
            if rch != "true":
                continue
            got.add((fn, tg, op))
            if (fn, tg, op) not in rs:
                what = "counts in" if op == "counter" else "resets" if op == "reset" else "writes (%s)" % op
                run.problems.append(Problem("build", "shape-fact", {"no_longer_checks": "%s, which the workers of a fan-out reach through Evaluate, %s the session-wide %s: all workers share it, the result depends on the schedule" % (fn, what, tg),
                                            "function": fn, "target": tg, "operation": op, "where": ssites.get(fn + " " + tg, "")}, signature="shape-session:%s:%s:%s" % (fn, tg, op)))
        for r in sorted(rs - got):
            run.problems.append(Problem("build", "shape-fact", {"no_longer_checks": "the reviewed session write %s / %s / %s is no longer reachable from a worker: remove it from the table" % r}, signature="shape-session-gone:%s:%s:%s" % r))
    if "gen_shared_stateful_objects_used_under_lock" in broken:
        st = (LEAN / "Csvq/Props/C12Stateful.lean").read_text()
        rs = set(re.findall(r'^\s*\("([^"]*)", "([^"]*)", "([^"]*)", "([^"]*)", "\w+"\)', st.split("def reviewedStatefulUses")[1].split("\n]")[0], re.M))
        usites = dict(x.split(": ", 1) for x in re.findall(r'"([^"]*)"', gen.split("def statefulUseSites")[1].split("\n")[0]) if ": " in x)
        got = set()
        for m in re.finditer(r'^\s*\("([^"]*)", "([^"]*)", "([^"]*)", "([^"]*)", "([^"]*)", (true|false)\)', gen.split("def statefulUses")[1].split("\n]")[0], re.M):
            fn, ty, rv, op, held, rch = m.groups()
            if rch != "true":
                continue
            got.add((fn, ty, op, held))
            if (fn, ty, op, held) not in rs:
                why = "holds no mutex there" if not held else "holds %s there, which is not what the reviewed table says" % held
                run.problems.append(Problem("build", "shape-fact", {"no_longer_checks": "%s, which the workers of a fan-out reach through Evaluate, uses the %s %s that it got from session-wide state (%s) and %s: the object has ONE hidden state (file position / buffer) for all workers, what a worker reads depends on the schedule" % (fn, ty, rv, op, why),
                                            "function": fn, "type": ty, "object": rv, "operation": op, "mutexes_held": held, "where": usites.get("%s %s %s" % (fn, rv, op), "")}, signature="shape-stateful:%s:%s:%s" % (fn, ty, op)))
        for r in sorted(rs - got):
            if any(g[:3] == r[:3] for g in got):  # still there, under other mutexes: reported above
                continue
            run.problems.append(Problem("build", "shape-fact", {"no_longer_checks": "the reviewed use %s / %s / %s under %s is no longer in the source or no longer reachable from a worker: remove it from the table" % r}, signature="shape-stateful-gone:%s:%s:%s:%s" % r))
    if "gen_worker_scopes_have_own_caches" in broken:
        cf = (LEAN / "Csvq/Gen/CopyFacts.lean").read_text()
        for ln in cf.splitlines():
            m = re.search(r'⟨"(FieldIndexCache\.Copy|ReferenceRecord\.copyForChildScope)", "[^"]*", "([^"]*)", \d+, "[^"]*", \[("[^"]*")\], \(\.(same|other) "([^"]*)"\)', ln)
            if m and m.group(1) == "FieldIndexCache.Copy":
                run.problems.append(Problem("build", "shape-fact", {"no_longer_checks": "the copy of a field-index cache that every worker's scope gets takes its %s over from the original (%s): workers append into one backing array" % (m.group(3), m.group(5)), "where": m.group(2)}, signature="shape-cache:" + m.group(3)))
    ref = {tuple(re.findall(r'"([^"]*)"', ln)[:2]) for ln in props.split("def reviewedMapRanges")[1].split("\n]")[0].splitlines() if ln.strip().startswith("(")}
    for m in _tuples(gen, "mapRanges"):
        if m not in ref:
            run.problems.append(Problem("build", "shape-fact", {"no_longer_checks": "%s ranges over the map %s: Go's iteration order is random, the range is not in the reviewed list" % m}, signature="shape-maprange:%s:%s" % m))


def run(run):
    q = run.tier == "quick"
    run.regen("recordrange", ["go", "run", "-C", "extract/parfacts", ".", "recordrange"], "Csvq/Gen/RecordRange.lean")
    run.regen("routine", ["go", "run", "-C", "extract/parfacts", ".", "routine"], "Csvq/Gen/RoutineNumber.lean")
    run.regen("pipefacts", ["go", "run", "-C", "extract/pipefacts", "."], "Csvq/Gen/PipeFacts.lean")
    run.regen("timefacts", ["go", "run", "-C", "extract/timefacts", "."], "Csvq/Gen/TimeFacts.lean")
    run.regen("copyfacts", ["go", "run", "-C", "extract/copyfacts", "."], "Csvq/Gen/CopyFacts.lean")  # C08's generator, read here
    shapes = run.regen("shapefacts", ["go", "run", "-C", "extract/shapefacts", "."], "Csvq/Gen/ShapeFacts.lean")
    # the shape obligations are built module by module: when a regenerated fact breaks one of them, the theorems of the
    # other modules (which do not import it) are still checked and counted
    names = []
    for group in (["Csvq.Props.C12Shapes"], ["Csvq.Props.C12ScopeCopies"], ["Csvq.Props.C12Session"], ["Csvq.Props.C12Stateful"], ["Csvq.Props.C12", "Csvq.Props.C12Pipe", "Csvq.Props.C12Time"]):
        run.obligations_for(group)
        names += run.cov["obligation_names"]
    run.cov["obligation_names"] = names
    if shapes:
        explain_shapes(run)
    # the multi---cpu search below runs in every case: when a shape obligation is broken it looks for the input
    run.stream("c12", 300 if q else 3000, timeout=3000)
    if not q:
        for k in range(1, 3):
            run.stream("c12", 1500, seed_offset=k, timeout=3000)
    return run.finish(
        level="proof",
        rule="(pipeline stages: 15 stage lists per table of 20-40k rows (quick) / 120-200k (thorough), 6 --cpu values x 2 runs, model + own slices; session flags: 5 flag settings x 9-25 statements x 6 --cpu values x 2 runs over 240-960 rows of 24-40 distinct contents, every content alone twice; StrToTime: ~120 format lists x 3-8 texts) record lengths 0-3000 and 80k-1/80k/80k+1 (k=1..17), cpu 1-16, minimum-per-core variants for the range stream; 17 query shapes (filter, group, distinct, order, 5 join kinds, analytic, set operators, subqueries) and 6 data-changing programs, each at 6 --cpu values x 2 runs; non-trivial = distinct (program, size band, result size) signature",
        trusted_base=BASE_TRUST + ["extract/parfacts (RecordRange and slot-bookkeeping translators; int as unbounded Int, int(math.Floor(float64(a)/float64(b))) as Int.fdiv: exact below 2^53)", "extract/pipefacts, extract/timefacts (go/ast text facts, fail closed); Model/ParseTime's reading of time.Parse (validated by C06's stream and by c12.strtotime)"],
        checker_cmd="cd /verif/lean && lake build Csvq.Props.C12 && lake env lean <#print axioms for every theorem>",
    )
