from .core import BASE_TRUST

META = {
    "category": "proof",
    "text": "Lean 4 theorems: each parallel shape of lib/query (slot-wise Run callbacks, per-worker lists concatenated in worker order for filter/join, per-worker key maps merged for GROUP BY) equals a sequential specification for EVERY cutting of the record range into contiguous chunks, hence is independent of --cpu and of the schedule; the real cutting function RecordRange is regenerated from the source and proved to tile [0,len) in order (C13's recordRange_tiles); the slot bookkeeping that decides the worker number (AssignRoutineNumber, Release, Done, NewGoroutineTaskManager's literal, Flags.SetCPU) is regenerated too and proved: 1 <= n <= --cpu in every reachable state, shared count = sum of outstanding slots over every history (never negative, nothing leaks), single worker below the threshold, and end to end the assigned workers' ranges tile [0,len) (assigned_ranges_tile). Tied to /repo by (a) the regenerated definitions + a model/impl comparison of worker numbers, ranges, slot histories (new/done sequences) and SetCPU, (b) a direct law check on the implementation: the same program run at --cpu 1,2,3,4,8,16, twice each, on tables of 80k-1/80k/80k+1 rows must give identical result rows, order and written file bytes (22+ query shapes incl. joins driven by the short and by the long table, multi-analytic queries, user-defined aggregates / functions; 6 DML programs)",
    "design_ref": "DESIGN.md section 5, C12",
    "note": "a WHOLE query: Model/Pipeline.lean composes the shapes into the clause pipeline of a SELECT (WHERE, GROUP BY, HAVING, select list, ORDER BY, OFFSET, LIMIT, Fix) with an arbitrary cut at every stage; Props/C12Pipe: pipeline_eq_spec / pipeline_indep_of_cuts (any two runs, whatever cuts each stage got, return the same rows in the same order), the stage order and the primitive under every View method regenerated from query.go / view.go (extract/pipefacts: gen_clause_order, gen_stage_shapes). trusted: Lean kernel; harness; the Go scheduler itself is outside the model, which is why the chunking/schedule is universally quantified in the theorems rather than sampled; the step from the Go closures to the three shapes is by reading (C13's extractor classifies every worker closure)",
    "technique": "Lean 4 machine-checked proof (chunk-independence / refinement to a sequential spec) + regenerated RecordRange and slot bookkeeping + multi---cpu differential runs of the real implementation",
}


def run(run):
    q = run.tier == "quick"
    run.regen("recordrange", ["go", "run", "-C", "extract/parfacts", ".", "recordrange"], "Csvq/Gen/RecordRange.lean")
    run.regen("routine", ["go", "run", "-C", "extract/parfacts", ".", "routine"], "Csvq/Gen/RoutineNumber.lean")
    run.regen("pipefacts", ["go", "run", "-C", "extract/pipefacts", "."], "Csvq/Gen/PipeFacts.lean")
    run.regen("timefacts", ["go", "run", "-C", "extract/timefacts", "."], "Csvq/Gen/TimeFacts.lean")
    run.obligations_for(["Csvq.Props.C12", "Csvq.Props.C12Pipe", "Csvq.Props.C12Time"])
    run.stream("c12", 300 if q else 3000, timeout=3000)
    if not q:
        for k in range(1, 3):
            run.stream("c12", 1500, seed_offset=k, timeout=3000)
    return run.finish(
        level="proof",
        rule="record lengths 0-3000 and 80k-1/80k/80k+1 (k=1..17), cpu 1-16, minimum-per-core variants for the range stream; 17 query shapes (filter, group, distinct, order, 5 join kinds, analytic, set operators, subqueries) and 6 data-changing programs, each at 6 --cpu values x 2 runs; non-trivial = distinct (program, size band, result size) signature",
        trusted_base=BASE_TRUST + ["extract/parfacts (RecordRange and slot-bookkeeping translators; int as unbounded Int, int(math.Floor(float64(a)/float64(b))) as Int.fdiv: exact below 2^53)"],
        checker_cmd="cd /verif/lean && lake build Csvq.Props.C12 && lake env lean <#print axioms for every theorem>",
    )
