from .core import BASE_TRUST

META = {
    "category": "proof",
    "text": "Lean 4 theorems over an interpreter written in the shape of csvq's Processor / ReferenceScope / UserDefinedFunction code (block stack, executeChild, While, flow enum, returnVal) and a denotational reference semantics, for all programs, all nesting depths and all fuel: refinement, block-stack balance, locality of declarations, shadowing, persistence of outer assignments, independence of call frames, BREAK/CONTINUE/RETURN/EXIT; the language includes the cursor loop WHILE [VAR] @x IN cursor (the cursor abstracted to the list of its remaining rows) and statements that reach the current block indirectly (SOURCE file / EXECUTE 'text' / EXECUTE prepared = the same statements in place) and temporary tables as variables holding their rows (DECLARE VIEW refuses a name visible in any block; INSERT / DELETE from any depth = assignment to the innermost binding); model tied to /repo by running generated procedures through the real Processor on every run, plus laws checked on the implementation alone (variables, cursors, temporary tables, functions declared in blocks; concurrent invocations; after EVERY generated program, in the same session, a recursive probe with a known trace and an inspection of blocks taken from csvq's pool)",
    "design_ref": "DESIGN.md section 5, C15",
    "note": "trusted: Lean kernel (axioms propext, Classical.choice, Quot.sound only), harness + driver, sync.Pool (a released block is modelled as gone), csvq's parser for the generated program text",
    "technique": "Lean 4 machine-checked proof over a hand-written model + differential correspondence with the Go implementation",
}


def run(run):
    q = run.tier == "quick"
    run.assumptions += [
        "csvq resolves variables and functions dynamically: a function body runs in a child scope of the CALLER's scope (user_defined_function.go Execute); the model and the reference semantics do the same",
        "sync.Pool hands out cleared blocks: a block that was released is modelled as dropped, a block that is taken as empty (the discipline get/clear/put is what block_stack_balanced and the differential run check)",
        "termination is not claimed: every theorem is stated for all fuel (the fuel bounds the depth of the evaluation tree); generated programs are run with fuel 200000 and never exhaust it",
        "WHILE @x IN cursor is modelled over the list of the cursor's remaining rows (one column); cursor declaration, OPEN, cursor lookup and their errors are not in the model (cursor positions are C16), generated cursors are always declared and opened right in front of their loop and used once",
        "a temporary table is modelled as a variable holding its number of rows; 'file t0 does not exist' (INSERT/DELETE/SELECT on an undeclared table) and 'view t0 is undeclared' (DISPOSE VIEW) are compared with the model's 'undeclared variable'; row contents, UPDATE, REPLACE and ALTER are covered by implementation-only laws",
        "the parser only admits BREAK/CONTINUE inside loops, RETURN inside functions and EXIT outside functions; the theorems cover all syntax trees, the correspondence run only the ones csvq's parser accepts",
    ]
    run.obligations_for(["Csvq.Props.C15"])
    run.stream("c15", 12000 if q else 150000)
    if not q:
        for k in range(1, 4):
            run.stream("c15", 100000, seed_offset=k)
    return run.finish(
        level="proof",
        rule="random procedures over VAR/assign/DISPOSE/PRINT/IF-ELSEIF-ELSE (also written as CASE WHEN)/WHILE/WHILE [VAR] @x IN cursor (cursor over a small temporary table, declared and opened in front of the loop)/statements executed through SOURCE of a file, EXECUTE of a (nested-quoted) string or PREPARE + EXECUTE, any of them inside any block/temporary tables DECLARE VIEW, INSERT, DELETE, DISPOSE VIEW, (SELECT COUNT(*) …) declared in intermediate blocks and changed from deeper ones/BREAK/CONTINUE/EXIT/RETURN/DECLARE FUNCTION (optional parameters)/DISPOSE FUNCTION and (recursive) calls, nesting <= 6, variable and function names from pools of 4, loops bounded by private counters, calls by a decreasing budget argument; each run through the real Processor (PRINT lines, flow, error number, variables and functions left in the session scope) and through the Lean model; laws on the implementation alone for variables, cursors, temporary tables, functions and aggregates declared directly or through SOURCE / EXECUTE 'text' / nested EXECUTE / PREPARE+EXECUTE at random depth inside IF/ELSE/ELSEIF/WHILE/function bodies, shadowing, outer assignment, late declarations, concurrent invocations; inner_change_reaches_declaring_block_*: an object with state (table rows via INSERT/DELETE/UPDATE/REPLACE, table columns via ALTER ADD/DROP/RENAME, cursor position and OPEN/CLOSE, variable, function) declared 1-3 blocks below the session scope, changed 1-3 blocks further in (also through SOURCE/EXECUTE), read back in the declaring block; after every program the pool probe (law call_frames_independent_after_history: recursion 6 deep with shadowing WHILE/IF blocks, 19 live scopes, fixed trace) and law pool_no_alias (48 blocks taken from blockScopePool must be empty and pairwise distinct); one program in five places BREAK/CONTINUE/EXIT/RETURN where the grammar forbids them (patched into the syntax tree); non-trivial = the program has a block construct and printed something or ended other than normally; distinct = (statement kinds, outcome, depth, number of printed lines, shadowing, final variables) signature",
        trusted_base=BASE_TRUST + ["sync.Pool semantics (Get returns a block nobody else holds); csvq's parser and PRINT formatting of integers, NULL and ternaries"],
        checker_cmd="cd /verif/lean && lake build Csvq.Props.C15 && lake env lean <#print axioms for every theorem>",
    )
