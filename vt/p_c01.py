from .core import BASE_TRUST

META = {
    "category": "proof",
    "text": "Lean 4 theorems over a session machine (Model/Session.lean: disk, view cache with for-update marks, created/updated sets, temporary tables with restore points, commits by other processes): abort_restores - from the most recent commit point, after ANY statements of the transaction, an ending by error / EXIT / interrupt / ROLLBACK leaves every table file exactly as at that commit point, created files absent, temporary tables at their restore point; normal_end_publishes - COMMIT / normal end writes exactly the view the transaction last saw for every created or changed table and nothing else; untouched_identical - files never created or changed stay identical through any statements, commits and rollbacks. Tied to /repo by a differential correspondence: random histories executed statement by statement through the real Processor (SELECT result and bytes on disk compared after every statement, other-process commits injected when no lock is held), the statements include multi-table DELETE, two-table SELECT … FOR UPDATE, part-way failing UPDATE, ALTER TABLE … SET LINE_BREAK (the attribute is part of the compared table state), every table named in several spellings (relative, ./, absolute, absolute with // or /./, without extension); the lock files the transaction holds are part of the compared state; law untouched_file_rewritten (inode of each file vs csvq's own change log); and the same programs as real csvq processes ended normally / by error / EXIT / signal (at the first file access, at the k-th encode of the final COMMIT, during the last statement)",
    "design_ref": "DESIGN.md section 5, C01 and C20",
    "note": "trusted: Lean kernel; harness + driver; the model treats a DML statement as 'replace the cached table by f(old) or fail' (C05/C08 decide what f is and that failure changes nothing); the commit itself is C10's regenerated sequence; the ending->COMMIT/ROLLBACK dispatch is REGENERATED from lib/query/processor.go and lib/action/run.go on every run (extract/procfacts -> Gen/ProcFacts: the statement loop of Processor.execute and the auto-commit condition of Processor.Execute translated into Lean; Props/C01Proc: frame_end_eq_finish - auto-commit under the translated condition followed by the deferred AutoRollback of cli/app.go IS Session.finish of the ending, execute_loop_first_stop - nothing after the first error / EXIT is executed) and also covered by the process-level runs; an INTERNAL FAILURE is an ending by error: Model/ProcFrame.executeWithRecover wraps the translated loop in the TRANSLATED deferred recover (Gen.executeDeferFn) and hands the results back as the regenerated signature says (Gen.executeHasNamedResults - only named results let the deferred function change what a panicking call returns): panic_never_commits (statements succeed, one panics => (TerminateWithError, Fatal Error), no auto-commit under the translated condition, Session.finish .error), execute_no_panic_eq_loop, gen_recover_can_set_results, gen_defer_fn_spec, unnamed_results_swallow_panic (the same frame with unnamed results returns (Terminate, nil) and commits - why the names are essential); dynamically the in-process stream injects a panic through the exported Session API (a standard-output device that panics on a marker the procedure PRINTs) at a random statement - top level, IF / WHILE / CASE bodies, inside a user-defined function called by a statement or a VALUES list - of a procedure run through ONE Processor.Execute with auto-commit on: a Fatal Error must be returned and the files must be what the model says for the statements in front of the failure followed by `end error` (c01.qend error; the same procedure with a harmless marker is the control, c01.qend normal)",
    "technique": "Lean 4 machine-checked proof (invariant relating the running state to the last commit point, induction over statement lists) + differential correspondence in-process and at process level",
}


def run(run):
    q = run.tier == "quick"
    run.regen("procfacts", ["go", "run", "-C", "extract/procfacts", "."], "Csvq/Gen/ProcFacts.lean")
    run.obligations_for(["Csvq.Props.C01", "Csvq.Props.C01Proc"])
    csvq = run.build_csvq()
    env = {"VERIF_CSVQ": str(csvq)} if csvq else {}
    run.stream("c01", 400 if q else 4000, env=env, timeout=3000)
    if not q:
        for k in range(1, 3):
            run.stream("c01", 2000, seed_offset=k, env=env, timeout=3000)
    return run.finish(
        level="proof",
        rule="histories of 3-16 statements (SELECT, SELECT FOR UPDATE, INSERT/DELETE/UPDATE incl. failing ones, CREATE TABLE, temporary tables, COMMIT, ROLLBACK) over 4 files and 2 temporary tables, other-process commits between statements when no lock is held, ending normal / error / EXIT / interrupt; every 4th history also as a real process; 30 + n/8 procedures with an injected internal failure (8 placements) and their controls; non-trivial = distinct (ending, length, final disk) signature",
        trusted_base=BASE_TRUST,
        checker_cmd="cd /verif/lean && lake build Csvq.Props.C01 && lake env lean <#print axioms for every theorem>",
    )
