from .core import BASE_TRUST, REPO

META = {
    "category": "proof",
    "text": "Lean 4 theorems over a hand-written model of the LEXICAL layer, for all rune strings and all letter/digit classifications: "
            "option.EscapeString/UnescapeString/EscapeIdentifier/UnescapeIdentifier/QuoteString/QuoteIdentifier round trips, the whole of "
            "parser.Scanner.Scan (totality by a progress lemma, token/error positions inside the input, a quoted string/identifier scans back to "
            "one token with the original text) and the token-fusion condition of the unary-operator printer; model tied to /repo by a differential "
            "run on every check; and over the OPERATOR-EXPRESSION FRAGMENT of the grammar (binary OR AND = == < <= > >= <> != LIKE || + - * / %, prefix NOT ! - +, postfix IS [NOT] NULL/TRUE/FALSE/UNKNOWN, "
            "written parentheses as Parentheses nodes): the precedence / associativity declarations and the operator productions are REGENERATED from lib/parser/parser.y on every run "
            "(extract/precedence -> Csvq/Gen/Precedence.lean, fails closed), the model parser is precedence climbing driven by that table with yacc's conflict-resolution rule, and "
            "parse(print e) = e is proved for every tree the parser can build (WellFormed, any depth), WellFormed is proved exact (everything parse returns is well formed), the regenerated "
            "levels are checked against the reviewed order; tied to the real parser by stream op c18.opx (tree shape and printed tokens, valid and invalid token lists). "
            "Since wave 17 the fragment also holds the forms whose shift/reduce decisions are NOT those of a binary operator (same model, same theorems, trees of any depth; Args is a mutual list type): "
            "value NOT LIKE value (NOT is shifted or not by ITS declared level 7, the right operand is read with the level of LIKE: a = b NOT LIKE c is (a = b) NOT LIKE c, a NOT LIKE b = c a syntax error), "
            "value [NOT] BETWEEN value AND value (the rule has no %prec, hence the level of its last terminal AND: the upper bound takes every tighter operator, a BETWEEN b AND c = d is a BETWEEN b AND (c = d), a following AND / OR ends it; "
            "the lower bound is read with no rule pending but ends at the first AND its own loop meets, so a BETWEEN b OR c AND d is a syntax error and a lower bound that is itself a logical AND must be a Parentheses node), "
            "value [NOT] IN (value, ...), function calls f(value, ...) / f(), CURSOR c IS [NOT] OPEN | IN RANGE and CURSOR c COUNT; the productions of the NOT forms / BETWEEN / IN are REGENERATED from parser.y "
            "(negatedOps, betweenOps, inOps of Gen/Precedence.lean; gen_not_forms_levels pins them and the levels the model decides with), the printers of Between, In, Like, RowValue, ValueList, Function, CursorStatus, CursorAttrebute "
            "are pinned part by part against the regenerated String() sequences (gen_expression_printers_match_model); op_print_parse / op_parse_wellformed / op_parse_print_parse / op_print_idempotent / args_print_parse cover all of them, "
            "between_low_and_needs_parentheses shows the hypothesis is needed; stream op c18.opx now generates every one of these forms (nested, undamaged and damaged) and compares tree shape, printed tokens and accept/reject with the real parser. "
            "THE QUERY LEVEL above the SELECT skeleton is in the model since wave 18 (Model/Query.lean; mutual SetTree / Query / Withs, fuelled parsers): set operators UNION / EXCEPT / INTERSECT [ALL] parsed by precedence climbing with the levels REGENERATED from the %left lines of parser.y "
            "(gen_set_operator_levels: UNION = EXCEPT = 2 < INTERSECT = 3, all left), parenthesised queries as their operands (Subquery nodes: the printer adds no parentheses, written ones stay in the tree), ORDER BY / LIMIT / OFFSET of the whole query "
            "(kept in the right-most SELECT when there is one, behind a parenthesised right-most operand otherwise; no other operand may carry them), FOR UPDATE, WITH [RECURSIVE] name [(columns)] AS (query), ... nested to any depth: "
            "query_print_parse / query_print_parse_whole / query_print_idempotent / set_tree_print_parse (Props/C18Query.lean) for EVERY table, every level assignment and every well-formed query; the printers of SelectSet, Subquery, SelectQuery, WithClause, InlineTable "
            "are pinned part by part against the regenerated String() sequences (gen_query_printers_match_model); stream op c18.qry compares the real parser's TREE SHAPE (the tokens alone do not show the precedence) and SelectQuery.String() with the model on generated queries "
            "(1-5 operands, nested parentheses, WITH lists, tails, FOR UPDATE; a fifth damaged) and 34 witnesses. "
            "Still by correspondence only: CASE, sub-queries in expressions (scalar, IN, EXISTS, ANY / ALL), row values, aggregate / analytic / list functions, SUBSTRING ... FROM ... FOR. "
            "the CLAUSE SKELETON OF SELECT is in the model too (Model/Clause.lean): DISTINCT, items (expr [AS alias] | * | t.*), FROM with aliases and join chains (INNER / LEFT / RIGHT / FULL [OUTER] / CROSS / NATURAL, ON | USING), "
            "WHERE, GROUP BY, HAVING, ORDER BY items with direction and NULLS position, LIMIT (unit, ONLY | WITH TIES), OFFSET: parseSelect(printSelect s ++ rest) = (s, rest) is proved for every well-formed query "
            "(select_print_parse), parseSelect is total and consumes tokens (parse_total), print-parse-print is idempotent, printSelect is tied clause by clause to the regenerated String() sequences; "
            "stream op c18.sel diffs the real parser + String() against the model on the clause matrix and on generated queries (valid and damaged). "
            "The String() methods of ast.go are tied by regeneration too: extract/astprint re-derives, for all 68 printable node types, the fields, the fields the printer reads and the ordered, "
            "condition-guarded parts of the method body, and from parser.y the fields every production sets; theorems: every field is read by its printer (exemption: BaseExpr), the print sequences equal "
            "the reviewed reference (Ref/AstPrint.lean), every field a production sets is printed under a condition that holds for it, the operator printers emit what the model's print does. "
            "THE GOYACC DRIVER AND ITS TABLES are in the model as well (Model/Lalr.lean: the loop of (*yyParserImpl).Parse with yylex1 and (*Lexer).Lex as a total function over "
            "lists of token codes, every table / stack read through a checked accessor whose failure is a visible outcome; tables yyExca yyAct yyPact yyPgo yyR1 yyR2 yyChk yyDef yyTok1-3 "
            "and constants REGENERATED from lib/parser/parser.go on every run by extract/lalr, the statement text of the loop outside the semantic actions, of yylex1, Parse and Lexer.Lex pinned "
            "against a reviewed copy (gen_driver_eq_ref), every semantic action classified (pure construction / what else it does; window yyS[yypt-N : yypt+1] with N = yyR2, yyDollar[k] with k <= N)). "
            "Proved for ALL token lists and all fuel (Props/C18Lalr.lean): lalr_tables_wf (sizes, every yyAct entry a state, production and nonterminal indices, yyExca blocks, token tables; one kernel evaluation of a Bool checker), "
            "lalr_no_index_panic (no table read and no stack read of the driver is ever out of range - including that a reduction never pops below the stack bottom and the yyDollar window is inside the stack: "
            "an invariant 'the stack is a chain in a lower-neighbour relation closed under every shift and goto of the tables, and no state reduces more symbols than its depth', the relation and the depths being certificates "
            "the extractor computes and Lean re-checks), lalr_step_progress / lalr_terminates / lalr_fuel_irrelevant (a measure - tokens left, then sum of state weights + rank of the top state, also certificates - strictly decreases "
            "with every round: the loop terminates WITHOUT fuel, `parse` is a total function of the token list), lalr_error_position_in_input (a syntax error names a token of the input or its end), lalr_parse_total; "
            "tied to the real parser by stream op c18.lalr: real Scanner + real parser.Parse with goyacc's own debug trace switched on against the model - same verdict, same offending token, same sequence of (production, state) reductions. "
            "THE SEMANTIC ACTIONS' PANIC SITES are covered by a TYPING of the semantic values (Props/C18LalrActions.lean): extract/lalr (mode actions; go/types over lib/parser, parser.y for the productions) regenerates, for every production, the dynamic Go types its action "
            "can leave in yyVAL (composite literal / constructor result type, nil, copy of $k, unknown), every type assertion without ok and every method call on a yyDollar[k] value (25 + 1 sites), every index / slice expression with its length guard, and what the actions call; "
            "the least solution 'types of a symbol' is a certificate Lean re-checks (closed under every source of every action; every assertion satisfied by every type of its operand's symbol, nil only where the action excluded it: lalr_action_assertions_typed), "
            "and typed_stack_invariant proves for ALL token lists, all fuel and EVERY choice the actions make (an oracle) that each stack value has a type of the symbol its state was entered on - from table facts inside lalr_tables_wf: a reduction by p pops states entered on exactly the symbols of p "
            "(the right-hand sides are a certificate checked against yyChk for every state that can lie at that depth), the goto pushes a state entered on p's nonterminal; hence lalr_actions_never_panic and parse_never_panics (driver + actions: accept or a syntax error inside the input, nothing else); the index / slice expressions of the actions are each under a length test of the same action (extractor's guard analysis) except Literal[0] of a PLACEHOLDER token, in range by scan_placeholder_literal_nonempty (scanner model, all rune strings); pinned: gen_action_index_sites_reviewed / _callees_ / _helpers_. "
            "PARTIAL: the rest of the grammar layer (other statements, sub-selects in FROM, INTO / FETCH / LATERAL, CASE, sub-queries inside expressions (scalar / IN / EXISTS / ANY / ALL), row values, aggregate / analytic / list functions and SUBSTRING FROM FOR; the BODIES of the semantic actions, that the goyacc tables implement the grammar of parser.y, the other String() methods) is not modelled - "
            "parser.Parse totality, error positions, print/parse fixpoint and evaluation agreement are validated by correspondence only "
            "(corpus + grammar-aware mutation + generated queries, all four prepared x ansi-quotes modes)",
    "design_ref": "DESIGN.md section 5, C18",
    "note": "trusted: Lean kernel (axioms propext, Classical.choice, Quot.sound only), harness + driver; unicode.IsLetter/IsDigit are parameters of the "
            "theorems (they hold for every instance); the driver instance is Scanner.unicodeClasses = the toolchain's Letter / Nd tables (Model/Unicode.lean, regenerated by extract/unitables in C06), the scanner's white space is proved equal to unicode.IsSpace of those tables (C06.scanner_isSpace_is_unicode), and every generated text is inside the model (no rune pool restriction any more); "
            "known printer defects are reported under stable law names print_parse_fixpoint:<defect>; "
            "LALR part: trusted are extract/lalr (go/ast over parser.go: integer literals of the tables, go/printer text of the loop; fails closed on unknown tables / constants / statement forms), "
            "of the 526 semantic actions: that the dynamic type of a composite literal / constructor call is its static type (go/types), the guard analysis of index sites (an index x[c] counts as guarded under `c < len(x)` in the same action), "
            "the reviewed pins of Ref/LalrActions.lean (one unguarded index: Literal[0] of a PLACEHOLDER token, non-empty by the scanner; the callees outside lib/parser: append, len, strconv.Atoi / ParseInt, strings.Split, value.NewIntegerFromString / NewString), the values the actions build (not modelled: only their types), "
            "and goyacc's table construction (that the tables implement parser.y); the certificates shipped with the tables (lower-neighbour relation, depths, weights, ranks, low-bit table) are NOT trusted: Lean re-checks them",
    "technique": "Lean 4 machine-checked proof over a hand-written model + differential correspondence with the Go implementation; "
                 "grammar layer: differential/metamorphic testing of the real parser only",
}


def run(run):
    q = run.tier == "quick"
    run.assumptions += [
        "unicode.IsLetter / unicode.IsDigit are parameters (Classes) of every scanner theorem; scan_quoted_string / scan_quoted_ident assume the quote rune is not a letter or digit (true in Go's tables; the driver instance is the toolchain's tables, where it holds: C06.isLetter_isDigit_disjoint and the tables themselves)",
        "unicode.IsSpace is the fixed White_Space set; strings.EqualFold / strings.ToUpper against ASCII keywords are modelled with the two non-ASCII runes that fold / upper-case into ASCII (U+017F, U+212A / U+0131, U+017F)",
        "strconv.ParseInt / ParseFloat on the digit strings scanNumber builds are modelled by exact integer arithmetic (range check 2^1024 - 2^970); digit runs sent to the model are at most 400 runes",
        "operator-expression fragment: the Lean parser is precedence climbing with yacc's shift/reduce resolution (token level vs pending rule level, %left reduce / %right shift / %nonassoc error); that this equals what goyacc's LALR tables do on the fragment is validated by stream op c18.opx (accept/reject, tree shape, printed tokens), not proved",
        "semantic actions: which of its possible results an action produces is an oracle (any function of the round): the typing theorems hold for every choice; a result the action cannot produce ends the typed run as impossibleAction (not an execution of the program)",
        "goyacc driver: the model runs over token CODES (what Scanner.Scan returns; (*Lexer).Lex's rewriting of the Uncategorized code is modelled); semantic values are dropped, so the semantic actions are outside the model beyond their classification; Go ints are unbounded integers (the stack depth is bounded by memory, not by the driver)",
        "the rest of the grammar layer (semantic actions, statements and clauses as trees) is outside the Lean model: parse_total:* and print_parse_* are established by correspondence only (partial)",
        "print_parse_eval_agree is checked only for generated constant SELECT queries (no tables, whitelisted deterministic functions); texts are never executed otherwise",
    ]
    run.regen("precedence", ["go", "run", "-C", "extract/precedence", ".", str(REPO / "lib" / "parser" / "parser.y")], "Csvq/Gen/Precedence.lean")
    run.regen("astprint", ["go", "run", "-C", "extract/astprint", "."], "Csvq/Gen/AstPrint.lean")
    run.regen("lalr-tables", ["go", "run", "-C", "extract/lalr", ".", "tables"], "Csvq/Gen/LalrTables.lean")
    run.regen("lalr-driver", ["go", "run", "-C", "extract/lalr", ".", "driver"], "Csvq/Gen/LalrDriver.lean")
    run.regen("lalr-actions", ["go", "run", "-C", "extract/lalr", ".", "actions"], "Csvq/Gen/LalrActions.lean")
    run.obligations_for(["Csvq.Props.C18", "Csvq.Props.C18Query", "Csvq.Props.C18Lalr", "Csvq.Props.C18LalrActions", "Csvq.Props.C18LalrSites"])
    run.stream("c18", 30000 if q else 400000)
    if not q:
        for k in range(1, 5):
            run.stream("c18", 250000, seed_offset=k)
        pass  # leanchecker now runs for every property in the thorough tier (vt.core.obligations_for)
    return run.finish(
        level="proof",
        rule="(a) rune strings over-weighting quotes, backslashes, escape letters, control runes, CR/LF, NUL, non-ASCII runes (letters, decimal digits, spaces and near misses of many scripts, incl. four-byte ones) and invalid UTF-8 through all six escape functions and the real Scanner (4 modes), "
             "plus a scanner dictionary of operators, comment openers, numbers at the int64 / float64 range edges, variables, placeholders, URLs, constants, external commands; "
             "every text is first run through Scanner.Scan / parser.Parse / String() in child processes (re-exec of the stream binary, chunks of 1500, per-input deadline, heap limit, RLIMIT_AS): an input a child does not finish is confirmed alone and reported as law parser_does_not_terminate; the corpus (harness/cmd/c18/corpus.txt: one witness per known finding, one per repaired defect, external-command statements with open quotes / ${ at end of input) runs first on every seed; "
             "(b) parser.Parse under recover on SQL from parser_test.go and docs code blocks, token-level mutations (delete/duplicate/swap/inject/replace/truncate/splice/byte damage) and generated queries, all four modes; "
             "(c) structural comparison (positions ignored) of parse(print(t)) with t for every printable sub-tree of every statement (law print_parse_tree_differs), two select-list items with equal printed text but different trees (law distinct_trees_same_text), "
             "a clause matrix covering every combination of the optional parts of each production (order item direction x NULLS position, LIMIT/FETCH x unit x restriction x OFFSET, DISTINCT, IGNORE NULLS, WITHIN GROUP, frames, join kind x NATURAL/USING/ON x LATERAL, set operators x ALL, WITH, FOR UPDATE, INTO; measured per parsed tree in stats clause:*), "
             "evaluation agreement on two tables with NULLs and duplicates; String() -> Parse -> String() fixpoint for every text that parses to one query expression, evaluation agreement for generated constant queries; "
             "goyacc driver (op c18.lalr): every text of (b) in its mode, plus token-level damage with the whole vocabulary of the grammar (every keyword, literal class and punctuation: delete / repeat / swap / replace / insert / shuffle a window / cut short, and pure token soup) - the real scanner's token codes go to the model, the real parser's verdict, offending token and reduction trace are compared; stats lalr:accept / lalr:syntax-error, lalr.productions_reduced of lalr.productions_total; "
             "query level (op c18.qry): generated queries of 1-5 SELECT operands (each inside the modelled skeleton, mostly without ORDER BY / LIMIT) joined by UNION / EXCEPT / INTERSECT [ALL], operands parenthesised with probability 1/4 (depth <= 2), optional ORDER BY / LIMIT / OFFSET, FOR UPDATE, WITH lists of 1-2 inline tables (RECURSIVE, column lists), a fifth damaged at word level (delete / duplicate / swap / insert); answer = tree shape | printed tokens, or ERR; "
             "operator expressions: random trees of the fragment (binary / prefix / IS / NOT LIKE / [NOT] BETWEEN / [NOT] IN lists of 1-3 values / calls with 0-3 arguments / CURSOR status and COUNT) written down without added parentheses (depth <= 5) plus damaged token lists (delete / duplicate / swap / insert, also NOT BETWEEN IN LIKE , CURSOR OPEN RANGE) and ~100 witnesses of the precedence interplay, real parser + String() against the model's parse / print; non-trivial = distinct (mode, token-kind sequence, outcome / statement types) or (rune classes, length band) or unary tree shape",
        trusted_base=BASE_TRUST + [
            "unicode.IsLetter/IsDigit tables (parameters of the theorems; driver instance = the toolchain's own tables, regenerated on every C06 run and compared rune by rune with package unicode by stream c06.uclass)",
            "extract/precedence (reads parser.y as text; refuses unknown declarations, production shapes and actions; classifies the NOT / BETWEEN / IN productions by their right-hand sides)",
            "extract/astprint (go/ast over ast.go and over the Go code of the actions of parser.y; refuses statement forms outside its subset; conditions are the lexically enclosing ones, early returns appear as return parts)",
            "extract/lalr (go/ast over parser.go / lexer.go / scanner.go; refuses unknown tables, constants, statement forms in actions)",
            "extract/lalr actions: go/types over lib/parser (static type of an assigned expression = dynamic type of the value; implements-relation), the length-guard analysis of index sites, the pinned lists of Ref/LalrActions.lean",
            "the values (not the types) the semantic actions build, goyacc's table construction (tables = grammar), String() methods other than the unary operators (validated by correspondence only)",
        ],
        checker_cmd="cd /verif/lean && lake build Csvq.Props.C18 Csvq.Props.C18Query Csvq.Props.C18Lalr Csvq.Props.C18LalrActions Csvq.Props.C18LalrSites && lake env lean <#print axioms for every theorem>",
    )
