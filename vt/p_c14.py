import re
from .core import BASE_TRUST, LEAN, Problem

META = {
    "category": "proof",
    "text": "PARTIAL. Lean 4 proof that the Discard discipline makes the value pool safe (heap + free list + clients: for ALL operation sequences obeying 'discard only what you alone reference, never touch it afterwards', every read returns the value the reader was given; invariant: no address both free and live) with a counter-witness for a premature discard; every value.Discard(x) call site of lib/query and lib/value and every assignment of lib/query that writes through a parser.* value is regenerated from /repo on every run (go/ast + go/types) and checked by `decide` (all sites fresh, not used afterwards, not escaping; the value.To* conversions return value.New* results on every path; theorems ast_readonly, cells_never_overwritten, scope_closed_once, getters_return_copies, no_double_discard: NO write into a shared syntax tree, no store into an existing (slice-shared) table cell, no scope block closed both by a function and by its callee, every Get* accessor of a stored view returns a copy; pre-finding F8 was repaired in /repo by commit 02f8662 and stays watched: a new shared write breaks ast_readonly and is reported as astwrite:<file>:<function>:<lhs>, a bad Discard as discard:<file>:<function>:<var>:<reason>, a cell overwrite as cellwrite:…, a double close as doubleclose:…, a conversion handing back its argument as conversion:value.<To*>:notFresh). VALUE LISTS (Props/C14Lists.lean): 'a function that receives a value list it does not own never writes into it' — over an abstract heap of lists with ownership, for ALL call sequences in which in-place writers only run on lists that are not shared (fresh in the caller), every list reachable from a table cell / variable / syntax tree keeps its value (owned_writes_preserve_shared, published_list_keeps_value, fresh_call_sites_preserve_shared: induction over the sequence; shared_write_counterexample: COUNT(DISTINCT x) compacting the grouped record's own list turns 1,1,2,3,3 into 1,2,3,3,3 and the second SUM from 10 into 12); every write THROUGH a parameter or receiver of type []value.Primary / Cell / Record / RecordSet (lists of those) of every function of lib/query and lib/value — p[i] = …, copy, append onto a re-slice, append behind len, sort.*, handing the list to a callee that writes through its own parameter (fixed point over the call graph; function values and interface methods resolve to every declared function of identical signature) or to an unknown outside function — and every call of an in-place writer with the origin of its argument (fresh in the caller / the caller's own parameter / a view's cell / a field / unknown), and every write through a local that holds somebody else's list, is regenerated on every run (Gen/ListWriteFacts.lean, 190 parameters) and checked by kernel evaluation against a reviewed exception table (list_write_facts_ok, list_param_classes_agree, reviewed_list_exceptions_live, aggregate_functions_read_only: a NEW in-place write or a NEW non-fresh argument breaks the obligation and is reported as listwrite:<file>:<function>:<parameter>:<kind> / listcall:<file>:<caller>:<callee>:<origin> / listforeign:…). TRUSTED, not proved: the step 'syntactic fact => behaviour of the running program' (callees are not analysed for Discard / syntax trees; for value lists ownership is tracked for the outermost slice, flow-insensitively), sync.Pool as a free list. Cross-checked on every run: generated statements over all built-in scalar functions, operators and clauses evaluated twice (plain / WHILE / user-defined function / PREPARE+EXECUTE), syntax trees printed before and after execution, tables / cursor rows / variables read again; the statements the cross-check executes are DERIVED from the grammar: every statement kind that lib/parser/parser.y builds / Processor.ExecuteStatement dispatches on and every operand position (Node.Field filled from a grammar symbol deriving an arbitrary scalar expression: LIMIT n / n PERCENT / WITH TIES, OFFSET, FETCH ABSOLUTE n, SET @%ENV / @@flag, ADD / REMOVE flag element, ECHO / PRINT / PRINTF, CHDIR, SOURCE, EXECUTE … USING, TRIGGER ERROR, function / aggregate / list / analytic arguments, JSON_ROW, table functions, CASE, IN lists, BETWEEN, LIKE, SUBSTRING … FROM … FOR, parameter defaults, DML values, column defaults, table attributes …) is regenerated on every run into Gen/StmtKinds.lean together with the workloads harness/cmd/c14/workloads.go declares; theorems every_statement_kind_has_workload / every_operand_slot_has_workload (decide) fail for a kind or position without a workload (reported workload:missing:…), and the harness checks on every run that the hole of each workload really is at the declared position of the parsed tree (law workload_slot_mismatch) and that the workload succeeds for some operand (workload_never_succeeds); each workload is run with operands of every value type (integer, float, string, numeric string, datetime, boolean, NULL) held as tree literal, as variable, as cursor-fetched variable, as cell of a typed temporary table and as column reference, executed twice from ONE syntax tree, and after each execution (and after fresh allocations of every pooled type, so that the real pool re-issues an object released too early) all variables, the operand table, the cursor row and every literal of the statement's own tree are read again and compared with their first reading (laws reread:variable / reread:table / reread:cursor / ast_unchanged / repeat_eval:same_tree, under poisoning poisoned_read); a value changed WITHIN one statement (harness/cmd/c14/within.go): for every function of query.AggregateFunctions, LISTAGG, JSON_AGG, a user-defined aggregate and every modifier (DISTINCT, WITHIN GROUP (ORDER BY …), analytic ORDER BY, window frames, IGNORE NULLS) a candidate is placed between two copies of a probe reading the same column — SELECT k, p, c, p … GROUP BY k / without GROUP BY / candidate first / candidate in HAVING / in ORDER BY / as analytic functions over the same partition — over groups with duplicates followed by a different value, NULLs and single rows: the two probes must be equal and equal to the statement without the candidate (law same_expression_same_value_within_statement), the table re-read afterwards (reread:table); half of the workload processes run with the Discard-poisoning hook H2 switched on and every result cell, printed syntax tree, syntax-tree literal, variable, cursor row and re-read table cell is searched for the poison values (law poisoned_read)",
    "design_ref": "DESIGN.md section 5, C14",
    "note": "trusted: Lean kernel (propext, Classical.choice, Quot.sound only), the extractor extract/discardfacts (conservative, syntactic; listwrite.go: flow-insensitive aliasing of value-list parameters, ownership of the outermost slice only, a sync.Pool Get counts as fresh), sync.Pool modelled as a free list, harness generators. Hook H2 is built (/repo 3417236, build tag verif, VERIF_POISON_DISCARD=1): in every other workload process Discard overwrites the object with a recognisable poison and never re-issues it, so a read of a discarded object is reported (law poisoned_read) the first time it happens, without waiting for the pool to re-issue the object; what H2 does not give: paths the generators never execute, and the NaN poison of a Float is recognised on values (result views, syntax-tree literals, re-read tables), not in printed text",
    "technique": "Lean 4 machine-checked proof over a heap/pool model and a heap of value lists with ownership + facts regenerated from the Go source and the grammar checked by kernel evaluation + differential self-comparison (evaluate twice / read again; statement and operand corpus derived from parser.y) on the real code",
}

DISCARD_RE = re.compile(r'⟨"([^"]*)", (\d+), "([^"]*)", "((?:[^"\\]|\\.)*)", (true|false), (true|false), (true|false), "((?:[^"\\]|\\.)*)"⟩')
AST_RE = re.compile(r'⟨"([^"]*)", (\d+), "([^"]*)", "((?:[^"\\]|\\.)*)", "((?:[^"\\]|\\.)*)"⟩')


def unq(s):
    return s.replace('\\"', '"').replace("\\\\", "\\")


def parse_discard():
    p = LEAN / "Csvq" / "Gen" / "DiscardFacts.lean"
    out = []
    if p.exists():
        for m in DISCARD_RE.finditer(p.read_text()):
            out.append({"file": m.group(1), "line": int(m.group(2)), "fn": m.group(3), "var": unq(m.group(4)),
                        "fresh": m.group(5) == "true", "usedAfter": m.group(6) == "true", "escapes": m.group(7) == "true", "why": unq(m.group(8))})
    return out


def parse_astwrites():
    p = LEAN / "Csvq" / "Gen" / "AstWriteFacts.lean"
    shared, local = [], []
    if p.exists():
        txt = p.read_text().partition("def cellWriteFacts")[0]
        a, _, b = txt.partition("def astLocalWrites")
        for part, dst in ((a, shared), (b, local)):
            for m in AST_RE.finditer(part):
                dst.append({"file": m.group(1), "line": int(m.group(2)), "fn": m.group(3), "lhs": unq(m.group(4)), "how": unq(m.group(5))})
    return shared, local


def parse_list(name):
    """entries of one `def <name> : List AstWriteFact` of Gen/AstWriteFacts.lean"""
    p = LEAN / "Csvq" / "Gen" / "AstWriteFacts.lean"
    out = []
    if p.exists():
        _, _, tail = p.read_text().partition("def %s " % name)
        body = tail.split("\ndef ", 1)[0]
        for m in AST_RE.finditer(body):
            out.append({"file": m.group(1), "line": int(m.group(2)), "fn": m.group(3), "lhs": unq(m.group(4)), "how": unq(m.group(5))})
    return out


LW_RE = re.compile(r'⟨"([^"]*)", (\d+), "([^"]*)", "([^"]*)", "((?:[^"\\]|\\.)*)", "((?:[^"\\]|\\.)*)"⟩')
LC_RE = re.compile(r'⟨"([^"]*)", (\d+), "([^"]*)", "([^"]*)", "([^"]*)", "((?:[^"\\]|\\.)*)", "([^"]*)", "((?:[^"\\]|\\.)*)"⟩')


def parse_listwrites():
    """Gen/ListWriteFacts.lean: write sites, calls of in-place writers, writes through foreign locals; and the reviewed
    tables of Props/C14Lists.lean (function, parameter, kind, text) / (caller, callee, parameter, argument)"""
    p = LEAN / "Csvq" / "Gen" / "ListWriteFacts.lean"
    sites, calls, foreign = [], [], []
    if p.exists():
        txt = p.read_text()
        body = lambda name: txt.partition("def %s " % name)[2].split("\ndef ", 1)[0]
        for m in LW_RE.finditer(body("listWriteSites")):
            sites.append({"file": m.group(1), "line": int(m.group(2)), "fn": m.group(3), "param": m.group(4), "kind": unq(m.group(5)), "text": unq(m.group(6))})
        for name, dst in (("listWriterCalls", calls), ("listForeignWrites", foreign)):
            for m in LC_RE.finditer(body(name)):
                dst.append({"file": m.group(1), "line": int(m.group(2)), "caller": m.group(3), "callee": m.group(4), "param": m.group(5), "arg": unq(m.group(6)),
                            "origin": m.group(7), "detail": unq(m.group(8))})
    rw, rc = set(), set()
    pp = LEAN / "Csvq" / "Props" / "C14Lists.lean"
    if pp.exists():
        txt = pp.read_text()
        for name, dst in (("reviewedWriters", rw), ("reviewedCalls", rc)):
            body = txt.partition("def %s " % name)[2].split("\ndef ", 1)[0]
            for m in re.finditer(r'\("([^"]*)", "([^"]*)", "((?:[^"\\]|\\.)*)", "((?:[^"\\]|\\.)*)",', body):
                dst.add((m.group(1), m.group(2), unq(m.group(3)), unq(m.group(4))))
    return sites, calls, foreign, rw, rc


def parse_stmtkinds():
    """the string lists of Gen/StmtKinds.lean"""
    p = LEAN / "Csvq" / "Gen" / "StmtKinds.lean"
    out = {}
    if p.exists():
        txt = p.read_text()
        for m in re.finditer(r"^def (\w+) : List String := \[(.*?)\]\n\n", txt, re.M | re.S):
            out[m.group(1)] = re.findall(r'"((?:[^"\\]|\\.)*)"', m.group(2))
        m = re.search(r"^def operandSlotSymbols : .*? := \[(.*?)\]\n\n", txt, re.M | re.S)
        if m:
            out["operandSlotSymbols"] = re.findall(r'\("([^"]*)", "([^"]*)"\)', m.group(1))
    return out


def run(run):
    q = run.tier == "quick"
    run.assumptions += [
        "F8 (Analyze writing fn.Args[0] through the shared argument slice) is fixed in /repo (02f8662); COUNT(*) OVER (...) statements stay in the corpus of the dynamic cross-check (plain, WHILE, PREPARE/EXECUTE twice, syntax tree printed before/after)",
        "TRUSTED: a Discard site the extractor reports fresh / not used afterwards / not escaping behaves so at run time (value.IsNull, value.To* and the getters Raw/Ternary/String/Format do not keep their argument; functions that receive a value or a syntax tree from the analysed function are not analysed themselves)",
        "TRUSTED: sync.Pool behaves as the free list of Csvq/Model/Pool.lean (Get returns an object that was Put or a new one); objects of different types live in different pools",
        "value lists: a parameter's aliases are tracked flow-insensitively (q := p[a:b], c := p[i], range, append, conversions, callees that hand back their argument); deeper sharing (a fresh Record whose cells are shared) is the subject of cells_never_overwritten; `pool.Get().(Record)` of a sync.Pool counts as a list made by the taker",
        "syntax trees: only assignments (and copy / sort calls) inside lib/query are inspected; a write is 'shared' when its access path from a parser.* value passes a slice/map element or a pointer",
        "hook H2 (lib/value/verif_on.go, tag verif): with VERIF_POISON_DISCARD=1 a discarded String/Integer/Float/Datetime is overwritten with a poison value and not returned to the pool; the workload processes alternate between poisoning ON (premature Discard => poisoned_read) and OFF (real pool recycling => repeat_eval / reread differences)",
        "dynamic cross-check compares each statement with its own second evaluation; RAND and NOW are documented non-deterministic and never generated",
    ]
    argv = ["go", "run", "-C", "extract/discardfacts", "."]
    ok1 = run.regen("discardfacts", argv + ["discardfacts"], "Csvq/Gen/DiscardFacts.lean")
    ok2 = run.regen("astwritefacts", argv + ["astwritefacts"], "Csvq/Gen/AstWriteFacts.lean")

    ok3 = run.regen("stmtkinds", argv + ["stmtkinds"], "Csvq/Gen/StmtKinds.lean")
    ok4 = run.regen("listwritefacts", argv + ["listwritefacts"], "Csvq/Gen/ListWriteFacts.lean")
    # value lists: a write through a parameter that is not reviewed, an in-place writer called on a list that is not
    # fresh in the caller, a write through a local holding somebody else's list (Csvq.C14Lists.list_write_facts_ok)
    list_sites = []
    if ok4:
        lsites, lcalls, lforeign, rev_w, rev_c = parse_listwrites()
        short = lambda fn: fn.split(".", 1)[1] if "." in fn else fn
        for f in lsites:
            if (f["fn"], f["param"], f["kind"], f["text"]) in rev_w:
                continue
            sg = "listwrite:%s:%s:%s:%s" % (f["file"], short(f["fn"]), f["param"], f["kind"])
            list_sites.append(sg)
            run.problems.append(Problem("direct", sg, {"what": "a function writes IN PLACE through a value-list parameter ([]value.Primary / Cell / Record / RecordSet) it does not own: every other holder of the same backing array (the grouped record's cell, a cached table, a cursor row) reads the rewritten elements",
                                                       "site": "%s:%d" % (f["file"], f["line"]), "write": f["text"], "kind": f["kind"]}, concrete=False, signature=sg))
        for f in lcalls:
            if f["origin"] in ("fresh", "ownParam") or (f["caller"], f["callee"], f["param"], f["arg"]) in rev_c:
                continue
            sg = "listcall:%s:%s:%s:%s" % (f["file"], short(f["caller"]), short(f["callee"]), f["origin"])
            list_sites.append(sg)
            run.problems.append(Problem("direct", sg, {"what": "an in-place writer is called on a list that is not fresh in the caller (a view's / record's own cell, a field, a callee's non-fresh result): the call rewrites data the statement only reads",
                                                       "site": "%s:%d" % (f["file"], f["line"]), "argument": f["arg"], "comes_from": f["detail"]}, concrete=False, signature=sg))
        for f in lforeign:
            sg = "listforeign:%s:%s:%s:%s" % (f["file"], short(f["caller"]), f["callee"], f["origin"])
            list_sites.append(sg)
            run.problems.append(Problem("direct", sg, {"what": "a write through a local variable that holds a list the function neither made nor received as a parameter",
                                                       "site": "%s:%d" % (f["file"], f["line"]), "write": f["arg"], "comes_from": f["detail"]}, concrete=False, signature=sg))
    # statement kinds / operand positions of the grammar that the dynamic cross-check has no workload for
    # (Csvq.C14.every_statement_kind_has_workload, every_operand_slot_has_workload)
    missing_workloads = []
    sk = parse_stmtkinds() if ok3 else {}
    if sk:
        have_k, have_s = set(sk.get("workloadStatementKinds", [])), set(sk.get("workloadSlots", []))
        for k in sorted(set(sk.get("grammarStatementKinds", []) + sk.get("executedStatementKinds", [])) - have_k):
            missing_workloads.append("workload:missing:statement:" + k)
        for k in sorted(set(sk.get("operandSlots", [])) - have_s):
            missing_workloads.append("workload:missing:slot:" + k)
        for sg in missing_workloads:
            run.problems.append(Problem("direct", sg, {"what": "the grammar (lib/parser/parser.y) / Processor.ExecuteStatement has a statement kind or operand position for which harness/cmd/c14/workloads.go declares no workload: the dynamic cross-check (executed twice, operands of every type from tree literal / variable / cursor / table cell, everything re-read) does not reach it",
                                                       "filled_from": dict(sk.get("operandSlotSymbols", [])).get(sg.rsplit(":", 1)[1], "")}, concrete=False, signature=sg))

    dfacts = parse_discard() if ok1 else []
    shared, local = parse_astwrites() if ok2 else ([], [])
    bad_sites = {}
    for f in dfacts:
        if f["fresh"] and not f["usedAfter"] and not f["escapes"]:
            continue
        reason = "notFresh" if not f["fresh"] else ("usedAfter" if f["usedAfter"] else "escapes")
        sg = "discard:%s:%s:%s:%s" % (f["file"], f["fn"], f["var"], reason)
        bad_sites.setdefault(sg, []).append(f)
    for sg in sorted(bad_sites):
        fs = bad_sites[sg]
        run.problems.append(Problem("direct", sg, {"what": "value.Discard(x) outside the discipline (static fact)", "sites": ["%s:%d" % (f["file"], f["line"]) for f in fs], "why": fs[0]["why"]},
                                    concrete=False, signature=sg))
    # the conversions themselves: a value.To* that hands back its argument makes every "fresh" site unsafe
    conv_bad = []
    dfp = LEAN / "Csvq" / "Gen" / "DiscardFacts.lean"
    if ok1 and dfp.exists():
        _, _, tail = dfp.read_text().partition("def conversionFacts")
        for m in re.finditer(r'\("(\w+)", (true|false), "((?:[^"\\]|\\.)*)"\)', tail):
            if m.group(2) == "false":
                conv_bad.append(m.group(1))
                sg = "conversion:value.%s:notFresh" % m.group(1)
                run.problems.append(Problem("direct", sg, {"what": "a value.To* conversion has a return statement that is not a value.New* call (it may hand back its argument, which callers then Discard)",
                                                           "where": unq(m.group(3))}, concrete=False, signature=sg))
    # a value released twice on one path (Csvq.C14.no_double_discard)
    dbl = []
    if ok1 and dfp.exists():
        _, _, tail = dfp.read_text().partition("def doubleDiscardFacts")
        body = tail.split("\ndef ", 1)[0]
        for m in AST_RE.finditer(body):
            sg = "doublediscard:%s:%s:%s" % (m.group(1), m.group(3), unq(m.group(4)))
            dbl.append(sg)
            run.problems.append(Problem("direct", sg, {"what": "one value reaches value.Discard twice on one path: it enters the pool twice and the next two allocations of its type are one object",
                                                       "site": "%s:%s" % (m.group(1), m.group(2)), "how": unq(m.group(5))}, concrete=False, signature=sg))
    ast_sites = {}
    for f in shared:
        ast_sites.setdefault("astwrite:%s:%s:%s" % (f["file"], f["fn"], f["lhs"]), []).append(f)
    for sg in sorted(ast_sites):
        fs = ast_sites[sg]
        run.problems.append(Problem("direct", sg, {"what": "assignment through a parser.* value into memory shared with the stored program (static fact)",
                                                   "sites": ["%s:%d" % (f["file"], f["line"]) for f in fs], "how": fs[0]["how"]},
                                    concrete=False, signature=sg))

    other_sites = []
    if ok2:
        for f in parse_list("cellWriteFacts"):
            sg = "cellwrite:%s:%s:%s" % (f["file"], f["fn"], f["lhs"])
            other_sites.append(sg)
            run.problems.append(Problem("direct", sg, {"what": "a value is stored INTO an existing cell; cells are shared by every shallow copy of a cached table (cursors, derived temporary views, the restore point, rows already read)",
                                                       "site": "%s:%d" % (f["file"], f["line"])}, concrete=False, signature=sg))
        for f in parse_list("getterFacts"):
            if f["how"] in ("copy", "delegated"):
                continue
            sg = "getter:%s:%s:%s" % (f["file"], f["fn"], f["lhs"])
            other_sites.append(sg)
            run.problems.append(Problem("direct", sg, {"what": "a Get* accessor hands out a stored view without view.Copy(): the in-place steps of evaluation (WHERE compaction, ORDER BY, OFFSET, grouping, projection, record extension) then rewrite the stored table while reading it",
                                                       "site": "%s:%d" % (f["file"], f["line"])}, concrete=False, signature=sg))
        for f in parse_list("doubleCloseFacts"):
            sg = "doubleclose:%s:%s:%s" % (f["file"], f["fn"], f["lhs"])
            other_sites.append(sg)
            run.problems.append(Problem("direct", sg, {"what": "the current block / node of a scope is handed back to its pool here and again in the callee that receives the same scope: the pool will issue one block to two live scopes",
                                                       "site": "%s:%d" % (f["file"], f["line"]), "how": f["how"]}, concrete=False, signature=sg))

    if ok1 and ok2 and ok3 and ok4:
        run.obligations_for(["Csvq.Props.C14", "Csvq.Props.C14Lists"])

    before = len(run.problems)
    run.stream("c14", 420 if q else 10000, timeout=1500)
    if not q:
        for k in range(1, 3):
            run.stream("c14", 10000, seed_offset=k, timeout=1500)
    # a syntax tree that reads differently after execution, or a second evaluation that differs, where the
    # statement contains an aggregate applied to `*` as an analytic function, is the dynamic face of the
    # static site analytic_function.go:Analyze:fn.Args[0] (F8, fixed in 02f8662): should that site ever
    # reappear in the facts, its dynamic failures are reported under the same signature
    f8 = "astwrite:analytic_function.go:Analyze:fn.Args[0]"
    confirmed = set()
    star = re.compile(r"\(\*\)\s+OVER", re.I)
    for p in run.problems[before:]:
        if p.kind != "law" or not isinstance(p.detail, dict):
            continue
        case = p.detail.get("case")
        if not isinstance(case, dict) or f8 not in ast_sites:
            continue
        text = " ".join(str(case.get(k, "")) for k in ("before", "sql", "prepare", "declare", "cursor"))
        if star.search(text) and (p.name == "ast_unchanged" or p.name.startswith("repeat_eval:") or p.name.startswith("reread:")):
            p.signature = f8
            p.name = f8 + " (" + p.name + ")"
            confirmed.add(f8)
    for p in run.problems:
        if p.kind == "direct" and isinstance(p.detail, dict):
            p.detail["confirmed_dynamically"] = p.signature in confirmed

    extra = {
        "cell_writes_and_double_closes": other_sites, "list_writes_outside_discipline": list_sites, "discard_sites": len(dfacts), "conversions_not_fresh": conv_bad, "double_discards": dbl, "discard_sites_outside_discipline": sorted(bad_sites),
        "ast_writes_shared": sorted(ast_sites), "ast_writes_local_copy_or_fresh": len(local),
        "static_sites_confirmed_dynamically": sorted(confirmed),
        "grammar_statement_kinds": len(sk.get("grammarStatementKinds", [])), "executed_statement_kinds": len(sk.get("executedStatementKinds", [])),
        "grammar_operand_slots": len(sk.get("operandSlots", [])), "workloads_missing": missing_workloads,
    }
    if dfacts:
        run.cov["samples"] = ["discard site %s:%d %s(%s) fresh=%s usedAfter=%s escapes=%s" % (f["file"], f["line"], f["fn"], f["var"], f["fresh"], f["usedAfter"], f["escapes"])
                              for f in dfacts[:: max(1, len(dfacts) // 3)]][:3] + \
                             ["ast write %s:%d %s %s (%s)" % (f["file"], f["line"], f["fn"], f["lhs"], f["how"]) for f in (shared + local)[:2]] + run.cov["samples"]
    return run.finish(
        level="proof",
        rule="static: every value.Discard call site of lib/query and lib/value, every assignment / copy / sort of lib/query reaching through a parser.* value, every write through a value-list parameter ([]value.Primary / Cell / Record / RecordSet) and every call of an in-place writer with the origin of its argument, checked by kernel evaluation; dynamic: within-statement shapes (every aggregate / list / analytic function x DISTINCT / WITHIN GROUP / ORDER BY / frame between two probes of the same column, law same_expression_same_value_within_statement); expressions generated over every scalar function of the Functions map (argument types found by probing), arithmetic, comparison, logic, CASE, IN, BETWEEN, LIKE, IS, ANY/ALL, casts, in SELECT / WHERE / GROUP BY+aggregates / DISTINCT / analytic functions / JOIN / subqueries / UNION, each evaluated twice as plain statement, WHILE body, user-defined function body and prepared statement over 240 rows at @@CPU 4, plus re-reading tables, cursor rows and variables after unrelated statements, alternately with and without Discard poisoning (a fixed corpus incl. COUNT(*) OVER, NTH_VALUE, ORDER BY / PARTITION BY on text columns, comma-separated FROM lists and functions over datetime-typed temp-view cells / variables runs first in both modes; the generated kinds include those two shapes as well, plus: rows held by a cursor / derived temporary view / variable re-read after UPDATE, DELETE, REPLACE, ALTER on the base table and the base table after ROLLBACK (laws reread:held_rows, rollback_restores); adding a column (JSON_OBJECT over column references in every order, NOW, list aggregates WITHIN GROUP, analytic list functions, generated expressions) must leave the other columns of the result unchanged (law extra_column_changes_others); a statement that reads one WITH table twice (two scalar sub-queries, outer query + sub-query, UNION ALL) after an in-place step of the first read must give for the second read what a fresh read gives (law reread:inline_table); every built-in with NULL in each argument position on the main goroutine followed by a probe of the value pools (no object handed to two allocations) and, with poisoning on, by the hook's log of Discards of already discarded objects (law double_discard); DISPOSE of variables whose value object is shared with a table cell / cursor row / literal of a loop or function body / another variable, then same-type allocations and a re-read; unary plus / minus over every numeric class compared with multiplication by 1 / -1 and kept in variables across further allocations (law unary_identity); UPDATE … FROM / DELETE … FROM over one-to-many joins followed by single-record statements whose effect identifies the record touched (law dml_targets); user-defined aggregates followed by a probe of csvq's block / node pools (pairwise distinct, empty: pool_no_alias) and by a function with nested blocks compared with its results in the fresh process (repeat_eval:after_uda)); grammar-derived workloads (workloads.go: one or more templates per statement kind and per operand position of parser.y, the list compared with the regenerated grammar facts by Csvq.C14.every_statement_kind_has_workload / every_operand_slot_has_workload; every template x operand type {integer, float, string, numeric string, datetime, boolean, NULL} x holder {tree literal, variable, cursor-fetched variable, table cell via sub-query, column reference}, executed twice from one tree with GOMAXPROCS 1, pooled allocations and a full re-read of variables / operand table / cursor row / tree literals after each execution; every built-in scalar function argument by argument the same way (a sample per run in the quick tier, all in the thorough tier)); non-trivial = distinct (kind, statement form, error?, result-length class)",
        trusted_base=BASE_TRUST + [
            "extract/discardfacts: conservative syntactic facts (go/ast + go/types); callees are not analysed (value lists: one summary per function — writes through each list parameter, which parameters a list result may alias — propagated to a fixed point); mode stmtkinds reads the statement kinds / operand positions off the actions of parser.y (composite literals, fields filled from value symbols) and the workload table off harness/cmd/c14/workloads.go",
            "sync.Pool modelled as a free list (Csvq/Model/Pool.lean)"],
        checker_cmd="cd /verif && go run -C extract/discardfacts . discardfacts > lean/Csvq/Gen/DiscardFacts.lean && go run -C extract/discardfacts . astwritefacts > lean/Csvq/Gen/AstWriteFacts.lean && go run -C extract/discardfacts . stmtkinds > lean/Csvq/Gen/StmtKinds.lean && go run -C extract/discardfacts . listwritefacts > lean/Csvq/Gen/ListWriteFacts.lean && cd lean && lake build Csvq.Props.C14 Csvq.Props.C14Lists && lake env lean <#print axioms for every theorem>",
        extra_cov=extra,
    )
