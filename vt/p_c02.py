from .core import BASE_TRUST

META = {
    "category": "proof",
    "text": "Lean 4 theorems at the character level, for all tables (any rows/columns, any cell text, NULL distinguished): "
            "CSV/TSV - writer (go-text csv.Writer quoting rule + encodeCSV, which since /repo 3f80460 quotes fields containing CR/LF) and reader state "
            "machine (csv.Reader + loadViewFromCSVFile): csv_roundtrip, the FULL round trip to the canonical table (NULL = empty where one spelling) for "
            "every cell text, is the theorem that applies to the code (exceptions, both known findings with proved counter-witnesses: a single-column "
            "record that is one empty field, and CR as ending line break); rectangularity of the loaded view for ALL byte strings under every loader "
            "option; no cell shifts its neighbours; detected line break = written line break. "
            "LTSV - writer/reader model; refuse_or_spell (the writer accepts exactly the permitted labels/values), round trip for >= 2 distinct labels and no ':' "
            "in values (the pinned go-text reader drops ':' and skips one-field lines: counter-witnesses proved), rectangularity for all inputs. "
            "Fixed-length with explicit delimiter positions - refuse_or_spell (error iff positions do not increase or a text exceeds its column), round trip "
            "under 'no text contains CR/LF' for every byte-width function with width(' ') = 1, rectangularity for all inputs and positions. "
            "Fixed-length with AUTOMATIC positions - the writer's measure pass (width = largest byte size per column, running-sum positions, one blank "
            "between fields, padding by alignment) and go-text's Delimiter.Delimit heuristic as it is (Csvq.Model.FixedAuto: blank runs per line, "
            "NextSpaceEnd / PrevSpaceStart / CountColumnStatus / searchPosition); fixed_auto_roundtrip: a table whose cells and written header names are "
            "non-empty and contain no white space, and whose fields in every column but the first begin at the first byte of the column (left-aligned or "
            "as wide as the column), written with LF or CR LF, reads back - positions detected from the text alone - as the canonical table; the "
            "positions found are the column-wise largest value ends; counter-witnesses outside the predicate (right-aligned numbers of different "
            "lengths under a shorter header in a later column are split; inner blank; all-empty column). "
            "JSON and JSON Lines - model of go-text/json escaping (Escape / EscapeWithHexDigits / EscapeAll / EncodeRune / Unescape incl. surrogate "
            "pairs and invalid escapes), of Scanner.scanString, of the value <-> structure mapping (ParseValueToStructure / ConvertToValue), of the "
            "scanner + the grammar of parser.y (recursive descent) and of the table mapping for flat column names; proved: unescape(escape t s) = s for "
            "all three escape types and ALL code-point strings; the string token is read back unless the Backslash type meets a text ending in a "
            "backslash (counter-witness proved); the value round trip with its exact image (Integer -> Float text, Datetime -> String, Ternary -> "
            "Boolean/NULL, NaN/Inf -> NULL); the table round trip on TOKENS for JSON and JSON Lines (distinct flat column names, >= 1 record), "
            "rectangularity for ALL input texts, no shift; counter-witnesses for the empty table and for the String that is itself JSON text; "
            "the character level: json_scan_print - for every well-formed value (strings the scanner can delimit and that are not themselves JSON "
            "arrays/objects, number literals in every RFC 8259 spelling that are fixed points of the strconv profile) and all three escape types the "
            "printed characters scan to exactly the value's tokens, hence json_table_roundtrip_text / jsonl_table_roundtrip_text from text to text. "
            "JSON column names as paths (a.b -> nested objects; Csvq.Model.JsonPath = lib/json Path.Parse + addPathValueToRowStructure): "
            "json_paths_roundtrip - paths none of which is a prefix of another: the nested record holds exactly the (path, value) pairs of the table's "
            "record and every value is found at its path; json_flat_names (names without '.' and backslash = the flat writer); counter-witnesses: `a`,`a.b` "
            "refused, `a.b`,`a` and `a`,`a` write a duplicate key, `a..b` / `.a` / `a.` syntax errors, a backslash that starts a segment escapes nothing; "
            "refuse-or-spell for LISTS of names as a decision (Csvq.Json.pathsSpellable = every name a path, no path a prefix of another; "
            "paths_spellable_iff): json_spellable_written - the lists it accepts are written with every value at its own path; "
            "json_unparsable_refused - empty segments are refused; the wanted 'every other list is refused' does not hold for the code "
            "(json_refuse_or_spell_counterexample: a prefix path AFTER the longer path, and duplicates, are written). "
            "Transcoding - every round-trip theorem carries over to bytes through ANY encoder/decoder pair with dec(enc s) = s (roundtrip_encoded, "
            "csv/ltsv/fixed/json_roundtrip_encoded; refused_encoded: nothing written iff the writer or the encoding refuses); real Lean models of UTF-8, "
            "UTF-8 with BOM (BOMOverride) and UTF-16 BE/LE with ExpectBOM / IgnoreBOM / UseBOM exactly as golang.org/x/text does them (incl. its "
            "surrogate and trailing-byte replacement rules), proved sound for ALL texts (utf8_roundtrip, utf8m_roundtrip, utf16_roundtrip: all scalar "
            "values, surrogate pairs; utf16_usebom_roundtrip for texts not beginning with U+FEFF/U+FFFE, counter-witness proved); Shift_JIS stays an "
            "abstract sound pair. "
            "Not proved, covered by correspondence / law checks only: pretty printing, the embedding of JSON-looking strings (modelled, not in the "
            "theorems), the Shift_JIS tables, fixed-length automatic positions outside the predicate (a heuristic), and the 'updated file keeps its "
            "dialect' clause - checked as sequences: what csvq REPORTS for a table (SHOW FIELDS) after any sequence of changes and ALTER TABLE ... SET "
            "in one transaction is the dialect the model's encoder is run with, the committed bytes are compared with it and a fresh process reads them "
            "back under the reported attributes. "
            "REGENERATED from /repo on every run (extract/encfacts, go/ast -> Csvq/Gen/EncFacts.lean): the Quote decision of encodeCSV for record and "
            "header fields as Lean functions (gen_cell_quote_eq_model / gen_header_quote_eq_model: equal to the model's mustQuote for all inputs), "
            "jsonLineBreakDetector.scan / LineBreak translated statement by statement (gen_detector_first_line_break: first line break outside strings "
            "for ALL byte strings; gen_detector_chunks / gen_detector_reads: independent of how the bytes are cut into reads), and as fact lists "
            "proved equal to the reviewed ones: the options that reach the csv/ltsv/fixedlen writers, ConvertFieldContents per value type, "
            "EncodeEndingLineBreak, the attribute mapping of FileInfo.ExportOptions, every store of the five loaders into FileInfo, what the fixed-length "
            "loader hands to the position detection and to the record reader as data-flow terms (auto_positions_use_whole_file: for EVERY file "
            "fixedlen.NewDelimiter and fixedlen.NewReader get all of its bytes from the first one - not the 2048-byte head kept for the encoding "
            "detection, a reader that was read before is rewound; detected_positions_never_reach_the_writer: over every store into the "
            "delimiter positions of a FileInfo in lib/query, the flag stored next to it and the conditional override in FileInfo.ExportOptions - "
            "positions the loader DETECTED make the writer measure again, positions the user sets are what the writer gets, F112), and from the go-text "
            "module the tree's go.mod pins: fixedlen Measure / GeneratePositions / the InsertSpace separator / addField's padding by alignment "
            "(gen_fixedlen_eq_ref). "
            "Models tied to /repo on every run: model-encode = real EncodeView bytes (CSV/TSV/LTSV/fixed/JSON compact+pretty/JSONL), model-decode = "
            "real loader on arbitrary bytes (incl. generated and mutated JSON texts), model escape/unescape = go-text functions on code-point strings, "
            "model Delimit = fixedlen.Delimiter.Delimit and model automatic-position loader = real loader on written, mutated and hand-laid-out texts "
            "(c02.fpos, c02.deca), model transcoders = text.Encode / text.Decode on generated texts, mutated encodings and byte soup for the seven Unicode "
            "encodings (c02.tenc, c02.tdec; law transcode:<ENC>:roundtrip), path-named JSON columns in the jenc stream (refusals included), "
            "model-encode for (the table the statements must produce, the attributes csvq reports) = the file COMMITted after a sequence with "
            "ALTER TABLE ... SET, the model's refuse-or-spell decision for lists of JSON path names = what the real encoder does (c02.jspell), "
            "plus the write-then-read law on the real code alone for all six formats",
    "design_ref": "DESIGN.md section 5, C02",
    "note": "trusted: Lean kernel (axioms propext, Classical.choice, Quot.sound only); harness + driver; golang.org/x/text transcoders and go-text "
            "encoding detection (enter as a parameter: the model sees the text after transcoding); strconv/time formatting inside ConvertFieldContents "
            "(cell texts of non-strings are taken from the implementation); unicode.IsLetter / IsSpace tables. "
            "VERIF_C02_PENDING=1 switches on the generator cases of defects of the unchanged tree that are reported but not yet repaired / recorded "
            "(none at present: F102, F103 and F112 are fixed and their cases run by default; VERIF_C02_PENDING=0 switches them off)",
    "technique": "Lean 4 machine-checked proof over a hand-written model of writer and reader + differential correspondence and direct write-then-read laws on the Go implementation",
}


def run(run):
    q = run.tier == "quick"
    run.assumptions += [
        "JSON numbers are opaque atoms: for every number literal the harness supplies what strconv makes of it (ParseFloat then FormatFloat 'f'; "
        "'!' when ParseFloat fails); the JSON theorems quantify over all such profiles and assume AtomOK (the written decimal text is a fixed point)",
        "the JSON table round-trip theorems are for flat column names (no '.', no backslash: json_flat_names links them to the path-aware writer); code "
        "points U+E002..U+E007 outside strings (goyacc's private token numbers) are not modelled",
        "the format theorems are about texts (List Char); bytes enter through a codec with dec(enc s) = s, proved of the UTF-8 / UTF-8 BOM / UTF-16 models, "
        "assumed of golang.org/x/text's Shift_JIS; the harness compares the Unicode models with go-text and checks the composed behaviour for all "
        "encodings by the write-then-read law",
        "the delimiter is none of '\"', CR, LF (DelimOK); cell texts of Integer/Float/Boolean/Datetime values are what ConvertFieldContents returns",
        "CSV reader: all reader errors are one error value (messages are not compared); Go's rune look-ahead after CR is modelled by a pending-CR state",
        "csv_roundtrip (quoteLB = true) is the theorem cited for the code: the model writer is run with that rule, the real writer is probed on every run "
        "(a field containing CR/LF must come out quoted); a regression shows as law roundtrip:csv:linebreak_in_cell (probe + corpus witness) and as "
        "model/implementation differences in the enc stream",
        "a failed write-then-read law is attributed to a cause only if repairing exactly that cause in the input repairs the round trip on the real code "
        "(counterfactual re-runs); what no known cause explains is reported as roundtrip:<fmt>:other",
    ]
    # the decisions csvq itself takes (quoting, options handed to the writers, ExportOptions mapping, what the
    # loaders store into FileInfo, the JSON line break detector): regenerated from the tree under test
    run.regen("encfacts", ["go", "run", "-C", "extract/encfacts", "."], "Csvq/Gen/EncFacts.lean")
    run.obligations_for(["Csvq.Props.C02"])
    run.stream("c02", 10000 if q else 150000, timeout=3000)
    if not q:
        for k in range(1, 4):
            run.stream("c02", 100000, seed_offset=k, timeout=3000)
    return run.finish(
        level="proof",
        rule="a deterministic corpus first (one minimal witness per known finding, one per defect fixed in /repo that must now pass; header-less "
             "CSV/TSV files x LF/CRLF/CR x enclose-all x UTF-8/UTF-8 BOM/Shift_JIS through UPDATE + COMMIT must keep their bytes' dialect), then the "
             "refusal matrix (LTSV value with TAB / LF, LTSV label, fixed-length overflow, JSON path through a scalar; the unspellable cell in the "
             "first / a middle / the last record and field; sinks: EncodeView into a buffer, processor --out writer, processor stdout, and the csvq "
             "binary built from the tree under test: --out FILE new and existing, stdout, UPDATE + COMMIT, CREATE TABLE AS - zero bytes written, "
             "files unchanged, nothing left behind), the dialect witnesses (every format x every attribute FileInfo.ExportOptions carries - delimiter, "
             "positions, encoding, line break, header, enclose-all, JSON escape, pretty print - through UPDATE + COMMIT in a session whose own settings "
             "are the OPPOSITE; bytes compared with what the file's dialect writes), tables CREATED in the session (CREATE TABLE + INSERT + COMMIT and CREATE TABLE AS SELECT, in-process and through the csvq binary: "
             "the file must be what the EXPORT side prescribes - write-delimiter, write-encoding, without-header, line break, enclose-all, pretty print - "
             "with every import-side twin (delimiter, encoding, no-header, import-format) set differently; byte comparison, then re-import), JSON / "
             "JSON Lines files whose first line break lies at the buffer boundaries of the readers (first record of 2047..12288 bytes, CRLF / LF / CR; "
             "detected line break = model (op c02.jlb), dialect kept through UPDATE + COMMIT), the REAL line-break detector (hook query.VerifJsonLineBreak) on random byte strings weighted towards "
             "quotation marks, backslashes, CR, LF, CRLF: the whole text = model Json.firstBreak (op c02.jlb), and every two-way cut, byte-by-byte reads with "
             "empty reads, cuts after every CR / backslash / quotation mark and random cuts = the single read (law json_line_break_chunk_dependent), "
             "fixed-length texts read with AUTOMATIC positions (written with automatic positions, mutated, hand-laid-out word columns with mixed alignment, "
             "character soup: positions of fixedlen.Delimiter.Delimit = model, loaded table = model; tables whose column population CHANGES along the "
             "file - a column NULL in the first k records and filled after, filled first and NULL after, sparse after - in files of 2-27 KiB ending and "
             "changing on both sides of 2048 / 4096 / 8192 / 12288 bytes (thorough: 65536), with and without header line, LF / CRLF: positions and loaded "
             "table = the model's detection over the WHOLE text, and the write-then-read law with the failure attributed to "
             "positions_not_detected_on_whole_file when go-text's detector on the whole written file finds positions that read it back, to the "
             "heuristic (F16) otherwise; files laid out for and read with AUTOMATIC positions through UPDATE + COMMIT: still that layout, a longer "
             "value is accepted - laws dialect:fixed:automatic_positions_*), transcoding (random texts over all planes incl. U+FEFF / "
             "U+FFFE / astral: bytes of text.Encode = model for UTF8, UTF8M, UTF16, UTF16BE/LE, UTF16BEM/LEM; text.Decode of the written bytes, of mutations "
             "and of byte soup with lone surrogates, BOMs, odd lengths, ill-formed UTF-8 = model; law transcode:<ENC>:roundtrip), JSON column names as "
             "paths (prefixes of one another, duplicates, escapes, empty segments: written bytes or refusal = model; lists of names, both orders of every "
             "conflict: spelled lossless or refused = the model's decision, op c02.jspell, law refuse_or_spell:<fmt>:*), the attribute sequences in ONE "
             "transaction ({nothing, UPDATE, INSERT, DELETE, ALTER ADD, an earlier ALTER SET} x ALTER TABLE SET of every attribute - DELIMITER, "
             "DELIMITER_POSITIONS, FORMAT, ENCODING, LINE_BREAK, HEADER, ENCLOSE_ALL, JSON_ESCAPE, PRETTY_PRINT - to every other value x {nothing, a "
             "further UPDATE} x COMMIT on files of all six formats: the attributes SHOW FIELDS reports = those asked for; committed text = model "
             "encoder on (expected table, reported attributes), its bytes = model transcoder; a fresh processor and the csvq binary load the bytes "
             "under the reported attributes as that table; laws altered:<fmt>:*), terminal-only session flags (colour, width counting, statistics, "
             "format / encoding / delimiter / positions / header of the result stream) x the same sequences, x tables CREATED in the session, x --out: "
             "the same bytes as without the flag (laws session_flag_changes_committed_file / _created_file / _out_file), the commit histories (a COMMIT refused by an unspellable cell after "
             "more than 4 KiB of records, repair + DELETE, COMMIT again: committed bytes = those of a control run without the refused attempt; LTSV, "
             "fixed-length, CSV/TSV in Shift_JIS), then generated (incl. a share of refusal injections at random positions): "
             "tables of 0-50 rows x 1-6 columns, plus a size band of 280-700 records x 2-3 short columns around the loaders' prepared capacity "
             "(fileLoadingPreparedRecordSetCap = 300: 298-303, 301-380, 280-700) in the decode stream (CSV/TSV/LTSV/fixed, model = implementation) and in the "
             "write-then-read law (all six formats; law roundtrip:<fmt>:record_count); cells NULL / strings / integers / floats / booleans / ternaries / datetimes; string texts composed from "
             "delimiters (, ; | TAB blank :), quotation marks, backslashes, CR, LF, CRLF, leading/trailing blanks, non-ASCII (Latin-1, CJK, half-width kana, "
             "astral, NBSP, U+3000, U+2028, U+0085, U+FEFF, combining, zero-width), control characters, empty; header names simple or from the same "
             "repertoire; all six formats x LF/CRLF/CR x enclose-all x without-header x strip-ending-line-break x without-null x allow-uneven-fields x "
             "encodings; decode stream: real encodings, mutated encodings (insert/delete/duplicate/truncate) and random character soup incl. invalid UTF-8. "
             "non-trivial = distinct (stream, settings, character classes present, table shape, outcome) signature",
        trusted_base=BASE_TRUST + ["golang.org/x/text transcoders and go-text DetectInSpecifiedEncoding (the model is fed the decoded text)",
                                   "query.ConvertFieldContents for non-string values (text and alignment are taken from the implementation)"],
        checker_cmd="cd /verif/lean && lake build Csvq.Props.C02 && lake env lean <#print axioms for every theorem>",
    )
