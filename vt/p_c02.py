from .core import BASE_TRUST

META = {
    "category": "proof",
    "text": "Lean 4 theorems at the character level, for all tables (any rows/columns, any cell text, NULL distinguished): "
            "CSV/TSV - writer (go-text csv.Writer quoting rule + encodeCSV, which since /repo 3f80460 quotes fields containing CR/LF) and reader state "
            "machine (csv.Reader + loadViewFromCSVFile): csv_roundtrip, the FULL round trip to the canonical table (NULL = empty where one spelling) for "
            "every cell text, is the theorem that applies to the code (exceptions, both known findings with proved counter-witnesses: a single-column "
            "record that is one empty field, and CR as ending line break); rectangularity of the loaded view for ALL byte strings under every loader "
            "option; no cell shifts its neighbours; detected line break = written line break. "
            "LTSV - writer/reader model; refuse_or_spell (the writer accepts exactly the permitted labels/values), round trip for >= 2 distinct labels and no ':' "
            "in values (the pinned go-text reader drops ':' and skips one-field lines: counter-witnesses proved), rectangularity for all inputs. "
            "Fixed-length with explicit delimiter positions - refuse_or_spell (error iff positions do not increase or a text exceeds its column), round trip "
            "under 'no text contains CR/LF' for every byte-width function with width(' ') = 1, rectangularity for all inputs and positions. "
            "JSON and JSON Lines - model of go-text/json escaping (Escape / EscapeWithHexDigits / EscapeAll / EncodeRune / Unescape incl. surrogate "
            "pairs and invalid escapes), of Scanner.scanString, of the value <-> structure mapping (ParseValueToStructure / ConvertToValue), of the "
            "scanner + the grammar of parser.y (recursive descent) and of the table mapping for flat column names; proved: unescape(escape t s) = s for "
            "all three escape types and ALL code-point strings; the string token is read back unless the Backslash type meets a text ending in a "
            "backslash (counter-witness proved); the value round trip with its exact image (Integer -> Float text, Datetime -> String, Ternary -> "
            "Boolean/NULL, NaN/Inf -> NULL); the table round trip on TOKENS for JSON and JSON Lines (distinct flat column names, >= 1 record), "
            "rectangularity for ALL input texts, no shift; counter-witnesses for the empty table and for the String that is itself JSON text. "
            "Not proved, covered by correspondence / law checks only: the step characters -> tokens for punctuation, literals and numbers (numbers are "
            "opaque atoms with a harness-supplied strconv profile), pretty printing, the embedding of JSON-looking strings, nested column paths (a.b), "
            "fixed-length automatic delimiter positions (a heuristic), the transcoders (UTF-8/UTF-8 BOM/UTF-16/Shift_JIS), and the 'updated file "
            "keeps its dialect' clause. "
            "REGENERATED from /repo on every run (extract/encfacts, go/ast -> Csvq/Gen/EncFacts.lean): the Quote decision of encodeCSV for record and "
            "header fields as Lean functions (gen_cell_quote_eq_model / gen_header_quote_eq_model: equal to the model's mustQuote for all inputs), "
            "jsonLineBreakDetector.scan / LineBreak translated statement by statement (gen_detector_first_line_break: first line break outside strings "
            "for ALL byte strings; gen_detector_chunks / gen_detector_reads: independent of how the bytes are cut into reads), and as fact lists "
            "proved equal to the reviewed ones: the options that reach the csv/ltsv/fixedlen writers, ConvertFieldContents per value type, "
            "EncodeEndingLineBreak, the attribute mapping of FileInfo.ExportOptions, every store of the five loaders into FileInfo. "
            "Models tied to /repo on every run: model-encode = real EncodeView bytes (CSV/TSV/LTSV/fixed/JSON compact+pretty/JSONL), model-decode = "
            "real loader on arbitrary bytes (incl. generated and mutated JSON texts), model escape/unescape = go-text functions on code-point strings, "
            "plus the write-then-read law on the real code alone for all six formats",
    "design_ref": "DESIGN.md section 5, C02",
    "note": "trusted: Lean kernel (axioms propext, Classical.choice, Quot.sound only); harness + driver; golang.org/x/text transcoders and go-text "
            "encoding detection (enter as a parameter: the model sees the text after transcoding); strconv/time formatting inside ConvertFieldContents "
            "(cell texts of non-strings are taken from the implementation); unicode.IsLetter / IsSpace tables",
    "technique": "Lean 4 machine-checked proof over a hand-written model of writer and reader + differential correspondence and direct write-then-read laws on the Go implementation",
}


def run(run):
    q = run.tier == "quick"
    run.assumptions += [
        "JSON numbers are opaque atoms: for every number literal the harness supplies what strconv makes of it (ParseFloat then FormatFloat 'f'; "
        "'!' when ParseFloat fails); the JSON theorems quantify over all such profiles and assume AtomOK (the written decimal text is a fixed point)",
        "JSON column names are flat (no '.', no backslash): one object member per column; code points U+E002..U+E007 outside strings (goyacc's "
        "private token numbers) are not modelled",
        "text is modelled after transcoding (List Char): dec(enc s) = s for encodable s is assumed of golang.org/x/text; the harness checks the composed "
        "behaviour for UTF-8, UTF-8 with BOM, UTF-16 (BE/LE, with and without BOM) and Shift_JIS by the write-then-read law",
        "the delimiter is none of '\"', CR, LF (DelimOK); cell texts of Integer/Float/Boolean/Datetime values are what ConvertFieldContents returns",
        "CSV reader: all reader errors are one error value (messages are not compared); Go's rune look-ahead after CR is modelled by a pending-CR state",
        "csv_roundtrip (quoteLB = true) is the theorem cited for the code: the model writer is run with that rule, the real writer is probed on every run "
        "(a field containing CR/LF must come out quoted); a regression shows as law roundtrip:csv:linebreak_in_cell (probe + corpus witness) and as "
        "model/implementation differences in the enc stream",
        "a failed write-then-read law is attributed to a cause only if repairing exactly that cause in the input repairs the round trip on the real code "
        "(counterfactual re-runs); what no known cause explains is reported as roundtrip:<fmt>:other",
    ]
    # the decisions csvq itself takes (quoting, options handed to the writers, ExportOptions mapping, what the
    # loaders store into FileInfo, the JSON line break detector): regenerated from the tree under test
    run.regen("encfacts", ["go", "run", "-C", "extract/encfacts", "."], "Csvq/Gen/EncFacts.lean")
    run.obligations_for(["Csvq.Props.C02"])
    run.stream("c02", 10000 if q else 150000, timeout=3000)
    if not q:
        for k in range(1, 4):
            run.stream("c02", 100000, seed_offset=k, timeout=3000)
    return run.finish(
        level="proof",
        rule="a deterministic corpus first (one minimal witness per known finding, one per defect fixed in /repo that must now pass; header-less "
             "CSV/TSV files x LF/CRLF/CR x enclose-all x UTF-8/UTF-8 BOM/Shift_JIS through UPDATE + COMMIT must keep their bytes' dialect), then the "
             "refusal matrix (LTSV value with TAB / LF, LTSV label, fixed-length overflow, JSON path through a scalar; the unspellable cell in the "
             "first / a middle / the last record and field; sinks: EncodeView into a buffer, processor --out writer, processor stdout, and the csvq "
             "binary built from the tree under test: --out FILE new and existing, stdout, UPDATE + COMMIT, CREATE TABLE AS - zero bytes written, "
             "files unchanged, nothing left behind), the dialect witnesses (every format x every attribute FileInfo.ExportOptions carries - delimiter, "
             "positions, encoding, line break, header, enclose-all, JSON escape, pretty print - through UPDATE + COMMIT in a session whose own settings "
             "are the OPPOSITE; bytes compared with what the file's dialect writes), tables CREATED in the session (CREATE TABLE + INSERT + COMMIT and CREATE TABLE AS SELECT, in-process and through the csvq binary: "
             "the file must be what the EXPORT side prescribes - write-delimiter, write-encoding, without-header, line break, enclose-all, pretty print - "
             "with every import-side twin (delimiter, encoding, no-header, import-format) set differently; byte comparison, then re-import), JSON / "
             "JSON Lines files whose first line break lies at the buffer boundaries of the readers (first record of 2047..12288 bytes, CRLF / LF / CR; "
             "detected line break = model (op c02.jlb), dialect kept through UPDATE + COMMIT), the REAL line-break detector (hook query.VerifJsonLineBreak) on random byte strings weighted towards "
             "quotation marks, backslashes, CR, LF, CRLF: the whole text = model Json.firstBreak (op c02.jlb), and every two-way cut, byte-by-byte reads with "
             "empty reads, cuts after every CR / backslash / quotation mark and random cuts = the single read (law json_line_break_chunk_dependent), the commit histories (a COMMIT refused by an unspellable cell after "
             "more than 4 KiB of records, repair + DELETE, COMMIT again: committed bytes = those of a control run without the refused attempt; LTSV, "
             "fixed-length, CSV/TSV in Shift_JIS), then generated (incl. a share of refusal injections at random positions): "
             "tables of 0-50 rows x 1-6 columns, plus a size band of 280-700 records x 2-3 short columns around the loaders' prepared capacity "
             "(fileLoadingPreparedRecordSetCap = 300: 298-303, 301-380, 280-700) in the decode stream (CSV/TSV/LTSV/fixed, model = implementation) and in the "
             "write-then-read law (all six formats; law roundtrip:<fmt>:record_count); cells NULL / strings / integers / floats / booleans / ternaries / datetimes; string texts composed from "
             "delimiters (, ; | TAB blank :), quotation marks, backslashes, CR, LF, CRLF, leading/trailing blanks, non-ASCII (Latin-1, CJK, half-width kana, "
             "astral, NBSP, U+3000, U+2028, U+0085, U+FEFF, combining, zero-width), control characters, empty; header names simple or from the same "
             "repertoire; all six formats x LF/CRLF/CR x enclose-all x without-header x strip-ending-line-break x without-null x allow-uneven-fields x "
             "encodings; decode stream: real encodings, mutated encodings (insert/delete/duplicate/truncate) and random character soup incl. invalid UTF-8. "
             "non-trivial = distinct (stream, settings, character classes present, table shape, outcome) signature",
        trusted_base=BASE_TRUST + ["golang.org/x/text transcoders and go-text DetectInSpecifiedEncoding (the model is fed the decoded text)",
                                   "query.ConvertFieldContents for non-string values (text and alignment are taken from the implementation)"],
        checker_cmd="cd /verif/lean && lake build Csvq.Props.C02 && lake env lean <#print axioms for every theorem>",
    )
