#!/bin/sh
# run every thorough check once on the current tree (used with `vp run`): prints one verdict line per property
cd "$(dirname "$0")/.."
[ -d lean/.lake ] || ./setup.sh > setup.log 2>&1
for i in $(seq -w 1 20); do
  s=$(date +%s)
  ./check C$i --tier thorough > thorough_C$i.log 2>&1
  rc=$?
  echo "C$i rc=$rc $(( $(date +%s) - s ))s $(grep -E '^(OK|VIOLATION)' thorough_C$i.log | head -2 | cut -c1-200)"
  grep -E '^  - ' thorough_C$i.log | head -5 | cut -c1-300
done
