"""Confirm a seeded change in a scratch worktree and adopt it into /verif/seeded/<name>/:
   python3 -m vt.seedadopt <dir with patch.diff, demo.sh|demo_test.go, meta.json> <name> <Cxx> [<Cyy>...]
   Confirms: patch applies, builds, pinned tests pass with it, demonstration fails with it and passes
   without it; then runs the named checks against it (vt.seedtest) and records everything in meta.json."""
import json, os, re, shutil, subprocess, sys, tempfile
from pathlib import Path

VERIF = Path(__file__).resolve().parent.parent
GOENV = dict(os.environ, GOFLAGS="-mod=mod", GOPROXY="off", GOSUMDB="off", GOTOOLCHAIN="local")


def sh(cmd, cwd=None, timeout=1200):
    # the pinned tests share os.TempDir()/csvq_*_test: give every run a private TMPDIR
    tmp = tempfile.mkdtemp(prefix="seedtmp-")
    try:
        return _sh(cmd, cwd, timeout, dict(GOENV, TMPDIR=tmp))
    finally:
        shutil.rmtree(tmp, ignore_errors=True)


def _sh(cmd, cwd, timeout, env):
    p = subprocess.run(cmd, cwd=cwd, env=env, capture_output=True, text=True, timeout=timeout, shell=isinstance(cmd, str))
    return p.returncode, (p.stdout + p.stderr)


def run_demo(src, wt, meta):
    if (src / "demo.sh").exists():
        first = (src / "demo.sh").read_text(errors="replace").splitlines()[:1]
        shell = "bash" if first and "bash" in first[0] else "sh"
        return sh([shell, str(src / "demo.sh"), str(wt)], cwd=str(wt))
    tests = list(src.glob("*_test.go"))
    if tests:
        text = json.dumps(meta)
        # the package the demonstration belongs to: what its own `package` clause and the demo instructions say
        # (the first lib/<pkg> of the whole meta text is often the CHANGED file's package, not the test's)
        demo_text = json.dumps(meta.get("demo", "")) or text
        m = re.search(r"(?:\./)?(lib/[a-z]+)/?", demo_text) or re.search(r"(?:\./)?(lib/[a-z]+)/?", text)
        pkg = m.group(1) if m else "lib/query"
        pk = re.search(r"^package\s+(\w+)", tests[0].read_text(errors="replace"), re.M)
        if pk and pk.group(1).replace("_test", "") != pkg.split("/")[-1] and (wt / "lib" / pk.group(1).replace("_test", "")).is_dir():
            pkg = "lib/" + pk.group(1).replace("_test", "")
        tags = ["-tags", "verif"] if "verif" in text else []
        dst = wt / pkg / ("zz_seed_" + tests[0].name)
        shutil.copyfile(tests[0], dst)
        try:
            run = re.search(r"-run\s+(\S+)", text)
            if "-race" in text:
                tags = tags + ["-race"]
                os.environ["CGO_ENABLED"] = "1"
                GOENV["CGO_ENABLED"] = "1"
            cmd = ["go", "test", "-vet=off", "-count=1"] + tags + (["-run", run.group(1).strip("'\"`")] if run else []) + ["./" + pkg + "/"]
            return sh(cmd, cwd=str(wt))
        finally:
            dst.unlink(missing_ok=True)
    return 2, "no demonstration found"


def main():
    src, name, pids = Path(sys.argv[1]).resolve(), sys.argv[2], sys.argv[3:]
    meta = json.loads((src / "meta.json").read_text())
    base = Path(tempfile.mkdtemp(prefix="seedadopt-"))
    wt = base / "repo"
    conf = {}
    try:
        subprocess.run(["git", "-C", "/repo", "worktree", "add", "-q", "--detach", str(wt), "HEAD"], check=True)
        rc, out = run_demo(src, wt, meta)
        conf["demo_passes_without_change"] = (rc == 0)
        r = subprocess.run(["git", "-C", str(wt), "apply", "--3way", str(src / "patch.diff")], capture_output=True, text=True)
        conf["patch_applies_to_head"] = (r.returncode == 0)
        if r.returncode != 0:
            print("patch does not apply:", r.stderr[-400:])
        else:
            rc, out = sh(["go", "build", "./..."], cwd=str(wt))
            conf["builds"] = (rc == 0)
            rc, out = sh(["go", "test", "-vet=off", "-count=1", "./..."], cwd=str(wt))
            conf["pinned_tests_pass_with_change"] = (rc == 0)
            if rc != 0:
                print(out[-800:])
            rc, out = run_demo(src, wt, meta)
            conf["demo_fails_with_change"] = (rc != 0)
    finally:
        subprocess.run(["git", "-C", "/repo", "worktree", "remove", "--force", str(wt)], capture_output=True)
        shutil.rmtree(base, ignore_errors=True)
    print("confirmed:", conf)
    ok = all(conf.get(k) for k in ("patch_applies_to_head", "builds", "pinned_tests_pass_with_change", "demo_fails_with_change", "demo_passes_without_change"))
    checks = {}
    if ok and pids:
        p = subprocess.run([sys.executable, "-m", "vt.seedtest", str(src)] + pids, cwd=str(VERIF), capture_output=True, text=True, timeout=7200)
        for line in p.stdout.splitlines():
            if line.startswith("RESULT "):
                checks = json.loads(line[7:])
        for pid, r in checks.items():
            print(pid, "rc=%d" % r["rc"], (r["lines"] or [""])[-1][:160])
    if ok:
        dst = VERIF / "seeded" / name
        dst.mkdir(parents=True, exist_ok=True)
        for f in src.iterdir():
            if f.is_file():
                shutil.copyfile(f, dst / f.name)
        meta["confirmed_by_main"] = conf
        meta["head_at_confirmation"] = subprocess.run(["git", "-C", "/repo", "rev-parse", "--short", "HEAD"], capture_output=True, text=True).stdout.strip()
        meta["checks_run"] = {pid: {"exit_code": r["rc"], "detected": r["rc"] == 1, "first_lines": r["lines"][:4]} for pid, r in checks.items()}
        meta["what_was_run"] = "python3 -m vt.seedadopt (scratch worktree of /repo HEAD: demo without change, git apply, go build, go test ./..., demo with change; then vt.seedtest: ./check for the listed properties against the patched worktree in a scratch copy of /verif)"
        (dst / "meta.json").write_text(json.dumps(meta, indent=1))
        print("adopted as", dst)
    else:
        print("NOT adopted")
    return 0 if ok else 1


if __name__ == "__main__":
    sys.exit(main())
