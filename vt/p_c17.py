from .core import BASE_TRUST

META = {
    "category": "proof",
    "text": "Lean 4 theorems over ALL partitions, keys, cell contents, frames and offsets, on a model in the shape of analytic_function.go: partitions = one per distinct key in first-occurrence order holding exactly that key's records in view order, tiling the records (partition_spec, same_partition_iff, partitions_tile); ROW_NUMBER, RANK (1 + preceding non-peers), DENSE_RANK (peer classes so far), CUME_DIST and PERCENT_RANK (exact fractions) equal their textbook definitions for every symmetric-transitive peer relation whose classes are contiguous; NTILE fills buckets 1..n consecutively with sizes q+1 (first r) and q; FIRST_VALUE (with IGNORE NULLS, every ROWS frame), LAG and LEAD (with IGNORE NULLS, offsets, defaults) equal their definitions in full; LISTAGG/JSON_AGG OVER see the whole partition; every record receives the value of its own partition, independent of the worker split; other columns and the row count are unchanged. For the four places where the current code departs from the property the full statement is kept, a concrete counterexample is proved on the model of the current code and the partial theorem that holds is proved: LAST_VALUE reads the mirrored frame (last_value_mirrored / _partial / _counterexample), NTH_VALUE returns the last visited cell when the frame has fewer than n counted cells (nth_value_code / _partial / _counterexample), aggregates panic on an inverted frame (agg_over_partial / _counterexample), COUNT(*) OVER is rejected (count_star_over_rejected_counterexample). Model tied to /repo by differential correspondence through SQL at --cpu 1..8 (every function x PARTITION BY 0-2 x ORDER BY 0-3 items x every ROWS form x IGNORE NULLS), plus direct laws on the implementation: per-row value against the textbook definition with partitions/order/frames derived independently of the analytic code (aggregates by a separate real query over exactly the frame's rows), other columns unchanged, row count unchanged",
    "design_ref": "DESIGN.md section 5, C17",
    "note": "trusted: Lean kernel; harness + driver; the ORDER BY permutation comes from a separate real ORDER BY query (C07) and partition keys from the reference normalisation (C04); the peer relation is SortValues.EquivalentTo (C07's rowsEquiv) on homogeneous sort columns; CUME_DIST/PERCENT_RANK floats are the model's exact fraction rounded by the C06-validated float division; the built-in aggregates' own arithmetic is not modelled (only which cells they receive; checked by separate real queries); known findings are matched by specific law names (analytic:last_value_frame_mirrored, analytic:nth_value_short_frame, analytic:inverted_frame_fatal, analytic:count_star_over_rejected), anything else reports as analytic:<fn>:other",
    "technique": "Lean 4 machine-checked proof (refinement of the Go-shaped loops to per-row textbook definitions; reversal/mirroring lemmas for frames) + differential correspondence with the Go implementation + direct definitional laws",
}


def run(run):
    q = run.tier == "quick"
    run.assumptions += [
        "the view handed to Analyze is sorted by the clause's ORDER BY (view.OrderBy, property C07); with a unique last ORDER BY item that order is the one a separate ORDER BY query returns",
        "Peers: SortValues.EquivalentTo is symmetric and transitive and equivalent rows are adjacent in the sorted partition (holds on homogeneous sort columns; generator keeps sort columns homogeneous)",
        "Evaluate of the function's argument is a function of the record (no side effects), so the valueCache is only a memo",
        "float64(a)/float64(b) of the exact CUME_DIST/PERCENT_RANK fraction is computed by the model's IEEE division (validated by C06's arith stream)",
    ]
    run.obligations_for(["Csvq.Props.C17"])
    run.stream("c17", 3600 if q else 30000)
    if not q:
        for k in range(1, 4):
            run.stream("c17", 20000, seed_offset=k)
    return run.finish(
        level="proof",
        rule="temporary tables of 0-400 rows (ties, NULLs, single-row and many-row partitions, keys equal across types), --cpu 1-8; every analytic function (ROW_NUMBER, RANK, DENSE_RANK, CUME_DIST, PERCENT_RANK, NTILE incl. n > rows and n < 1, FIRST/LAST/NTH_VALUE, LAG, LEAD with offsets/defaults, COUNT/COUNT(*)/SUM/AVG/MIN/MAX/MEDIAN/STDEV(P)/VAR(P) incl. DISTINCT, LISTAGG, user-defined aggregates with and without extra argument) x PARTITION BY 0-2 columns x ORDER BY 0-2 items with directions and NULLS FIRST/LAST (+ unique id item in most cases; otherwise only tie-order-insensitive functions) x every ROWS frame form of the grammar (incl. empty and inverted frames) x IGNORE NULLS; sort / partition columns holding equal numbers in mixed notation (1, 1.0, '1', ' 1 ', '1e0'; 0, '-0.0') in every order inside the tie group; 2-3 analytic functions in one select list compared per row with each function alone (analytic:multi_function_inconsistent); analytic functions over derived tables / CTEs that themselves contain an analytic function, with permuted and renamed select lists, through DISTINCT / GROUP BY / LIMIT-OFFSET, checked like every case against the derived rows and against the same query over a plain table holding those rows (analytic_over_derived_eq_over_materialised); non-trivial = distinct (function, frame form, IGNORE NULLS, #partition columns, #order items, uniqueness, partition-count band, row band) signature",
        trusted_base=BASE_TRUST + ["separate real ORDER BY query as the reference order (C07)", "reference key normalisation for partitions (C04)"],
        checker_cmd="cd /verif/lean && lake build Csvq.Props.C17 && lake env lean <#print axioms for every theorem>",
    )
