from .core import BASE_TRUST

META = {
    "category": "proof",
    "text": "Lean 4 theorems over the statement wrapper stmtImpl of the C05 model (the DML body works on copies obtained from the view map and publishes them - CachedViews.Set / ReplaceTemporaryTable - and sets the uncommitted marks only after the whole body succeeded): a statement that reports an error is the identity on tables, uncommitted marks and committed state, for every statement and every failure position (the index of the failing VALUES row / record / DEFAULT evaluation is universally quantified: any record may fail after earlier records were already rewritten in the working copy); a COMMIT after a failure writes exactly what a COMMIT before it would have written, in any history; COMMIT writes marked tables only. Cancellation is modelled too: every context check of every DML function precedes the publication of its results (Delete checks once between collecting the ids and its publication loop, repair 2dda37b), so a statement cancelled at ANY point is the identity on tables, marks and committed state (failed_stmt_id_cancel, full); the publication loop as it was before the repair is kept as a separate definition with its counter-witness and partial theorem. Model tied to /repo by a correspondence stream that runs every generated C05 statement additionally with an error injected at record k (division by zero in the k-th record's SET / VALUES / DEFAULT / WHERE expression or sub-query, wrong length of the k-th VALUES row, unknown field, record written twice, duplicate / unknown column, CREATE TABLE errors, cancellation at the k-th ctx.Err() call; failures that come AFTER the source query / scalar sub-query was evaluated: unknown column or key in INSERT/REPLACE … SELECT, wrong column count; the same inside IF / WHILE / function bodies / PREPARE-EXECUTE) and checks on the implementation alone that SELECT * of EVERY table and the uncommitted marks are identical before/after, that no table shows a value object the failed statement discarded (half of the sequences run with lib/value's poisoning hook on: law poisoned_read), and that the files after COMMIT are byte-identical to those of a control run without the failed statements - including 'COMMIT fails at the k-th context check (bytes already in the temporary files) -> the data is made shorter -> COMMIT again' histories for every k (laws failed_commit_changed_table / _marks / _file, commit_after_failed_commit_differs)",
    "design_ref": "DESIGN.md section 5, C08",
    "note": "trusted: Lean kernel; harness + driver; value semantics of the model (a copy is a value) - that the Go code writes only into copies is exactly what the before/after stream observes; the aliasing facts of DESIGN (Gen/CowFacts) are not generated; cancellation is injected through a context whose Err() starts failing at the k-th call (deterministic with @@CPU 1, still a valid law check otherwise); it is checked by the laws on the implementation alone, the model side is failed_stmt_id_cancel",
    "technique": "Lean 4 machine-checked proof (publish-after-success wrapper, error propagation for every failure position, commit algebra) + fault-injecting differential correspondence with the Go implementation and a control run",
}


def run(run):
    q = run.tier == "quick"
    run.assumptions += [
        "value-semantics model: ViewMap.Get / GetWithInternalId / View.Copy return copies whose records are private (lib/query/view_map.go, record.go) - validated by the before/after stream, not proved about the Go code",
        "cancellation points of the model: inBody (any context check while loading / filtering / evaluating) and beforePublish (Delete's single check before its publication loop); that no publication loop contains a context check is validated by the scan that cancels a multi-target DELETE / UPDATE at EVERY ctx.Err() call (law cancelled_statement_changed_table, fixed finding F42)",
    ]
    run.assumptions += [
        "a failed COMMIT is outside the model's statement type: it is checked on the implementation alone (tables, marks and files unchanged by the failed COMMIT; the next COMMIT writes byte for byte what the control run writes), the model only sees the surrounding statements and the successful COMMIT",
        "a failed statement may open a table (new hidden lock / temporary files) but removes no directory entry and creates no visible file (law failed_statement_changed_files)",
        "the poisoning hook (build tag verif, value.VerifSetPoison) makes a read of a discarded live value deterministic; it is process-global and switched per sequence",
    ]
    run.obligations_for(["Csvq.Props.C08"])
    run.stream("c08", 2500 if q else 30000)
    if not q:
        for k in range(1, 4):
            run.stream("c08", 20000, seed_offset=k)
    return run.finish(
        level="proof",
        rule="the statement generator of C05 (file-backed, temporary and STDIN tables of 0-400 rows, @@CPU 1-4, sequences with interleaved COMMIT / ROLLBACK) with 1-2 faulty statements before every regular one; corpus first (cancellation at every ctx.Err() call of two-target UPDATE/DELETE; the same over 40- and 100-record file tables re-loaded before every attempt, so that the check falls into the LOADING; CREATE TABLE failing while tables are open - name colliding case-insensitively with an open table, existing file, duplicate columns, failing AS SELECT - with the directory incl. lock/temp files compared (law failed_statement_changed_files); failures after the source query was evaluated, each followed by allocating statements, with poisoning; COMMIT failing at every context check then shorter data then COMMIT, three file tables two of them larger than the write buffer); fault kinds: div (k-th record's SET/VALUES/DEFAULT), subq (scalar sub-query / INSERT..SELECT / CREATE..AS SELECT), where, len (k-th VALUES row / select width), field, dup (SET twice, multi-table double write, duplicate column), keynotset, keyfield, pos, exists, cancel (k-th ctx.Err() call, incl. a scan over every k for multi-target DELETE/UPDATE); k drawn over first / middle / last / absent records; non-trivial = distinct (statement kind, fault, error code, storage, size band, failure position, cpu) signature of FAILED statements",
        trusted_base=BASE_TRUST + ["the control run (a second processor on a copy of the repository) as the oracle for 'earlier successful statements only'"],
        checker_cmd="cd /verif/lean && lake build Csvq.Props.C08 && lake env lean <#print axioms for every theorem>",
    )
