from .core import BASE_TRUST, REPO

META = {
    "category": "proof",
    "text": "Lean 4 theorems over a model of the cursor state machine (all row lists, pointers, int64 offsets and operation histories): pointer invariant, exact positioning of FETCH, WHILE IN visits every row once in order, COUNT / IS OPEN / IS IN RANGE agree with the state, closed / reopened / undeclared cursors are errors, rows handed out between OPEN and CLOSE are those of the OPEN-time result. The arithmetic of (*Cursor).Fetch / IsInRange / Count is regenerated from lib/query/cursor.go on every run and proved equal to the model, and so are Cursor.Open / Close / IsOpen / Pointer, CursorMap.Declare / AddPseudoCursor / Dispose and evalCursorStatus (Lean definitions proved equal to the model's open / close / status / declare / dispose for every state), the whole statement skeleton of WhileInCursor, the delegating CursorMap methods, the strings.ToUpper key helpers, the constructors and the block walks of ReferenceScope (effect lists compared with hand-reviewed Ref/CursorOps.lean), the lock discipline of every function of cursor.go (every control-flow path: Lock followed by an explicit or deferred Unlock before every return), and the fact that WhileInCursor looks the cursor up by name inside its loop (processor.go, query.go, eval.go, reference_scope.go); the model has blocks (innermost-first lookup) and WHILE IN with a body, with theorems that a disposed / closed cursor ends the loop with the error and that every row handed to the body comes from the cursor the name denotes at that moment; the rest is tied by a differential run of the real processor (SQL text) against the compiled model, with direct law checks. Exact positioning (fetch_spec) is proved in full for every int64 offset; the int64 overflow of FETCH RELATIVE (finding F9, fixed in /repo 63b833c) stays under watch as harness law fetch_spec_relative_overflow",
    "design_ref": "DESIGN.md section 5, C16",
    "note": "trusted: Lean kernel (axioms propext, Classical.choice, Quot.sound only), the go/ast translator extract/cursorfetch (fails on any construct outside its subset), harness + driver; the view is a value in the model: that the implementation never aliases it with the table is what the differential run with interleaved DML checks; a Go slice has fewer than 2^63-1 records (hypothesis LenOK)",
    "technique": "Lean 4 machine-checked proof over a model whose integer arithmetic is regenerated from the Go source + differential correspondence with the Go implementation",
}


def run(run):
    q = run.tier == "quick"
    run.assumptions += [
        "Go int is 64 bit (model: wrap64 at every + and - of cursor.go); a view holds fewer than 2^63-1 records (LenOK)",
        "the result of the cursor's query at OPEN time enters the model as an argument of `open` (computed by the harness from its own shadow copy of the table, not by csvq); query evaluation itself is C03/C07's subject",
        "cursor names in the correspondence run are ASCII (the model upper-cases with Char.toUpper)",
        "the number of FETCH RELATIVE is an int64 (NumberOK; FetchCursor converts with int(i.Raw()))",
    ]
    run.regen("cursorfetch", ["go", "-C", "extract/cursorfetch", "run", ".", str(REPO / "lib" / "query" / "cursor.go")],
              "Csvq/Gen/CursorFetch.lean")
    q_dir = REPO / "lib" / "query"
    run.regen("cursorloop", ["go", "-C", "extract/cursorfetch", "run", ".", "loop", str(q_dir / "processor.go"), str(q_dir / "query.go"),
                             str(q_dir / "reference_scope.go")], "Csvq/Gen/CursorLoop.lean")
    run.regen("cursorops", ["go", "-C", "extract/cursorfetch", "run", ".", "ops", str(q_dir / "cursor.go"), str(q_dir / "processor.go"),
                            str(q_dir / "eval.go"), str(q_dir / "reference_scope.go"), str(q_dir / "query.go")], "Csvq/Gen/CursorOps.lean")
    run.regen("cursorlocks", ["go", "-C", "extract/cursorfetch", "run", ".", "locks", str(q_dir / "cursor.go")], "Csvq/Gen/CursorLocks.lean")
    run.obligations_for(["Csvq.Props.C16"])
    run.stream("c16", 3000 if q else 300000)
    if not q:
        for k in range(1, 5):
            run.stream("c16", 200000, seed_offset=k)
    return run.finish(
        level="proof",
        rule="scripted histories (RELATIVE +-2^63 from inside / before the result, empty result with every position, DML between OPEN and WHILE IN, clamping then PRIOR/NEXT, every error case) followed by random histories of DECLARE/OPEN/FETCH/WHILE IN (with BREAK, with DML on the underlying table inside the body)/CLOSE/DISPOSE/COUNT/IS [NOT] OPEN/IS [NOT] IN RANGE and structured programs (the life-cycle statements CLOSE / DISPOSE / shadowing DECLARE / re-OPEN / DISPOSE of the shadowing cursor and FETCH / status statements INSIDE a WHILE IN body — directly, in an IF block guarded by the iteration number, or in a function called from the body —, the loop itself inside a block that declares a shadowing cursor, and the same statements in a nested block at top level; the harness simulates blocks innermost-first with the loop fetching by name on every iteration and compares traces: laws while_in_disposed_is_error, while_in_closed_is_error, while_in_follows_current_binding, block_scoping) on up to 3 cursors (case-variant names) over 10 cursor sources (6 query shapes, cursors FOR a prepared statement without and with a placeholder — OPEN … USING k, also OPEN of an open one with another value —, a query with an observable side effect (@cnt := @cnt + 1 directly or through a user-defined function; law open_evaluates_once: one evaluation per accepted OPEN, none for a refused one), a cursor over a temporary view; the prepared statement / the view are disposed and restored during the history: law open_source_gone, refused OPEN stays \"already open\") ; FETCH / WHILE with a number of variables that differs from the cursor's columns (law fetch_length_mismatch: the pointer moves, error 11007 only when a row came back), the ABSOLUTE / RELATIVE number spelled as arithmetic, float, float-string and padded-string expressions, calls of a user-defined aggregate whose body works on its pseudo cursor and on the caller's cursors (law pseudo_cursor: OPEN / CLOSE / DISPOSE of it are error 11006), redundant CLOSEs; every statement runs under a watchdog (law cursor_operation_never_returns with the history as replay)) on a temporary or CSV-file table of 0-50 rows, interleaved with INSERT/UPDATE/DELETE/COMMIT/ROLLBACK; offsets from {0, +-1, +-len, +-(len+-1), in range, just out of range, +-2^62, 2^63-1-len, +-(2^63-1), -2^63, maxint-pointer(+1), random 64 bit}; non-trivial = distinct (table kind, query, result-size class, pointer class, position, offset class, overflow, outcome, DML-since-OPEN) signature",
        trusted_base=BASE_TRUST + ["extract/cursorfetch: go/parser + go/ast translation of (*Cursor).Fetch/IsInRange/Count/Open/Close/IsOpen/Pointer, CursorMap.Declare/AddPseudoCursor/Dispose and evalCursorStatus to Lean definitions, and of WhileInCursor / the delegating methods / the scope walks to effect lists (exits non-zero outside its subset; calls it does not review appear as tokens or parameters)", "Ref/CursorOps.lean: the hand-reviewed reading of the skeletons",
                                   "the harness' shadow evaluation of its fixed query shapes (table order, ORDER BY id [DESC], id % 2 = 0, LIMIT k, column swap, single column, id > k, the three rows of sv)"],
        checker_cmd="cd /verif && go -C extract/cursorfetch run . /repo/lib/query/cursor.go > lean/Csvq/Gen/CursorFetch.lean && cd lean && lake build Csvq.Props.C16 && lake env lean <#print axioms for every theorem>",
    )
