from .core import BASE_TRUST

META = {
    "category": "proof",
    "text": "Lean 4 theorems: the joined comparison key is uniquely decodable (injective) for every character repertoire; two rows share a bucket iff their normalised tuples are equal; GROUP BY over any split of the rows into worker chunks equals the sequential specification (keys in first-occurrence order, members exactly the rows of that key in row order). The SHAPE of the keys is regenerated from lib/query/utils.go on every run (extract/keyfacts: the conversion ladder of SerializeKey in order with the writer of each rung, the type switch of SerializeIdenticalKey, the tag bytes and payload of every writer, separator, escape rule, -0 folding) and gen_ladder_eq_model / gen_strict_ladder_eq_model / gen_separator_and_escape / gen_tags_distinct / gen_payloads_eq_ref prove it equal to what the model's norm / tagOf / serKeys / escKey assume. Model also tied to /repo by differential correspondence: key bytes of SerializeComparisonKeys, GROUP BY / DISTINCT / UNION / EXCEPT / INTERSECT through SQL at --cpu 1..8, value pools seeded with families of equal values spelled / typed differently (1, 1.0, 1e0, ' 1 '; 1.5, 1.50, 15e-1; ±0; case variants; date spellings); law checks on the implementation: every aggregate (incl. DISTINCT forms, list aggregates WITHIN GROUP (ORDER BY expression), a user-defined aggregate) over a bucket equals the aggregate over exactly that bucket's rows, the same over a derived table, and the DISTINCT option of aggregates (plain, GROUP BY, OVER PARTITION BY, --strict-equal) uses the buckets of SELECT DISTINCT",
    "design_ref": "DESIGN.md section 5, C04",
    "note": "trusted: Lean kernel; harness + driver; strconv integer/float texts enter as a KeyText parameter assumed injective and free of ':' and '\\' (checked per observed text by the correspondence); aggregates' own arithmetic is not modelled (only which rows they see); datetime keys use UnixNano (int64 wrap for years outside 1678-2262 is modelled as in the code)",
    "technique": "Lean 4 machine-checked proof (decoder-based injectivity, refinement of chunked grouping to a sequential spec) + differential correspondence with the Go implementation",
}


def run(run):
    q = run.tier == "quick"
    run.assumptions += [
        "KeyTextOK: strconv.FormatInt / FormatFloat texts are injective and contain neither ':' nor '\\'",
        "strings enter with the coercion profile reported by the real value.To* functions",
    ]
    run.regen("keyfacts", ["go", "run", "-C", "extract/keyfacts", "."], "Csvq/Gen/KeyFacts.lean")
    run.obligations_for(["Csvq.Props.C04"])
    run.stream("c04", 1200 if q else 40000)
    if not q:
        for k in range(1, 4):
            run.stream("c04", 20000, seed_offset=k)
    return run.finish(
        level="proof",
        rule="key tuples of 1-3 columns over an alphabet over-weighting ':' '[' ']' '\\' 'S' 'I' 'N' 'F', case/space variants, values equal across types, NULLs, -0.0; tables of 0-560 rows with few distinct keys, --cpu 1-8, --strict-equal on/off; non-trivial = distinct (stream, strictness, columns, bucket count / equality outcome) signature",
        trusted_base=BASE_TRUST + ["KeyText (strconv texts) as a parameter with the injectivity / cleanliness assumption"],
        checker_cmd="cd /verif/lean && lake build Csvq.Props.C04 && lake env lean <#print axioms for every theorem>",
    )
