from .core import BASE_TRUST

META = {
    "category": "proof",
    "text": "Lean 4 theorems (the comparison functions SortValue.Less, SortValue.EquivalentTo and the loop body of SortValues.Less are TRANSLATED from sort_value.go on every run by extract/sortfacts and proved equal to the model's less / equiv / rowsLess for all sort values: gen_sortLess_eq_model, gen_sortEquiv_eq_model, gen_rowsLess_step; only the --strict-equal prefix is left out, its text compared with a reviewed one): on comparable sort-key columns (numbers with exact float reading, datetimes, text, NULLs) the row comparison handed to sort.Sort equals the lexicographic order of per-column keys in a strict total order, hence is a strict weak order (irreflexive, transitive, ties transitive), with ASC/DESC and NULLS FIRST/LAST; OFFSET = drop max(n,0); LIMIT = take; WITH TIES = take k ++ takeWhile (equivalent to the last kept row); LIMIT is always a prefix; NaN percentage refused; the reference sort orderBy is a sorted permutation, EVERY sorted permutation carries the reference's key sequence (sorted_perm_keys_unique), EquivalentTo is equality of keys (equivalent_iff_keys_equal) and OFFSET / LIMIT / WITH TIES cut the same keys out of every sorted permutation (cut_keys_unique). Model tied to /repo by differential correspondence through SQL: the implementation's ORDER BY output is checked sorted by the model's comparison (ties free), and OFFSET/LIMIT/PERCENT/WITH TIES results are compared exactly against the model applied to that order; the query in front of ORDER BY varies (DISTINCT, analytic functions with their own ORDER BY / PARTITION BY, GROUP BY, derived table, WHERE), cut positions range over the whole table, and LIMIT p PERCENT is compared on a dense (row count, percentage) grid",
    "design_ref": "DESIGN.md section 5, C07",
    "note": "trusted: Lean kernel; harness + driver; sort.Sort's contract (sorted permutation for a strict weak order) is assumed, the permutation part is checked directly on every output; coercion profiles; the PERCENT count uses the model's float arithmetic (validated by C06's arith stream)",
    "technique": "Lean 4 machine-checked proof (order isomorphism to a lexicographic key order; list lemmas for the cuts) + differential correspondence with the Go implementation",
}


def run(run):
    q = run.tier == "quick"
    run.assumptions += [
        "sort.Sort returns a permutation sorted w.r.t. Less when Less is a strict weak order (Go stdlib contract); permutation re-checked on every output",
        "domain of the order theorems: per sort column all numbers (integers exactly representable as float64), or all datetimes within the UnixNano range, or all text, plus NULLs - as in the property; mixed integers beyond 2^53 with floats are outside (reported under their own signature)",
    ]
    run.regen("sortfacts", ["go", "run", "-C", "extract/sortfacts", "."], "Csvq/Gen/SortFacts.lean")
    run.regen("limitfacts", ["go", "run", "-C", "extract/limitfacts", "."], "Csvq/Gen/LimitFacts.lean")
    run.obligations_for(["Csvq.Props.C07"])
    run.stream("c07", 1800 if q else 16000)
    if not q:
        for k in range(1, 4):
            run.stream("c07", 8000, seed_offset=k)
    return run.finish(
        level="proof",
        rule="tables of 0-350 rows, 1-3 sort columns each homogeneous (numeric incl. NaN/Inf/-0/2^53 and numeric strings; datetimes as values and strings; text) with NULLs and duplicates, every ASC/DESC x NULLS FIRST/LAST/default combination, --cpu 1-8; limits in {<0,0,1,..,len-1,len,len+1,huge}, percents in {<0,0,0.5,..,100,>100,NaN,+-Inf}, offsets incl. negative and beyond the end, WITH TIES; non-trivial = distinct (items, size band, cut parameters) signature",
        trusted_base=BASE_TRUST + ["sort.Sort contract"],
        checker_cmd="cd /verif/lean && lake build Csvq.Props.C07 && lake env lean <#print axioms for every theorem>",
    )
