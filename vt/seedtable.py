"""Print markdown rows (seed | change | caught by) for the named seeds, from seeded/<name>/meta.json and seeded/STATUS.json:
   python3 -m vt.seedtable [--status FILE] <glob-or-name> ...      e.g.  python3 -m vt.seedtable 'C*-m17' 'C*-m18'"""
import json, re, sys
from pathlib import Path

VERIF = Path(__file__).resolve().parent.parent


def short(s, n):
    s = " ".join(str(s).split())
    return s if len(s) <= n else s[: n - 1].rsplit(" ", 1)[0] + " …"


def kind_of(line):
    m = re.match(r"\s*- \[(\w+)\] ([^:]+):", line)
    return "%s `%s`" % (m.group(1), m.group(2).strip()) if m else None


def main():
    args = sys.argv[1:]
    status_file = VERIF / "seeded" / "STATUS.json"
    if args and args[0] == "--status":
        status_file, args = Path(args[1]), args[2:]
    status = {}
    if status_file.exists():
        status = json.loads(status_file.read_text()).get("seeds", {})
    names = []
    for a in args:
        names += sorted(d.name for d in (VERIF / "seeded").glob(a) if (d / "meta.json").exists())
    key = lambda n: (n.split("-")[0], int(re.sub(r"\D", "", n.split("-")[1]) or 0))
    for n in sorted(set(names), key=key):
        meta = json.loads((VERIF / "seeded" / n / "meta.json").read_text())
        checks = {}
        for pid, c in meta.get("checks_run", {}).items():
            checks[pid] = (c.get("detected"), c.get("first_lines", []))
        for pid, c in status.get(n, {}).get("checks", {}).items():
            checks[pid] = (c.get("rc") == 1, c.get("lines", []))          # the sweep is the later measurement
        caught = []
        for pid, (det, lines) in sorted(checks.items()):
            if det:
                kinds = [k for k in (kind_of(l) for l in lines) if k]
                seen, ks = set(), []
                for k in kinds:
                    if k not in seen:
                        seen.add(k); ks.append(k)
                caught.append("%s %s" % (pid, ", ".join(ks[:3]) if ks else ""))
        if status.get(n, {}).get("applies") is False:
            caught.append("(patch no longer applies to HEAD: the code it changed was repaired since)")
        print("| %s | %s | %s |" % (n, short(meta.get("summary", ""), 230).replace("|", "/"), "; ".join(caught) or "**missed by the quick tier**"))


if __name__ == "__main__":
    main()
