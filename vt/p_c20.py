from .core import BASE_TRUST

META = {
    "category": "proof",
    "text": "Lean 4 theorems over the session machine of C01 with commits by other processes as explicit steps: read_stable - once a table is loaded, a later read shows exactly the loaded data plus the transaction's own changes whatever other processes commit in between; locked_file_protected; own_changes_visible; reload_exception / no_second_reload - the only reload is the first update access after a plain SELECT, never again; fresh_after_commit / fresh_after_rollback; full-history forms (locked_view_is_own_changes, read_shows_loaded_plus_own_changes, unlocked_view_stable: ANY interleaving of own statements with foreign commits up to the next COMMIT/ROLLBACK). The cache decision of cacheViewFromFile is REGENERATED from load_view.go / transaction.go on every run (extract/cachefacts: the reload condition and the ForUpdate flag assignment as Bool functions, the structured effects of the load branch, the cache clearing at COMMIT/ROLLBACK) and load_eq_gen proves the model's `load` equal to the one written with the regenerated condition; gen_cache_load_eq_ref, gen_plain_read_releases, gen_flag_set_on_every_load, gen_dispose_before_reload, gen_failed_locked_load_releases, gen_cache_cleared_at_end are theorems over the regenerated lists; gen_locked_load_opens_after_lock / gen_plain_load_opens_after_rlock (extract/fsproto, regenerated from lib/file/handler.go): the table is opened only after the lock file exists, which is what makes the model's locked load (it reads the current file) true of the code. Also tied to /repo by the same differential histories as C01, where the harness plays the other process and rewrites a file between two statements whenever the transaction holds no lock on it",
    "design_ref": "DESIGN.md section 5, C01 and C20",
    "note": "trusted: Lean kernel; harness + driver; a second real csvq process would be blocked by the lock (C09) exactly when the harness refrains from writing; the in-procedure external writer ($sh) variant is not used",
    "technique": "Lean 4 machine-checked proof over a session state machine with environment steps + regenerated cache decision (extract/cachefacts) + differential correspondence with an injected second writer",
}


def run(run):
    q = run.tier == "quick"
    run.regen("cachefacts", ["go", "run", "-C", "extract/cachefacts", "."], "Csvq/Gen/CacheFacts.lean")
    run.regen("fsproto", ["go", "run", "-C", "extract/fsproto", "."], "Csvq/Gen/FsProto.lean")
    run.obligations_for(["Csvq.Props.C20"])
    csvq = run.build_csvq()
    # the real-process part of this stream is the locked reload only (the endings corpus belongs to C01)
    env = {"VERIF_CSVQ": str(csvq), "VERIF_RELOAD": "only"} if csvq else {}
    run.stream("c01", 500 if q else 4000, seed_offset=100, model="C01", timeout=3000, env=env)
    if not q:
        run.stream("c01", 3000, seed_offset=101, model="C01", timeout=3000)
    return run.finish(
        level="proof",
        rule="as C01 (in-process part): histories with other-process commits injected between statements; non-trivial = distinct (ending, length, final disk) signature",
        trusted_base=BASE_TRUST + ["extract/cachefacts and extract/fsproto (go/ast, fail closed; unreviewed calls become call(fn) tokens)"],
        checker_cmd="cd /verif/lean && lake build Csvq.Props.C20 && lake env lean <#print axioms for every theorem>",
    )
