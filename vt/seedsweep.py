"""Regression sweep: run every adopted seeded change against the CURRENT checks.
   python3 -m vt.seedsweep [-j N] [--snapshot DIR] [--out FILE] [<seed-name> ...]
   One scratch copy of /verif (or of --snapshot, a copy of /verif taken earlier) and one scratch worktree of /repo HEAD
   per worker; for every seed: apply its patch to the worktree, run `./check <Cxx> --tier quick` for the seed's own
   property (and the other properties its meta.json lists under checks_run) with VERIF_REPO pointing at the worktree,
   undo the patch.  Writes seeded/STATUS.json: per seed whether the patch still applies to HEAD and which checks
   report a violation.  Nothing here is evidence; it measures the checks."""
import json, os, shutil, subprocess, sys, tempfile, threading, time
from pathlib import Path

VERIF = Path(__file__).resolve().parent.parent


def worker(wid, seeds, src, results, lock):
    base = Path(tempfile.mkdtemp(prefix="seedsweep%d-" % wid))
    wt, vcopy = base / "repo", base / "verif"
    try:
        subprocess.run(["git", "-C", "/repo", "worktree", "add", "-q", "--detach", str(wt), "HEAD"], check=True)
        r = subprocess.run(["rsync", "-a", "--exclude", ".git", "--exclude", "replay", "--exclude", "__pycache__", "--exclude", ".audit_*", str(src) + "/", str(vcopy) + "/"])
        if r.returncode not in (0, 24):
            raise SystemExit("rsync failed")
        env = dict(os.environ, VERIF_REPO=str(wt))
        while True:
            with lock:
                if not seeds:
                    return
                name = seeds.pop(0)
            sdir = VERIF / "seeded" / name
            res = {"applies": False, "checks": {}}
            # a failed 3-way merge leaves conflict markers and unmerged index entries: reset hard, never just checkout
            subprocess.run(["git", "-C", str(wt), "reset", "-q", "--hard", "HEAD"], capture_output=True)
            subprocess.run(["git", "-C", str(wt), "clean", "-fdq"], capture_output=True)
            r = subprocess.run(["git", "-C", str(wt), "apply", str(sdir / "patch.diff")], capture_output=True, text=True)
            if r.returncode != 0:
                r = subprocess.run(["git", "-C", str(wt), "apply", "--3way", str(sdir / "patch.diff")], capture_output=True, text=True)
                unmerged = subprocess.run(["git", "-C", str(wt), "diff", "--name-only", "--diff-filter=U"], capture_output=True, text=True).stdout.strip()
                if r.returncode == 0 and unmerged:
                    r.returncode, r.stderr = 1, "3-way merge left conflicts in " + unmerged
                if r.returncode != 0:
                    subprocess.run(["git", "-C", str(wt), "reset", "-q", "--hard", "HEAD"], capture_output=True)
            if r.returncode == 0:
                res["applies"] = True
                try:
                    meta = json.loads((sdir / "meta.json").read_text())
                except Exception:
                    meta = {}
                own = name.split("-")[0]
                pids = [own] + [p for p in meta.get("checks_run", {}) if p != own]
                for pid in pids:
                    t0 = time.time()
                    try:
                        p = subprocess.run(["./check", pid, "--tier", "quick"], cwd=str(vcopy), env=env, capture_output=True, text=True, timeout=1800)
                        allv = [l for l in p.stdout.splitlines() if l.startswith(("VIOLATION", "  - "))]
                        concrete = [l[:240] for l in allv if l.startswith(("  - [diff]", "  - [law]"))][:2]
                        lines = [l[:240] for l in allv][:3] + concrete
                        res["checks"][pid] = {"rc": p.returncode, "lines": lines, "s": round(time.time() - t0),
                                              "concrete_input": bool(concrete) or (bool(allv) and not allv[0].rstrip().endswith("no-failing-input-found"))}
                    except subprocess.TimeoutExpired:
                        res["checks"][pid] = {"rc": -1, "lines": ["timeout"], "s": 1800}
                    if res["checks"][pid]["rc"] == 1 and pid == own:
                        break          # caught by its own property's check: enough
            else:
                res["error"] = r.stderr[-300:]
            with lock:
                results[name] = res
                caught = [p for p, c in res["checks"].items() if c["rc"] == 1]
                print("%-10s applies=%s caught_by=%s %s" % (name, res["applies"], caught, {p: c["rc"] for p, c in res["checks"].items()}), flush=True)
    finally:
        subprocess.run(["git", "-C", "/repo", "worktree", "remove", "--force", str(wt)], capture_output=True)
        shutil.rmtree(base, ignore_errors=True)


def main():
    args = sys.argv[1:]
    j, src, out = 4, VERIF, VERIF / "seeded" / "STATUS.json"
    while args and args[0].startswith("-"):
        if args[0] == "-j":
            j = int(args[1]); args = args[2:]
        elif args[0] == "--snapshot":
            src = Path(args[1]); args = args[2:]
        elif args[0] == "--out":
            out = Path(args[1]); args = args[2:]
        else:
            raise SystemExit("unknown option " + args[0])
    seeds = args or sorted(d.name for d in (VERIF / "seeded").iterdir() if (d / "patch.diff").exists())
    results, lock = {}, threading.Lock()
    todo = list(seeds)
    ths = [threading.Thread(target=worker, args=(i, todo, src, results, lock)) for i in range(j)]
    for t in ths:
        t.start()
    for t in ths:
        t.join()
    head = subprocess.run(["git", "-C", "/repo", "rev-parse", "--short", "HEAD"], capture_output=True, text=True).stdout.strip()
    old = {}
    if out.exists():
        try:
            old = json.loads(out.read_text()).get("seeds", {})
        except Exception:
            pass
    old.update(results)
    out.write_text(json.dumps({"repo_head": head, "seeds": dict(sorted(old.items()))}, indent=1) + "\n")
    miss = [n for n in seeds if results.get(n, {}).get("applies") and not any(c["rc"] == 1 for c in results[n]["checks"].values())]
    print("swept %d; not applying: %s; NOT caught: %s" % (len(seeds), [n for n in seeds if not results.get(n, {}).get("applies")], miss))


if __name__ == "__main__":
    main()
