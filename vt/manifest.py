"""Regenerate /verif/MANIFEST.json from the META of each vt/p_cXX.py (run: python3 -m vt.manifest)."""
import importlib, json, subprocess
from pathlib import Path

VERIF = Path(__file__).resolve().parent.parent


def main():
    props = [json.loads(l) for l in (VERIF / "properties.jsonl").read_text().splitlines() if l.strip()]
    na_reasons = json.loads((VERIF / "vt" / "not_applicable.json").read_text())
    checks, na, claimed = [], [], []
    ready = set((VERIF / "vt" / "claimed.txt").read_text().split())
    for p in props:
        pid = p["id"]
        f = VERIF / "vt" / ("p_%s.py" % pid.lower())
        if f.exists() and pid in ready and pid not in na_reasons:
            meta = importlib.import_module("vt.p_" + pid.lower()).META
            claimed.append(pid)
            checks.append({
                "property_id": pid,
                "quick_cmd": "./check %s --tier quick" % pid,
                "thorough_cmd": "./check %s --tier thorough" % pid,
                "evidence_file": "/verif/evidence/%s.json" % pid,
                "replay_cmd_template": "./check %s --replay {path}" % pid,
                "engine": "lean4-proof+correspondence",
                "level_claimed": {"category": meta["category"], "text": meta["text"], "design_ref": meta["design_ref"]},
                "level_note": meta["note"],
                "technique": meta["technique"],
            })
        else:
            na.append({"property_id": pid, "reason": na_reasons.get(pid, "check under construction in this round (model and tie not yet built); not claimed yet")})
    try:
        commits = subprocess.run(["git", "-C", "/repo", "log", "--format=%h %s", "--grep=^verif-hook"], capture_output=True, text=True).stdout.split("\n")
        commits = [c.split(" ")[0] for c in commits if c.strip()]
    except Exception:
        commits = []
    m = {"version": 1,
         "setup_cmd": "./setup.sh",
         "hooks": {"guard": "verif", "enable": "go build -tags verif (harness binaries in /verif/harness/cmd/* with replace => /repo; csvq itself with `go build -tags verif`)",
                   "baseline_off_cmd": "cd /repo && GOFLAGS=-mod=mod GOPROXY=off GOSUMDB=off go test -vet=off -count=1 ./...",
                   "source_commits": commits, "add_only": True},
         "engines": [{"name": "lean4-proof+correspondence", "path": "/verif/check", "serves_properties": claimed,
                      "kind_free_text": "Lean 4 model + theorems (lean/), Go differential harness (harness/), extractors (extract/), python orchestrator (vt/)"}],
         "checks": checks,
         "not_applicable": na,
         "notes": "See DESIGN.md. Every check: regenerate -> lake build of the property's theorems -> axiom audit -> correspondence with /repo's working tree -> triage against known_findings.jsonl."}
    (VERIF / "MANIFEST.json").write_text(json.dumps(m, indent=1))
    print("claimed:", " ".join(claimed))


if __name__ == "__main__":
    main()
