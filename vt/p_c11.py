from .core import BASE_TRUST

META = {
    "category": "proof",
    "text": "Lean 4 theorems over the effect lists regenerated from lib/file/handler.go: Handler.close, closeWithErrors (the deferred path after error / EXIT / signal, which never stops at a failing step) and commit of non-update handlers remove every control file and keep the data of existing tables for all contents; an uncommitted created table is unlinked on close; the read path contains no write / truncate / rename / exclusive open; from the C09 invariant a process that timed out or finished owns no lock or rlock; over the statement list regenerated from lib/cli/app.go commandAction (extract/cliproto) with Go's LIFO defer rule (deferred_runs, proved for every function body): every return point behind the creation of the processor runs the deferred clean-up, AutoRollback before ReleaseResourcesWithErrors, registered at once after NewProcessor; the BODY of every deferred function literal is regenerated as a tree with its control flow (conditions, returns, calls that never return) and gen_cleanup_reached_on_every_path says that on EVERY path through the deferred clean-up - for every kind of error - AutoRollback and then ReleaseResourcesWithErrors are reached, preceded by nothing but the report of the rollback's own error (exec_mem_runs / cleanup_whatever_the_conditions: for every way the conditions turn out); the signal handler is installed, never stopped or reset in the frame, and cancels the context. Tied to the running binary by process-level runs: 10 procedure shapes x {plain end, error, EXIT, competing lock holder (lock timeout), SIGINT/SIGTERM/SIGQUIT delivered at every named VerifPoint reached and at random delays}: afterwards the directory holds no .lock/.rlock/.temp, no uncommitted created table, and read-only programs leave every file byte-identical; 6 pre-load programs (csvqrc in HOME, in HOME/.csvq, in the working directory: update lock, created table, FOR UPDATE, a committed part followed by uncommitted changes) x 25 command lines csvq rejects as incorrect usage (argument count, --source with an argument, every option with a checked value, piped stdin for the interactive shell, every sub-command's argument errors): the repository afterwards is exactly what the committed part of the pre-load commands left",
    "design_ref": "DESIGN.md section 5, C11",
    "note": "trusted: Lean kernel; extract/fsproto, extract/cliproto; OS signal delivery, Go's signal.Notify and defer semantics (modelled as LIFO); that every statement between cancellation and the return of commandAction actually returns (no blocking call ignores the context) is covered by the process-level runs, not by a theorem (partial); signals inside a system call are sampled by timing only",
    "technique": "Lean 4 machine-checked proof over regenerated close/commit sequences + lock-protocol invariant; process-level enumeration of endings and signal points of the real binary",
}


def run(run):
    q = run.tier == "quick"
    run.regen("fsproto", ["go", "run", "-C", "extract/fsproto", "."], "Csvq/Gen/FsProto.lean")
    run.regen("cliproto", ["go", "run", "-C", "extract/cliproto", "."], "Csvq/Gen/CliProto.lean")
    run.obligations_for(["Csvq.Props.C11"])
    csvq = run.build_csvq()
    if csvq:
        run.stream("c11", 60 if q else 100000, model="C10", env={"VERIF_CSVQ": str(csvq)}, timeout=3000)
        if not q:
            run.stream("c11", 100000, seed_offset=1, model="C10", env={"VERIF_CSVQ": str(csvq)}, timeout=3000)
    return run.finish(
        level="proof",
        rule="10 procedure shapes (reads, FOR UPDATE, DML with auto-commit / COMMIT / ROLLBACK, CREATE TABLE followed by error or EXIT, missing table) x endings {plain, competing lock holder with --wait-timeout, signal at each (VerifPoint, occurrence) reached (quick: a seeded subset; thorough: all), signal after a random 1-12 ms}; 6 pre-load programs x 25 kinds of incorrect command line (main command and sub-commands); non-trivial = distinct (procedure, ending, exit code) signature; ending placement matrix (harness/cmd/c11/placement.go, wrappers shared in harness/hc/placement.go): EXIT / EXIT <code> / a failing statement reached through every construct that runs a nested statement list (IF, ELSEIF, ELSE, CASE WHEN / ELSE, WHILE, WHILE IN, SOURCE, SOURCE inside IF / WHILE, a sourced file that sources another, EXECUTE of a string, PREPARE + EXECUTE, EXECUTE of a SOURCE) after a CREATE TABLE and two updates and before a further INSERT: law ending_from_nested_list_left_changes (the created table does not exist, every file is byte-identical, no control file, nothing behind the ending statement ran, exit status as documented) - 17 wrappers x 3 endings, one real process each",
        trusted_base=BASE_TRUST + ["extract/fsproto", "extract/cliproto", "OS signal delivery", "Go defer semantics"],
        checker_cmd="cd /verif/lean && lake build Csvq.Props.C11 && lake env lean <#print axioms for every theorem>",
    )
