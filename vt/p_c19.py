import json, re, subprocess
from .core import BASE_TRUST, LEAN, Lock, Problem

META = {
    "category": "proof",
    "text": "PARTIAL. Lean 4 proof, over facts regenerated from /repo on every run (extract/errfacts: go/ast + go/types over every package of the module), of: the loaders' totality and rectangularity (csv/tsv, ltsv, fixed-length: EVERY character string under EVERY option vector decodes to an error or to a table whose records all have the header's length - theorems csv_loader_total, ltsv_loader_total, fixed_loader_total, re-using C02; JSON and JSON Lines: json_loader_total / jsonl_loader_total for every text [scanner + grammar + structure mapping of C02's models] and json_structure_loader_total / jsonl_structure_loader_total / json_query_loader_total for EVERY decoded JSON value - the structure mapping of lib/json LoadTable with the empty query and with the json-query {}, ConvertToTableValue and the collector of loadViewFromJsonLinesFile, modelled in the shape of the code in Csvq/Model/JsonStruct.lean, returns an error or a table whose records all have the header's length, whatever the key sets, key orders, repeated keys, non-object elements or nesting; fixed_singleline_loader_total: the same for single-line fixed-length files S[...]); the error -> exit-code table (exit_code_total: every constructor of lib/query/error.go passes a return code of the manual's Return Code table or one of the three documented dynamic codes EXIT n / TRIGGER ERROR n / 128+signal; return_codes_documented, exit_default_documented, error_numbers_distinct, ctor_numbers_known, ctor_number_determines_code); the listed index-guard fragments (strToTime_index_in_range: every s[i] of value.StrToTime under the path conditions on len(s) read off the source is in range for every length; arg_index_in_range (Csvq/Props/C19Args.lean): EVERY index / slice expression on an argument slice - the slice parameters of all function values of the Functions and AggregateFunctions tables and of every helper that receives them unchanged [roundParams, execMath1Arg, execStringsPadding, prepareRegExpMatch, StringFormatter.Format, UserDefinedFunction.execute ...], and the unevaluated lists <p>.Args in evalFunction / evalAggregateFunction / evalListFunction / checkArgsFor... / Analyze / windowValues / every AnalyticFunction's Execute under what its own CheckArgsLen established / setNthValue / setLag, with the locals built from them - is in range for EVERY number of arguments and every value of the index variable, under the conditions on the length that dominate it in the source [enclosing if / switch / && / ||, the negation of every earlier early return, loop conditions; regenerated facts, checker ArgIndexSite.ok proved sound for all lengths], except five reviewed sites whose guard is a call [UserDefinedFunction.CheckArgsLen with len-1; `expr.Args == nil` after the parser's arguments rule] and zero known defects in the argument handling; the same theorem covers the CONSTANT-INDEX SWEEP [family const: every X[k] / X[len(X)-k] / X[a:b] with constant bounds on a variable or field path of slice or string type in lib/query, lib/action, lib/cli, lib/option under the length conditions of the same function: 154 sites, 64 proved in range - e.g. prepared.Statements[0] of Cursor.Open -, the others, guarded by an invariant that is not a length condition in the same function, are PINNED by class with their number of occurrences (pinnedConstIndexSites: reviewed by class, NOT proved) so that a new or weakened guard breaks the obligation; one known site: release[0] of the network-only check-update sub-command on an empty JSON array]; arg_unknown_sites_reviewed: the six uses of such a slice without a rule are reviewed; arg_facts_cover_function_table: every key of the three function tables, every special and list function has a count-check fact [a new built-in without facts breaks the obligation]; limit_in_bounds, offset_in_bounds, limit_percent_nan_refused from C07; cursor_index_inv from C16); EVERY unchecked type assertion x.(T) of the hand-written files of lib/query, lib/action, lib/cli, lib/parser, lib/value, lib/json, lib/option (more than 500 sites, the count per guard class and per file is in the evidence; Csvq/Props/C19Asserts.lean) with its guard classified syntactically and checked per class - assertion_sites_ok / assertion_site_safe: inside `case T:` of a type switch over the same expression; behind a successful comma-ok test; or a value whose possible dynamic types form a regenerated finite set [the return statements of the function it comes from, followed through calls - value.ToInteger: *Integer or *Null ...; the GRAMMAR CONTRACT: what the actions of parser.y (a fixpoint over its productions) and every composite literal / assignment of the module store in that field of a parser node, nil if left out; what is ever stored in the SyncMap wrappers and sync.Pool variables] minus what dominating tests exclude [!value.IsNull(x), x != nil], every remaining type being (or implementing) T; or a value fetched BY NAME from a function that picks the type of its result by that name [Transaction.GetFlag, GetRuntimeInformation: regenerated table name -> types] inside `case <these names>:` of a switch over the same name; the sites outside the classes are listed ONE BY ONE (53 reviewed by kind of guard; no known defect left: the two the facts turned up - a back-quoted `JSON_OBJECT`(c1) and DELETE FROM (t), both [Fatal Error] interface conversion - are repaired in /repo, F107 / F108), a new unchecked assertion or a guard that no longer dominates breaks the obligation and is reported as assert:<file>:<function>:<x>.(<T>)#<occurrence>; and two static absence facts: no method call on an error variable where a DIFFERENT error variable is the one known non-nil (nil_error_sites_except_known) and no recover() guarded by state another goroutine sets (recover_unconditional_except_known) - each open site is reported as nilerr:<file>:<function>:<expr> / recover:<file>:<function>:<guard>. SIZE SITES (Csvq/Props/C19Sizes.lean over Csvq/Gen/SizeFacts.lean, regenerated by extract/errfacts/sizefacts.go for EVERY function of lib/query): one obligation per operand that makes the Go runtime panic when out of range - the count of strings.Repeat / bytes.Repeat, length and capacity of make([]T, n, c), every index with + / - in it (0 <= i, i < len), every slice expression with a non-constant bound (0 <= a <= b <= cap) and the ARGUMENT of every call of a function of the module that hands an int parameter on, unchanged and unguarded, as such a count / length / capacity [kind `call`: doc.Writer.WriteSpaces, NewUintPool, NewFieldIndexCache, NewReferenceRecord, NewEmptyHeader ...; the sink parameters are found by a fixpoint over the module] - 330 obligations, each with the operand as an integer IR and the facts that dominate the site read off the function by one structured walk (enclosing if / else / switch conditions, the negation of every early return above, definitions of the local variables involved, joins of branches as disjunctions [the clamp `if padLen < 0 { padLen = 0 }`], loop conditions and range bounds, 0 <= len <= cap, lower bounds of counters); size_sites_nonneg: for every obligation that is not in the reviewed list, for ALL integer valuations that satisfy the facts the operand is in range (one omega proof per obligation, built by the uniform tactic size_decide and checked by the kernel; 252 proved, among them all five Repeat counts of StringFormatter.Format [format_repeat_counts_proved]); what needs non-linear arithmetic, a parameter / callee contract, an invariant between data structures or a string-search result is pinned in exemptSizeSites (75 entries for 78 obligations, each with its reason and number of occurrences; exempt_size_counts, exempt_size_sites_exist: none stale), so a NEW unguarded site or a guard weakened until it no longer implies the range is a broken obligation; the driver then evaluates the same IR over small valuations (SCond.check, proved equal to the meaning: size_search_sound) to name a violating valuation, and for the formatter the valuation (width, len(s), len(sign)) is turned into FORMAT calls run on the binary built from the tree (law internal_panic with the call as replay). Fact sources added in the second round: every struct field has its own epoch under the variable it is reached from — an assignment `view.offset = 0` gives only that field a new name and a value fact (clamps written through a field are now facts: View.Offset's bounds are proved), a call forgets exactly the fields its callee can write, transitively, under the variables it gets (extract/errfacts/writes.go: per function of the module the fields on its assignment targets / address-of operands, closed over its calls; methods called through an interface = the union over the module's methods of that name; a function value = everything), fields never written anywhere in the module keep their value (GoroutineTaskManager.Number); a / c and a % c with a positive constant c are linearised truncated division; a successful make(n) leaves 0 <= n. LOOPS (Csvq/Props/C19Loops.lean over Csvq/Gen/LoopFacts.lean): all 63 `for` statements of lib/query, lib/value, lib/json that are not a range (the goyacc output of lib/json aside) with candidate measures read off their exit conditions (`i < n` -> n - i, `a <= b` -> b - a + 1, `!=` -> both differences, `for {}` -> the conditions of its `if c { break / return }`), each measure read at the head and at every back edge (end of the body, every continue, then the post statement): 81 obligations `measure' < measure and 0 <= measure` for ALL valuations of one iteration; loop_sites_terminate: 41 loops have a measure all of whose back edges are proved; 22 are reviewed in exemptLoopSites with reasons (16 have no integer measure at all: iterators, scanners, readers, the user's WHILE; Rand's rejection sampling; setNthValue's direction chosen before the loop; a fallthrough; an element read twice); for a loop that is neither, the driver's search names an iteration in which the measure does not decrease. Integers are mathematical: a loop that ends after 2^63 rounds or only by wrapping (C19-m11 / F52) is outside the statement and stays with the window-frame grid. CONVERSIONS (Csvq/Gen/IntConvFacts.lean): every float -> integer and narrowing / sign-changing integer conversion (8 in the walked packages; int64 -> int is the same width) whose result reaches a size or loop obligation of its function (5) gets float_to_size_guarded in two parts: the operand is a number (nan = 0) and its floor is inside the target's range, under the facts at the conversion; floats are carried as (nan, floor): a comparison that was TRUE says both operands are numbers, one that was FALSE says so only if no operand is NaN (the F11 shape), math.IsNaN decides; conv_nan_parts_proved: all four NaN parts are proved (removing View.Limit's IsNaN check breaks it), the range of View.group's min(len/18, 1000) is proved, the ranges of three products / quotients and Rand's deliberate uint64 wrap are reviewed. SECOND GROUP (Csvq/Props/C19Lib.lean over Csvq/Gen/LibSizeFacts.lean, LibLoopFacts.lean, LibIntConvFacts.lean; the package lists are parameters of the extractor): the same size / loop / conversion obligations for EVERY other non-test package that runs at query time - lib/doc, lib/json [hand-written files], lib/value, lib/option, lib/file, lib/terminal [the readline files aside], lib/syntax, lib/excmd, lib/cli, lib/action: 81 size obligations (lib_size_sites_nonneg: 58 proved for all valuations, 23 reviewed one by one in exemptLibSizeSites - io.Reader counts, scanner invariants, parameters whose calls are their own obligations, a maximum computed by a loop), 22 loops (lib_loop_sites_terminate: 7 proved, 15 reviewed: rune scanners of lib/excmd, bufio scanners, the lock retry loop, the interactive shell), no conversion reaching one (lib_conv_sites_ok). report_title_padding_proved: the padding that centres the TITLE of a report (lib/doc Writer.String: bytes.Repeat(' ', (hlLen - tw) / 2) with hlLen = max(tw + 2, lineWidth + 1, Column + 1) clamped to the screen width - the clamp is a disjunctive fact, the division by 2 is linearised) is found and proved from the guard `if tw < hlLen`; without the guard [C19-m23] the obligation is open, the driver's search (now a pruned depth-first search over the variables in definition order, for obligations with many variables: SizeSite.prunedCounterexample, still covered by size_search_sound) names tw and MaxWidth with MaxWidth + 2 <= tw, and vt/p_c19.py turns them into `csvq fields <generated path, that much longer than the 75 columns of a screen that is no terminal>` run on the binary with stdin from /dev/null (law internal_panic). RUN-TIME LAWS added: loaded_table_not_rectangular - after EVERY successful load of a generated table source through the exported loaders (query.LoadView on the FROM clause alone, lib/json LoadTable) every record has the header's length; sources: JSON arrays of objects whose key sets grow [a new key first at element 2, 3, the last; at the front / middle / end of the object; twice], shrink, reorder, are disjoint, empty, repeat a key, hold nested values - bare and wrapped, x 12 json-queries x file / JSON() / JSON_TABLE / JSON_INLINE / STDIN; the same sequences as JSON Lines, LTSV labels, CSV / TSV / fixed-length lines of changing field counts x uneven / no-header / without-null [~5000 loads per run, the file bytes and the command line are the replay; catches C19-m24, which C02's c02.jsload correspondence also catches]; the REPORT GRID - every statement that prints a titled report [SHOW FIELDS, ALTER TABLE SET, SHOW TABLES / VIEWS / CURSORS / FUNCTIONS / STATEMENTS / FLAGS / ENV / RUNINFO, SYNTAX with long keys] x names and paths of 24 lengths 1..200 through deep directories x 16 screen widths [no terminal = 75; terminals of 0..250 columns through Session.SetTerminal] x --color on / off in-process (~10000 statements), the attribute block of SHOW FIELDS x every format x encoding x line break x delimiters of every width class, and ~400 runs of the binary (fields / syntax sub-commands, --stats, the SHOW statements) with stdin from /dev/null and from a pseudo-terminal of 80 / 20 / 0 columns. Two exhaustive in-process grids are the dynamic twins: FORMAT / PRINTF placeholders (14 verbs x 5 flags x widths none 1 2 3 20 and digits-1 .. digits+2 x 5 precisions x 32 arguments, ~60000 calls) and LIMIT / OFFSET / WITH TIES / PERCENT over tables of 0..8 records with ties at both ends (every limit and offset 0..n+2, with / without ORDER BY, analytic and nested forms; with ORDER BY the rows are compared with the cut of the sorted keys: law limit_offset_rows). EXPLORATION for the rest of the property (a universally quantified absence over the whole program): process-level fuzzing of the real binary - arbitrary and mutated bytes x 6 formats x delimiter / positions / encoding / no-header / allow-uneven-fields / without-null / json-query as file, table object and stdin, with the rectangularity of the loaded view checked directly on the real loader; every key of the Functions / AggregateFunctions / AnalyticFunctions tables with 0-5 boundary arguments (scalar and over a 200-row table with --cpu 4); the ARITY GRID (correspondence, not only exploration): every name of the three tables, NOW / JSON_OBJECT / CALL and LISTAGG / JSON_AGG with EVERY argument count 0..7 [the widest built-in takes 5] through SQL text in-process (parser + evaluator glue + function; scalar and over a table, DISTINCT, GROUP BY, OVER (), PARTITION BY / ORDER BY / ROWS frames, IGNORE NULLS, WITHIN GROUP; 5-6 small argument vectors per count), user-defined scalar / aggregate functions with and without defaults against their declared signature; one op `c19.arity <table> <NAME> <count>` per cell: the implementation's answer [argument-length error or not] is compared with the Lean driver's answer computed from the regenerated count checks, a [Fatal Error] is confirmed on the binary and reported; the `fields` sub-command with an argument grid of every shape a FROM clause text can take [existing / missing file, identifier spellings, file: URLs, STDIN, table functions and *_INLINE forms, DUAL, parenthesised tables, sub-queries, set operations, join lists, aliases, trailing clauses, several statements, comments, empty, keywords]; prepared statements from degenerate texts [no statement, several, not a query, placeholders, broken, texts that use prepared statements] x every consumer of a statement name [EXECUTE with / without USING, cursor FOR statement + OPEN with / without USING + FETCH / loop, DISPOSE PREPARE then use, re-PREPARE between declaration and OPEN, inside a function]; every kind of named object [file table, temporary view, cursor, cursor for a statement, scalar / aggregate function, prepared statement, variable, undeclared, DUAL, built-in name] x 48 syntactic roles that take a name; every built-in / special / aggregate / analytic name and 18 keyword-like names called BACK-QUOTED (the generic production identifier '(' arguments ')') with 0-3 arguments, plain / OVER () / without FROM; 24 shapes of table object [identifier, quoted file, parenthesised table / join, join, table list, alias, sub-query, LATERAL, DUAL, STDIN, table function, inline table, file: URL, FILE:: / DATA::, temporary view, missing, keyword] as the target of 19 statements [DELETE (4 forms), UPDATE (2), INSERT (2), REPLACE, ALTER (4), SHOW FIELDS, FOR UPDATE, CREATE TABLE AS, DISPOSE VIEW, cursor, sub-query]; an IN-PROCESS function fuzzer (child processes of the harness call query.Functions[name] and the aggregate functions directly, under recover(), a memory limit and a watchdog: arity 0, ALL single values, ALL pairs over a typed compact pool of ~210 values [int64 / float boundaries, NULL, ternaries, datetimes, strings, every 1-character string over a 20-symbol alphabet, grammar-generated FORMAT / DATETIME_FORMAT strings, JSON texts, JSON queries incl. lone quotes and truncated forms, regular expressions, encoding / unit names] plus every 2-character string x 8 partners, ALL triples over a 16-value pool, a mode grid f(s,m) / f(s,x,m) / f(s,i,s2,m) / f(s,i,s2,m,m2) over 13 strings whose length, byte count and display width differ (empty, zero-width, combining, wide, surrogate pair, control, 5000 characters) x 6 small integers x 10 unit / encoding names, sampled 3-5-tuples: ~8 million calls per run; every recovered panic / stall is CONFIRMED on the real binary as csvq 'SELECT fn(<literals>)' before it is reported); JSON_OBJECT / JSON output key paths (aliases with dots, brackets, duplicates, empty) and malformed JSON queries through JSON_VALUE / JSON_ROW / JSON_TABLE / JSON_INLINE / JSON() / JSONL() / --json-query / SET @@JSON_QUERY; every clause and statement kind of the manual with holes filled from a boundary pool; file-system conditions (missing file, directory / dangling symlink / loop / FIFO in place of a file, unwritable targets of -o and CREATE TABLE, removed working directory, stale lock files); programs that reach the SAME file through different access paths in one transaction (plain name, quoted path, ./path, CSV/TSV/FIXED/JSON/JSONL/LTSV table functions, *_INLINE functions, sub-queries; read / FOR UPDATE / UPDATE / INSERT / DELETE / ALTER / after CREATE TABLE; every ordered pair per file, sampled triples); the grammars of structured option values (delimiter positions incl. s[], [ ], negative, decreasing, huge, nested, non-JSON; delimiter; encoding; line break; JSON escape; time zone; datetime format; numeric and boolean options) through every route that takes them (table function, command-line option, SET @@flag, ALTER TABLE, stdin, --out, csvq_env.json); option pairs over ragged / empty / blank-line data with column references beyond the shortest line; stale lock / read-lock / temp control files with wait timeouts 0, negative, tiny; joins of every kind x {field-less, empty, one, many rows} on each side at --cpu 1 and 4; option values crossed pairwise between the session level (option / SET @@) and the table-function arguments; user-defined functions whose body changes or reads tables, called from INSERT...SELECT / UPDATE / WHERE / JOIN / GROUP BY / ORDER BY; duplicate / unknown / too many names in USING, GROUP BY, ORDER BY, PARTITION BY, INSERT / REPLACE / CREATE / ALTER column lists; pathological LIKE patterns and regular expressions over 30-60 character subjects; tables with records but no fields in every clause position and output format; clause combinations in one query ({plain, analytic, aggregate, DISTINCT, GROUP BY, HAVING} x ORDER BY on {column, alias, ordinal, computed expression not in the list, aggregate, analytic, sub-query} x LIMIT / OFFSET over 2-5 rows); every output format x cells and header names that start with / end with / consist only of / contain each special character (CR, LF, CRLF, TAB, quotes, backslash, NUL, ESC, wide, combining, RTL, zero-width, BOM, invalid UTF-8 ...) with and without --out; window frames with int64-boundary offsets in every position (low / high bound x PRECEDING / FOLLOWING x every windowed function, 10 s watchdog); JSON Lines x json-query where the query yields [] / a scalar / a non-object for some lines (flag, JSONL(), SET @@JSON_QUERY, stdin); deterministic reproducers of the KNOWN findings F83 (self / mutual SOURCE nesting), F84 (unbounded user-defined-function recursion) and - thorough tier only - F97 (a prepared statement whose text executes itself), run under a small address-space limit and recognised by the nested frames of the goroutine dump; real files with record counts on both sides of the loader's internal thresholds (299, 300, 301, 320, 450, 680, 2000 and generated counts) x file encodings (UTF-8, UTF-8 BOM, Shift_JIS, UTF-16 LE/BE with and without BOM) read with the matching option, AUTO or a wrong one x cell repertoires that shrink or grow under transcoding (ASCII, half-width katakana, CJK, emoji, mixed) x CSV / TSV / LTSV / fixed-length / JSON Lines. Oracle: exit code documented, no 'Fatal Error' / Go panic text, 20 s wall-clock bound (a time-out is reported only if the job names no large quantity and still does not end when it is re-run alone with 4 times the bound), rectangular view, and no exhaustion of the 3 GB address space by a program that names no large quantity and reads less than 32 KB (memory:unbounded_growth). The evidence lists exactly which functions, clauses, statements, options, formats, encodings, file-system conditions, exit codes and error classes were driven, and which generated function names were NOT",
    "design_ref": "DESIGN.md section 5, C19",
    "note": "proof for the loaders' totality/rectangularity (CSV/TSV/LTSV/fixed, and JSON/JSONL incl. the structure mapping for the empty json-query and {}; other json-queries are explored only), the error-code table and the listed index-guard fragments; exploration for everything else => partial. The argument-slice facts are about the INDEX EXPRESSIONS on the argument slices (out-of-range panics), not about what the functions do with the values; conditions are read per function and handed to callees with the call context; they are assumed to survive calls (argument slices are not resized by callees), an index variable counts as non-negative only if it is a range key or is only ever assigned non-negative constants / ++ (int wrap-around not considered), slices derived by calls (floatList(list), cmdargs built by append) are not argument slices and are not covered. Trusted: Lean kernel; extract/errfacts (syntactic, fails closed; nil-error and recover facts are intraprocedural patterns, not a nil-ness analysis; argfacts.go: the translation of if / switch / early-return structure into length conditions, tied to the running code for the count checks by the arity grid; the generic CheckArgsLen of analytic functions is compared with its reviewed text and Analyze's check-before-dispatch order is verified syntactically; assertsites.go / grammar.go: guard classes are syntactic dominance in one function; the tables of possible dynamic types are flow-insensitive unions over return statements / constructions, an AST node is assumed to be built by a composite literal, a declared zero value or a copy - not by reflection or decoding -, values stored through interfaces the analysis cannot resolve count as unknown, calls are assumed not to change the variable or field a test was made on; lib/parser's generated parser.go is not scanned, its source parser.y is read for the grammar contract); the loader models of C02 (tied to the code by C02's own correspondence); the harness oracle (text patterns, exit status). The size facts are intraprocedural and syntactic like the argument-slice facts: integers are mathematical (no overflow), quotients / products of variables / shifts / calls without a rule are unknowns, a field path or length is forgotten at every assignment under its variable and at every call that gets the variable as receiver or pointer argument (length accessors such as View.RecordLen are replaced by the len they return), elements read through an index get no name once the function assigns elements of that variable, function literals only keep facts about variables assigned once; 78 + 23 size obligations, 22 + 15 loops and 4 conversion ranges rest on reviewed reasons, not on proofs; a `call` obligation exists only for parameters that reach the Repeat / make operand bare and unassigned (a parameter that is first copied or adjusted is the callee's own obligation); the result of (*go-text/json.Object).Len() is taken as non-negative (length accessor outside the module); termination is about mathematical integers (no wrap-around, no bound on the number of rounds); write sets assume that code outside the module does not assign the module's struct fields and ignore aliasing between two variables of one function. Not generated on purpose: external commands ($ ..., CALL), check-update (network), URLs, non-terminating programs (unbounded recursion / WHILE TRUE); children run under ulimit -v 3000000 and running out of memory under that limit is counted, not reported",
    "technique": "Lean 4 machine-checked proof over regenerated facts (kernel evaluation; one omega proof per regenerated size obligation) + re-used loader / LIMIT / cursor theorems + process-level fuzzing of the real binary with a classifying, shrinking oracle",
}

GEN = LEAN / "Csvq" / "Gen" / "ErrFacts.lean"
STR = r'"((?:[^"\\]|\\.)*)"'
NIL_RE = re.compile(r"⟨%s, (\d+), %s, %s, %s⟩" % (STR, STR, STR, STR))
REC_RE = re.compile(r"⟨%s, (\d+), %s, %s, (true|false)⟩" % (STR, STR, STR))


def unq(s):
    return s.replace('\\"', '"').replace("\\\\", "\\")


def section(txt, name):
    """text of `def <name> ... :=` up to the next blank line"""
    m = re.search(r"^def %s\b.*?(?=^\s*$)" % re.escape(name), txt, re.M | re.S)
    return m.group(0) if m else ""


def str_list(txt, name):
    return [unq(x) for x in re.findall(STR, section(txt, name).split(":=", 1)[-1])]


def parse_gen():
    out = {"nil": [], "rec": [], "lists": {}, "ctors": 0}
    if not GEN.exists():
        return out
    txt = GEN.read_text()
    for m in NIL_RE.finditer(section(txt, "nilErrorFacts")):
        out["nil"].append({"file": unq(m.group(1)), "line": int(m.group(2)), "fn": unq(m.group(3)), "expr": unq(m.group(4)), "tested": unq(m.group(5))})
    for m in REC_RE.finditer(section(txt, "recoverFacts")):
        out["rec"].append({"file": unq(m.group(1)), "line": int(m.group(2)), "fn": unq(m.group(3)), "guard": unq(m.group(4)), "shared": m.group(5) == "true"})
    for nme in ("builtinFunctions", "aggregateFunctions", "analyticFunctions", "specialFunctions", "listAggregateFunctions", "errFactsPackages"):
        out["lists"][nme] = str_list(txt, nme)
    out["ctors"] = len(re.findall(r'^  ⟨"New', section(txt, "errorCtors"), re.M))
    out["index_sites"] = len(re.findall(r"^  ⟨\d+, ", section(txt, "strToTimeIndexSites"), re.M))
    # argument slices: sites per file, unknown uses, count checks per table
    per_file, per_family = {}, {}
    for m in re.finditer(r"^  ⟨%s, %s, %s, \d+, " % (STR, STR, STR), section(txt, "argIndexSites"), re.M):
        per_family[unq(m.group(1))] = per_family.get(unq(m.group(1)), 0) + 1
        per_file[unq(m.group(3))] = per_file.get(unq(m.group(3)), 0) + 1
    out["arg_sites_per_file"], out["arg_sites_per_family"] = per_file, per_family
    out["arg_unknown_sites"] = ["%s:%s %s: %s (%s)" % (unq(m.group(3)), m.group(4), unq(m.group(2)), unq(m.group(6)), unq(m.group(7)))
                                for m in re.finditer(r"^  ⟨%s, %s, %s, (\d+), %s, %s, %s⟩" % (STR, STR, STR, STR, STR, STR), section(txt, "argUnknownSites"), re.M)]
    ptxt = (LEAN / "Csvq" / "Props" / "C19Args.lean").read_text() if (LEAN / "Csvq" / "Props" / "C19Args.lean").exists() else ""

    def refs(name):
        return ["%s:%s:%s x%s" % (unq(m.group(1)), unq(m.group(2)), unq(m.group(3)), m.group(4))
                for m in re.finditer(r"⟨%s, %s, %s, (\d+)⟩" % (STR, STR, STR), section(ptxt, name))]
    out["arg_sites_known"], out["arg_sites_reviewed"], out["arg_sites_pinned"] = refs("knownArgIndexSites"), refs("reviewedArgIndexSites"), len(refs("pinnedConstIndexSites"))
    # unchecked type assertions: classes, and the sites that are neither accepted by the checker nor listed
    LST = r"\[((?:%s(?:, )?)*)\]" % STR
    sources = {unq(m.group(1)): [unq(x) for x in re.findall(STR, m.group(2))] for m in re.finditer(r"^  \(%s, %s\)" % (STR, LST), section(txt, "dynSources"), re.M)}
    impl = {(unq(m.group(1)), unq(m.group(2))) for m in re.finditer(r"^  \(%s, %s\)" % (STR, STR), section(txt, "assertImplements"), re.M)}
    keyed = {}
    for m in re.finditer(r"^  \(%s, \[(.*)\]\)" % STR, section(txt, "keyedSources"), re.M):
        keyed[unq(m.group(1))] = {unq(r.group(1)): [unq(x) for x in re.findall(STR, r.group(2))] for r in re.finditer(r"\(%s, %s\)" % (STR, LST), m.group(2))}
    atxt = (LEAN / "Csvq" / "Props" / "C19Asserts.lean").read_text() if (LEAN / "Csvq" / "Props" / "C19Asserts.lean").exists() else ""
    listed = {(unq(m.group(1)), unq(m.group(2)), unq(m.group(3)), unq(m.group(4)), int(m.group(5))) for m in re.finditer(r"⟨%s, %s, %s, %s, (\d+)⟩" % (STR, STR, STR, STR), atxt)}
    out["assert_known"] = ["%s:%s:%s.(%s)#%s" % (unq(m.group(1)), unq(m.group(2)), unq(m.group(3)), unq(m.group(4)), m.group(5))
                           for m in re.finditer(r"⟨%s, %s, %s, %s, (\d+)⟩" % (STR, STR, STR, STR), section(atxt, "knownAssertSites"))]
    classes, per_file, open_sites = {}, {}, []
    for m in re.finditer(r"^  ⟨%s, %s, (\d+), (\d+), %s, %s, \.(inCase|afterOk|unknown|oneOf|keyed)(?: %s)?(?: %s)?⟩" % (STR, STR, STR, STR, STR, LST), section(txt, "assertSites"), re.M):
        f, fn, line, ordn, ex, typ, g = unq(m.group(1)), unq(m.group(2)), int(m.group(3)), int(m.group(4)), unq(m.group(5)), unq(m.group(6)), m.group(7)
        per_file[f] = per_file.get(f, 0) + 1
        okk, types, cls = g in ("inCase", "afterOk"), None, g
        if g == "oneOf":
            src = unq(m.group(8))
            excl = [unq(x) for x in re.findall(STR, m.group(9) or "")]
            types = sources.get(src)
            cls = "oneOf " + src.split(":", 1)[0]
            okk = types is not None and all(d in excl or (d not in ("nil", "?") and (d == typ or (d, typ) in impl)) for d in types)
        if g == "keyed":
            src = unq(m.group(8))
            keys = [unq(x) for x in re.findall(STR, m.group(9) or "")]
            tbl = keyed.get(src, {})
            types = {k: tbl.get(k) for k in keys}
            okk = bool(keys) and all(tbl.get(k) is not None and all(d not in ("nil", "?") and (d == typ or (d, typ) in impl) for d in tbl[k]) for k in keys)
        classes[cls] = classes.get(cls, 0) + 1
        if not okk and (f, fn, ex, typ, ordn) not in listed:
            open_sites.append({"file": f, "fn": fn, "line": line, "ord": ordn, "expr": ex, "typ": typ, "guard": g if g not in ("oneOf", "keyed") else "keyed %s %s" % (unq(m.group(8)), [unq(x) for x in re.findall(STR, m.group(9) or "")]) if g == "keyed" else "oneOf %s minus %s" % (unq(m.group(8)), [unq(x) for x in re.findall(STR, m.group(9) or "")]), "types": types})
    out["assert_classes"], out["assert_per_file"], out["assert_open"], out["assert_listed"], out["assert_sources"] = classes, per_file, open_sites, len(listed), len(sources)
    checks = {}
    for m in re.finditer(r"^  ⟨%s, %s, %s, " % (STR, STR, STR), section(txt, "argCountChecks"), re.M):
        checks.setdefault(unq(m.group(1)), []).append(unq(m.group(2)))
    out["arg_count_checks"] = checks
    return out



# ---------------------------------------------------------------- size sites (Csvq/Gen/SizeFacts.lean, Csvq/Props/C19Sizes.lean)
SIZE_GEN = LEAN / "Csvq" / "Gen" / "SizeFacts.lean"
SIZE_PROPS = LEAN / "Csvq" / "Props" / "C19Sizes.lean"


SIZE_FILES = ("SizeFacts.lean", "LoopFacts.lean", "IntConvFacts.lean", "LibSizeFacts.lean", "LibLoopFacts.lean", "LibIntConvFacts.lean")
LIB_PROPS = LEAN / "Csvq" / "Props" / "C19Lib.lean"


def size_regen(run, ok):
    """the second output of extract/errfacts (size sites, loops, conversions): each file written if changed (the omega proofs of a
    file are only rebuilt when one of its sites or facts changed)"""
    d = run.scratch / "sizegen"
    if not ok or not all((d / f).exists() for f in SIZE_FILES + ("sizefacts.json", "libsizefacts.json")):
        return None
    with Lock("lake"):
        for f in SIZE_FILES:
            txt, dst = (d / f).read_text(), LEAN / "Csvq" / "Gen" / f
            if not dst.exists() or dst.read_text() != txt:
                dst.write_text(txt)
    data = json.loads((d / "sizefacts.json").read_text())
    data["lib"] = json.loads((d / "libsizefacts.json").read_text())
    for k in ("sizes", "loop_edges", "loops", "conversions"):
        if data["lib"].get(k) is None:
            data["lib"][k] = []
    return data


def size_driver(lines):
    binp = LEAN / ".lake" / "build" / "bin" / "model-c19"
    if not binp.exists():
        return None
    try:
        p = subprocess.run([str(binp)], input="".join(l + "\n" for l in lines), capture_output=True, text=True, timeout=300)
    except subprocess.TimeoutExpired:
        return None
    return p.stdout.split("\n")[:len(lines)] if p.returncode == 0 else None


def size_exempt(props=SIZE_PROPS, name="exemptSizeSites"):
    txt = props.read_text() if props.exists() else ""
    body = section(txt, name)
    return [{"file": unq(m.group(1)), "fn": unq(m.group(2)), "expr": unq(m.group(3)), "what": unq(m.group(4)), "count": int(m.group(5)), "reason": unq(m.group(6))}
            for m in re.finditer(r"⟨%s, %s, %s, %s, (\d+), %s⟩" % (STR, STR, STR, STR, STR), body)]


def format_replays(site, names, vals):
    """StringFormatter.Format: a valuation (width, len(s), len(sign)) names a family of FORMAT calls"""
    def pick(prefix, default):
        xs = [v for n, v in zip(names, vals) if n.startswith(prefix)]
        return max(xs) if xs else default
    width, digits, sign = pick("width#", 0), max(pick("len(s#", 1), 1), pick("len(sign#", 0)
    precision = pick("precision#", -1)
    body = "5" if digits == 1 else "12" if digits == 2 else "1" * (digits - 2) + ".5"
    args = ["-" + body, body] if sign > 0 else [body, "-" + body]
    out = []
    for verb in ("f", "e", "E", "d", "s"):
        for flag in ("0", "", "-", " ", "+"):
            for w in ([str(width)] if width >= 0 else [""]) + [""]:
                for pr in ([".%d" % precision] if precision >= 0 else [""]):
                    for a in args:
                        st = "SELECT FORMAT('%%%s%s%s%s', %s)" % (flag, w, pr, verb, a if verb != "s" else "'" + body + "'")
                        if st not in out:
                            out.append(st)
    return out


def title_replays(run, names, vals):
    """doc.Writer.String: a valuation (tw = width of the title, MaxWidth = screen width) with MaxWidth + 2 <= tw names a family of
    reports whose title is that much wider than the screen; the screen is 75 columns when standard input is not a terminal and the
    title of `csvq fields <path>` is "Fields in <path>" (10 + len(path) columns): a generated path of that length, in a fresh directory"""
    tw = [v for n, v in zip(names, vals) if n.startswith("tw#")]
    mw = [v for n, v in zip(names, vals) if n.endswith(".MaxWidth")]
    if not tw or not mw:
        return []
    over = max(tw[-1] - mw[0], 2)
    out = []
    for extra in (0, 1, 10):
        want = 75 + over + extra - 10
        parts, left = ["."], want - 2 - len("/t.csv")
        while left > 0:
            k = min(left - 1, 40) if left > 1 else 0
            if k <= 0:
                break
            parts.append("d" * k)
            left -= k + 1
        rel = "/".join(parts) + "/t.csv"
        base = run.scratch / "title_replay"
        (base / rel).parent.mkdir(parents=True, exist_ok=True)
        (base / rel).write_text("id,name\n1,a\n")
        out.append((["fields", rel], base, "mkdir -p %s && printf 'id,name\\n1,a\\n' > %s && csvq fields %s < /dev/null" % ("/".join(parts), rel, rel)))
        out.append((["SHOW FIELDS FROM `%s`" % rel], base, "mkdir -p %s && printf 'id,name\\n1,a\\n' > %s && csvq 'SHOW FIELDS FROM `%s`' < /dev/null" % ("/".join(parts), rel, rel)))
    return out


def size_part(run, sites, csvq, op="size", props=SIZE_PROPS, exname="exemptSizeSites"):
    """what the size obligations say on this tree: open obligations (not proved, not reviewed) with a violating valuation from
    the driver's search and, where a valuation can be turned into a call (the formatter: FORMAT calls; the title of a report:
    `csvq fields <generated long path>`), the call run on the real binary"""
    cov = {"obligations": 0}
    if sites is None:
        return cov
    ans = size_driver(["c19.%sopen" % op])
    if ans is None:
        run.problems.append(Problem("build", "model-driver", "model-c19 did not answer c19.%sopen" % op))
        return cov
    unproved = [int(x) for x in ans[0].split(",")] if ans[0] not in ("-", "") else []
    exempt = size_exempt(props, exname)
    left = {(e["file"], e["fn"], e["expr"], e["what"]): e["count"] for e in exempt}
    per_kind, per_file, cls = {}, {}, {}
    for x in sites:
        per_kind[x["kind"] + ":" + x["what"]] = per_kind.get(x["kind"] + ":" + x["what"], 0) + 1
        per_file[x["file"]] = per_file.get(x["file"], 0) + 1
    for e in exempt:
        cls[e["reason"][:1]] = cls.get(e["reason"][:1], 0) + e["count"]
    open_ = []
    for i in unproved:
        if i >= len(sites):
            continue
        x = sites[i]
        k = (x["file"], x["fn"], x["expr"], x["what"])
        if left.get(k, 0) > 0:
            left[k] -= 1
        else:
            open_.append(i)
    cov = {"obligations": len(sites), "proved_for_all_valuations": len(sites) - len(unproved), "reviewed_exempt": len(unproved) - len(open_),
           "exempt_by_reason_class": cls, "per_kind": per_kind, "per_file": per_file,
           "neither_proved_nor_reviewed": ["%s:%d %s %s [%s]" % (sites[i]["file"], sites[i]["line"], sites[i]["fn"], sites[i]["expr"], sites[i]["what"]) for i in open_]}
    if not open_:
        return cov
    cex = size_driver(["c19.%ssearch %d" % (op, i) for i in open_[:12]]) or []
    for n, i in enumerate(open_[:12]):
        x = sites[i]
        sg = "size:%s:%s:%s:%s" % (x["file"], x["fn"], x["expr"], x["what"])
        detail = {"what": "size obligation neither proved for all valuations (omega over the facts that dominate the site) nor reviewed in lean/Csvq/Props/%s: "
                          "the operand can be out of range as far as the guards of this function say (Go panics: negative Repeat count / makeslice: len out of range / index or slice bounds out of range)" % props.name,
                  "site": "%s:%d" % (x["file"], x["line"]), "function": x["fn"], "expression": x["expr"], "bound": x["what"], "obligation": x["goal"], "facts_at_the_site": x["conds"]}
        vals = None
        if n < len(cex) and cex[n].startswith("cex "):
            vals = [int(v) for v in cex[n][4:].split(",") if v != ""]
            detail["violating_valuation"] = {nm: v for nm, v in zip(x["vars"], vals)}
        found = None
        if vals is not None and csvq and x["fn"].startswith("StringFormatter.Format"):
            tried = format_replays(x, x["vars"], vals)
            for st in tried:
                try:
                    r = subprocess.run([str(csvq), st], cwd=str(run.scratch), capture_output=True, text=True, timeout=20)
                except subprocess.TimeoutExpired:
                    continue
                text = r.stdout + r.stderr
                if "Fatal Error" in text or "panic:" in text or "goroutine " in text:
                    found = (st, r.returncode, text)
                    break
            detail["calls_derived_from_the_valuation"] = len(tried)
        how = "turned into a FORMAT call"
        if vals is not None and csvq and x["fn"] == "Writer.String" and x["file"] == "lib/doc/writer.go":
            how = "turned into a report whose title is that much wider than the 75 columns of a screen that is no terminal"
            tried = title_replays(run, x["vars"], vals)
            for argv, cwd, text_cmd in tried:
                try:
                    r = subprocess.run([str(csvq)] + argv, cwd=str(cwd), capture_output=True, text=True, timeout=20, stdin=subprocess.DEVNULL)
                except subprocess.TimeoutExpired:
                    continue
                text = r.stdout + r.stderr
                if "Fatal Error" in text or "panic:" in text or "goroutine " in text:
                    found = (text_cmd, r.returncode, text)
                    break
            detail["calls_derived_from_the_valuation"] = len(tried)
        run.problems.append(Problem("direct", sg, detail, concrete=False, signature=sg))
        if found:
            run.problems.append(Problem("law", "internal_panic", {
                "command": found[0] if found[0].startswith("mkdir") else "csvq \"%s\"" % found[0], "exit_code": found[1], "output": found[2][:700],
                "reproduce": found[0] if found[0].startswith("mkdir") else "csvq \"%s\"" % found[0], "stream": "size obligations",
                "found_as": "valuation %s of the violated size obligation %s at %s:%d, %s and run on the binary built from the tree" % (
                    detail.get("violating_valuation"), x["goal"], x["file"], x["line"], how)}, concrete=True, signature="law:internal_panic"))
    return cov


LOOP_PROPS = LEAN / "Csvq" / "Props" / "C19Loops.lean"


def refs_of(path, name, nstr):
    """entries ⟨"..", …, count, "reason"⟩ of a reviewed list: nstr strings, a number, the reason"""
    txt = path.read_text() if path.exists() else ""
    rx = r"⟨" + ", ".join([STR] * nstr) + r", (\d+), " + STR + r"⟩"
    return [tuple(unq(m.group(i + 1)) for i in range(nstr)) + (int(m.group(nstr + 1)), unq(m.group(nstr + 2))) for m in re.finditer(rx, section(txt, name))]


def valuation_of(answer, names):
    if not answer or not answer.startswith("cex "):
        return None
    vals = [int(v) for v in answer[4:].split(",") if v != ""]
    return {nm: v for nm, v in zip(names, vals)}


def loop_part(run, data, op="loop", props=LOOP_PROPS, exname="exemptLoopSites"):
    """loops: every for statement (range aside) with its measures; open = no measure with all back edges proved and not reviewed"""
    if not data:
        return {"loops": 0}
    loops, edges = data["loops"], data["loop_edges"]
    ans = size_driver(["c19.%sopen" % op])
    if ans is None:
        run.problems.append(Problem("build", "model-driver", "model-c19 did not answer c19.%sopen" % op))
        return {"loops": len(loops)}
    unproved = [int(x) for x in ans[0].split(",")] if ans[0] not in ("-", "") else []
    exempt = refs_of(props, exname, 3)
    left = {e[:3]: e[3] for e in exempt}
    cls = {}
    for e in exempt:
        cls[e[4][:1]] = cls.get(e[4][:1], 0) + e[3]
    open_ = []
    for i in unproved:
        l = loops[i]
        k = (l["file"], l["fn"], l["header"])
        if left.get(k, 0) > 0:
            left[k] -= 1
        else:
            open_.append(i)
    per_pkg = {}
    for l in loops:
        pk = "/".join(l["file"].split("/")[:2])
        per_pkg[pk] = per_pkg.get(pk, 0) + 1
    cov = {"loops": len(loops), "back_edge_obligations": len(edges), "proved_to_terminate": len(loops) - len(unproved), "of_them_without_a_back_edge": sum(1 for l in loops if l["back_edges"] == 0),
           "reviewed_exempt": len(unproved) - len(open_), "exempt_by_reason_class": cls, "per_package": per_pkg, "without_an_integer_measure": sum(1 for l in loops if not l["measures"]),
           "neither_proved_nor_reviewed": ["%s:%d %s %s" % (loops[i]["file"], loops[i]["line"], loops[i]["fn"], loops[i]["header"]) for i in open_]}
    for i in open_[:8]:
        l = loops[i]
        sg = "loop:%s:%s:%s" % (l["file"], l["fn"], l["header"])
        detail = {"what": "loop neither proved to terminate (a measure read off its exit conditions that is non-negative at the head and decreases along every back edge, for all valuations of one iteration) nor reviewed in lean/Csvq/Props/%s" % props.name,
                  "site": "%s:%d" % (l["file"], l["line"]), "function": l["fn"], "loop": l["header"], "back_edges": l["back_edges"], "measures_tried": [m["text"] for m in l["measures"]]}
        ed = size_driver(["c19.%sedges %d" % (op, i)]) or ["-"]
        bad = [int(t.rstrip("!")) for t in re.split(r"[;+]", ed[0]) if t.endswith("!")]
        if bad:
            x = edges[bad[0]]
            detail.update({"unproved_obligation": x["goal"], "measure_and_back_edge": x["what"], "facts_on_that_path": x["conds"]})
            v = valuation_of((size_driver(["c19.%ssearch %d" % (op, bad[0])]) or [""])[0], x["vars"])
            if v is not None:
                detail["iteration_in_which_the_measure_does_not_decrease"] = v
        run.problems.append(Problem("direct", sg, detail, concrete=False, signature=sg))
    return cov


def conv_part(run, data, op="conv", exname="exemptConvSites"):
    """float -> integer and narrowing conversions that reach a size / loop obligation"""
    if not data:
        return {"conversions": 0}
    convs = data["conversions"]
    ans = size_driver(["c19.%sopen" % op])
    if ans is None:
        run.problems.append(Problem("build", "model-driver", "model-c19 did not answer c19.%sopen" % op))
        return {"conversions": len(convs)}
    unproved = [int(x) for x in ans[0].split(",")] if ans[0] not in ("-", "") else []
    exempt = refs_of(LOOP_PROPS, exname, 4) if exname else []
    left = {e[:4]: e[4] for e in exempt}
    open_ = []
    for i in unproved:
        c = convs[i]
        k = (c["file"], c["fn"], c["expr"], c["what"])
        if left.get(k, 0) > 0:
            left[k] -= 1
        else:
            open_.append(i)
    cov = {"conversions_seen_in_the_walked_packages": data.get("conversions_seen"), "by_kind": data.get("conversions_seen_by_kind"), "reaching_a_size_or_loop_obligation": len(convs),
           "guarded_for_all_valuations": len(convs) - len(unproved), "reviewed_exempt": len(unproved) - len(open_),
           "int64_to_int": "same width on the 64-bit platforms csvq is built for: passed through, no obligation",
           "sites": ["%s:%d %s %s -> %s" % (c["file"], c["line"], c["fn"], c["expr"], "; ".join(c.get("flows_into", [])[:3])) for c in convs],
           "neither_guarded_nor_reviewed": ["%s:%d %s %s" % (convs[i]["file"], convs[i]["line"], convs[i]["fn"], convs[i]["expr"]) for i in open_]}
    for i in open_[:8]:
        c = convs[i]
        sg = "conv:%s:%s:%s" % (c["file"], c["fn"], c["expr"])
        detail = {"what": "conversion to an integer whose result reaches a size operand or a loop bound, neither guarded for all valuations (operand not NaN and inside the range of the target type under the facts that dominate it) nor reviewed in lean/Csvq/Props/C19Loops.lean: "
                          "NaN / +-Inf / out-of-range operands convert to a platform-defined value (the minimum integer on amd64)",
                  "site": "%s:%d" % (c["file"], c["line"]), "function": c["fn"], "conversion": c["expr"], "kind": c["what"], "obligation": c["goal"], "facts_at_the_conversion": c["conds"], "reaches": c.get("flows_into")}
        v = valuation_of((size_driver(["c19.%ssearch %d" % (op, i)]) or [""])[0], c["vars"])
        if v is not None:
            detail["operand_the_guards_let_through"] = v
        run.problems.append(Problem("direct", sg, detail, concrete=False, signature=sg))
    return cov


def run(run):
    q = run.tier == "quick"
    run.assumptions += [
        "the loader theorems are about the models of C02 (Csvq/Model/Csv.lean, Ltsv.lean, Fixed.lean), tied to lib/query/load_view.go + go-text by C02's correspondence stream (JSON / JSON Lines: Csvq/Model/Json.lean + JsonStruct.lean, ops c02.jdec / c02.jsload / c02.jslines); json-queries other than the empty one and {} are explored, not modelled",
        "nil-error / recover facts are syntactic, intraprocedural patterns (a method call on error variable Y inside the branch that established a different variable Z non-nil, Y neither established nor assigned on the path; a recover() whose enclosing if-condition inside the deferred function calls a function); they expose the pattern, they are not a nil-ness or escape analysis",
        "reviewed local recover guards (err == nil [&& !panicOccurred]) only read variables of the panicking goroutine, and every assignment that falsifies them is followed by break/return (listed in Csvq/Props/C19.lean, reviewedLocalGuards)",
        "argument-slice index facts (Gen.argIndexSites) are read per function from the if / switch / early-return structure and handed to callees with the call context; a length condition is assumed to survive calls (callees do not resize the caller's argument slice) and an index variable counts as non-negative only if it is a range key or is only assigned non-negative constants / ++; the five sites guarded by a call instead of a length condition and the six uses without a rule are reviewed one by one in Csvq/Props/C19Args.lean",
        "size facts (Gen.Size.sizeEntries) are read per function by a structured walk (see extract/errfacts/sizefacts.go): mathematical integers, no aliasing analysis (a field path is forgotten at assignments under its variable and at calls that receive the variable), calls do not resize the caller's local slices; the reviewed entries of Csvq/Props/C19Sizes.lean and C19Loops.lean (non-linear, parameters / callee contracts, data-structure invariants, string-search results, iterator / scanner loops) are reviewed, not proved; a call forgets the fields its callee can write (transitive write sets over the module; code outside the module is assumed not to assign the module's struct fields)",
        "exploration: what the generators never produce is never tried (no external commands, no network, no unbounded recursion / endless loops; children limited to 3 GB of address space: out-of-memory under the limit is counted as an observation)",
        "the oracle reads the exit status and the text of stdout/stderr; a failure that leaves both clean (wrong data) is outside C19",
    ]
    (run.scratch / "sizegen").mkdir(exist_ok=True)
    ok = run.regen("errfacts", ["env", "ERRFACTS_SIZE_DIR=%s" % (run.scratch / "sizegen"), "go", "run", "-C", "extract/errfacts", "."], "Csvq/Gen/ErrFacts.lean")
    size_data = size_regen(run, ok)
    size_sites = size_data["sizes"] if size_data else None
    gen = parse_gen() if ok else {"nil": [], "rec": [], "lists": {}, "ctors": 0, "index_sites": 0}

    # static sites the full statements nil_error_sites / recover_unconditional do not hold for
    static = []
    for f in gen["nil"]:
        sg = "nilerr:%s:%s:%s" % (f["file"], f["fn"], f["expr"])
        static.append(Problem("direct", sg, {"what": "method call on an error variable that is nil on this path: the enclosing condition tested `%s`, not the variable used (static fact)" % f["tested"],
                                             "site": "%s:%d" % (f["file"], f["line"]), "function": f["fn"], "expression": f["expr"]}, concrete=False, signature=sg))
    for f in gen["rec"]:
        if f["shared"]:
            sg = "recover:%s:%s:%s" % (f["file"], f["fn"], f["guard"])
            static.append(Problem("direct", sg, {"what": "recover() skipped when `%s` is false: a panic in a second worker after the first recorded an error is not recovered and ends the process with a raw Go panic (static fact)" % f["guard"],
                                                 "site": "%s:%d" % (f["file"], f["line"]), "function": f["fn"]}, concrete=False, signature=sg))
    # unchecked type assertions that are neither safe by the class of their guard nor listed in Props/C19Asserts.lean
    # (the Lean theorem assertion_sites_ok is the authority; this only names the sites)
    for a in gen.get("assert_open", []):
        sg = "assert:%s:%s:%s.(%s)#%d" % (a["file"], a["fn"], a["expr"], a["typ"], a["ord"])
        static.append(Problem("direct", sg, {"what": "unchecked type assertion that is not safe by the class of its guard (type-switch clause / comma-ok / finite set of possible dynamic types) and is not listed in lean/Csvq/Props/C19Asserts.lean: it panics when the value holds another type or nil",
                                             "site": "%s:%d" % (a["file"], a["line"]), "function": a["fn"], "assertion": "%s.(%s)" % (a["expr"], a["typ"]), "guard": a["guard"],
                                             "possible_dynamic_types": a.get("types")}, concrete=False, signature=sg))
    run.problems += static

    if ok:
        run.obligations_for(["Csvq.Props.C19", "Csvq.Props.C19Args", "Csvq.Props.C19Asserts"])
        # the size obligations on their own: when a site of the tree under test is neither proved nor reviewed, only their theorems are undischarged
        first = list(run.cov["obligation_names"])
        run.obligations_for(["Csvq.Props.C19Sizes"])
        second = list(run.cov["obligation_names"])
        run.obligations_for(["Csvq.Props.C19Loops"])
        third = list(run.cov["obligation_names"])
        run.obligations_for(["Csvq.Props.C19Lib"])
        run.cov["obligation_names"] = first + second + third + run.cov["obligation_names"]

    before = len(run.problems)
    stats = None
    csvq = run.build_csvq()
    if csvq:
        stats = run.stream("c19", 6000 if q else 500000, env={"VERIF_CSVQ": str(csvq)}, timeout=600 if q else 3300)
    law_names = {p.name for p in run.problems[before:] if p.kind == "law"}
    size_cov = size_part(run, size_sites, csvq)
    loop_cov, conv_cov = loop_part(run, size_data), conv_part(run, size_data)
    lib_data = size_data["lib"] if size_data else None
    lib_cov = {"packages": "lib/action lib/cli lib/doc lib/excmd lib/file lib/json lib/option lib/syntax lib/terminal (readline files aside) lib/value",
               "size_sites": size_part(run, lib_data["sizes"] if lib_data else None, csvq, op="libsize", props=LIB_PROPS, exname="exemptLibSizeSites"),
               "loop_sites": loop_part(run, lib_data, op="libloop", props=LIB_PROPS, exname="exemptLibLoopSites"),
               "conversion_sites": conv_part(run, lib_data, op="libconv", exname=None)}
    for p in static:
        if p.signature.startswith("nilerr:") and "cacheViewFromFile" in p.signature:
            p.detail["reproduced_on_the_binary"] = "fatal:nil_error_removed_cwd" in law_names
        elif p.signature.startswith("recover:"):
            p.detail["pattern_reproduced_on_the_binary"] = "panic:unrecovered_worker" in law_names
    # a law record carries its own minimal command line: show it first
    for p in run.problems[before:]:
        if p.kind == "law" and isinstance(p.detail, dict) and isinstance(p.detail.get("case"), dict):
            c = p.detail["case"]
            p.detail = {"command": c.get("command"), "exit_code": c.get("exit_code"), "output": (c.get("stderr") or c.get("stdout") or "")[:700],
                        "reproduce": c.get("reproduce"), "occurrences": c.get("occurrences"), "stream": "c19", "tags": c.get("tags"), "found_as": c.get("found_as")}

    # what was driven (measured by the harness), against the generated tables
    dist = (stats or {}).get("stats", {})

    def driven(prefix):
        return sorted(k[len(prefix):] for k in dist if k.startswith(prefix))

    fn_driven = set(driven("fn:"))
    agg_driven, ana_driven = set(driven("aggfn:")), set(driven("anafn:"))
    lists = gen["lists"]
    not_driven = {
        "builtin_functions": sorted(set(lists.get("builtinFunctions", [])) - fn_driven),
        "aggregate_functions": sorted(set(lists.get("aggregateFunctions", [])) - agg_driven),
        "analytic_functions": sorted(set(lists.get("analyticFunctions", [])) - ana_driven),
        "special_functions": sorted(set(lists.get("specialFunctions", [])) - fn_driven),
    }
    if stats is not None:
        missing = not_driven["builtin_functions"] + not_driven["aggregate_functions"] + not_driven["analytic_functions"]
        if missing:
            run.problems.append(Problem("direct", "functions_not_driven", {"what": "functions of the generated tables the harness did not call (its list comes from the linked csvq packages: the two disagree)", "names": missing[:40]}, concrete=False))
    # the arity grid: every name of the generated tables x every argument count (harness/cmd/c19/gen_arity.go)
    arity_per_fn = {}
    for k in dist:
        if k.startswith("arity_of:"):
            head, _, rest = k[len("arity_of:"):].partition(" ")
            arity_per_fn[head] = rest
    if stats is not None:
        want = (["scalar:" + n for n in lists.get("builtinFunctions", [])] + ["aggregate:" + n for n in lists.get("aggregateFunctions", [])] +
                ["analytic:" + n for n in lists.get("analyticFunctions", [])] + ["special:" + n for n in lists.get("specialFunctions", [])] +
                ["list:" + n for n in lists.get("listAggregateFunctions", [])])
        no_cells = sorted(set(want) - set(arity_per_fn))
        if no_cells:
            run.problems.append(Problem("direct", "arity_grid_incomplete", {"what": "names of the generated function tables the arity grid did not drive with every argument count", "names": no_cells[:40]}, concrete=False))
    extra = {
        "size_sites": size_cov,
        "loop_sites": loop_cov,
        "conversion_sites": conv_cov,
        "second_group_of_packages": lib_cov,
        "loaded_table_grid": {"loads": dist.get("rect_grid_loads", 0), "successful_loads_checked_for_rectangularity": dist.get("rect_grid_successful_loads", 0),
                              "outcomes": {k[13:]: v for k, v in dist.items() if k.startswith("rect_outcome:")}, "routes": {k[11:]: v for k, v in dist.items() if k.startswith("rect_route:")},
                              "key_set_shapes": sorted(k[11:] for k in dist if k.startswith("rect_shape:")), "violations": {k[15:]: v for k, v in dist.items() if k.startswith("rect_violation:")}},
        "report_grid": {"statements_in_process": dist.get("report_grid_calls", 0), "shape": [k for k in dist if k.startswith("report_grid: ")],
                        "outcomes": {k[15:]: v for k, v in dist.items() if k.startswith("report_outcome:")}, "fatal": {k[13:]: v for k, v in dist.items() if k.startswith("report_fatal:")},
                        "process_runs": dist.get("group:report", 0), "reports": driven("report:"), "title_lengths": driven("title-length:"),
                        "stdin": sorted(k for k in dist if k.startswith("stdin:terminal") or k == "stdin:not-a-terminal"), "color": driven("color:")},
        "placeholder_grid": {"calls": dist.get("format_grid_calls", 0), "outcomes": {k[20:]: v for k, v in dist.items() if k.startswith("format_grid_outcome:")},
                             "shape": [k for k in dist if k.startswith("format_grid: ")]},
        "paging_grid": {"calls": dist.get("paging_grid_calls", 0), "outcomes": {k[20:]: v for k, v in dist.items() if k.startswith("paging_grid_outcome:")},
                        "shape": [k for k in dist if k.startswith("paging_grid: ")]},
        "grid_candidates_confirmed_on_the_binary": {k[11:]: v for k, v in dist.items() if k.startswith("grid_fatal:")},
        "error_constructors": gen["ctors"], "strToTime_index_sites": gen.get("index_sites", 0),
        "argument_slice_index_sites": {"per_file": gen.get("arg_sites_per_file", {}), "per_family": gen.get("arg_sites_per_family", {}),
                                       "uses_without_a_rule_reviewed": gen.get("arg_unknown_sites", []),
                                       "known_out_of_range_sites": gen.get("arg_sites_known", []), "reviewed_sites_guarded_by_a_call": gen.get("arg_sites_reviewed", []),
                                       "pinned_constant_index_sites_not_proved": gen.get("arg_sites_pinned", 0),
                                       "count_checks_per_table": {k: len(v) for k, v in gen.get("arg_count_checks", {}).items()}},
        "unchecked_type_assertions": {"sites": sum(gen.get("assert_classes", {}).values()), "per_guard_class": gen.get("assert_classes", {}), "per_file": gen.get("assert_per_file", {}),
                                      "sources_with_a_table_of_possible_types": gen.get("assert_sources", 0), "listed_one_by_one_in_C19Asserts": gen.get("assert_listed", 0),
                                      "known_reachable_with_another_type": gen.get("assert_known", []), "neither_safe_nor_listed": ["%s:%d %s.(%s)" % (a["file"], a["line"], a["expr"], a["typ"]) for a in gen.get("assert_open", [])]},
        "arity_grid": {"functions": dist.get("arity_grid_functions", 0), "functions_x_argument_counts_driven": dist.get("arity_grid_cells", 0), "calls": dist.get("arity_grid_calls", 0),
                       "argument_counts": "0..7 for every table name (the widest built-in takes 5), 0..max+2 for the user-defined functions",
                       "outcomes": {k[14:]: v for k, v in dist.items() if k.startswith("arity_outcome:")},
                       "fatal_candidates_confirmed_on_the_binary": dist.get("arity_confirmed", 0),
                       "fatal_candidates_not_confirmed": {k[18:]: v for k, v in dist.items() if k.startswith("arity_unconfirmed:")},
                       "per_function_count_to_outcome": arity_per_fn},
        "packages_analysed": lists.get("errFactsPackages", []),
        "nil_error_sites_static": ["nilerr:%s:%s:%s" % (f["file"], f["fn"], f["expr"]) for f in gen["nil"]],
        "recover_sites": ["%s:%d %s guard=%r shared=%s" % (f["file"], f["line"], f["fn"], f["guard"], f["shared"]) for f in gen["rec"]],
        "driven": {
            "builtin_functions": sorted(fn_driven), "aggregate_functions": sorted(agg_driven), "analytic_functions": sorted(ana_driven),
            "clauses": driven("clause:"), "statements": driven("stmt:"), "options": driven("opt:"), "subcommands_and_usage": driven("subcommand:") + driven("usage:"),
            "formats": driven("format:"), "encodings": driven("encoding:"), "byte_sources": driven("bytes:") + driven("transcoded:"), "data_queries": driven("query:"),
            "fs_conditions": driven("fs:"), "corpus": driven("corpus:"), "argument_classes": driven("argclass:"), "call_sites": driven("where:"), "arities": driven("arity:"),
            "exit_codes": {k[5:]: v for k, v in dist.items() if k.startswith("exit:")},
            "error_classes": {k[12:]: v for k, v in dist.items() if k.startswith("error_class:")},
            "observations_not_laws": {k[9:]: v for k, v in dist.items() if k.startswith("observed:")},
            "inprocess_rectangularity_probes": dist.get("inprocess_rect_probe", 0),
            "json_key_paths": driven("jsonpath:"), "json_queries": driven("jsonquery:"), "routes": driven("route:"),
            "access_path_sequences": driven("paths:"), "option_value_grammars": driven("grammar:"),
            "record_count_grid": {"formats": driven("size:"), "records": driven("records:"), "file_encodings": driven("file-encoding:"), "read_encodings": driven("read-encoding:"), "repertoires": driven("repertoire:")},
            "join_kinds": driven("join:"), "join_sides": sorted(set(driven("left:") + driven("right:"))),
            "session_x_table_function_pairs": driven("levels:"), "udf_side_effects": [k for k in dist if k.startswith("udf-effect ")],
            "name_lists": driven("names:"), "patterns": driven("pattern:"), "fieldless_sources": driven("fieldless:"), "fieldless_positions": driven("position:"),
            "mode_arguments_over_data": driven("modes:"), "like_multibyte_patterns": driven("like-multibyte:") + driven("like-multibyte over data:"),
            "window_frames": {"functions_and_bounds": len(driven("frame:")), "low_bounds": driven("frame-low:"), "high_bounds": driven("frame-high:")},
            "jsonl_with_json_query": driven("jsonl-query:"),
            "clause_combinations": driven("combo:"), "output_formats": driven("output-format:"), "output_special_cells": driven("special:"), "output_placements": driven("placement:"),
            "deterministic_grids": "every grid is cut into 2-6 slices per kind of job; a round runs the slice (seed + round) mod k, so a quick run takes one slice that rotates with the seed and a thorough run (25 rounds) covers every slice several times",
            "row_context_beside_aggregate_over_no_records": driven("emptyagg:"), "subcommand_texts": driven("subcommand-text:"), "hostile_environment": driven("env:"),
            "multi_table_dml_over_outer_joins": driven("outer-dml:"), "select_into_shapes": driven("select-into:"),
            "fields_subcommand_argument_grid": {"classes": sorted(k[len("subcommand-text:fields (grid) "):] for k in dist if k.startswith("subcommand-text:fields (grid) ")), "arguments": len(driven("fields-arg:"))},
            "prepared_statement_grid": {"texts": driven("prepared-text:"), "consumers": driven("prepared-consumer:")},
            "names_in_the_wrong_role_grid": {"roles": driven("role:"), "kinds_of_name": driven("name-kind:")},
            "quoted_function_names": len(driven("quoted-name:")), "table_object_grid": {"objects": driven("table-object:"), "targets": driven("target-of:")},
            "ragged_data": driven("ragged:"), "stale_control_files": driven("lock:"), "wait_timeouts": driven("wait-timeout:"),
            "out_of_memory_commands_counted_not_reported": sorted(k[13:] for k in dist if k.startswith("observed_oom:")),
            "timed_out_commands_naming_a_large_quantity_counted_not_reported": sorted(k[17:] for k in dist if k.startswith("observed_timeout:")),
        },
        "inprocess_function_fuzzer": {
            "calls": dist.get("inproc_calls", 0),
            "calls_per_function": {k[7:]: v for k, v in dist.items() if k.startswith("inproc:")},
            "calls_per_arity": {k[13:]: v for k, v in dist.items() if k.startswith("inproc_arity:")},
            "outcomes": {k[15:]: v for k, v in dist.items() if k.startswith("inproc_outcome:")},
            "candidates": dist.get("inproc_candidates", 0),
            "candidates_by_function_and_frame": {k[20:]: v for k, v in dist.items() if k.startswith("inproc_candidate_at:")},
            "confirmation_jobs_confirmed_on_the_binary": dist.get("inproc_confirmed", 0),
            "confirmation_jobs_not_confirmed": {k[19:]: v for k, v in dist.items() if k.startswith("inproc_unconfirmed:")},
            "child_restarts": dist.get("inproc_child_restarts", 0),
            "abandoned": [k[17:] for k in dist if k.startswith("inproc_abandoned:")],
        },
        "not_driven": dict(not_driven, deliberately=["CALL (runs external programs)", "external command statements ($ ...)", "check-update sub-command and URLs (network)", "unbounded recursion / endless loops (non-terminating programs; that includes a prepared statement whose text executes itself: PREPARE st FROM 'EXECUTE st')", "interactive shell beyond an empty stdin"]),
    }
    # the full per-key distribution is summarised above; keep the stream entry small
    for s in run.cov["streams"].values():
        d = s.get("distribution", {})
        s["distribution"] = {k: v for k, v in d.items() if k.startswith(("group:", "law_seen:", "exit:", "observed:", "inproc_c", "inproc_o", "inproc_a"))}
    return run.finish(
        level="proof",
        rule="proof part: obligations = theorems of Csvq/Props/C19.lean, Csvq/Props/C19Args.lean, Csvq/Props/C19Asserts.lean, Csvq/Props/C19Sizes.lean, Csvq/Props/C19Loops.lean and Csvq/Props/C19Lib.lean over Csvq/Gen/ErrFacts.lean, SizeFacts.lean, LoopFacts.lean, IntConvFacts.lean and their Lib* twins regenerated on this run. Correspondence part: one case = one cell (function name, argument count) of the arity grid, the implementation's answer (argument-length error or not, over 5-30 SQL statements per cell) against the Lean driver model-c19 evaluating the regenerated count checks. Exploration part: one case = one run of the real csvq binary in a fresh directory (corpus of earlier findings; file-system conditions; clause / statement templates with holes filled from a 190-value boundary pool and random command-line options; every function of the three tables with 0-5 pool / column arguments, scalar and over 200 rows with --cpu 4; in-process calls of every scalar and aggregate function (each call counted as one evaluation; exhaustive singles / pairs / triples over typed pools, see inprocess_function_fuzzer), candidates confirmed on the binary; JSON key-path and JSON-query routes; arbitrary / mutated / transcoded bytes x format x import options as file, table object and stdin); non-trivial = distinct (group, set of tags [function, arity, call site, clause, statement, options, format, byte source, encoding, fs condition], exit code) for process runs, distinct (function, arity) and (function, outcome class value/null/error/panic) for in-process calls",
        trusted_base=BASE_TRUST + [
            "extract/errfacts (go/ast + go/types, fails closed): constant tables, constructors, the manual's Return Code table, cli.Exit, nil-error and recover patterns, function tables, StrToTime index sites, argument-slice index sites and count checks (argfacts.go), size sites, loops and conversions of both package groups with the facts that dominate them (sizefacts.go, loopfacts.go, writes.go: the structured walk - epochs per variable and per field, joins, havoc at loops / literals, callee write sets - is trusted to produce only facts that hold at the site; the choice of back edges and measures of a loop is part of it), unchecked type assertions with the tables of possible dynamic types (assertsites.go; grammar.go reads parser.y's actions and every construction of a parser node in the module)",
            "the loader models of C02 and the LIMIT / cursor models of C07 / C16 (each tied to the code by its own property's correspondence)",
            "harness/cmd/c19: generators, the classifying oracle (exit status + text patterns), /bin/sh + ulimit for the children"],
        checker_cmd="cd /verif && ERRFACTS_SIZE_DIR=<dir: SizeFacts.lean LoopFacts.lean IntConvFacts.lean LibSizeFacts.lean LibLoopFacts.lean LibIntConvFacts.lean, copied into lean/Csvq/Gen if changed> go run -C extract/errfacts . > lean/Csvq/Gen/ErrFacts.lean && cd lean && lake build Csvq.Props.C19 Csvq.Props.C19Args Csvq.Props.C19Asserts Csvq.Props.C19Sizes Csvq.Props.C19Loops Csvq.Props.C19Lib model-c19 && lake env lean <#print axioms for every theorem>; cd /verif/harness && go build -tags verif ./cmd/c19 && VERIF_CSVQ=<csvq built from /repo with -tags verif> ./c19 -seed S -n N -out DIR",
        extra_cov=extra,
    )
