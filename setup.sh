#!/bin/sh
# Build the framework from files on disk only (offline): Lean library + model driver, Go harness warm-up.
set -e
cd "$(dirname "$0")"
export GOFLAGS=-mod=mod GOPROXY=off GOSUMDB=off GOTOOLCHAIN=local
(cd lean && lake build Csvq && for f in Drivers/C*.lean; do lake build model-$(basename $f .lean | tr A-Z a-z); done)
cp /repo/go.sum harness/go.sum
(cd harness && for d in cmd/*/; do go build -tags verif -o /dev/null ./$d; done)
for d in extract/*/; do [ -f "$d/go.mod" ] && (cd "$d" && go build -o /dev/null . ) || true; done
echo setup-ok
