#!/bin/sh
# Build the framework from files on disk only (offline): Lean theorems + model drivers, Go harness and
# extractor warm-up.  Every ./check rebuilds what it needs anyway; failures here are reported, not fatal.
cd "$(dirname "$0")"
export GOFLAGS=-mod=mod GOPROXY=off GOSUMDB=off GOTOOLCHAIN=local
rc=0
(cd lean && for f in Csvq/Props/C*.lean; do lake build Csvq.Props.$(basename $f .lean) || echo "WARN: $f did not build"; done)
(cd lean && for f in Drivers/C*.lean; do lake build model-$(basename $f .lean | tr A-Z a-z) || echo "WARN: driver $f did not build"; done)
cp /repo/go.sum harness/go.sum
(cd harness && for d in cmd/*/; do go build -tags verif -o /dev/null ./$d || echo "WARN: $d did not build"; done)
for d in extract/*/; do [ -f "$d/go.mod" ] && (cd "$d" && go build -o /dev/null . || echo "WARN: $d did not build"); done
(cd /repo && go build -tags verif -o /dev/null . ) || rc=1
echo setup-ok
exit $rc
