-- Root of the `Csvq` library: model, driver handlers, lemmas and property theorems.
import Csvq.Model.Basic
import Csvq.Model.Compare
import Csvq.Model.Float
import Csvq.Model.Proto
import Csvq.Drive.Loop
import Csvq.Drive.C06
import Csvq.Lemmas.Compare
import Csvq.Props.C06
