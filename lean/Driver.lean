/- csvq-model: line-protocol driver.  stdin: one operation per line `<stream>.<cmd> args…`;
   stdout: one result line per operation. -/
import Csvq.Drive.C06

open Csvq.Drive

def dispatch (line : String) : String :=
  match line.splitOn " " with
  | [] => "bad-op"
  | head :: args =>
    match head.splitOn "." with
    | ["c06", cmd] => c06 cmd args
    | _ => "bad-op"

partial def loop (h : IO.FS.Stream) (out : IO.FS.Stream) : IO Unit := do
  let line ← h.getLine
  if line.isEmpty then return ()
  let l := (line.dropEndWhile (fun c => c = '\n' || c = '\r')).toString
  out.putStrLn (dispatch l)
  loop h out

def main : IO Unit := do
  let out ← IO.getStdout
  loop (← IO.getStdin) out
  out.flush
