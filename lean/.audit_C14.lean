import Csvq.Props.C14
#print axioms Csvq.C14.pool_never_free_and_live
#print axioms Csvq.C14.pool_safe
#print axioms Csvq.C14.new_then_read
#print axioms Csvq.C14.premature_discard_counterexample
#print axioms Csvq.C14.discard_facts_ok
#print axioms Csvq.C14.discard_facts_nonempty
#print axioms Csvq.C14.conversions_fresh
#print axioms Csvq.C14.ast_readonly
#print axioms Csvq.C14.ast_write_counterexample
#print axioms Csvq.C14.ast_copy_ok
