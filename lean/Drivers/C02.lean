import Csvq.Drive.Loop
import Csvq.Drive.C02
def main : IO Unit := Csvq.Drive.runDriver Csvq.Drive.c02
