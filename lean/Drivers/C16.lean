import Csvq.Drive.C16
def main : IO Unit := Csvq.Drive.runC16
