import Csvq.Drive.C01
def main : IO Unit := Csvq.Drive.c01main
