import Csvq.Drive.Loop
import Csvq.Drive.C15
def main : IO Unit := Csvq.Drive.runDriver Csvq.Drive.c15
