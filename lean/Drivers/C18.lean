import Csvq.Drive.Loop
import Csvq.Drive.C18
def main : IO Unit := Csvq.Drive.runDriver Csvq.Drive.c18
