import Csvq.Drive.Loop
import Csvq.Drive.C17
def main : IO Unit := Csvq.Drive.runDriver Csvq.Drive.C17.c17
