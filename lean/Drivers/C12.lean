import Csvq.Drive.Loop
import Csvq.Drive.C12
def main : IO Unit := Csvq.Drive.runDriver Csvq.Drive.c12
