import Csvq.Drive.Loop
import Csvq.Drive.C04
def main : IO Unit := Csvq.Drive.runDriver Csvq.Drive.c04
