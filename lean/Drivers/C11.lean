import Csvq.Drive.Loop
import Csvq.Drive.C11
def main : IO Unit := Csvq.Drive.runDriver Csvq.Drive.c11
