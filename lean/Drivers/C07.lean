import Csvq.Drive.Loop
import Csvq.Drive.C07
def main : IO Unit := Csvq.Drive.runDriver Csvq.Drive.c07
