import Csvq.Drive.Loop
import Csvq.Drive.C06
def main : IO Unit := Csvq.Drive.runDriver Csvq.Drive.c06
