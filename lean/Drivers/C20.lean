import Csvq.Drive.Loop
import Csvq.Drive.C20
def main : IO Unit := Csvq.Drive.runDriver Csvq.Drive.c20
