import Csvq.Drive.Loop
import Csvq.Drive.C10
def main : IO Unit := Csvq.Drive.runDriver Csvq.Drive.c10
