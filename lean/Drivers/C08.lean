import Csvq.Drive.C05
def main : IO Unit := Csvq.Drive.C05.runC05
