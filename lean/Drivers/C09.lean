import Csvq.Drive.Loop
import Csvq.Drive.C09
def main : IO Unit := Csvq.Drive.runDriver Csvq.Drive.c09
