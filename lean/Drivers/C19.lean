import Csvq.Drive.Loop
import Csvq.Drive.C19
def main : IO Unit := Csvq.Drive.runDriver Csvq.Drive.c19
