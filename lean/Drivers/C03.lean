import Csvq.Drive.Loop
import Csvq.Drive.C03
def main : IO Unit := Csvq.Drive.runDriver Csvq.Drive.C03.c03
