/-
  C07 — ORDER BY, LIMIT, OFFSET return a correctly sorted, correctly cut permutation.
  Property theorems only.  Code: lib/query/sort_value.go, lib/query/view.go (OrderBy, Offset, Limit).
-/
import Csvq.Lemmas.SortSpec
import Csvq.Gen.SortFacts
import Csvq.Gen.LimitFacts
import Csvq.Ref.LimitFacts
namespace Csvq.C07
open Csvq

/-- a row all of whose sort keys lie in the property's domain (numbers with exact float reading,
    datetimes, text, NULL) -/
def InDomain (r : List SortVal) : Prop := RowsCompat r r

/-! ## On comparable key columns the row comparison handed to sort.Sort is a strict weak order
    (so the contract of sort.Sort applies and its output is a sorted permutation). -/

theorem less_irrefl (its : List OrdItem) (r : List SortVal) (h : RowsCompat r r) :
    rowsLess its r r = false := by
  rw [rowsLess_eq_lex its r r h]; exact lexLt_irrefl _ _

theorem less_trans (its : List OrdItem) (r s t : List SortVal)
    (hr : r.length = its.length) (hs : s.length = its.length) (ht : t.length = its.length)
    (h1 : RowsCompat r s) (h2 : RowsCompat s t) (h3 : RowsCompat r t)
    (a : rowsLess its r s = true) (b : rowsLess its s t = true) : rowsLess its r t = true := by
  rw [rowsLess_eq_lex its _ _ h1] at a
  rw [rowsLess_eq_lex its _ _ h2] at b
  rw [rowsLess_eq_lex its _ _ h3]
  exact lexLt_trans its _ _ _ (keysOf_length its r hr) (keysOf_length its s hs) (keysOf_length its t ht) a b

theorem less_asymm (its : List OrdItem) (r s : List SortVal)
    (hr : r.length = its.length) (hs : s.length = its.length)
    (h1 : RowsCompat r s) (h2 : RowsCompat s r) (h3 : RowsCompat r r)
    (a : rowsLess its r s = true) : rowsLess its s r = false := by
  cases hb : rowsLess its s r
  · rfl
  · have := less_trans its r s r hr hs hr h1 h2 h3 a hb
    rw [less_irrefl its r h3] at this; exact absurd this (by simp)

/-- "neither sorts before the other" is transitive: ties form equivalence classes -/
theorem incomparable_trans (its : List OrdItem) (r s t : List SortVal)
    (hr : r.length = its.length) (hs : s.length = its.length) (ht : t.length = its.length)
    (h1 : RowsCompat r s) (h1' : RowsCompat s r) (h2 : RowsCompat s t) (h2' : RowsCompat t s)
    (h3 : RowsCompat r t) (h3' : RowsCompat t r)
    (a1 : rowsLess its r s = false) (a2 : rowsLess its s r = false)
    (b1 : rowsLess its s t = false) (b2 : rowsLess its t s = false) :
    rowsLess its r t = false ∧ rowsLess its t r = false := by
  rw [rowsLess_eq_lex its _ _ h1] at a1
  rw [rowsLess_eq_lex its _ _ h1'] at a2
  rw [rowsLess_eq_lex its _ _ h2] at b1
  rw [rowsLess_eq_lex its _ _ h2'] at b2
  rw [rowsLess_eq_lex its _ _ h3, rowsLess_eq_lex its _ _ h3']
  have e1 := lexLt_incomp_eq its _ _ (keysOf_length its r hr) (keysOf_length its s hs) a1 a2
  have e2 := lexLt_incomp_eq its _ _ (keysOf_length its s hs) (keysOf_length its t ht) b1 b2
  rw [e1, e2]; exact ⟨lexLt_irrefl _ _, lexLt_irrefl _ _⟩

/-- negative transitivity: if `s` need not precede … the adjacent-pairs check of a sorted output
    is enough (used by the driver's linear-time checker) -/
theorem not_less_trans (its : List OrdItem) (r s t : List SortVal)
    (hr : r.length = its.length) (hs : s.length = its.length) (ht : t.length = its.length)
    (h1 : RowsCompat s r) (h2 : RowsCompat t s) (h3 : RowsCompat t r)
    (a : rowsLess its s r = false) (b : rowsLess its t s = false) : rowsLess its t r = false := by
  rw [rowsLess_eq_lex its _ _ h1] at a
  rw [rowsLess_eq_lex its _ _ h2] at b
  rw [rowsLess_eq_lex its _ _ h3]
  have lr := keysOf_length its r hr
  have ls := keysOf_length its s hs
  have lt := keysOf_length its t ht
  cases hc : lexLt its (keysOf its t) (keysOf its r)
  · rfl
  · -- t < r; compare s with both
    cases hsr : lexLt its (keysOf its r) (keysOf its s)
    · have e := lexLt_incomp_eq its _ _ lr ls hsr a
      rw [e] at hc; rw [hc] at b; exact absurd b (by simp)
    · have := lexLt_trans its _ _ _ lt lr ls hc hsr
      rw [this] at b; exact absurd b (by simp)

/-- the sort key really is the documented order: for two non-NULL comparable values `Less` is TRUE
    exactly when the first sorts strictly before the second, UNKNOWN exactly when they tie -/
theorem less_is_key_order (np : NullPos) (a b : SortVal) (h : Compat a b) (ha : a ≠ .null) (hb : b ≠ .null) :
    (a.less b = .T ↔ K.lt .asc (sk np a) (sk np b) = true) ∧
    (a.less b = .U ↔ sk np a = sk np b) :=
  ⟨(less_key np a b h ha hb).1, (less_key np a b h ha hb).2.2⟩

/-- NULLS FIRST / LAST: a NULL key sorts before (after) every non-NULL key, whatever the direction -/
theorem nulls_position (it : OrdItem) (its : List OrdItem) (b : SortVal) (as bs : List SortVal) (hb : b ≠ .null) :
    rowsLess (it :: its) (.null :: as) (b :: bs) = (match it.np with | .first => true | .last => false) := by
  have hl : SortVal.less .null b = .U := by cases b <;> rfl
  have hbn : b.isNull = false := by cases b <;> simp_all [SortVal.isNull]
  cases hn : it.np <;> simp [rowsLess, hl, SortVal.isNull, hbn, hn]

/-! ## OFFSET / LIMIT / WITH TIES -/

/-- OFFSET n drops exactly the first max(n,0) rows -/
theorem offset_spec {α} (n : Int) (rows : List α) :
    offsetRows n rows = rows.drop (if n < 0 then 0 else n.toNat) := by
  unfold offsetRows
  by_cases h : rows.length ≤ (if n < 0 then 0 else n.toNat)
  · simp only [h, if_true]; exact (List.drop_eq_nil_of_le h).symm
  · simp only [h, if_false]

/-- LIMIT k keeps exactly the first k rows -/
theorem limit_spec {α} (eqv : α → α → Bool) (k : Nat) (rows : List α) :
    limitRows eqv false k rows = rows.take k := by
  unfold limitRows
  by_cases h : rows.length ≤ k
  · simp only [h, if_true]; exact (List.take_of_length_le h).symm
  · simp [h]

theorem take_length_takeWhile {α} (p : α → Bool) (l : List α) :
    l.take (l.takeWhile p).length = l.takeWhile p := by
  induction l with
  | nil => rfl
  | cons a l ih =>
    by_cases h : p a = true
    · simp [List.takeWhile_cons_of_pos h, ih]
    · simp [List.takeWhile_cons_of_neg h]

theorem tiesLoop_spec {α} (eqv : α → α → Bool) (bottom : α) (rest : List α) (k : Nat) :
    tiesLoop eqv bottom rest k = k + (rest.takeWhile (eqv bottom)).length := by
  induction rest generalizing k with
  | nil => simp [tiesLoop]
  | cons r rest ih =>
    unfold tiesLoop
    by_cases h : eqv bottom r = true
    · simp only [h, if_true, List.takeWhile_cons_of_pos, List.length_cons]; rw [ih]; omega
    · simp [h]

/-- WITH TIES adds exactly the following rows whose sort keys equal the last kept row's -/
theorem with_ties_spec {α} (eqv : α → α → Bool) (k : Nat) (rows : List α) (bottom : α)
    (hk : 0 < k) (hlen : k < rows.length) (hb : rows[k - 1]? = some bottom) :
    limitRows eqv true k rows = rows.take k ++ (rows.drop k).takeWhile (eqv bottom) := by
  unfold limitRows
  have h1 : ¬ rows.length ≤ k := by omega
  simp only [h1, if_false, Bool.true_and, decide_eq_true_eq, hk, if_true, hb]
  rw [tiesLoop_spec]
  have : rows.take (k + ((rows.drop k).takeWhile (eqv bottom)).length)
      = rows.take k ++ (rows.drop k).take ((rows.drop k).takeWhile (eqv bottom)).length := by
    rw [List.take_add]
  rw [this]
  congr 1
  exact take_length_takeWhile _ _

/-- LIMIT never reaches outside the table: the result is a prefix of the rows -/
theorem limit_is_prefix {α} (eqv : α → α → Bool) (wt : Bool) (k : Nat) (rows : List α) :
    limitRows eqv wt k rows <+: rows := by
  unfold limitRows
  by_cases h : rows.length ≤ k
  · simp [h]
  · simp only [h, if_false]
    split
    · split
      · exact List.take_prefix _ _
      · exact List.take_prefix _ _
    · exact List.take_prefix _ _

theorem limit_number_nonneg (n : Int) : (limitNumber n : Int) = max n 0 := by
  unfold limitNumber; split <;> omega

/-- an invalid percentage (NaN) is refused instead of reaching the slice -/
theorem limit_percent_nan (total : Nat) : limitPercent total .nan = none := rfl

/-! ## Tie to the source: the comparison functions of sort_value.go, TRANSLATED on every run
    (extract/sortfacts → Gen/SortFacts.lean over the flat record `SV` of Model/SortGen.lean) -/

theorem signed_not_nan (b : Bool) (m : Option Nat) : (FVal.signed b m).isNaN = false := by
  unfold FVal.signed
  split <;> (try split) <;> rfl

/-- what NewSortValue builds is well formed: the float of an Integer sort value is float64(i), never NaN -/
theorem toSortVal_wf (p : Profile) (txt : Bytes) : (toSortVal p txt).WF := by
  unfold toSortVal
  split
  · trivial
  · split
    · show (FVal.ofInt _).isNaN = false
      unfold FVal.ofInt
      split
      · rfl
      · exact signed_not_nan _ _
    · split
      · trivial
      · split
        · trivial
        · split
          · trivial
          · split <;> trivial


/-- `SortValue.Less` as it stands in the source IS the model's `SortVal.less` (on which every theorem above
    rests), for all pairs of sort values -/
theorem gen_sortLess_eq_model (a b : SortVal) (ha : a.WF) (hb : b.WF) :
    Gen.sortLess a.toSV b.toSV = a.less b := by
  cases a <;> cases b <;>
    simp only [Gen.sortLess, SortVal.toSV, SortVal.less, fltLess, strLess, SortVal.WF, intLt] at * <;>
    (try simp_all) <;> (try (split <;> simp_all)) <;> (try rfl) <;> (try (split <;> rfl)) <;>
    (try (split <;> (try rfl) <;> split <;> (try rfl) <;> split <;> rfl))

/-- `SortValue.EquivalentTo` as it stands in the source IS the model's `SortVal.equiv` (WITH TIES) -/
theorem gen_sortEquiv_eq_model (a b : SortVal) : Gen.sortEquiv a.toSV b.toSV = a.equiv b := by
  cases a <;> cases b <;> simp only [Gen.sortEquiv, SortVal.toSV, SortVal.equiv] <;> (try simp) <;>
    (try (rename_i x y; cases x <;> cases y <;> simp)) <;> (try (rename_i x _ _ _; cases x <;> simp <;> exact BEq.comm))

/-- one round of the loop of `SortValues.Less` as it stands in the source is one unfolding of the model's
    `rowsLess` (direction, then NULL position, else the next column) -/
theorem gen_rowsLess_step (it : OrdItem) (a b : SortVal) (its : List OrdItem) (as bs : List SortVal) :
    rowsLess (it :: its) (a :: as) (b :: bs) =
      match Gen.rowsLessStep (a.less b) a.isNull b.isNull (it.dir == .asc) (it.np == .first) with
      | some r => r
      | none => rowsLess its as bs := by
  obtain ⟨d, n⟩ := it
  simp only [rowsLess, Gen.rowsLessStep]
  cases a.less b <;> cases d <;> cases n <;> cases a.isNull <;> cases b.isNull <;> simp

/- the --strict-equal blocks of SortValue.Less / SortValue.EquivalentTo are translated too: Props/C07Strict.lean
   (gen_sortLessStrict_eq_model, gen_sortEquivStrict_eq_model) -/

/-! ### OFFSET / LIMIT / WITH TIES: the statements of View.Offset and View.Limit and every write of the sort state,
    regenerated on every run (extract/limitfacts) and pinned against the reviewed lists of Ref/LimitFacts.lean -/

/-- WITH TIES is what the clause says — `Restriction.Token == TIES`, so `LIMIT n ONLY` / `FETCH FIRST n ROWS ONLY`
    do not extend the cut — and PERCENT is the unit token -/
theorem gen_limit_predicates :
    Gen.limitClausePredicates = ["LimitClause.WithTies: return e.Restriction.Token == TIES",
      "LimitClause.Percentage: return e.Unit.Token == PERCENT"] := by decide

theorem gen_view_offset_eq_ref : Gen.fxViewOffset = Ref.fxViewOffset := by rfl

theorem gen_view_limit_eq_ref : Gen.fxViewLimit = Ref.fxViewLimit := by rfl

theorem gen_sort_state_writes_eq_ref : Gen.sortStateWrites = Ref.sortStateWrites := by rfl

/-- the sort keys of an analytic function's own OVER (ORDER BY …) do not survive its evaluation, and View.Fix
    resets the whole sort state: a query without ORDER BY reaches View.Limit with `sortValuesInEachRecord = nil`,
    where WITH TIES is ignored (`gen_view_limit_eq_ref`) -/
theorem gen_analytic_sort_state_reset :
    "view.go:View.evalAnalyticFunction:sortValuesInEachRecord:=nil" ∈ Gen.sortStateWrites ∧
    "view.go:View.Fix:sortValuesInEachRecord:=nil" ∈ Gen.sortStateWrites ∧
    "view.go:View.Fix:offset:=0" ∈ Gen.sortStateWrites ∧
    (Gen.sortStateWrites.filter (fun w => w = "view.go:View.OrderBy:sortValuesInEachRecord:=value")).length = 1 := by
  decide

/-! ## non-vacuity -/

example : Compat (.flt .ninf []) (.flt .nan []) := by
  right; right; left; exact ⟨trivial, trivial⟩
example : Compat (.str [65]) (.str [66, 67]) := by
  right; right; right; right; exact ⟨_, _, rfl, rfl⟩
example : rowsLess [⟨.desc, .last⟩, ⟨.asc, .first⟩] [.str [66], .null] [.str [65], .dt 5] = true := by decide
example : limitRows (fun (a b : Nat) => a == b) true 2 [1, 2, 2, 2, 3] = [1, 2, 2, 2] := by decide
example : offsetRows (-3) [1, 2, 3] = [1, 2, 3] ∧ offsetRows 5 [1, 2, 3] = ([] : List Nat) := by decide

/-! ## ORDER BY returns a sorted permutation, and sortedness + permutation determine the key sequence

  `sort.Sort`'s algorithm is outside the model; what the property promises about its output is stated here
  (`Sorted`, permutation), shown satisfiable by the reference `orderBy` for every table of the domain, and
  shown to pin the output down completely up to the order inside ties: every sorted permutation carries the
  key sequence of the reference.  The correspondence check applies exactly these two predicates to the
  implementation's output. -/

/-- the table is in the property's domain: one sort value per ORDER BY item in every row, and any two rows
    column-wise comparable -/
def TableInDomain (its : List OrdItem) (rows : List (List SortVal)) : Prop :=
  (∀ r ∈ rows, r.length = its.length) ∧ (∀ r ∈ rows, ∀ s ∈ rows, RowsCompat r s)

/-- no row precedes another that must sort before it -/
def Sorted (its : List OrdItem) (rows : List (List SortVal)) : Prop := SortedBy (rowsLess its) rows

theorem orderBy_perm (its : List OrdItem) (rows : List (List SortVal)) : (orderBy its rows).Perm rows :=
  sortBy_perm _ _

theorem orderBy_sorted (its : List OrdItem) (rows : List (List SortVal)) (h : TableInDomain its rows) :
    Sorted its (orderBy its rows) := by
  refine sortBy_sorted (rowsLess its) (· ∈ rows) ?_ ?_ rows (fun a ha => ha)
  · intro a b ha hb hab
    exact less_asymm its a b (h.1 a ha) (h.1 b hb) (h.2 a ha b hb) (h.2 b hb a ha) (h.2 a ha a ha) hab
  · intro a b c ha hb hc h1 h2
    exact not_less_trans its a b c (h.1 a ha) (h.1 b hb) (h.1 c hc) (h.2 b hb a ha) (h.2 c hc b hb) (h.2 c hc a ha) h1 h2

/-- **Any two sorted permutations of a table carry the same sequence of sort keys** (they differ at most
    in the order of rows whose keys are equal). -/
theorem sorted_perm_keys_unique (its : List OrdItem) (rows out₁ out₂ : List (List SortVal))
    (h : TableInDomain its rows) (p₁ : out₁.Perm rows) (p₂ : out₂.Perm rows)
    (s₁ : Sorted its out₁) (s₂ : Sorted its out₂) :
    out₁.map (keysOf its) = out₂.map (keysOf its) := by
  have m : ∀ a, a ∈ out₁ → a ∈ rows := fun a ha => p₁.subset ha
  refine sorted_perm_keys_eq (rowsLess its) (lexLt its) (keysOf its) out₁ out₂ (p₁.trans p₂.symm) ?_ ?_ s₁ s₂
  · intro a ha b hb
    exact rowsLess_eq_lex its a b (h.2 a (m a ha) b (m b hb))
  · intro a ha b hb h1 h2
    exact lexLt_incomp_eq its _ _ (keysOf_length its a (h.1 a (m a ha))) (keysOf_length its b (h.1 b (m b hb))) h1 h2

/-- whatever `sort.Sort` does, if its output is a sorted permutation it agrees with the reference sort on
    every key -/
theorem sorted_perm_matches_reference (its : List OrdItem) (rows out : List (List SortVal))
    (h : TableInDomain its rows) (p : out.Perm rows) (s : Sorted its out) :
    out.map (keysOf its) = (orderBy its rows).map (keysOf its) :=
  sorted_perm_keys_unique its rows out (orderBy its rows) h p (orderBy_perm its rows) s (orderBy_sorted its rows h)

/-- consequently OFFSET and LIMIT cut the same keys out of every sorted permutation -/
theorem offset_limit_keys_unique (its : List OrdItem) (rows out₁ out₂ : List (List SortVal))
    (h : TableInDomain its rows) (p₁ : out₁.Perm rows) (p₂ : out₂.Perm rows)
    (s₁ : Sorted its out₁) (s₂ : Sorted its out₂) (n : Int) (k : Nat) (eqv : List SortVal → List SortVal → Bool) :
    (limitRows eqv false k (offsetRows n out₁)).map (keysOf its)
      = (limitRows eqv false k (offsetRows n out₂)).map (keysOf its) := by
  have e := sorted_perm_keys_unique its rows out₁ out₂ h p₁ p₂ s₁ s₂
  rw [limit_spec, limit_spec, offset_spec, offset_spec, List.map_take, List.map_take, List.map_drop, List.map_drop, e]

example : TableInDomain [⟨.asc, .last⟩] [[.dt 3], [.null], [.dt 1]] ∧
    orderBy [⟨.asc, .last⟩] [[.dt 3], [.null], [.dt 1]] = [[.dt 1], [.dt 3], [.null]] := by
  refine ⟨⟨by decide, ?_⟩, by decide⟩
  intro r hr s hs
  simp only [List.mem_cons, List.mem_nil_iff, or_false] at hr hs
  rcases hr with rfl | rfl | rfl <;> rcases hs with rfl | rfl | rfl <;>
    simp [RowsCompat, Compat]

/-- `EquivalentTo` (the WITH TIES test) is equality of sort keys on the property's domain -/
theorem equivalent_iff_keys_equal (its : List OrdItem) (r s : List SortVal)
    (hr : r.length = its.length) (hs : s.length = its.length) (hc : RowsCompat r s) :
    rowsEquiv r s = true ↔ keysOf its r = keysOf its s :=
  rowsEquiv_iff_keys_eq its r s hr hs hc

/-- **OFFSET, LIMIT and WITH TIES cut the same keys out of every sorted permutation**: the result of
    `ORDER BY … LIMIT k WITH TIES OFFSET n` is determined, as a sequence of sort keys, by the table alone —
    it does not depend on how `sort.Sort` ordered the rows inside a tie. -/
theorem cut_keys_unique (its : List OrdItem) (rows out₁ out₂ : List (List SortVal))
    (h : TableInDomain its rows) (p₁ : out₁.Perm rows) (p₂ : out₂.Perm rows)
    (s₁ : Sorted its out₁) (s₂ : Sorted its out₂) (n : Int) (k : Nat) (wt : Bool) :
    (limitRows rowsEquiv wt k (offsetRows n out₁)).map (keysOf its)
      = (limitRows rowsEquiv wt k (offsetRows n out₂)).map (keysOf its) := by
  have e := sorted_perm_keys_unique its rows out₁ out₂ h p₁ p₂ s₁ s₂
  have eqv_ok : ∀ out : List (List SortVal), out.Perm rows → ∀ a ∈ offsetRows n out, ∀ b ∈ offsetRows n out,
      rowsEquiv a b = decide (keysOf its a = keysOf its b) := by
    intro out p a ha b hb
    rw [offset_spec] at ha hb
    have ma : a ∈ rows := p.subset (List.mem_of_mem_drop ha)
    have mb : b ∈ rows := p.subset (List.mem_of_mem_drop hb)
    have := rowsEquiv_iff_keys_eq its a b (h.1 a ma) (h.1 b mb) (h.2 a ma b mb)
    cases hq : rowsEquiv a b
    · have : ¬ keysOf its a = keysOf its b := fun e' => by rw [this.mpr e'] at hq; exact absurd hq (by simp)
      simp [this]
    · simp [this.mp hq]
  rw [limitRows_map rowsEquiv (keysOf its) wt k _ (eqv_ok out₁ p₁),
      limitRows_map rowsEquiv (keysOf its) wt k _ (eqv_ok out₂ p₂),
      offset_spec, offset_spec, List.map_drop, List.map_drop, e]

end Csvq.C07
