/-
  C16 — cursors declared FOR a prepared statement: the replace values an OPEN sees.

  "OPEN evaluates the cursor's query once …": for a cursor FOR a prepared statement the query has placeholders, and
  WHICH rows the snapshot holds is decided by the values the placeholders are read from.  csvq keeps the values of
  every `EXECUTE … USING` in the context (a stack of frames); `Cursor.Open` pushes a frame of its own built from the
  USING list of the OPEN statement — an EMPTY one when there is no USING clause.  Proved here, for every stack of
  surrounding frames, every table, every statement shape of Model/CursorStmt and every nesting of EXECUTE / function
  call / SOURCE:

    * open_sees_only_its_own_values, open_on_stack_sees_only_its_own_values, program_independent_of_outer_frames
    * open_without_values_refused_iff_placeholder  (and the cursor stays closed)
    * failed_open_leaves_cursor_closed, failed_open_leaves_stack_unchanged
    * open_with_values_is_open_on_selected_rows  (the link to `Cursor.step (.open n rows)` and so to every theorem
      of Props/C16.lean about the walk over the snapshot)
    * positional_value_is_ordinal_minus_one, named_value_last_entry_wins
    * gen_prepared_context_always_shadows, gen_prepared_context_sites, gen_replace_value_key_uses,
      gen_eval_placeholder_skeleton, gen_new_replace_values_skeleton over the REGENERATED Gen/CursorPrepCtx.lean
    * conditional_wrap_leaks_outer_values: the variant that returns the context unchanged for an empty USING list
      (seeded change C16-m25) is not the model's function, with the concrete leak.
-/
import Csvq.Model.CursorStmt
import Csvq.Lemmas.CursorStmt
import Csvq.Gen.CursorPrepCtx
namespace Csvq.C16Stmt
open Csvq Csvq.Cursor Csvq.CursorStmt

/-! ## only the OPEN's own frame -/

/-- for every two stacks of surrounding frames: the OPEN does the same -/
theorem open_sees_only_its_own_values (ctx ctx' : Ctx) (s : Scope String) (n : String) (c : Cond) (table : List Row)
    (us : List RV) :
    openStmt ctx s n c table us = openStmt ctx' s n c table us := by
  simp only [openStmt, ctxForPrepared]
  rw [evalPlaceholder_cons_fun _ ctx, evalPlaceholder_cons_fun _ ctx']

/-- … and what it does is the evaluation under `ownLookup us`, which mentions no surrounding frame at all -/
theorem open_reads_own_lookup (ctx : Ctx) (s : Scope String) (n : String) (c : Cond) (table : List Row) (us : List RV) :
    openStmt ctx s n c table us =
      (match lookup s (key n) with
       | none => (s, .res (.err .undeclared))
       | some (.opened _ _ _) => (s, .res (.err .alreadyOpen))
       | some .closed =>
         match selectRows (ownLookup us) c table with
         | none => (s, .notSpecified)
         | some rows => (update s (key n) (.opened rows (-1) false), .res .ok)) := by
  have e := evalPlaceholder_cons_fun (newReplaceValues us) ctx
  simp only [openStmt, ctxForPrepared, ownLookup, e]
  rfl

theorem open_on_stack_sees_only_its_own_values (ctx ctx' : Ctx) (st : Stack String) (n : String) (c : Cond)
    (table : List Row) (us : List RV) :
    openStmtS ctx st n c table us = openStmtS ctx' st n c table us := by
  induction st with
  | nil => rfl
  | cons b rest ih =>
    simp only [openStmtS]
    rw [ih, open_sees_only_its_own_values ctx ctx']

/-- any program — OPENs nested in EXECUTE … USING, function calls and SOURCE to any depth — runs the same under
    every stack of surrounding frames: nothing an outer `EXECUTE … USING` binds reaches a cursor's statement -/
theorem program_independent_of_outer_frames (table : List Row) (p : Prog) :
    ∀ (ctx ctx' : Ctx) (st : Stack String), runP table ctx st p = runP table ctx' st p := by
  induction p with
  | done => intro ctx ctx' st; rfl
  | openC n c us rest ih =>
    intro ctx ctx' st
    simp only [runP]
    rw [open_on_stack_sees_only_its_own_values ctx ctx']
    split
    · rw [ih ctx ctx']
    · rfl
  | act o rest ih =>
    intro ctx ctx' st
    simp only [runP]
    split
    · rfl
    · rw [ih ctx ctx']
  | exec us body rest ihb ihr =>
    intro ctx ctx' st
    simp only [runP]
    rw [ihb (ctxForPrepared ctx (newReplaceValues us)) (ctxForPrepared ctx' (newReplaceValues us))]
    split
    · rfl
    · rw [ihr ctx ctx']
  | call body rest ihb ihr =>
    intro ctx ctx' st
    simp only [runP]
    rw [ihb ctx ctx']
    split
    · rfl
    · rw [ihr ctx ctx']
  | source body rest ihb ihr =>
    intro ctx ctx' st
    simp only [runP]
    rw [ihb ctx ctx']
    split
    · rfl
    · rw [ihr ctx ctx']

/-- in particular an `EXECUTE … USING vs` around a program changes nothing about it -/
theorem execute_using_is_transparent_for_opens (table : List Row) (ctx : Ctx) (st : Stack String) (us : List RV)
    (body : Prog) :
    runP table ctx st (.exec us body .done) = runP table ctx st (.source body .done) := by
  simp only [runP]
  rw [program_independent_of_outer_frames table body (ctxForPrepared ctx (newReplaceValues us)) ctx]

/-! ## OPEN without USING -/

/-- OPEN without a USING clause of a closed cursor is refused EXACTLY when evaluating the statement over the table
    reaches a placeholder — under every stack of surrounding frames —, and then nothing changes -/
theorem open_without_values_refused_iff_placeholder (ctx : Ctx) (s : Scope String) (n : String) (c : Cond)
    (table : List Row) (hc : lookup s (key n) = some .closed) :
    ((openStmt ctx s n c table []).2 = ORes.notSpecified ↔ reachesPlaceholder c table = true) ∧
    (reachesPlaceholder c table = true → openStmt ctx s n c table [] = (s, ORes.notSpecified)) := by
  have hsel : selectRows (evalPlaceholder (ctxForPrepared ctx (newReplaceValues []))) c table = none ↔
      reachesPlaceholder c table = true := by
    rw [evalPlaceholder_empty_frame_fun, selectRows_none_iff, stuckOn_none_eq_reaches]
  constructor
  · simp only [openStmt, hc]
    cases h : selectRows (evalPlaceholder (ctxForPrepared ctx (newReplaceValues []))) c table with
    | none => simp [hsel.mp h]
    | some rows =>
      have : ¬ (reachesPlaceholder c table = true) := by
        intro hr
        have := hsel.mpr hr
        rw [h] at this; cases this
      simp [this]
  · intro hr
    simp only [openStmt, hc, hsel.mpr hr]

/-- a statement whose WHERE clause starts with a placeholder comparison, over a table with at least one row:
    OPEN without USING is refused, whatever surrounds it -/
theorem open_without_values_refused_nonempty (ctx : Ctx) (s : Scope String) (n : String) (h : Holder) (r : Row)
    (rest : List Row) (hc : lookup s (key n) = some .closed) :
    openStmt ctx s n (.gtH h) (r :: rest) [] = (s, ORes.notSpecified) :=
  (open_without_values_refused_iff_placeholder ctx s n (.gtH h) (r :: rest) hc).2
    (by simp [reachesPlaceholder, Cond.reaches])

/-- a statement without placeholder opens without USING, on the rows its clause selects -/
theorem open_without_values_no_placeholder (ctx : Ctx) (s : Scope String) (n : String) (k : Int) (table : List Row)
    (hc : lookup s (key n) = some .closed) :
    openStmt ctx s n (.gtC k) table [] =
      (update s (key n) (.opened ((table.filter (fun r => decide (k < r.1))).map Prod.snd) (-1) false), .res .ok) := by
  have h := selectRows_total (fun _ => 0) (.gtC k) table
  have e : selectRows (evalPlaceholder (ctxForPrepared ctx (newReplaceValues []))) (.gtC k) table
      = selectRows (fun h => some ((fun _ => (0 : Int)) h)) (.gtC k) table := by
    induction table with
    | nil => rfl
    | cons r rest ih =>
      obtain ⟨id, tok⟩ := r
      have ih' := ih (selectRows_total (fun _ => 0) (.gtC k) rest)
      simp only [selectRows, evalCond] at ih' ⊢
      rw [ih']
  simp only [openStmt, hc, e, h, Cond.denote]

/-! ## a failed OPEN -/

/-- whatever made the OPEN fail — undeclared, already open, a placeholder without value —: the scope is unchanged;
    a closed cursor is still closed -/
theorem failed_open_leaves_cursor_closed (ctx : Ctx) (s : Scope String) (n : String) (c : Cond) (table : List Row)
    (us : List RV) (hf : (openStmt ctx s n c table us).2.isErr = true) :
    (openStmt ctx s n c table us).1 = s := by
  cases hl : lookup s (key n) with
  | none => simp [openStmt, hl]
  | some cs =>
    cases cs with
    | opened r i f => simp [openStmt, hl]
    | closed =>
      cases hs : selectRows (evalPlaceholder (ctxForPrepared ctx (newReplaceValues us))) c table with
      | none => simp [openStmt, hl, hs]
      | some rows => simp [openStmt, hl, hs, ORes.isErr] at hf

theorem failed_open_leaves_stack_unchanged (ctx : Ctx) (st : Stack String) (n : String) (c : Cond) (table : List Row)
    (us : List RV) (hf : (openStmtS ctx st n c table us).2.isErr = true) :
    (openStmtS ctx st n c table us).1 = st := by
  induction st with
  | nil => rfl
  | cons b rest ih =>
    simp only [openStmtS] at hf ⊢
    split
    · rename_i h
      simp only [h] at hf
      simp [failed_open_leaves_cursor_closed ctx b n c table us hf]
    · rename_i h
      simp only [h] at hf
      simp [ih hf]

/-- an OPEN either fails or answers ok: there is no third outcome -/
theorem open_answers_ok_or_error (ctx : Ctx) (s : Scope String) (n : String) (c : Cond) (table : List Row) (us : List RV) :
    (openStmt ctx s n c table us).2.isErr = true ∨
      ∃ rows, openStmt ctx s n c table us = (update s (key n) (.opened rows (-1) false), .res .ok) := by
  simp only [openStmt]
  split
  · left; rfl
  · left; rfl
  · split
    · left; rfl
    · right; exact ⟨_, rfl⟩

/-! ## a successful OPEN is `Cursor.step (.open n rows)` on the selected rows -/

theorem open_with_values_is_open_on_selected_rows (ctx : Ctx) (s : Scope String) (n : String) (c : Cond)
    (table : List Row) (us : List RV) (rows : List String)
    (h : selectRows (ownLookup us) c table = some rows) :
    openStmt ctx s n c table us = ((step s (.open n rows)).1, .res (step s (.open n rows)).2) := by
  rw [open_reads_own_lookup]
  simp only [step, h]
  cases hl : lookup s (key n) with
  | none => rfl
  | some cs =>
    cases cs with
    | closed => simp [CState.open]
    | opened r i f => simp [CState.open]

/-- when the OPEN's own list gives every placeholder a value: the rows are those the clause selects under these
    values, in table order (AND's skipped right operand makes no difference) -/
theorem selected_rows_spec (v : Holder → Int) (c : Cond) (table : List Row) :
    selectRows (fun h => some (v h)) c table = some ((table.filter (fun r => c.denote v r.1)).map Prod.snd) :=
  selectRows_total v c table

/-- `?` number k reads the k-th value of the OPEN's own list (index Ordinal − 1) -/
theorem positional_value_is_ordinal_minus_one (ctx : Ctx) (us : List RV) (i : Nat) :
    evalPlaceholder (ctxForPrepared ctx (newReplaceValues us)) (.pos (i + 1)) = (us.map (·.value))[i]? := by
  simp [evalPlaceholder, ctxValue, ctxForPrepared, newReplaceValues_values]

/-- `v AS name` twice in one list: the later entry is the one `:name` reads -/
theorem named_value_last_entry_wins (ctx : Ctx) (a b : Int) (nm : String) (hn : nm.length > 0) :
    evalPlaceholder (ctxForPrepared ctx (newReplaceValues [⟨a, nm⟩, ⟨b, nm⟩])) (.named nm) = some b := by
  simp [evalPlaceholder, ctxValue, ctxForPrepared, newReplaceValues, newFrameFrom, hn, assoc]

/-! ## the regenerated code -/

/-- ContextForPreparedStatement as it stands in processor.go: for EVERY context and EVERY frame (the empty one
    included) the result is the context with the frame pushed -/
theorem gen_prepared_context_always_shadows (ctx : Ctx) (f : Frame) :
    interpCtxFn Gen.CursorPrepCtx.contextFn ctx f = some (ctxForPrepared ctx f) := by
  simp [Gen.CursorPrepCtx.contextFn, interpCtxFn, interpCtxExpr, ctxForPrepared]

/-- … it is the one-statement wrap, with the parameters the interpreter assumes -/
theorem gen_prepared_context_is_plain_wrap :
    ctxFnIsPlainWrap Gen.CursorPrepCtx.contextFn = true ∧ Gen.CursorPrepCtx.contextFnParams = ["ctx", "values"] := by
  decide

/-- the context is built at exactly two sites, each from the context of the enclosing statement and a frame made
    from the statement's OWN list: `EXECUTE … USING` runs the prepared statements in it, `Cursor.Open` evaluates the
    cursor's SELECT in it; the USING list of the OPEN statement is handed down unchanged -/
theorem gen_prepared_context_sites :
    Gen.CursorPrepCtx.callSites =
      [("cursor.go", "Cursor.Open", "ctx", "NewReplaceValues(values)",
          "view, err = Select(ContextForPreparedStatement(ctx, NewReplaceValues(values)), scope, stmt)"),
       ("processor.go", "Processor.ExecuteStatement", "ctx", "NewReplaceValues(execStmt.Values)",
          "flow, err = proc.execute(ContextForPreparedStatement(ctx, NewReplaceValues(execStmt.Values)), prepared.Statements)")] ∧
    Gen.CursorPrepCtx.newValuesSites =
      [("cursor.go", "Cursor.Open", "values"), ("processor.go", "Processor.ExecuteStatement", "execStmt.Values")] ∧
    Gen.CursorPrepCtx.openCursorSites =
      [("cursor.go", "CursorMap.Open", "cur.Open(ctx, scope, name, values)"),
       ("processor.go", "Processor.ExecuteStatement", "proc.ReferenceScope.OpenCursor(ctx, openCur.Cursor, openCur.Values)"),
       ("reference_scope.go", "ReferenceScope.OpenCursor", "rs.Blocks[i].Cursors.Open(ctx, rs, name, values)")] := by
  decide

/-- one writer and one reader of the context key in the whole package -/
theorem gen_replace_value_key_uses :
    Gen.CursorPrepCtx.keyUses =
      [("eval.go", "evalPlaceholder", "ctx.Value(StatementReplaceValuesContextKey)"),
       ("processor.go", "ContextForPreparedStatement", "context.WithValue(ctx, StatementReplaceValuesContextKey, values)")] := by
  decide

/-- the reader, statement by statement (hand-reviewed reading: Model/CursorStmt.evalPlaceholder) -/
theorem gen_eval_placeholder_skeleton :
    Gen.CursorPrepCtx.fxEvalPlaceholder =
      ["v := ctx.Value(StatementReplaceValuesContextKey)",
       "if[v == nil]{", "return nil, NewStatementReplaceValueNotSpecifiedError(expr)", "}",
       "replace := v.(*ReplaceValues)", "var idx int",
       "if[0 < len(expr.Name)]{",
         "i, ok := replace.Names[expr.Name]",
         "if[!ok]{", "return nil, NewStatementReplaceValueNotSpecifiedError(expr)", "}",
         "idx = i", "}",
       "else{",
         "idx = expr.Ordinal - 1",
         "if[len(replace.Values) <= idx]{", "return nil, NewStatementReplaceValueNotSpecifiedError(expr)", "}", "}",
       "return Evaluate(ctx, scope, replace.Values[idx])"] := by
  decide

/-- the constructor of a frame (hand-reviewed reading: Model/CursorStmt.newFrameFrom) -/
theorem gen_new_replace_values_skeleton :
    Gen.CursorPrepCtx.fxNewReplaceValues =
      ["values := make([]parser.QueryExpression, 0, len(replace))", "names := make(map[string]int, len(replace))",
       "range[i := replace]{",
         "if[0 < len(replace[i].Name.Literal)]{", "names[replace[i].Name.Literal] = i", "}",
         "values = append(values, replace[i].Value)", "}",
       "return &ReplaceValues{Values: values, Names: names}"] := by
  decide

/-! ## the variant that wraps only a non-empty list (seeded change C16-m25) -/

/-- `if len(values.Values) < 1 { return ctx }` in front of the wrap -/
def conditionalWrap : List CtxStmt :=
  [.ifRet .valuesEmpty .ctx, .ret (.withValue "ctx" "StatementReplaceValuesContextKey" "values")]

/-- … is a different function: under a surrounding `EXECUTE … USING 2` an OPEN without USING would read 2 -/
theorem conditional_wrap_leaks_outer_values :
    interpCtxFn conditionalWrap [newReplaceValues [⟨2, ""⟩]] (newReplaceValues []) = some [newReplaceValues [⟨2, ""⟩]] ∧
    evalPlaceholder [newReplaceValues [⟨2, ""⟩]] (.pos 1) = some 2 ∧
    evalPlaceholder (ctxForPrepared [newReplaceValues [⟨2, ""⟩]] (newReplaceValues [])) (.pos 1) = none ∧
    ¬ (∀ ctx f, interpCtxFn conditionalWrap ctx f = some (ctxForPrepared ctx f)) := by
  refine ⟨by decide, by decide, by decide, ?_⟩
  intro h
  have := h [] (newReplaceValues [])
  revert this
  decide

/-! ## non-vacuity -/

def tbl : List Row := [(1, "r1"), (2, "r2"), (3, "r3"), (4, "r4")]
def sc : Scope String := [("CUR", .closed)]
def pick : Cond := .gtH (.pos 1)
def outer2 : Ctx := [newReplaceValues [⟨2, ""⟩]]

-- open_sees_only_its_own_values / open_reads_own_lookup: with its own USING 1 inside EXECUTE … USING 2: rows above 1
example : openStmt outer2 sc "cur" pick tbl [⟨1, ""⟩] = ([("CUR", .opened ["r2", "r3", "r4"] (-1) false)], .res .ok) := by rfl
example : openStmt [] sc "cur" pick tbl [⟨1, ""⟩] = openStmt outer2 sc "cur" pick tbl [⟨1, ""⟩] :=
  open_sees_only_its_own_values _ _ _ _ _ _ _
-- open_without_values_refused_iff_placeholder: inside EXECUTE … USING 2, OPEN without USING is refused, cursor closed
example : openStmt outer2 sc "cur" pick tbl [] = (sc, .notSpecified) := by rfl
example : reachesPlaceholder pick tbl = true := by rfl
-- over an empty table nothing is read: the OPEN succeeds with no rows
example : openStmt outer2 sc "cur" pick [] [] = ([("CUR", .opened [] (-1) false)], .res .ok) := by rfl
example : reachesPlaceholder pick [] = false := by rfl
-- AND: the second placeholder is reached only by rows that pass the first comparison
example : openStmt [] sc "cur" (.and (.gtH (.pos 1)) (.ltH (.pos 2))) tbl [⟨9, ""⟩] = ([("CUR", .opened [] (-1) false)], .res .ok) := by rfl
example : openStmt [] sc "cur" (.and (.gtH (.pos 1)) (.ltH (.pos 2))) tbl [⟨3, ""⟩] = (sc, .notSpecified) := by rfl
-- open_without_values_no_placeholder
example : openStmt outer2 sc "cur" (.gtC 2) tbl [] = ([("CUR", .opened ["r3", "r4"] (-1) false)], .res .ok) := by rfl
-- failed_open_leaves_cursor_closed / _stack_unchanged: premises are satisfiable
example : (openStmt outer2 sc "cur" pick tbl []).2.isErr = true := by rfl
example : (openStmtS outer2 [[], sc] "cur" pick tbl []).2.isErr = true ∧ (openStmtS outer2 [[], sc] "cur" pick tbl []).1 = [[], sc] := ⟨rfl, rfl⟩
-- open_answers_ok_or_error: both sides occur
example : (openStmt [] sc "cur" pick tbl [⟨0, ""⟩]).2.isErr = false := by rfl
-- open_with_values_is_open_on_selected_rows: premise satisfiable; also "already open" goes through `step`
example : selectRows (ownLookup [⟨2, ""⟩]) pick tbl = some ["r3", "r4"] := by rfl
example : (openStmt [] [("CUR", .opened ["x"] 0 true)] "cur" pick tbl [⟨2, ""⟩]).2.isErr = true := by rfl
-- selected_rows_spec
example : selectRows (fun h => some ((fun _ => (2 : Int)) h)) pick tbl = some ["r3", "r4"] := by rfl
-- positional / named values
example : evalPlaceholder (ctxForPrepared outer2 (newReplaceValues [⟨7, ""⟩, ⟨8, "lo"⟩])) (.pos 2) = some 8 := by rfl
example : evalPlaceholder (ctxForPrepared outer2 (newReplaceValues [⟨7, ""⟩, ⟨8, "lo"⟩])) (.named "lo") = some 8 := by rfl
example : evalPlaceholder (ctxForPrepared outer2 (newReplaceValues [⟨7, ""⟩, ⟨8, "lo"⟩])) (.named "hi") = none := by rfl
example : evalPlaceholder (ctxForPrepared outer2 (newReplaceValues [⟨7, "lo"⟩, ⟨8, "lo"⟩])) (.named "lo") = some 8 := by rfl
-- program_independent_of_outer_frames: EXECUTE … USING 2 { call { OPEN cur } } is refused; with USING 3 on the OPEN it
-- opens on the rows above 3 although two frames (2, then 0) surround it
example : runP tbl [] [sc] (.exec [⟨2, ""⟩] (.call (.openC "cur" pick [] .done) .done) .done) = ([sc], [.notSpecified], true) := by rfl
example : runP tbl [] [sc] (.exec [⟨2, ""⟩] (.exec [⟨0, ""⟩] (.source (.openC "cur" pick [⟨3, ""⟩] (.act (.fetch "cur" .next) .done)) .done) .done) .done)
    = ([[("CUR", .opened ["r4"] 0 true)]], [.res .ok, .res (.row "r4")], false) := by rfl
-- execute_using_is_transparent_for_opens
example : runP tbl [] [sc] (.exec [⟨2, ""⟩] (.openC "cur" (.gtC 3) [] .done) .done) = ([[("CUR", .opened ["r4"] (-1) false)]], [.res .ok], false) := by rfl
-- gen_prepared_context_always_shadows: an empty frame on top of a non-empty one hides it
example : interpCtxFn Gen.CursorPrepCtx.contextFn outer2 (newReplaceValues []) = some (newReplaceValues [] :: outer2) :=
  gen_prepared_context_always_shadows _ _

end Csvq.C16Stmt
