/-
  C16 — cursors declared FOR a prepared statement: the replace values an OPEN sees.

  "OPEN evaluates the cursor's query once …": for a cursor FOR a prepared statement the query has placeholders, and
  WHICH rows the snapshot holds is decided by the values the placeholders are read from.  csvq keeps the value
  EXPRESSIONS of every `EXECUTE … USING` in the context (a stack of frames); `Cursor.Open` pushes a frame of its own
  built from the USING list of the OPEN statement — an EMPTY one when there is no USING clause.  Since /repo 6dd3cc3
  (finding F118) a frame records the context it was WRITTEN in and its expressions are evaluated THERE: a placeholder
  in a USING list is one of the surrounding statement.  Proved here, for every context, table, statement shape of
  Model/CursorStmt and every nesting of EXECUTE / function call / SOURCE:

    * open_sees_only_its_own_values (exact form: the OPEN depends on its own USING list and, through the placeholders
      written IN that list, on what the context of the statement containing the OPEN answers for them — nothing else),
      open_with_literal_values_sees_no_frame, open_on_stack_sees_only_its_own_values,
      using_placeholder_reads_surrounding_frame, own_frame_never_read_for_its_own_expressions
    * program_depends_on_context_only_through_placeholder_values, closed_program_independent_of_outer_frames
    * placeholder_eval_terminates (the fuel-bounded evaluation in the shape of the Go code, over recorded frames, never
      runs out with `size e + weight c` nested calls and equals the structural evaluation), eval_fuel_monotone,
      prepared_contexts_are_recorded; old_lazy_evaluation_loops (the shape before the fix: `USING ?` reads itself, no fuel suffices)
    * open_without_values_refused_iff_placeholder  (and the cursor stays closed)
    * failed_open_leaves_cursor_closed, failed_open_leaves_stack_unchanged
    * open_with_values_is_open_on_selected_rows  (the link to `Cursor.step (.open n rows)`)
    * positional_value_is_ordinal_minus_one, named_value_last_entry_wins
    * gen_prepared_context_always_shadows (… and records), gen_prepared_context_sites, gen_replace_value_key_uses,
      gen_placeholder_value_evaluated_in_recorded_context, gen_eval_placeholder_skeleton, gen_new_replace_values_skeleton
      over the REGENERATED Gen/CursorPrepCtx.lean
    * conditional_wrap_leaks_outer_values (seeded change C16-m25), unrecorded_wrap_is_not_the_model (reverse seed C19-r118)
-/
import Csvq.Model.CursorStmt
import Csvq.Lemmas.CursorStmt
import Csvq.Gen.CursorPrepCtx
namespace Csvq.C16Stmt
open Csvq Csvq.Cursor Csvq.CursorStmt

/-! ## what an OPEN can read -/

/-- the OPEN is the evaluation under `ownLookup`: the expression its OWN list gives for a placeholder, evaluated with
    what the context of the statement that contains the OPEN answers -/
theorem open_reads_own_lookup (ctx : Ctx) (s : Scope String) (n : String) (c : Cond) (table : List Row) (us : List RV) :
    openStmt ctx s n c table us =
      (match lookup s (key n) with
       | none => (s, .res (.err .undeclared))
       | some (.opened _ _ _) => (s, .res (.err .alreadyOpen))
       | some .closed =>
         match selectRows (ownLookup (evalPlaceholder ctx) us) c table with
         | none => (s, .notSpecified)
         | some rows => (update s (key n) (.opened rows (-1) false), .res .ok)) := by
  have e := evalPlaceholder_prepared ctx us
  simp only [openStmt, e]
  rfl

theorem ownLookup_congr (lk lk' : Holder → Option Int) (us : List RV)
    (h : ∀ r ∈ us, evalWith lk r.value = evalWith lk' r.value) : ownLookup lk us = ownLookup lk' us := by
  funext x
  simp only [ownLookup]
  cases hi : frameIndex (newReplaceValues us) x with
  | none => rfl
  | some e =>
    have hm : e ∈ (newReplaceValues us).values := by
      cases x with
      | named nm =>
        simp only [frameIndex] at hi
        cases ha : assoc (newReplaceValues us).names nm with
        | none => simp [ha] at hi
        | some i => simp [ha] at hi; exact List.mem_of_getElem? hi
      | pos o =>
        cases o with
        | zero => simp [frameIndex] at hi
        | succ i => simp only [frameIndex] at hi; exact List.mem_of_getElem? hi
    rw [newReplaceValues_values] at hm
    obtain ⟨r, hr, rfl⟩ := List.mem_map.mp hm
    simp [h r hr]

/-- EXACT FORM: two contexts that give the expressions of the OPEN's own USING list the same values make the OPEN do
    the same — the surrounding frames are reachable ONLY through placeholders written in that list -/
theorem open_sees_only_its_own_values (ctx ctx' : Ctx) (s : Scope String) (n : String) (c : Cond) (table : List Row)
    (us : List RV)
    (h : ∀ r ∈ us, evalWith (evalPlaceholder ctx) r.value = evalWith (evalPlaceholder ctx') r.value) :
    openStmt ctx s n c table us = openStmt ctx' s n c table us := by
  rw [open_reads_own_lookup, open_reads_own_lookup, ownLookup_congr _ _ us h]

/-- a USING list of literals (or none): no surrounding frame is visible at all -/
theorem open_with_literal_values_sees_no_frame (ctx ctx' : Ctx) (s : Scope String) (n : String) (c : Cond)
    (table : List Row) (us : List RV) (hc : closedList us = true) :
    openStmt ctx s n c table us = openStmt ctx' s n c table us := by
  apply open_sees_only_its_own_values
  intro r hr
  exact evalWith_closed _ _ _ (by simpa using (List.all_eq_true.mp hc) r hr)

theorem open_on_stack_sees_only_its_own_values (ctx ctx' : Ctx) (st : Stack String) (n : String) (c : Cond)
    (table : List Row) (us : List RV)
    (h : ∀ r ∈ us, evalWith (evalPlaceholder ctx) r.value = evalWith (evalPlaceholder ctx') r.value) :
    openStmtS ctx st n c table us = openStmtS ctx' st n c table us := by
  induction st with
  | nil => rfl
  | cons b rest ih =>
    simp only [openStmtS]
    rw [ih, open_sees_only_its_own_values ctx ctx' _ _ _ _ _ h]

/-- `USING ?` hands on the first value of the SURROUNDING statement -/
theorem using_placeholder_reads_surrounding_frame (ctx : Ctx) (h : Holder) :
    evalPlaceholder (ctxForPrepared ctx (newReplaceValues [⟨.ph h, ""⟩])) (.pos 1) = evalPlaceholder ctx h := by
  simp [ctxForPrepared, evalPlaceholder_push, newReplaceValues, newFrameFrom, frameIndex, evalWith]

/-- which frames can be reached: the expressions of a frame are evaluated in the context BELOW it — replacing the
    frame itself by any other changes nothing about the value of one of its expressions -/
theorem own_frame_never_read_for_its_own_expressions (f g : Frame) (r r' : Bool) (below : Ctx) (h : Holder) (e : VExpr)
    (hi : frameIndex f h = some e) :
    evalPlaceholder (.push f r below) h = evalWith (evalPlaceholder below) e ∧
    evalWith (evalPlaceholder below) e = evalWith (fun x => evalPlaceholder below x) e ∧
    (frameIndex g h = some e → evalPlaceholder (.push g r' below) h = evalPlaceholder (.push f r below) h) := by
  refine ⟨by simp [evalPlaceholder_push, hi], rfl, ?_⟩
  intro hg
  simp [evalPlaceholder_push, hi, hg]

/-- a program depends on the context it is started in only through what that context answers for placeholders -/
theorem program_depends_on_context_only_through_placeholder_values (table : List Row) (p : Prog) :
    ∀ (ctx ctx' : Ctx) (st : Stack String), evalPlaceholder ctx = evalPlaceholder ctx' →
      runP table ctx st p = runP table ctx' st p := by
  induction p with
  | done => intro ctx ctx' st _; rfl
  | openC n c us rest ih =>
    intro ctx ctx' st he
    simp only [runP]
    rw [open_on_stack_sees_only_its_own_values ctx ctx' _ _ _ _ _ (by intro r _; rw [he])]
    split
    · rw [ih ctx ctx' _ he]
    · rfl
  | act o rest ih =>
    intro ctx ctx' st he
    simp only [runP]
    split
    · rfl
    · rw [ih ctx ctx' _ he]
  | exec us body rest ihb ihr =>
    intro ctx ctx' st he
    simp only [runP]
    rw [ihb (ctxForPrepared ctx (newReplaceValues us)) (ctxForPrepared ctx' (newReplaceValues us)) st
      (by rw [evalPlaceholder_prepared, evalPlaceholder_prepared, he])]
    split
    · rfl
    · rw [ihr ctx ctx' _ he]
  | call body rest ihb ihr =>
    intro ctx ctx' st he
    simp only [runP]
    rw [ihb ctx ctx' _ he]
    split
    · rfl
    · rw [ihr ctx ctx' _ he]
  | source body rest ihb ihr =>
    intro ctx ctx' st he
    simp only [runP]
    rw [ihb ctx ctx' _ he]
    split
    · rfl
    · rw [ihr ctx ctx' _ he]

/-- a program whose USING lists hold no placeholder — OPENs nested in EXECUTE … USING, function calls and SOURCE to any
    depth — runs the same under every context: nothing an outer `EXECUTE … USING` binds reaches a cursor's statement -/
theorem closed_program_independent_of_outer_frames (table : List Row) (p : Prog) :
    ∀ (ctx ctx' : Ctx) (st : Stack String), p.closed = true → runP table ctx st p = runP table ctx' st p := by
  induction p with
  | done => intro ctx ctx' st _; rfl
  | openC n c us rest ih =>
    intro ctx ctx' st hc
    simp only [Prog.closed, Bool.and_eq_true] at hc
    simp only [runP]
    rw [open_on_stack_sees_only_its_own_values ctx ctx' _ _ _ _ _
      (by intro r hr; exact evalWith_closed _ _ _ (by simpa using (List.all_eq_true.mp hc.1) r hr))]
    split
    · rw [ih ctx ctx' _ hc.2]
    · rfl
  | act o rest ih =>
    intro ctx ctx' st hc
    simp only [Prog.closed] at hc
    simp only [runP]
    split
    · rfl
    · rw [ih ctx ctx' _ hc]
  | exec us body rest ihb ihr =>
    intro ctx ctx' st hc
    simp only [Prog.closed, Bool.and_eq_true] at hc
    simp only [runP]
    rw [ihb (ctxForPrepared ctx (newReplaceValues us)) (ctxForPrepared ctx' (newReplaceValues us)) st hc.1.2]
    split
    · rfl
    · rw [ihr ctx ctx' _ hc.2]
  | call body rest ihb ihr =>
    intro ctx ctx' st hc
    simp only [Prog.closed, Bool.and_eq_true] at hc
    simp only [runP]
    rw [ihb ctx ctx' _ hc.1]
    split
    · rfl
    · rw [ihr ctx ctx' _ hc.2]
  | source body rest ihb ihr =>
    intro ctx ctx' st hc
    simp only [Prog.closed, Bool.and_eq_true] at hc
    simp only [runP]
    rw [ihb ctx ctx' _ hc.1]
    split
    · rfl
    · rw [ihr ctx ctx' _ hc.2]

/-! ## termination of the evaluation -/

/-- every context built by ContextForPreparedStatement from a recorded one is recorded -/
theorem prepared_contexts_are_recorded (ctx : Ctx) (f : Frame) (h : ctx.allRecorded = true) :
    (ctxForPrepared ctx f).allRecorded = true := by
  simp [ctxForPrepared, Ctx.allRecorded, h]

/-- the evaluation in the shape of the Go code (`evalV`: Evaluate → evalPlaceholder → Evaluate …, `fuel` nested calls)
    over recorded frames: the recorded context is strictly shorter than the reader's, so `size e + weight c` calls
    suffice — it never runs out — and the answer is the structural evaluation the model uses -/
theorem placeholder_eval_terminates (c : Ctx) (e : VExpr) (hr : c.allRecorded = true) (fuel : Nat)
    (hf : e.size + c.weight ≤ fuel) :
    evalV fuel c e ≠ .diverged ∧ evalV fuel c e = PV.ofOption (evalWith (evalPlaceholder c) e) := by
  have h := evalV_recorded fuel c e hr hf
  refine ⟨?_, h⟩
  rw [h]
  cases evalWith (evalPlaceholder c) e <;> simp [PV.ofOption]

/-- more fuel never changes an answer that was reached -/
theorem eval_fuel_monotone : ∀ (fuel : Nat) (c : Ctx) (e : VExpr), evalV fuel c e ≠ .diverged →
    evalV (fuel + 1) c e = evalV fuel c e := by
  intro fuel
  induction fuel with
  | zero => intro c e h; simp [evalV] at h
  | succ fuel ih =>
    intro c e h
    cases e with
    | lit n => simp [evalV]
    | plus e k =>
      simp only [evalV] at h ⊢
      have hd : evalV fuel c e ≠ .diverged := by
        intro hd; rw [hd] at h; exact h rfl
      rw [ih c e hd]
    | ph x =>
      cases c with
      | empty => simp [evalV]
      | push f r below =>
        simp only [evalV] at h ⊢
        cases hi : frameIndex f x with
        | none => rfl
        | some e' =>
          simp only [hi] at h ⊢
          exact ih _ e' h

/-- THE SHAPE BEFORE THE FIX (frames that do not record their context: the expression is evaluated in the reader's
    own context): `EXECUTE pin USING ?` — reading ?{1} evaluates the first expression of the innermost frame, which is
    ?{1}.  No fuel suffices, whatever lies below (Go: the stack grows until the runtime's fatal error). -/
theorem old_lazy_evaluation_loops (below : Ctx) (fuel : Nat) :
    evalV fuel (.push (newReplaceValues [⟨.ph (.pos 1), ""⟩]) false below) (.ph (.pos 1)) = .diverged := by
  induction fuel with
  | zero => rfl
  | succ fuel ih =>
    simp only [evalV, newReplaceValues, newFrameFrom, frameIndex] at ih ⊢
    simpa using ih

/-- … while the recorded frame of the same list reads the value of the surrounding statement -/
theorem recorded_evaluation_of_the_same_list (k : Int) :
    evalV 3 (.push (newReplaceValues [⟨.ph (.pos 1), ""⟩]) true (.push (newReplaceValues [⟨.lit k, ""⟩]) true .empty))
      (.ph (.pos 1)) = .val k := by
  simp [evalV, newReplaceValues, newFrameFrom, frameIndex]

/-! ## OPEN without USING -/

/-- OPEN without a USING clause of a closed cursor is refused EXACTLY when evaluating the statement over the table
    reaches a placeholder — under every stack of surrounding frames —, and then nothing changes -/
theorem open_without_values_refused_iff_placeholder (ctx : Ctx) (s : Scope String) (n : String) (c : Cond)
    (table : List Row) (hc : lookup s (key n) = some .closed) :
    ((openStmt ctx s n c table []).2 = ORes.notSpecified ↔ reachesPlaceholder c table = true) ∧
    (reachesPlaceholder c table = true → openStmt ctx s n c table [] = (s, ORes.notSpecified)) := by
  have hsel : selectRows (evalPlaceholder (ctxForPrepared ctx (newReplaceValues []))) c table = none ↔
      reachesPlaceholder c table = true := by
    rw [evalPlaceholder_empty_frame_fun, selectRows_none_iff, stuckOn_none_eq_reaches]
  constructor
  · simp only [openStmt, hc]
    cases h : selectRows (evalPlaceholder (ctxForPrepared ctx (newReplaceValues []))) c table with
    | none => simp [hsel.mp h]
    | some rows =>
      have : ¬ (reachesPlaceholder c table = true) := by
        intro hr
        have := hsel.mpr hr
        rw [h] at this; cases this
      simp [this]
  · intro hr
    simp only [openStmt, hc, hsel.mpr hr]

/-- a statement whose WHERE clause starts with a placeholder comparison, over a table with at least one row:
    OPEN without USING is refused, whatever surrounds it -/
theorem open_without_values_refused_nonempty (ctx : Ctx) (s : Scope String) (n : String) (h : Holder) (r : Row)
    (rest : List Row) (hc : lookup s (key n) = some .closed) :
    openStmt ctx s n (.gtH h) (r :: rest) [] = (s, ORes.notSpecified) :=
  (open_without_values_refused_iff_placeholder ctx s n (.gtH h) (r :: rest) hc).2
    (by simp [reachesPlaceholder, Cond.reaches])

/-- a statement without placeholder opens without USING, on the rows its clause selects -/
theorem open_without_values_no_placeholder (ctx : Ctx) (s : Scope String) (n : String) (k : Int) (table : List Row)
    (hc : lookup s (key n) = some .closed) :
    openStmt ctx s n (.gtC k) table [] =
      (update s (key n) (.opened ((table.filter (fun r => decide (k < r.1))).map Prod.snd) (-1) false), .res .ok) := by
  have h := selectRows_total (fun _ => 0) (.gtC k) table
  have e : selectRows (evalPlaceholder (ctxForPrepared ctx (newReplaceValues []))) (.gtC k) table
      = selectRows (fun h => some ((fun _ => (0 : Int)) h)) (.gtC k) table := by
    induction table with
    | nil => rfl
    | cons r rest ih =>
      obtain ⟨id, tok⟩ := r
      have ih' := ih (selectRows_total (fun _ => 0) (.gtC k) rest)
      simp only [selectRows, evalCond] at ih' ⊢
      rw [ih']
  simp only [openStmt, hc, e, h, Cond.denote]

/-! ## a failed OPEN -/

/-- whatever made the OPEN fail — undeclared, already open, a placeholder without value —: the scope is unchanged;
    a closed cursor is still closed -/
theorem failed_open_leaves_cursor_closed (ctx : Ctx) (s : Scope String) (n : String) (c : Cond) (table : List Row)
    (us : List RV) (hf : (openStmt ctx s n c table us).2.isErr = true) :
    (openStmt ctx s n c table us).1 = s := by
  cases hl : lookup s (key n) with
  | none => simp [openStmt, hl]
  | some cs =>
    cases cs with
    | opened r i f => simp [openStmt, hl]
    | closed =>
      cases hs : selectRows (evalPlaceholder (ctxForPrepared ctx (newReplaceValues us))) c table with
      | none => simp [openStmt, hl, hs]
      | some rows => simp [openStmt, hl, hs, ORes.isErr] at hf

theorem failed_open_leaves_stack_unchanged (ctx : Ctx) (st : Stack String) (n : String) (c : Cond) (table : List Row)
    (us : List RV) (hf : (openStmtS ctx st n c table us).2.isErr = true) :
    (openStmtS ctx st n c table us).1 = st := by
  induction st with
  | nil => rfl
  | cons b rest ih =>
    simp only [openStmtS] at hf ⊢
    split
    · rename_i h
      simp only [h] at hf
      simp [failed_open_leaves_cursor_closed ctx b n c table us hf]
    · rename_i h
      simp only [h] at hf
      simp [ih hf]

/-- an OPEN either fails or answers ok: there is no third outcome -/
theorem open_answers_ok_or_error (ctx : Ctx) (s : Scope String) (n : String) (c : Cond) (table : List Row) (us : List RV) :
    (openStmt ctx s n c table us).2.isErr = true ∨
      ∃ rows, openStmt ctx s n c table us = (update s (key n) (.opened rows (-1) false), .res .ok) := by
  simp only [openStmt]
  split
  · left; rfl
  · left; rfl
  · split
    · left; rfl
    · right; exact ⟨_, rfl⟩

/-! ## a successful OPEN is `Cursor.step (.open n rows)` on the selected rows -/

theorem open_with_values_is_open_on_selected_rows (ctx : Ctx) (s : Scope String) (n : String) (c : Cond)
    (table : List Row) (us : List RV) (rows : List String)
    (h : selectRows (ownLookup (evalPlaceholder ctx) us) c table = some rows) :
    openStmt ctx s n c table us = ((step s (.open n rows)).1, .res (step s (.open n rows)).2) := by
  rw [open_reads_own_lookup]
  simp only [step, h]
  cases hl : lookup s (key n) with
  | none => rfl
  | some cs =>
    cases cs with
    | closed => simp [CState.open]
    | opened r i f => simp [CState.open]

/-- when the OPEN's own list gives every placeholder a value: the rows are those the clause selects under these
    values, in table order (AND's skipped right operand makes no difference) -/
theorem selected_rows_spec (v : Holder → Int) (c : Cond) (table : List Row) :
    selectRows (fun h => some (v h)) c table = some ((table.filter (fun r => c.denote v r.1)).map Prod.snd) :=
  selectRows_total v c table

/-- `?` number k reads the k-th expression of the OPEN's own list (index Ordinal − 1), evaluated in the context of
    the statement that contains the OPEN -/
theorem positional_value_is_ordinal_minus_one (ctx : Ctx) (us : List RV) (i : Nat) :
    evalPlaceholder (ctxForPrepared ctx (newReplaceValues us)) (.pos (i + 1)) =
      ((us.map (·.value))[i]?).bind (evalWith (evalPlaceholder ctx)) := by
  simp [ctxForPrepared, evalPlaceholder_push, frameIndex, newReplaceValues_values]

/-- `v AS name` twice in one list: the later entry is the one `:name` reads -/
theorem named_value_last_entry_wins (ctx : Ctx) (a b : Int) (nm : String) (hn : nm.length > 0) :
    evalPlaceholder (ctxForPrepared ctx (newReplaceValues [⟨.lit a, nm⟩, ⟨.lit b, nm⟩])) (.named nm) = some b := by
  simp [ctxForPrepared, evalPlaceholder_push, frameIndex, newReplaceValues, newFrameFrom, hn, assoc, evalWith]

/-! ## the regenerated code -/

/-- ContextForPreparedStatement as it stands in processor.go: for EVERY context and EVERY frame (the empty one
    included) the result is the context with the frame pushed, and the frame RECORDS that context -/
theorem gen_prepared_context_always_shadows (ctx : Ctx) (f : Frame) :
    interpCtxFn Gen.CursorPrepCtx.contextFn ctx f = some (ctxForPrepared ctx f) := by
  simp [Gen.CursorPrepCtx.contextFn, interpCtxFn, interpCtxFnFrom, interpCtxExpr, ctxForPrepared]

/-- … it is the two-statement record-and-wrap, with the parameters the interpreter assumes -/
theorem gen_prepared_context_is_plain_wrap :
    ctxFnIsPlainWrap Gen.CursorPrepCtx.contextFn = true ∧ Gen.CursorPrepCtx.contextFnParams = ["ctx", "values"] := by
  decide

/-- evalPlaceholder hands the value expression to Evaluate with the RECORDED context whenever there is one (always,
    by the theorem above); the reader's own context is the fallback for a frame without record only -/
theorem gen_placeholder_value_evaluated_in_recorded_context :
    Gen.CursorPrepCtx.evalIn =
      [("replace.Outer != nil", "replace.Outer | replace.Values[idx]"), ("", "ctx | replace.Values[idx]")] := by
  decide

/-- the context is built at exactly two sites, each from the context of the enclosing statement and a frame made
    from the statement's OWN list: `EXECUTE … USING` runs the prepared statements in it, `Cursor.Open` evaluates the
    cursor's SELECT in it; the USING list of the OPEN statement is handed down unchanged -/
theorem gen_prepared_context_sites :
    Gen.CursorPrepCtx.callSites =
      [("cursor.go", "Cursor.Open", "ctx", "NewReplaceValues(values)",
          "view, err = Select(ContextForPreparedStatement(ctx, NewReplaceValues(values)), scope, stmt)"),
       ("processor.go", "Processor.ExecuteStatement", "ctx", "NewReplaceValues(execStmt.Values)",
          "flow, err = proc.execute(ContextForPreparedStatement(ctx, NewReplaceValues(execStmt.Values)), prepared.Statements)")] ∧
    Gen.CursorPrepCtx.newValuesSites =
      [("cursor.go", "Cursor.Open", "values"), ("processor.go", "Processor.ExecuteStatement", "execStmt.Values")] ∧
    Gen.CursorPrepCtx.openCursorSites =
      [("cursor.go", "CursorMap.Open", "cur.Open(ctx, scope, name, values)"),
       ("processor.go", "Processor.ExecuteStatement", "proc.ReferenceScope.OpenCursor(ctx, openCur.Cursor, openCur.Values)"),
       ("reference_scope.go", "ReferenceScope.OpenCursor", "rs.Blocks[i].Cursors.Open(ctx, rs, name, values)")] := by
  decide

/-- one writer and one reader of the context key in the whole package -/
theorem gen_replace_value_key_uses :
    Gen.CursorPrepCtx.keyUses =
      [("eval.go", "evalPlaceholder", "ctx.Value(StatementReplaceValuesContextKey)"),
       ("processor.go", "ContextForPreparedStatement", "context.WithValue(ctx, StatementReplaceValuesContextKey, values)")] := by
  decide

/-- the reader, statement by statement (hand-reviewed reading: Model/CursorStmt.evalPlaceholder) -/
theorem gen_eval_placeholder_skeleton :
    Gen.CursorPrepCtx.fxEvalPlaceholder =
      ["v := ctx.Value(StatementReplaceValuesContextKey)",
       "if[v == nil]{", "return nil, NewStatementReplaceValueNotSpecifiedError(expr)", "}",
       "replace := v.(*ReplaceValues)", "var idx int",
       "if[0 < len(expr.Name)]{",
         "i, ok := replace.Names[expr.Name]",
         "if[!ok]{", "return nil, NewStatementReplaceValueNotSpecifiedError(expr)", "}",
         "idx = i", "}",
       "else{",
         "idx = expr.Ordinal - 1",
         "if[len(replace.Values) <= idx]{", "return nil, NewStatementReplaceValueNotSpecifiedError(expr)", "}", "}",
       "if[replace.Outer != nil]{", "return Evaluate(replace.Outer, scope, replace.Values[idx])", "}",
       "return Evaluate(ctx, scope, replace.Values[idx])"] := by
  decide

/-- the constructor of a frame (hand-reviewed reading: Model/CursorStmt.newFrameFrom) -/
theorem gen_new_replace_values_skeleton :
    Gen.CursorPrepCtx.fxNewReplaceValues =
      ["values := make([]parser.QueryExpression, 0, len(replace))", "names := make(map[string]int, len(replace))",
       "range[i := replace]{",
         "if[0 < len(replace[i].Name.Literal)]{", "names[replace[i].Name.Literal] = i", "}",
         "values = append(values, replace[i].Value)", "}",
       "return &ReplaceValues{Values: values, Names: names}"] := by
  decide

/-! ## variants that are not the model's function -/

/-- `if len(values.Values) < 1 { return ctx }` in front (seeded change C16-m25) -/
def conditionalWrap : List CtxStmt :=
  [.ifRet .valuesEmpty .ctx, .setOuter "ctx", .ret (.withValue "ctx" "StatementReplaceValuesContextKey" "values")]

def outerTwo : Ctx := ctxForPrepared .empty (newReplaceValues [⟨2, ""⟩])

/-- … is a different function: under a surrounding `EXECUTE … USING 2` an OPEN without USING would read 2 -/
theorem conditional_wrap_leaks_outer_values :
    interpCtxFn conditionalWrap outerTwo (newReplaceValues []) = some outerTwo ∧
    evalPlaceholder outerTwo (.pos 1) = some 2 ∧
    evalPlaceholder (ctxForPrepared outerTwo (newReplaceValues [])) (.pos 1) = none ∧
    ¬ (∀ ctx f, interpCtxFn conditionalWrap ctx f = some (ctxForPrepared ctx f)) := by
  refine ⟨by decide, by decide, by decide, ?_⟩
  intro h
  have := h .empty (newReplaceValues [])
  revert this
  decide

/-- the wrap without `values.Outer = ctx` (the code before 6dd3cc3, reverse seed C19-r118) -/
def unrecordedWrap : List CtxStmt := [.ret (.withValue "ctx" "StatementReplaceValuesContextKey" "values")]

/-- … pushes a frame that does not record its context — the shape of `old_lazy_evaluation_loops` -/
theorem unrecorded_wrap_is_not_the_model (ctx : Ctx) (f : Frame) :
    interpCtxFn unrecordedWrap ctx f = some (.push f false ctx) ∧
    interpCtxFn unrecordedWrap ctx f ≠ some (ctxForPrepared ctx f) := by
  simp [unrecordedWrap, interpCtxFn, interpCtxFnFrom, interpCtxExpr, ctxForPrepared]

/-! ## non-vacuity -/

def tbl : List Row := [(1, "r1"), (2, "r2"), (3, "r3"), (4, "r4")]
def sc : Scope String := [("CUR", .closed)]
def pick : Cond := .gtH (.pos 1)
def outer2 : Ctx := ctxForPrepared .empty (newReplaceValues [⟨2, ""⟩])

-- open_sees_only_its_own_values / open_reads_own_lookup: with its own USING 1 inside EXECUTE … USING 2: rows above 1
example : openStmt outer2 sc "cur" pick tbl [⟨1, ""⟩] = ([("CUR", .opened ["r2", "r3", "r4"] (-1) false)], .res .ok) := by rfl
example : openStmt .empty sc "cur" pick tbl [⟨1, ""⟩] = openStmt outer2 sc "cur" pick tbl [⟨1, ""⟩] :=
  open_with_literal_values_sees_no_frame _ _ _ _ _ _ _ rfl
-- with `USING ?` the OPEN inside EXECUTE … USING 2 reads 2 (rows above 2); with `USING ? + 1`, 3; at top level it is refused
example : openStmt outer2 sc "cur" pick tbl [⟨.ph (.pos 1), ""⟩] = ([("CUR", .opened ["r3", "r4"] (-1) false)], .res .ok) := by rfl
example : openStmt outer2 sc "cur" pick tbl [⟨.plus (.ph (.pos 1)) 1, ""⟩] = ([("CUR", .opened ["r4"] (-1) false)], .res .ok) := by rfl
example : openStmt .empty sc "cur" pick tbl [⟨.ph (.pos 1), ""⟩] = (sc, .notSpecified) := by rfl
-- the two reproducers of F118 in the model: EXECUTE pout USING 5 { EXECUTE pin USING ? { read ?{1} } } reads 5
example : evalPlaceholder (ctxForPrepared (ctxForPrepared .empty (newReplaceValues [⟨5, ""⟩])) (newReplaceValues [⟨.ph (.pos 1), ""⟩])) (.pos 1) = some 5 := by rfl
example : runP tbl .empty [sc] (.exec [⟨1, ""⟩] (.openC "cur" (.and (.gtH (.pos 1)) (.ltH (.pos 2))) [⟨.ph (.pos 1), ""⟩, ⟨4, ""⟩] (.act (.count "cur") .done)) .done)
    = ([[("CUR", .opened ["r2", "r3"] (-1) false)]], [.res .ok, .res (.int 2)], false) := by rfl
-- placeholder_eval_terminates: premises satisfiable, the bound is met
example : outer2.allRecorded = true ∧ (VExpr.ph (.pos 1)).size + outer2.weight ≤ 2 ∧ evalV 2 outer2 (.ph (.pos 1)) = .val 2 := by decide
-- eval_fuel_monotone: premise satisfiable
example : evalV 2 outer2 (.ph (.pos 1)) ≠ .diverged := by decide
-- program_depends_on_context_only_through_placeholder_values: two different contexts that answer alike
example : evalPlaceholder (ctxForPrepared .empty (newReplaceValues [⟨2, ""⟩])) = evalPlaceholder (ctxForPrepared outer2 (newReplaceValues [⟨.ph (.pos 1), ""⟩])) := by
  funext h; cases h with
  | pos o => match o with
    | 0 => rfl
    | 1 => rfl
    | _ + 2 => rfl
  | named n => rfl
-- open_without_values_refused_iff_placeholder: inside EXECUTE … USING 2, OPEN without USING is refused, cursor closed
example : openStmt outer2 sc "cur" pick tbl [] = (sc, .notSpecified) := by rfl
example : reachesPlaceholder pick tbl = true := by rfl
-- over an empty table nothing is read: the OPEN succeeds with no rows
example : openStmt outer2 sc "cur" pick [] [] = ([("CUR", .opened [] (-1) false)], .res .ok) := by rfl
example : reachesPlaceholder pick [] = false := by rfl
-- AND: the second placeholder is reached only by rows that pass the first comparison
example : openStmt .empty sc "cur" (.and (.gtH (.pos 1)) (.ltH (.pos 2))) tbl [⟨9, ""⟩] = ([("CUR", .opened [] (-1) false)], .res .ok) := by rfl
example : openStmt .empty sc "cur" (.and (.gtH (.pos 1)) (.ltH (.pos 2))) tbl [⟨3, ""⟩] = (sc, .notSpecified) := by rfl
-- open_without_values_no_placeholder
example : openStmt outer2 sc "cur" (.gtC 2) tbl [] = ([("CUR", .opened ["r3", "r4"] (-1) false)], .res .ok) := by rfl
-- failed_open_leaves_cursor_closed / _stack_unchanged: premises are satisfiable
example : (openStmt outer2 sc "cur" pick tbl []).2.isErr = true := by rfl
example : (openStmtS outer2 [[], sc] "cur" pick tbl []).2.isErr = true ∧ (openStmtS outer2 [[], sc] "cur" pick tbl []).1 = [[], sc] := ⟨rfl, rfl⟩
-- open_answers_ok_or_error: both sides occur
example : (openStmt .empty sc "cur" pick tbl [⟨0, ""⟩]).2.isErr = false := by rfl
-- open_with_values_is_open_on_selected_rows: premise satisfiable; also "already open" goes through `step`
example : selectRows (ownLookup (evalPlaceholder .empty) [⟨2, ""⟩]) pick tbl = some ["r3", "r4"] := by rfl
example : (openStmt .empty [("CUR", .opened ["x"] 0 true)] "cur" pick tbl [⟨2, ""⟩]).2.isErr = true := by rfl
-- selected_rows_spec
example : selectRows (fun h => some ((fun _ => (2 : Int)) h)) pick tbl = some ["r3", "r4"] := by rfl
-- positional / named values
example : evalPlaceholder (ctxForPrepared outer2 (newReplaceValues [⟨7, ""⟩, ⟨8, "lo"⟩])) (.pos 2) = some 8 := by rfl
example : evalPlaceholder (ctxForPrepared outer2 (newReplaceValues [⟨7, ""⟩, ⟨8, "lo"⟩])) (.named "lo") = some 8 := by rfl
example : evalPlaceholder (ctxForPrepared outer2 (newReplaceValues [⟨7, ""⟩, ⟨8, "lo"⟩])) (.named "hi") = none := by rfl
example : evalPlaceholder (ctxForPrepared outer2 (newReplaceValues [⟨7, "lo"⟩, ⟨8, "lo"⟩])) (.named "lo") = some 8 := by rfl
-- closed_program_independent_of_outer_frames: EXECUTE … USING 2 { call { OPEN cur } } is refused; with USING 3 on the OPEN it
-- opens on the rows above 3 although two frames (2, then 0) surround it
example : runP tbl .empty [sc] (.exec [⟨2, ""⟩] (.call (.openC "cur" pick [] .done) .done) .done) = ([sc], [.notSpecified], true) := by rfl
example : runP tbl .empty [sc] (.exec [⟨2, ""⟩] (.exec [⟨0, ""⟩] (.source (.openC "cur" pick [⟨3, ""⟩] (.act (.fetch "cur" .next) .done)) .done) .done) .done)
    = ([[("CUR", .opened ["r4"] 0 true)]], [.res .ok, .res (.row "r4")], false) := by rfl
-- an EXECUTE … USING around an OPEN of a statement without placeholder changes nothing
example : runP tbl .empty [sc] (.exec [⟨2, ""⟩] (.openC "cur" (.gtC 3) [] .done) .done) = ([[("CUR", .opened ["r4"] (-1) false)]], [.res .ok], false) := by rfl
-- gen_prepared_context_always_shadows: an empty frame on top of a non-empty one hides it
example : interpCtxFn Gen.CursorPrepCtx.contextFn outer2 (newReplaceValues []) = some (.push (newReplaceValues []) true outer2) :=
  gen_prepared_context_always_shadows _ _

end Csvq.C16Stmt
