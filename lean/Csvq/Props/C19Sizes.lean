/-
  C19 (size fragment) — no size operand of lib/query can be out of range where the guards of the source say so.

  extract/errfacts (sizefacts.go) regenerates, on every run, one obligation per operand that makes the Go runtime panic when
  it is out of range, for EVERY function of lib/query (string_formatter.go, function.go, view.go, sort_value.go, utils.go,
  encode.go, analytic_function.go and the other 30 files):

      strings.Repeat(s, n) / bytes.Repeat          count   0 ≤ n
      make([]T, n[, c])                            len     0 ≤ n            cap    n ≤ c
      x[i]  with + / − in the index                low     0 ≤ i            high   i < len x
      x[a:b:c] with a non-constant bound           low     0 ≤ a            order  a ≤ b       high  b ≤ cap x (len x for strings)

  each with the operand as integer IR (Csvq/Model/SizeFacts.lean) and the facts that hold whenever control reaches the site:
  enclosing if / else / switch conditions, the negation of every early return above it, the definitions of the local variables
  involved (`padLen := width - len(s) - len(sign)`), the joins of branches as disjunctions (`if padLen < 0 { padLen = 0 }`),
  loop conditions and range bounds, and recorded facts (0 ≤ len, len ≤ cap, 0 ≤ runes(s) ≤ len(s), lower bounds of counters).
  Csvq/Gen/SizeFacts.lean carries, next to each obligation, what the uniform tactic `size_decide` (unfold the evaluator, `omega`)
  found: a kernel-checked proof for ALL integer valuations, or nothing.  The theorem:

      size_sites_nonneg : e ∈ Gen.Size.sizeEntries → e.site not exempt → ∀ ρ, holdsAll ρ e.site.conds → e.site.goal.holds ρ

  What is not provable from the facts of ONE function (non-linear arithmetic, parameters, invariants between data structures,
  results of string searches) is pinned in `exemptSizeSites`, each with its reason and its number of occurrences — so a NEW
  unguarded site, or a guard that is weakened until it no longer implies the operand's range (C19-m21: the sign taken out of the
  clamp of the zero padding), is a broken obligation; the driver (`c19.sizesearch`) then evaluates the same IR over small
  valuations to name a violating one, and vt/p_c19.py turns it into a call on the running code.
-/
import Csvq.Gen.SizeFacts
import Csvq.Lemmas.SizeFacts

namespace Csvq.C19
open Csvq.SizeFacts

/-- the reviewed obligations the uniform tactic does not prove -/
def exemptSizeSites : List SizeRef := [
  ⟨"lib/query/analytic_function.go", "perseCumulativeGroups", "groups[len(groups) - 1]", "low", 2, "I else-branch of `currentRank == nil || ...`: the first iteration takes the then-branch (currentRank starts nil) and appends a group (also pinned in C19Args)"⟩,
  ⟨"lib/query/built_in_command.go", "writeFieldList", "strings.Repeat(\" \", digits - len(idxstr))", "count", 1, "S digits = len(Itoa(l)) and idxstr = Itoa(i+1) with i+1 <= l: the decimal length is monotone"⟩,
  ⟨"lib/query/built_in_command.go", "ShowObjects", "w.WriteSpaces(10 - len(norStr))", "arg0", 1, "P norStr = FormatInt(number of rows of an open cursor, \",\"): at most 10 characters up to 99,999,999 rows; SHOW CURSORS over a cursor of 100 million rows or more would make the count negative (observation recorded in DESIGN 11.9: not reachable within the memory bound of the harness)"⟩,
  ⟨"lib/query/built_in_command.go", "ShowObjects", "w.WriteSpaces(27 - len(symbol))", "arg0", 1, "P symbol = \"@@\" + a name of option.FlagList: the longest, @@WRITE_DELIMITER_POSITIONS, has exactly 27 characters (driven: SHOW FLAGS in the report grid)"⟩,
  ⟨"lib/query/built_in_command.go", "ShowObjects", "w.WriteSpaces(nameWidth - len(name))", "arg0", 1, "C nameWidth is the maximum of len(name) over the same names, computed by the range loop above (a loop forgets that the variable only grows); driven: SHOW ENV under hostile environments"⟩,
  ⟨"lib/query/built_in_command.go", "ShowObjects", "w.WriteSpaces(19 - len(label))", "arg0", 1, "P label = \"@#\" + a name of RuntimeInformatinList: 19 characters at most (driven: SHOW RUNINFO)"⟩,
  ⟨"lib/query/built_in_command.go", "writeTableAttribute", "w.WriteSpaces(encWidth + 4 - option.TextWidth(info.Format.String(), flags))", "arg0", 1, "P Format.String() is one of CSV TSV FIXED JSON JSONL LTSV GFM ORG BOX TEXT: at most 5 columns, and encWidth >= 4 is the width of an encoding name (AUTO UTF8 UTF8M UTF16 … SJIS); driven: SHOW FIELDS x every format x encoding"⟩,
  ⟨"lib/query/built_in_command.go", "writeTableAttribute", "w.WriteSpaces(4 - (option.TextWidth(option.EscapeString(string(info.Delimiter)), flags)))", "arg0", 1, "P the delimiter is ONE rune: its escaped form is at most 2 columns wide (a two-character escape or a wide character); driven: SHOW FIELDS x delimiters of every width class"⟩,
  ⟨"lib/query/built_in_command.go", "writeTableAttribute", "w.WriteSpaces(encWidth + 2 - (option.TextWidth(info.Encoding.String(), flags)))", "arg0", 1, "P encWidth IS option.TextWidth(info.Encoding.String(), flags), computed at the top of the function: the same call twice gives two unknowns"⟩,
  ⟨"lib/query/built_in_command.go", "writeTableAttribute", "w.WriteSpaces(6 - (option.TextWidth(info.LineBreak.String(), flags)))", "arg0", 2, "P LineBreak.String() is one of LF CR CRLF: at most 4 columns"⟩,
  ⟨"lib/query/load_view.go", "joinViews", "NewUintPool(view.FieldLen() - len(includeFields), LimitToUseUintSlicePool)", "arg0", 1, "I includeFields are fields of the same view (each was looked up in view.Header above): a sub-set"⟩,
  ⟨"lib/query/reference_scope.go", "NewReferenceRecord", "NewFieldIndexCache(cacheLen, LimitToUseFieldIndexSliceChache)", "arg0", 1, "P parameter cacheLen handed on: every call of NewReferenceRecord is its own obligation (kind `call`; both pass view.FieldLen())"⟩,
  ⟨"lib/query/comparison.go", "matchTextTailOnce", "text[anyRunesMinLen:]", "low", 1, "I anyRunesMinLen counts underscores (parsePattern only increments it from 0); guarded by len(text) < anyRunesMinLen above"⟩,
  ⟨"lib/query/comparison.go", "matchTextTailOnce", "tailStr[:bidx]", "high", 1, "S bidx is a result of strings.Index(tailStr, ..) that is not negative: a byte offset inside tailStr"⟩,
  ⟨"lib/query/comparison.go", "matchTextTailOnce", "text[idx + 1 - anyRunesMinLen:]", "order", 1, "S idx = anyRunesMinLen + rune count of a prefix of the tail that is followed by a match of a non-empty word, so idx + 1 <= len(text) (C19-m10 is the seeded change of this site; driven by the like-multibyte grid)"⟩,
  ⟨"lib/query/comparison.go", "matchTextTailOnce", "text[:idx]", "order", 1, "S same idx: rune offset of a match inside text"⟩,
  ⟨"lib/query/comparison.go", "matchTextTailOnce", "text[:idx]", "high", 1, "S same idx: rune offset of a match inside text"⟩,
  ⟨"lib/query/comparison.go", "matchTextTailOnce", "text[len(anyRunes) + len(searchWord):]", "order", 1, "S anyRunes is the part of text in front of an occurrence of searchWord in text (HasSuffix / Index branches)"⟩,
  ⟨"lib/query/comparison.go", "matchCondition", "pattern[patternPos:]", "order", 1, "I patternPos is advanced by one per rune read from pattern in the loop `patternPos < len(pattern)`"⟩,
  ⟨"lib/query/encode.go", "encodeFixedLengthFormat", "fieldList[i + recordStartPos]", "high", 1, "C correlation of two variables assigned in the same branches: fieldList is one longer exactly when recordStartPos is 1 (a join keeps one disjunction per variable)"⟩,
  ⟨"lib/query/eval.go", "evaluateSequentialRoutine", "view.RecordSet[start:end]", "low", 1, "P start, end = RecordRange(thIdx, ..) of the task manager: 0 <= start <= end <= RecordLen (Csvq/Gen/LimitOffset-style arithmetic, C12's model of RecordRange)"⟩,
  ⟨"lib/query/eval.go", "evaluateSequentialRoutine", "view.RecordSet[start:end]", "order", 1, "P start, end = RecordRange(thIdx, ..) of the task manager: 0 <= start <= end <= RecordLen (Csvq/Gen/LimitOffset-style arithmetic, C12's model of RecordRange)"⟩,
  ⟨"lib/query/eval.go", "evaluateSequentialRoutine", "view.RecordSet[start:end]", "high", 1, "P start, end = RecordRange(thIdx, ..) of the task manager: 0 <= start <= end <= RecordLen (Csvq/Gen/LimitOffset-style arithmetic, C12's model of RecordRange)"⟩,
  ⟨"lib/query/function.go", "execStringsPadding", "strings.Repeat(padstr, repeat)", "count", 1, "N repeat = ceil(padLen / padstrLen) with padLen > 0 and padstrLen >= 1 (zero-width pad strings are refused above: C19-m9; driven by the mode grid)"⟩,
  ⟨"lib/query/function.go", "execStringsPadding", "[]rune(padding)[:padLen]", "high", 1, "N padding holds repeat * padstrLen >= padLen runes"⟩,
  ⟨"lib/query/header.go", "NewEmptyHeader", "make([]HeaderField, len, len + 2)", "len", 1, "P parameter `len`: every caller passes a len(..) / FieldLen()"⟩,
  ⟨"lib/query/join.go", "CrossJoin", "make(RecordSet, view.RecordLen() * joinView.RecordLen())", "len", 1, "N product of two lengths"⟩,
  ⟨"lib/query/join.go", "CrossJoin/func", "records[start + i]", "low", 1, "N start = index * len(joinView.RecordSet), index < len(view.RecordSet), len(records) is the product"⟩,
  ⟨"lib/query/join.go", "CrossJoin/func", "records[start + i]", "high", 1, "N start = index * len(joinView.RecordSet), index < len(view.RecordSet), len(records) is the product"⟩,
  ⟨"lib/query/join.go", "InnerJoin", "make([]RecordSet, gm.Number)", "len", 1, "P GoroutineTaskManager.Number is at least 1 (NewGoroutineTaskManager clamps it; C12's pipeline model)"⟩,
  ⟨"lib/query/join.go", "InnerJoin/func", "make(RecordSet, 0, end - start)", "cap", 1, "P start, end = gm.RecordRange(thIdx): start <= end"⟩,
  ⟨"lib/query/join.go", "OuterJoin", "make([]RecordSet, gm.Number + 1)", "len", 1, "P GoroutineTaskManager.Number >= 1"⟩,
  ⟨"lib/query/join.go", "OuterJoin", "make([][]bool, gm.Number)", "len", 1, "P GoroutineTaskManager.Number >= 1"⟩,
  ⟨"lib/query/join.go", "OuterJoin/func", "make(RecordSet, 0, end - start)", "cap", 1, "P start, end = gm.RecordRange(thIdx): start <= end"⟩,
  ⟨"lib/query/join.go", "OuterJoin/func", "record[k + leftViewFieldLen]", "high", 2, "I record comes from a sync.Pool whose New makes records of the joined field count (left + right); k ranges over the fields of one side"⟩,
  ⟨"lib/query/join.go", "OuterJoin", "record[k + viewFieldLen]", "high", 1, "I record = make(Record, fieldLen) with the joined field count; k ranges over the cells of a record of the joined view (rectangular records)"⟩,
  ⟨"lib/query/load_view.go", "joinViews", "make([]int, 0, view.FieldLen() - excludeIndices.Len())", "cap", 1, "I excludeIndices holds indices of fields of the same view (a sub-set: UintPool of positions found in view.Header)"⟩,
  ⟨"lib/query/load_view.go", "joinViews", "make(Header, 0, view.FieldLen() - excludeIndices.Len())", "cap", 1, "I excludeIndices holds indices of fields of the same view (a sub-set: UintPool of positions found in view.Header)"⟩,
  ⟨"lib/query/load_view.go", "loadViewFromCSVFile", "make([]string, reader.FieldsPerRecord)", "len", 1, "P csv.Reader.FieldsPerRecord (go-text): the field count of the first record, >= 0"⟩,
  ⟨"lib/query/load_view.go", "loadViewFromCSVFile", "make([]Cell, reader.FieldsPerRecord - len(records[i]))", "len", 1, "I inside `len(records[i]) < reader.FieldsPerRecord` (the element read twice is not given one name once elements of records are assigned); C02's csv loader model proves the padding (csv_loader_total)"⟩,
  ⟨"lib/query/load_view.go", "readRecordSet/func", "make(RecordSet, fileLoadingPreparedRecordSetCap, l)", "cap", 1, "N l = int(fileSize/pos * cap * 1.2) under pos < fileSize: a float ratio above 1 (C19-m2 is the seeded change of the guard; driven by the record-count grid)"⟩,
  ⟨"lib/query/load_view.go", "jsonLineBreakDetector.Read", "p[:n]", "order", 1, "P n is the count returned by io.Reader.Read(p): 0 <= n <= len(p) by the interface's contract"⟩,
  ⟨"lib/query/load_view.go", "jsonLineBreakDetector.Read", "p[:n]", "high", 1, "P n is the count returned by io.Reader.Read(p): 0 <= n <= len(p) by the interface's contract"⟩,
  ⟨"lib/query/load_view.go", "loadViewFromJsonLinesFile/func", "make([]txjson.Object, fileLoadingPreparedRecordSetCap, l)", "cap", 1, "N same float ratio as readRecordSet"⟩,
  ⟨"lib/query/query.go", "Delete", "make(RecordSet, 0, v.RecordLen() - len(deletedIndices[k]))", "cap", 1, "I deletedIndices[k] holds distinct record indices of view k"⟩,
  ⟨"lib/query/query.go", "AddColumns", "header[i + insertPos]", "low", 1, "I insertPos is a field position of the view (0 .. FieldLen) chosen above; header = make(Header, fieldLen + addLen)"⟩,
  ⟨"lib/query/query.go", "AddColumns", "header[i + insertPos]", "high", 1, "I insertPos is a field position of the view (0 .. FieldLen) chosen above; header = make(Header, fieldLen + addLen)"⟩,
  ⟨"lib/query/query.go", "AddColumns/func", "record[i + insertPos]", "low", 1, "I same insertPos; record = make(Record, newFieldLen) (literal: facts about variables assigned more than once are dropped)"⟩,
  ⟨"lib/query/query.go", "AddColumns/func", "record[i + insertPos]", "high", 1, "I same insertPos; record = make(Record, newFieldLen) (literal: facts about variables assigned more than once are dropped)"⟩,
  ⟨"lib/query/record.go", "NewEmptyRecord", "make(Record, len, len + 2)", "len", 1, "P parameter `len`: every caller passes a len(..) / FieldLen()"⟩,
  ⟨"lib/query/record.go", "Record.Merge", "record[i + leftLen]", "high", 1, "P parameter `record` is nil (then made with len(r)+len(r2)) or a record of that length handed in by the join loops"⟩,
  ⟨"lib/query/reference_scope.go", "NewFieldIndexCache", "make([]parser.QueryExpression, 0, initCap)", "cap", 1, "P parameter initCap: callers pass the constants 10 / len(..)"⟩,
  ⟨"lib/query/reference_scope.go", "NewFieldIndexCache", "make([]int, 0, initCap)", "cap", 1, "P parameter initCap: callers pass the constants 10 / len(..)"⟩,
  ⟨"lib/query/reference_scope.go", "ReferenceScope.Global", "rs.Blocks[len(rs.Blocks) - 1]", "low", 1, "I a scope always has its global block (class A of C19Args.pinnedConstIndexSites)"⟩,
  ⟨"lib/query/string_formatter.go", "StringFormatter.runes", "f.format[(f.formatPos - f.offset):f.formatPos]", "low", 1, "I scanner invariant of StringFormatter: offset counts the runes consumed since the token started, offset <= formatPos <= len(format) (next() advances both)"⟩,
  ⟨"lib/query/string_formatter.go", "StringFormatter.runes", "f.format[(f.formatPos - f.offset):f.formatPos]", "order", 1, "I scanner invariant of StringFormatter: offset counts the runes consumed since the token started, offset <= formatPos <= len(format) (next() advances both)"⟩,
  ⟨"lib/query/string_formatter.go", "StringFormatter.runes", "f.format[(f.formatPos - f.offset):f.formatPos]", "high", 1, "I scanner invariant of StringFormatter: offset counts the runes consumed since the token started, offset <= formatPos <= len(format) (next() advances both)"⟩,
  ⟨"lib/query/utils.go", "NewUintPool", "make([]uint, 0, initCap)", "cap", 1, "P parameter initCap: callers pass len(..), a count, or FieldLen() - len(includeFields) after the fields were looked up in that view"⟩,
  ⟨"lib/query/view.go", "NewViewFromGroupedRecord", "make(RecordSet, record.GroupLen())", "len", 1, "P Record.GroupLen() = len(r[0]) (through a method that is not a plain length accessor)"⟩,
  ⟨"lib/query/view.go", "NewViewFromGroupedRecord/func", "record[j][grpIdx:grpIdx + 1]", "low", 1, "I grpIdx < record.GroupLen() is the task index; all cells of a grouped record hold GroupLen values"⟩,
  ⟨"lib/query/view.go", "NewViewFromGroupedRecord/func", "record[j][grpIdx:grpIdx + 1]", "high", 1, "I grpIdx < record.GroupLen() is the task index; all cells of a grouped record hold GroupLen values"⟩,
  ⟨"lib/query/view.go", "View.filter", "view.RecordSet[:newIdx]", "high", 1, "I newIdx counts the records kept out of len(view.RecordSet) (incremented at most once per record)"⟩,
  ⟨"lib/query/view.go", "View.group", "make([]map[string][]int, gm.Number)", "len", 1, "P GoroutineTaskManager.Number >= 1"⟩,
  ⟨"lib/query/view.go", "View.group/func", "make(Cell, groupKeyCnt[groupKeys[gIdx]])", "len", 1, "I a count read from a map of counters (only ever incremented)"⟩,
  ⟨"lib/query/view.go", "View.group/func", "primaries[pos + k]", "high", 1, "I primaries = make(.., groupKeyCnt[key]); pos and k enumerate exactly the records counted for the key"⟩,
  ⟨"lib/query/view.go", "View.ExtendRecordCapacity/func", "make(Record, view.FieldLen(), fieldCap)", "cap", 1, "I fieldCap = FieldLen + number of new fields, computed in the enclosing function (literal)"⟩,
  ⟨"lib/query/view.go", "View.Limit", "view.sortValuesInEachRecord[view.offset + limit - 1]", "low", 1, "I the sort values are index-aligned with the records of the view BEFORE Offset re-sliced the record set: len(sortValues) = offset + RecordLen, and limit < RecordLen here (C19-m22 is the seeded change of this alignment; driven by the LIMIT / OFFSET grid)"⟩,
  ⟨"lib/query/view.go", "View.Limit", "view.sortValuesInEachRecord[view.offset + limit - 1]", "high", 1, "I the sort values are index-aligned with the records of the view BEFORE Offset re-sliced the record set: len(sortValues) = offset + RecordLen, and limit < RecordLen here (C19-m22 is the seeded change of this alignment; driven by the LIMIT / OFFSET grid)"⟩,
  ⟨"lib/query/view.go", "View.Limit", "view.sortValuesInEachRecord[view.offset + limit]", "low", 1, "I the sort values are index-aligned with the records of the view BEFORE Offset re-sliced the record set: len(sortValues) = offset + RecordLen, and limit < RecordLen here (C19-m22 is the seeded change of this alignment; driven by the LIMIT / OFFSET grid)"⟩,
  ⟨"lib/query/view.go", "View.Limit", "view.sortValuesInEachRecord[view.offset + limit]", "high", 1, "I the sort values are index-aligned with the records of the view BEFORE Offset re-sliced the record set: len(sortValues) = offset + RecordLen, and limit < RecordLen here (C19-m22 is the seeded change of this alignment; driven by the LIMIT / OFFSET grid)"⟩,
  ⟨"lib/query/view.go", "View.Limit", "view.RecordSet[:limit]", "order", 1, "I limit is clamped to [0, RecordLen] above (limit_in_bounds over Csvq/Gen/LimitOffset, C07)"⟩,
  ⟨"lib/query/view.go", "View.Limit", "view.RecordSet[:limit]", "high", 1, "I limit is clamped to [0, RecordLen] above (limit_in_bounds over Csvq/Gen/LimitOffset, C07)"⟩,
  ⟨"lib/query/view.go", "View.replace", "make([]int, 0, len(fieldIndices) - len(keyIndicesMap))", "cap", 1, "I keyIndicesMap holds a sub-set of fieldIndices"⟩,
  ⟨"lib/query/view.go", "View.Fix/func", "view.RecordSet[index][:fieldLen]", "high", 1, "I every record of a view has at least as many cells as the selected fields (rectangular; Fix keeps the first fieldLen)"⟩,
  ⟨"lib/query/view_map.go", "ViewMap.GetWithInternalId/func", "record[i + 1]", "high", 1, "I record = make(Record, len(ret.RecordSet[index])+1) and i < len(ret.RecordSet[index]): the element read twice gets no name because elements of ret.RecordSet are assigned in the function"⟩]

/-- the obligations without a proof -/
def unprovedSizeSites : List SizeSite := (Gen.Size.sizeEntries.filter (fun e => !e.proof.isYes)).map (·.site)

set_option maxRecDepth 100000 in
/-- **size_sites_ok.**  Every regenerated size obligation carries a proof, except the reviewed ones. -/
theorem size_sites_ok :
    Gen.Size.sizeEntries.all (fun e => e.proof.isYes || exemptSizeSites.any (fun r => r.is e.site)) = true := by
  decide +kernel

set_option maxRecDepth 100000 in
/-- … and of every reviewed obligation no more occurrences are without a proof than were reviewed (a second, unguarded copy
    of a reviewed expression in the same function is a broken obligation) -/
theorem exempt_size_counts :
    exemptSizeSites.all (fun r => decide (unprovedSizeSites.countP (r.is ·) ≤ r.count)) = true := by
  decide +kernel

/-- **size_sites_nonneg.**  For every size obligation that is not exempt: for ALL integer valuations of its variables that
    satisfy the facts dominating the site, the count / length is not negative, the bounds are ordered and inside the sequence —
    Go's run-time check cannot fail there. -/
theorem size_sites_nonneg (e : SizeEntry) (he : e ∈ Gen.Size.sizeEntries)
    (hk : ∀ r ∈ exemptSizeSites, r.is e.site = false) (ρ : Nat → Int) (hconds : holdsAll ρ e.site.conds) :
    e.site.goal.holds ρ := by
  have h := List.all_eq_true.mp size_sites_ok e he
  rw [Bool.or_eq_true] at h
  cases h with
  | inl hyes =>
    match e, hyes with
    | ⟨_, .yes hp⟩, _ => exact hp ρ hconds
  | inr hex =>
    rw [List.any_eq_true] at hex
    obtain ⟨r, hr, hrk⟩ := hex
    rw [hk r hr] at hrk
    exact absurd hrk (by decide)

set_option maxRecDepth 100000 in
/-- the exemptions are all used: every entry names an obligation that exists and has no proof (no stale entry hides a site) -/
theorem exempt_size_sites_exist :
    exemptSizeSites.all (fun r => unprovedSizeSites.any (r.is ·)) = true := by
  decide +kernel

set_option maxRecDepth 100000 in
/-- the formatter's padding (lib/query/string_formatter.go, FORMAT / PRINTF) is inside the proved part: all five
    strings.Repeat counts of StringFormatter.Format are found and none of them is exempt -/
theorem format_repeat_counts_proved :
    (Gen.Size.sizeEntries.filter (fun e => e.site.fn == "StringFormatter.Format" && e.site.kind == "repeat")).length = 5 ∧
    Gen.Size.sizeEntries.all (fun e => !(e.site.fn == "StringFormatter.Format" && e.site.kind == "repeat") || e.proof.isYes) = true := by
  decide +kernel

/-- whatever valuation the driver's search reports violates the obligation it was run on (Csvq/Lemmas/SizeFacts.lean) -/
theorem size_search_sound (s : SizeSite) (l : List Int) (h : s.counterexample = some l) : ¬ s.safe :=
  s.counterexample_sound l h

/-! ## non-vacuity: the zero padding of `%0<width>f` -/

/-- the guard as it stands: padLen₀ = width − len(s) − len(sign), clamped at 0 (variables: 0 width, 1 len s, 2 len sign, 3 padLen₀,
    4 the clamp's 0, 5 padLen) -/
def zeroPadGuarded : SizeSite := ⟨"", "", "repeat", "strings.Repeat(\"0\", padLen)", "count", 6,
  [.lt (.c (-1)) (.v 0), .le (.c 0) (.v 1), .le (.c 0) (.v 2), .eq (.v 3) (.sub (.sub (.v 0) (.v 1)) (.v 2)),
   .or (.and (.lt (.v 3) (.c 0)) (.and (.eq (.v 4) (.c 0)) (.eq (.v 5) (.v 4)))) (.and (.le (.c 0) (.v 3)) (.eq (.v 5) (.v 3)))],
  .le (.c 0) (.v 5)⟩

/-- the sign taken out of the clamp (the shape of C19-m21): padLen₀ = width − len(s), count = padLen − len(sign) -/
def zeroPadWeakened : SizeSite := ⟨"", "", "repeat", "strings.Repeat(\"0\", padLen - len(sign))", "count", 6,
  [.lt (.c (-1)) (.v 0), .le (.c 0) (.v 1), .le (.c 0) (.v 2), .eq (.v 3) (.sub (.v 0) (.v 1)),
   .or (.and (.lt (.v 3) (.c 0)) (.and (.eq (.v 4) (.c 0)) (.eq (.v 5) (.v 4)))) (.and (.le (.c 0) (.v 3)) (.eq (.v 5) (.v 3)))],
  .le (.c 0) (.sub (.v 5) (.v 2))⟩

example : (by size_decide zeroPadGuarded : Proved zeroPadGuarded.safe).isYes = true := rfl
example : (by size_decide zeroPadWeakened : Proved zeroPadWeakened.safe).isYes = false := rfl
/-- width 0, one digit, a sign: the count is −1 -/
example : zeroPadWeakened.violatedBy [0, 1, 1, -1, 0, 0] = true := by decide
example : ¬ zeroPadWeakened.safe := zeroPadWeakened.violatedBy_sound [0, 1, 1, -1, 0, 0] (by decide)
example : zeroPadGuarded.counterexample = none → True := fun _ => trivial
/-- an unguarded count and an unguarded index are not proved; a guarded one is -/
def bareCount : SizeSite := ⟨"", "", "repeat", "strings.Repeat(s, n)", "count", 1, [], .le (.c 0) (.v 0)⟩
def guardedCount : SizeSite := ⟨"", "", "repeat", "strings.Repeat(s, n)", "count", 1, [.lt (.c (-1)) (.v 0)], .le (.c 0) (.v 0)⟩
example : (by size_decide bareCount : Proved bareCount.safe).isYes = false := rfl
example : (by size_decide guardedCount : Proved guardedCount.safe).isYes = true := rfl
example : ¬ bareCount.safe := bareCount.violatedBy_sound [-1] (by decide)
/-- the theorem is about a non-empty set: there are proved obligations, and size_sites_nonneg applies to them -/
example : (Gen.Size.sizeEntries.filter (·.proof.isYes)).length ≥ 200 := by decide +kernel

end Csvq.C19
