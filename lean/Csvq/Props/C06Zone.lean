/-
  C06 — the datetime rung of the coercion ladder for TEXTS, computed by the model: value.StrToTime with the
  session's time zone and user formats (Model/ParseTimeFull.lean), the coercion profile of a text under a session
  (Model/ZoneProfile.lean).  Property theorems only; lemmas in Lemmas/ZoneTime.lean.

  What is regenerated from lib/value/conv.go on every run (extract/dtfacts → Gen/StrToTimeFacts.lean): the guard
  and the whole dispatch tree of StrToTime — conditions, layout strings, and for every branch whether it calls
  time.ParseInLocation(layout, s, location) or time.Parse(layout, s) —, the loop over the user formats, how
  ConvertDatetimeFormat walks the pattern and its verb table.
-/
import Csvq.Gen.StrToTimeFacts
import Csvq.Lemmas.ZoneTime
import Csvq.Lemmas.Utf8
import Csvq.Props.C06Time
namespace Csvq.C06
open Csvq

/-! ## the code is the model's tree -/

/-- **THE TIE**: StrToTime trims, tries the user formats with time.ParseInLocation, tests the guard and then walks
    exactly the tree `TP.dispatch` that the model executes — same conditions, same layout strings in the same
    order, same parse function at every branch -/
theorem gen_strtotime_branches_eq_model :
    Gen.DT.trimFirst = true ∧ Gen.DT.userLoop = TP.ParseFn.inLocation ∧ Gen.DT.guard = TP.guard
      ∧ Gen.DT.dispatch = TP.dispatch := by decide +kernel

/-- every branch of the code whose layout names no zone reads the text in the SESSION's location (a branch that
    called time.Parse there — with or without a later t.In(location) — would read it in UTC), and so does the loop
    over the user formats -/
theorem gen_every_zoneless_branch_parses_in_location :
    Gen.DT.userLoop = TP.ParseFn.inLocation ∧ TP.zonelessInLocation Gen.DT.dispatch = true := by decide +kernel

/-- ConvertDatetimeFormat walks the pattern rune by rune and writes every rune that is no verb with WriteRune -/
theorem gen_format_conversion_iterates_runes :
    Gen.DT.convertLoop = "rune" ∧ Gen.DT.convertLiteralWrite = "buf.WriteRune(r)"
      ∧ Gen.DT.convertDefaultWrite = "buf.WriteRune(r)" := by decide

/-- the verb table of the code is the model's: every verb writes the layout text `FT.verbLayout` gives it, there
    are 25 of them, and the model knows no other verb -/
theorem gen_verb_table_eq_model :
    (∀ p ∈ Gen.DT.verbTable, FT.verbLayout p.1 = some p.2) ∧ Gen.DT.verbTable.length = 25
      ∧ (∀ c, (FT.verbLayout c).isSome = true → c ∈ Gen.DT.verbTable.map Prod.fst) := by
  refine ⟨by decide, by decide, ?_⟩
  intro c h
  unfold FT.verbLayout at h
  split at h <;> first | (simp [Gen.DT.verbTable]; done) | (simp at h)

/-! ## ConvertDatetimeFormat on arbitrary Unicode patterns -/

/-- **for every pattern, every rune that is no verb appears unchanged in the layout**, in the order of the pattern —
    all Unicode strings (lists of runes), `%%` and unknown verbs included -/
theorem convert_format_keeps_literals (p : List Nat) :
    (TP.literalsOf false p).Sublist (FT.convertFormat false p) :=
  TP.literals_sublist p false

/-- … and so do their UTF-8 bytes in the layout string handed to time.ParseInLocation, for every byte string given
    as a pattern (invalid bytes are U+FFFD on both sides) -/
theorem user_layout_keeps_literal_bytes (f : Bytes) :
    (Uni.encodeRunes (TP.literalsOf false (Uni.decodeRunes f))).Sublist (TP.userLayout f) :=
  TP.encodeRunes_sublist (TP.literals_sublist _ false)

/-- a pattern without '%' is its own layout, byte for byte, whenever it is valid UTF-8 -/
theorem user_layout_of_plain_text (l : List Nat) (h : ∀ c ∈ l, c ≠ 37) (hv : ∀ r ∈ l, Uni.ValidScalar r) :
    TP.userLayout (Uni.encodeRunes l) = Uni.encodeRunes l := by
  unfold TP.userLayout
  rw [Uni.decodeRunes_encodeRunes_valid l hv, convert_format_literal_unchanged l h]

/-! ## a text without a zone is a wall clock of the session's zone -/

/-- **the instant a zone-less text denotes under zone z is its civil reading minus z's offset** — whatever the
    layout (built-in or user), date-only layouts included: time.ParseInLocation with a layout that has no zone item
    reads the same fields under every zone and places them in that zone -/
theorem zoneless_text_is_local_midnight_or_time (zone : TP.ZoneEnv) (L : TP.Layout) (hL : TP.hasZoneItem L = false)
    (s : Bytes) :
    TP.parseWith (some zone) L s
      = (TP.parseWith (some TP.utcZone) L s).map (fun civil => civil - zone.off * 1000000000) := by
  unfold TP.parseWith
  cases hr : TP.runLayout L s {} {} with
  | none => rfl
  | some r =>
    obtain ⟨c, z⟩ := r
    have hz : z = {} := TP.runLayout_zone_unchanged L hL _ _ _ _ hr
    subst hz
    dsimp only
    cases c.resolve with
    | none => rfl
    | some secs => simp only [Option.map, TP.instantOf_zoneless secs c.nsec zone]

/-- for the branches of StrToTime: a branch that parses in the location with a zone-less layout returns, under zone
    z, what it returns under UTC moved by z's offset -/
theorem zoneless_branch_shifts_with_zone (zone : TP.ZoneEnv) (layout s : Bytes)
    (h : TP.hasZoneItem (TP.layoutOf layout) = false) :
    TP.callFn .inLocation zone layout s
      = (TP.callFn .inLocation TP.utcZone layout s).map (fun civil => civil - zone.off * 1000000000) :=
  zoneless_text_is_local_midnight_or_time zone _ h s

/-- whereas a branch that calls time.Parse does not see the zone at all (what the seeded change C06-m24 does to
    the date-only texts) -/
theorem parse_branch_ignores_zone (zone zone' : TP.ZoneEnv) (layout s : Bytes) :
    TP.callFn .parse zone layout s = TP.callFn .parse zone' layout s
      ∧ TP.callFn .parseThenIn zone layout s = TP.callFn .parse zone' layout s := ⟨rfl, rfl⟩

/-! ## a date written alone is the midnight that begins it -/

/-- **'YYYY-MM-DD' = 'YYYY-MM-DD 00:00:00' under every zone**: whatever StrToTime reads a ten-byte text with '-' at
    position 4 as (every such text, not only valid dates: if it reads at all), it reads the same text followed by
    " 00:00:00" as the same instant — the zone is a parameter of the statement -/
theorem date_only_eq_midnight (zone : TP.ZoneEnv) (d : Bytes) (hlen : d.length = 10) (h4 : d.getD 4 0 = 45) (t : Int)
    (h : TP.strToTimeTrimmed zone d = some t) : TP.strToTimeTrimmed zone (d ++ TP.asc " 00:00:00") = some t :=
  TP.date_only_eq_midnight_dash zone d hlen h4 t h

/-- a date alone has the clock 00:00:00 (the fields time.parse leaves at their defaults) -/
theorem date_only_clock_is_midnight (a0 a1 a2 a3 a5 a6 a7 a8 a9 : Nat) (c : TP.Civil) (z : TP.ZAcc)
    (h : TP.runLayout (TP.layoutOf (TP.asc "2006-01-02")) [a0, a1, a2, a3, 45, a5, a6, a7, a8, a9] {} {} = some (c, z)) :
    c.hour = 0 ∧ c.min = 0 ∧ c.sec = 0 := by
  rw [TP.layout_date] at h
  exact TP.date_only_clock _ _ _ _ _ _ _ _ _ c z h

/-! ## non-vacuity -/

private def b (s : String) : Bytes := s.toUTF8.toList.map (·.toNat)
private def jst : TP.ZoneEnv := { off := 32400, abbr := TP.asc "JST" }
private def est : TP.ZoneEnv := { off := -18000, abbr := TP.asc "-05" }
private def ist : TP.ZoneEnv := { off := 19800, abbr := TP.asc "IST" }

-- the tree has the 24 branches of the code, 9 of them zone-less; the date-only ones are among them
example : TP.dispatch.leaves.length = 24 ∧ (TP.dispatch.leaves.filter fun p => !TP.hasZoneItem (TP.layoutOf p.2)).length = 9 := by
  decide +kernel
-- what the seeded change C06-m24 does to the tree is refused by the second conjunct
example : TP.zonelessInLocation (.try .parseThenIn (TP.asc "2006-1-2") .fail) = false := by decide +kernel
example : TP.zonelessInLocation (.try .parse (TP.asc "2006-01-02 15:04:05 Z07:00") .fail) = true := by decide +kernel
-- 2020-01-01 under +09:00 is 2019-12-31T15:00:00Z, and equals '2020-01-01 00:00:00' there, under -05:00 and +05:30
example : TP.strToTime jst [] (b "2020-01-01") = some 1577804400000000000 := by decide +kernel
example : TP.strToTime jst [] (b "2020-01-01 00:00:00") = some 1577804400000000000 := by decide +kernel
example : TP.strToTime est [] (b "2020-01-01") = TP.strToTime est [] (b "2020-01-01 00:00:00")
    ∧ TP.strToTime est [] (b "2020-01-01") = some 1577854800000000000 := by decide +kernel
example : TP.strToTime ist [] (b " 2020/1/1 ") = TP.strToTime ist [] (b "2020-01-01T00:00:00+05:30")
    ∧ TP.strToTime ist [] (b "2020/1/1") = some 1577817000000000000 := by decide +kernel
-- a text with an offset or Z does not move with the session zone
example : TP.strToTime jst [] (b "2020-01-01T00:00:00Z") = TP.strToTime TP.utcZone [] (b "2020-01-01T00:00:00Z") := by decide +kernel
-- the hypotheses of date_only_eq_midnight are met
example : TP.strToTimeTrimmed jst (b "2020-01-01") = some 1577804400000000000 ∧ (b "2020-01-01").length = 10
    ∧ (b "2020-01-01").getD 4 0 = 45 := by decide +kernel
-- user formats with non-ASCII literals: the layout keeps 年 月 日, unpadded months order as dates
example : TP.userLayout (b "%Y年%c月%e日") = b "2006年1月2日" := by decide +kernel
example : TP.literalsOf false (Uni.decodeRunes (b "%Y年%c月%e日%%")) = [24180, 26376, 26085, 37] := by decide +kernel
example : TP.strToTime jst [b "%Y年%c月%e日"] (b "2020年10月1日") = some 1601478000000000000
    ∧ TP.strToTime jst [b "%Y年%c月%e日"] (b "2020年9月1日") = some 1598886000000000000 := by decide +kernel
-- the rung is decided by the model's reading: '2020年10月1日' > '2020年9月1日' is TRUE, as texts it would be FALSE
example : opGt (profileZ { zone := jst, fmts := [b "%Y年%c月%e日"] } (.str (b "2020年10月1日")))
    (profileZ { zone := jst, fmts := [b "%Y年%c月%e日"] } (.str (b "2020年9月1日"))) = .T := by decide +kernel
example : opGt (profileZ { zone := jst, fmts := [] } (.str (b "2020年10月1日")))
    (profileZ { zone := jst, fmts := [] } (.str (b "2020年9月1日"))) = .F := by decide +kernel
-- '2020-01-01' = '2020-01-01 00:00:00' is TRUE under +09:00 on the ladder
example : opEq (profileZ { zone := jst } (.str (b "2020-01-01"))) (profileZ { zone := jst } (.str (b "2020-01-01 00:00:00"))) = .T := by
  decide +kernel
-- several formats are tried in order, the first that fits wins; %p, %W, %M, fixed fractions
example : TP.strToTime TP.utcZone [b "%c/%e/%Y", b "%e/%c/%Y"] (b "1/2/2020") = some 1577923200000000000
    ∧ TP.strToTime TP.utcZone [b "%e/%c/%Y", b "%c/%e/%Y"] (b "1/2/2020") = some 1580515200000000000 := by decide +kernel
example : TP.strToTime est [b "%W, %M %e, %Y %l:%i:%s %p"] (b "Friday, February 3, 2012 4:05:06 PM") = some 1328303106000000000 := by
  decide +kernel
-- a literal of the pattern that spells a reference item IS an item: 'at 15h' reads the hour
example : TP.strToTime TP.utcZone [b "%Y年 at 15h"] (b "2020年 at 07h") = some 1577862000000000000 := by decide +kernel

end Csvq.C06
