/-
  Csvq.Props.C01Collide — property C01, "files created since then do not exist", for a CREATE TABLE that is REFUSED because
  its path key (the upper-cased cleaned absolute path) is the key of a table the transaction already holds: `T.csv` while
  `t.csv` is held for update.  The placeholder file and the lock file of the new name exist at that moment (the handler
  for create was built before the registration was tried), so what the failed registration releases decides whether the
  run leaves files behind — and whether the table that WAS held stays held.
    * over the container machine of Model/Container.lean (C11's model of lib/file/container.go):
      `failed_registration_changes_nothing`, `failed_registration_keeps_holder`;
    * `close_by_key_on_failed_registration_counterexample`: releasing "the handler of that key" instead closes the OTHER
      handler and leaves the new one open and unregistered — out of reach of the final CloseAllWithErrors;
    * tie to the source (extract/procfacts/endfacts.go → Gen.createHandlerFailedAddCalls, Gen.closeIsolatedCalls):
      `gen_failed_registration_closes_new_handler`.
  Dynamic side: harness/cmd/c01/collide.go (law failed_create_left_files_or_dropped_locks).
-/
import Csvq.Model.Container
import Csvq.Gen.ProcFacts
import Csvq.Ref.ProcFacts
namespace Csvq.C01
open Csvq.Container

/-- a registration refused because the key is taken changes nothing: the map, and which handlers hold files -/
theorem failed_registration_changes_nothing (s : St) (key h h0 : Nat) (hk : lookup s key = some h0) :
    step s (.create key h true) = s := by
  simp [step, hk]

/-- … so the handler that holds the key is still registered and still holds its files (the table stays locked), the new
    handler holds nothing (its placeholder file and lock file are gone), and every live handler is still within reach of
    the final clean-up -/
theorem failed_registration_keeps_holder (s : St) (key h h0 : Nat) (hk : lookup s key = some h0)
    (hl : h0 ∈ s.live) (hn : h ∉ s.live) (hi : Inv s) :
    let s' := step s (.create key h true)
    lookup s' key = some h0 ∧ h0 ∈ s'.live ∧ h ∉ s'.live ∧ Inv s' := by
  simp only [failed_registration_changes_nothing s key h h0 hk]
  exact ⟨hk, hl, hn, hi⟩

/-- the refused registration releasing "the handler of that key" (what Container.CloseWithErrors does: it finds the
    handler to close BY KEY): the holder is closed and unregistered, the new handler stays open -/
def createClosingByKey (s : St) (key h : Nat) : St :=
  match lookup s key with
  | some h0 => { reg := s.reg.filter (·.1 ≠ key), live := s.live.filter (· ≠ h0) ++ [h] }
  | none => { reg := s.reg ++ [(key, h)], live := s.live ++ [h] }

/-- **Counter-model**: t.csv (key 7, handler 1) is held; CREATE TABLE T.csv builds handler 2 for the same key.  Releasing by
    key drops handler 1 (the update lock of t.csv is gone while the transaction still believes it holds it) and leaves
    handler 2 holding T.csv and its lock file, registered nowhere: the invariant that lets the final CloseAllWithErrors
    reach every open handler is broken, and after that clean-up handler 2 still holds its files. -/
theorem close_by_key_on_failed_registration_counterexample :
    let s := run init [.create 7 1 true]
    let s' := createClosingByKey s 7 2
    s = { reg := [(7, 1)], live := [1] } ∧ s' = { reg := [], live := [2] } ∧ ¬ Inv s' ∧
    (step s' .closeAllWE).live = [2] ∧
    step s (.create 7 2 true) = s ∧ (step (step s (.create 7 2 true)) .closeAllWE).live = [] := by
  refine ⟨by decide, by decide, ?_, by decide, by decide, by decide⟩
  intro h
  obtain ⟨k, hk⟩ := h 2 (by decide)
  have : (createClosingByKey (run init [.create 7 1 true]) 7 2).reg = [] := by decide
  rw [this] at hk
  exact absurd hk (by simp)

/-- **The source**: in Container.createHandler the branch behind a refused `c.Add(h.path, h)` calls exactly
    `closeIsolatedHandler(h, err)` on the NEW handler `h` — the variable the handler just built was assigned to, the one
    whose registration was tried — and closeIsolatedHandler closes its own parameter (`h.closeWithErrors()`); no method
    of the container (which could only find a handler by key) is called there. -/
theorem gen_failed_registration_closes_new_handler :
    Gen.createHandlerFailedAddCalls = Ref.createHandlerFailedAddCalls ∧
    Gen.createHandlerFailedAddCalls = [("closeIsolatedHandler", Gen.createHandlerNewVar ++ ", err")] ∧
    Gen.createHandlerAddArgs = [Gen.createHandlerNewVar ++ ".path", Gen.createHandlerNewVar] ∧
    (∀ c ∈ Gen.createHandlerFailedAddCalls,
      c.1 ∉ ["c.Close", "c.CloseWithErrors", "c.Commit", "c.Remove", "c.CloseAll", "c.CloseAllWithErrors", "c.Add"]) ∧
    Gen.closeIsolatedParams = ["h", "err"] ∧
    Gen.closeIsolatedCalls = Ref.closeIsolatedCalls ∧
    ("h.closeWithErrors", "") ∈ Gen.closeIsolatedCalls := by decide

/-! non-vacuity of `failed_registration_keeps_holder`: the collision of the counter-model under the code's own step -/
example :
    let s := run init [.create 7 1 true]
    lookup (step s (.create 7 2 true)) 7 = some 1 ∧ 1 ∈ (step s (.create 7 2 true)).live ∧ 2 ∉ (step s (.create 7 2 true)).live :=
  let s := run init [.create 7 1 true]
  have h := failed_registration_keeps_holder s 7 2 1 (by decide) (by decide) (by decide)
    (by intro h hh; have : h = 1 := by simpa [s, run, init, step, lookup] using hh
        subst this; exact ⟨7, by decide⟩)
  ⟨h.1, h.2.1, h.2.2.1⟩

end Csvq.C01
