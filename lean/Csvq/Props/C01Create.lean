/-
  Csvq.Props.C01Create — property C01, the clause "every table it CREATED … holds on disk exactly the state the
  procedure last saw", over definitions REGENERATED from the source on every run (Gen/CreateFacts.lean,
  extract/createfacts): the extension → format decision of NewFileInfoForCreate (create side) and of SearchFilePath
  (load side) with their letter-case folding, the condition under which each encoding loop of Transaction.Commit
  appends the ending line break, the fields every ALTER TABLE … SET setter assigns.
  What a fresh process reads is decided by the LOAD side from the file's name; what the commit wrote was decided by the
  CREATE side (and the ALTERs): the theorems say the two meet.  Property theorems only.
-/
import Csvq.Gen.CreateFacts
import Csvq.Lemmas.CreateTable
import Csvq.Props.C01
namespace Csvq.C01
open Csvq.Session Csvq.CreateTable

/-! ## the regenerated decisions are the documented ones -/

theorem gen_create_decision_eq_doc : Gen.createDecision = docCreate ∧ Gen.createDefault = docCreateDefault := by decide
theorem gen_load_decision_eq_doc : Gen.loadDecision = docLoad := by decide
/-- the value decided from the extension (and the path it was decided from) is what the new FileInfo carries -/
theorem gen_create_decision_reaches_file_info : Gen.createDecisionReachesFileInfo = true := rfl
theorem gen_create_effects_eq_ref : Gen.createEffects =
    ["option.TsvExt: delimiter = '\\t'", "option.JsonExt: encoding = text.UTF8", "option.JsonlExt: encoding = text.UTF8"] := rfl
/-- both sides fold the extension to lower case before they decide -/
theorem gen_both_sides_fold_case : Gen.createDecision.folds = true ∧ Gen.loadDecision.folds = true := ⟨rfl, rfl⟩

/-! ## create side and load side agree -/

/-- **For EVERY extension text, in every letter-case spelling** (all character lists; ASCII lower-casing as the code's
    strings.ToLower): the format NewFileInfoForCreate gives a new file is the format SearchFilePath assumes when the
    file is loaded again by its name — whenever that format can be loaded at all (`gen_export_only_extensions` lists
    the exceptions), with the default import format. -/
theorem gen_create_and_load_agree_on_format (e : Ext)
    (hi : (Gen.createDecision.format Gen.createDefault e).importable = true) :
    Gen.loadDecision.format Gen.createDefault e = Gen.createDecision.format Gen.createDefault e :=
  agree_sound_default _ _ _ (by decide) e hi

/-- the same for the extension of any file path given as a String -/
theorem gen_create_and_load_agree_on_path (path : String)
    (hi : (Gen.createDecision.format Gen.createDefault (extOf path.toList)).importable = true) :
    Gen.loadDecision.format Gen.createDefault (extOf path.toList) =
      Gen.createDecision.format Gen.createDefault (extOf path.toList) :=
  gen_create_and_load_agree_on_format _ hi

/-- under ANY --import-format: the two sides agree, or the extension is one neither side knows — the table was
    created as CSV (the create side's default) and is loaded with the session's import format -/
theorem gen_create_and_load_agree_any_default (e : Ext) (dflt : Format)
    (hi : (Gen.createDecision.format Gen.createDefault e).importable = true) :
    Gen.loadDecision.format dflt e = Gen.createDecision.format Gen.createDefault e ∨
    (Gen.loadDecision.format dflt e = dflt ∧ Gen.createDecision.format Gen.createDefault e = Gen.createDefault) :=
  agree_sound _ _ _ (by decide) e dflt hi

/-- two spellings of an extension that differ only in ASCII letter case get the same format on both sides -/
theorem gen_every_spelling_same_format (e e' : Ext) (h : asciiLower e = asciiLower e') (dflt : Format) :
    Gen.createDecision.format Gen.createDefault e = Gen.createDecision.format Gen.createDefault e' ∧
    Gen.loadDecision.format dflt e = Gen.loadDecision.format dflt e' :=
  ⟨folds_spelling_irrelevant _ rfl _ e e' h, folds_spelling_irrelevant _ rfl _ e e' h⟩

/-- the extensions whose created file csvq cannot load again are exactly `.md` and `.org`: documented renderings
    (GitHub Flavored Markdown, Org-mode), not table files -/
theorem gen_export_only_extensions :
    Gen.createDecision.table.filter (fun kf => !kf.2.importable) = [(['.', 'm', 'd'], .gfm), (['.', 'o', 'r', 'g'], .org)] := by
  decide

/-- … and for them the hypothesis of the agreement theorem is really needed: a table created as `x.md` is written as
    Markdown and loaded as `--import-format` -/
theorem created_md_is_loaded_as_default_counterexample (dflt : Format) :
    Gen.createDecision.format Gen.createDefault ['.', 'm', 'd'] = .gfm ∧ Gen.loadDecision.format dflt ['.', 'M', 'D'] = dflt := by
  constructor <;> rfl

example : Gen.createDecision.format Gen.createDefault (extOf "PRICES.TSV".toList) = .tsv := by decide
example : Gen.loadDecision.format .csv (extOf "PRICES.TSV".toList) = .tsv := by decide
example : Gen.createDecision.format Gen.createDefault (extOf "dir.tsv/Log.Jsonl".toList) = .jsonl := by decide
example : Gen.createDecision.format Gen.createDefault (extOf "dir.tsv/plain".toList) = .csv := by decide
example : (Gen.createDecision.format Gen.createDefault ['.', 'L', 't', 'S', 'v']).importable = true := by decide

/-! ## the two encoding loops of Transaction.Commit -/

/-- **the created-files loop and the updated-files loop apply the same ending-line-break rule**, for every
    STRIP_ENDING_LINE_BREAK / format / SingleLine combination -/
theorem gen_commit_loops_write_same_tail (strip : Bool) (fmt : Format) (single : Bool) :
    Gen.createdLoopTail strip fmt single = Gen.updatedLoopTail strip fmt single := by
  cases strip <;> cases fmt <;> cases single <;> rfl

/-- … which is the rule of the model: appended unless stripped or the table is a single-line fixed-length file -/
theorem gen_tail_rule_eq_model (strip : Bool) (fmt : Format) (single : Bool) :
    Gen.createdLoopTail strip fmt single = appendsTail strip fmt single ∧
    Gen.updatedLoopTail strip fmt single = appendsTail strip fmt single := by
  cases strip <;> cases fmt <;> cases single <;> exact ⟨rfl, rfl⟩

/-- the encoded line break is written under the condition it is encoded under -/
theorem gen_tail_written_iff_encoded (strip : Bool) (fmt : Format) (single : Bool) :
    Gen.createdLoopTailWrite strip fmt single = Gen.createdLoopTail strip fmt single ∧
    Gen.updatedLoopTailWrite strip fmt single = Gen.updatedLoopTail strip fmt single := by
  cases strip <;> cases fmt <;> cases single <;> exact ⟨rfl, rfl⟩

/-- both loops make the same calls with the same arguments in the same order (the reviewed ones): truncate, rewind,
    encode the cached view under the table's own export options, encode and write the ending line break -/
theorem gen_commit_loops_same_calls :
    Gen.createdLoopCalls = Gen.updatedLoopCalls ∧ Gen.createdLoopCalls = loopCalls := ⟨rfl, rfl⟩

theorem tail_iff (strip : Bool) (fmt : Format) (single : Bool) :
    appendsTail strip fmt single = true ↔ strip = false ∧ ¬ (fmt = .fixed ∧ single = true) := by
  cases strip <;> cases fmt <;> cases single <;> simp [appendsTail]

/-- a single-line fixed-length file never gets an ending line break, created or updated -/
theorem single_line_file_gets_no_line_break (strip : Bool) :
    Gen.createdLoopTail strip .fixed true = false ∧ Gen.updatedLoopTail strip .fixed true = false := by
  cases strip <;> exact ⟨rfl, rfl⟩

example : Gen.createdLoopTail false .fixed false = true ∧ Gen.createdLoopTail false .csv true = true := ⟨rfl, rfl⟩

/-! ## ALTER TABLE … SET -/

/-- the setters that assign FileInfo.Format are the three the model says (regenerated from their bodies) -/
theorem gen_format_setters :
    (Gen.setterWrites.filter (fun sw => sw.2.contains "Format")).map (·.1) = formatSetters := by decide
/-- … and only SetDelimiterPositions assigns SingleLine -/
theorem gen_single_line_setters :
    (Gen.setterWrites.filter (fun sw => sw.2.contains "SingleLine")).map (·.1) = singleLineSetters := by decide
/-- every field each setter assigns (reviewed) -/
theorem gen_setter_writes_eq_ref : Gen.setterWrites =
    [("SetDelimiter", ["Delimiter", "Format"]),
     ("SetDelimiterPositions", ["DelimiterPositions", "Format", "SingleLine", "positionsDetected"]),
     ("SetEncloseAll", ["EncloseAll"]), ("SetEncoding", ["Encoding"]),
     ("SetFormat", ["Delimiter", "Encoding", "Format", "JsonEscape"]), ("SetJsonEscape", ["JsonEscape"]),
     ("SetLineBreak", ["LineBreak"]), ("SetNoHeader", ["NoHeader"]), ("SetPrettyPrint", ["PrettyPrint"])] := rfl
/-- every attribute name of ALTER TABLE … SET reaches the setter of its name -/
theorem gen_attribute_setters_eq_ref : Gen.attributeSetters =
    [("TableDelimiter", "SetDelimiter"), ("TableDelimiterPositions", "SetDelimiterPositions"), ("TableFormat", "SetFormat"),
     ("TableEncoding", "SetEncoding"), ("TableLineBreak", "SetLineBreak"), ("TableJsonEscape", "SetJsonEscape"),
     ("TableHeader", "!SetNoHeader"), ("TableEncloseAll", "SetEncloseAll"), ("TablePrettyPrint", "SetPrettyPrint")] := rfl

/-- the model's setters change the format / the single-line mark only where the code's setters assign them -/
theorem format_changes_only_by_format_setters (a a' : Attrs) (s : SetAttr) (h : applySet a s = some a')
    (hs : s.setter ∉ formatSetters) : a'.format = a.format ∧ a'.single = a.single := by
  cases s <;> simp [SetAttr.setter, formatSetters] at hs <;> simp only [applySet] at h <;>
    (repeat' split at h) <;> first | (cases h; exact ⟨rfl, rfl⟩) | cases h

/-- **whatever else is SET** (ENCODING, LINE_BREAK, HEADER, ENCLOSE_ALL, JSON_ESCAPE, PRETTY_PRINT, in any number and
    order, accepted or refused), a created table keeps the format its extension gave it — the one a load assumes -/
theorem created_format_survives_other_setters (l : List SetAttr) (hl : ∀ s ∈ l, s.setter ∉ formatSetters) :
    ∀ a : Attrs, (applySets a l).format = a.format ∧ (applySets a l).single = a.single := by
  induction l with
  | nil => intro a; exact ⟨rfl, rfl⟩
  | cons s rest ih =>
    intro a
    have hr := ih (fun x hx => hl x (List.mem_cons_of_mem _ hx))
    simp only [applySets]
    cases h : applySet a s with
    | none => simpa using hr a
    | some a' =>
      obtain ⟨h1, h2⟩ := format_changes_only_by_format_setters a a' s h (hl s (List.mem_cons_self ..))
      have := hr a'
      simp only [Option.getD_some]
      exact ⟨this.1.trans h1, this.2.trans h2⟩

/-- SET DELIMITER_POSITIONS with the single-line form makes the table a single-line fixed-length file, whatever it was
    created as: the case the "created files are never single-line" shortcut forgets -/
theorem set_single_line_positions (a : Attrs) (p : List Nat) (h : ¬ (a.positions = p ∧ a.single = true ∧ a.format = .fixed)) :
    ∃ a', applySet a (.positions p true) = some a' ∧ a'.format = .fixed ∧ a'.single = true := by
  simp only [applySet, h, if_false]
  exact ⟨_, rfl, rfl, rfl⟩

/-! ## what a fresh process reads -/

variable {V B : Type}

/-- the attributes a load by the file's name assumes: the format of the extension (load side); the other attributes as
    the table was written with (the corpus reads with a format-specified table function where they are not the defaults) -/
def freshAttrs (path : List Char) (dflt : Format) (a : Attrs) : Attrs :=
  { a with format := Gen.loadDecision.format dflt (extOf path) }

/-- both loops write the view's encoding followed by the ending line break exactly where the codec's reader expects it -/
theorem committed_bytes_read_back (c : Codec V B) (strip : Bool) (rt : c.RoundTrip strip) (a : Attrs) (v : V) :
    c.dec a (commitBytes c Gen.createdLoopTail strip a v) = some v ∧
    c.dec a (commitBytes c Gen.updatedLoopTail strip a v) = some v := by
  have e1 : commitBytes c Gen.createdLoopTail strip a v = commitBytes c appendsTail strip a v := by
    simp only [commitBytes, (gen_tail_rule_eq_model strip a.format a.single).1]
  have e2 : commitBytes c Gen.updatedLoopTail strip a v = commitBytes c appendsTail strip a v := by
    simp only [commitBytes, (gen_tail_rule_eq_model strip a.format a.single).2]
  rw [e1, e2]; exact ⟨rt a v, rt a v⟩

/-- **A created table after a normal end, read by a fresh process.**  The session machine's table contents are
    (attributes, view); `normal_end_publishes` puts the cached pair on disk; the file's bytes are those of the
    created-files loop; a fresh process decodes them under the format the LOAD side assumes from the file's name.  If the
    table still has the format its name gave it at CREATE (no format-changing ALTER: `created_format_survives_other_setters`)
    and that format is loadable, the fresh process reads exactly the view the procedure last saw. -/
theorem created_table_fresh_read (c : Codec V B) (strip : Bool) (rt : c.RoundTrip strip)
    (s : State (Attrs × V)) (p : Path) (path : List Char) (a : Attrs) (v : V)
    (hcr : s.created p = true) (hca : s.cache p = some ⟨(a, v), true⟩)
    (hfmt : a.format = Gen.createDecision.format Gen.createDefault (extOf path))
    (himp : a.format.importable = true) :
    ((finish s .normal).disk p).bind
      (fun t => c.dec (freshAttrs path Gen.createDefault t.1) (commitBytes c Gen.createdLoopTail strip t.1 t.2)) = some v := by
  rw [normal_end_publishes]
  have hfa : freshAttrs path Gen.createDefault a = a := by
    have := gen_create_and_load_agree_on_format (extOf path) (by rw [← hfmt]; exact himp)
    simp only [freshAttrs, this, ← hfmt]
  simp only [hcr, Bool.true_or, if_true, hca, Option.map_some, Option.bind_some, hfa]
  exact (committed_bytes_read_back c strip rt a v).1

/-- the same over a whole history: the table is created (or held) with attributes `a0` and view `v0`; after ANY
    statements of the transaction — DML, ALTER TABLE … SET (a `dml` acting on the attribute component), statements on
    other tables, commits of other processes in between — and a normal end, a fresh process reads the view component
    of the transaction's own changes applied in order, provided the format is then the one the name gives -/
theorem created_table_fresh_read_history (c : Codec V B) (strip : Bool) (rt : c.RoundTrip strip)
    (s : State (Attrs × V)) (p : Path) (path : List Char) (a0 : Attrs) (v0 : V)
    (hca : s.cache p = some ⟨(a0, v0), true⟩) (ops : List (Op (Attrs × V))) (hne : ∀ op ∈ ops, ¬ IsEnd op)
    (hm : ((runOps s ops).created p || (runOps s ops).updated p) = true)
    (hfmt : (ownEffect p ops (a0, v0)).1.format = Gen.createDecision.format Gen.createDefault (extOf path))
    (himp : (ownEffect p ops (a0, v0)).1.format.importable = true) :
    ((finish (runOps s ops) .normal).disk p).bind
      (fun t => c.dec (freshAttrs path Gen.createDefault t.1) (commitBytes c Gen.createdLoopTail strip t.1 t.2))
      = some (ownEffect p ops (a0, v0)).2 := by
  rw [normal_end_writes_own_changes s p (a0, v0) hca ops hne hm]
  have hfa : freshAttrs path Gen.createDefault (ownEffect p ops (a0, v0)).1 = (ownEffect p ops (a0, v0)).1 := by
    have := gen_create_and_load_agree_on_format (extOf path) (by rw [← hfmt]; exact himp)
    simp only [freshAttrs, this, ← hfmt]
  simp only [Option.bind_some, hfa]
  exact (committed_bytes_read_back c strip rt _ _).1

/-- … and why the agreement is needed: were the format the name gives on the load side another one, the reader would be
    applied under other attributes than the writer's -/
theorem fresh_attrs_differ_when_sides_disagree (path : List Char) (dflt : Format) (a : Attrs)
    (h : Gen.loadDecision.format dflt (extOf path) ≠ a.format) : freshAttrs path dflt a ≠ a := by
  intro e
  apply h
  have := congrArg Attrs.format e
  simpa [freshAttrs] using this

/-! non-vacuity: a codec over `Option Nat` bytes (`none` = the line break) satisfies the contract, and a created
    `T.TSV` with two records is read back by a fresh process -/
def demoCodec : Codec (List Nat) (Option Nat) :=
  { enc := fun _ v => v.map some, lineBreak := fun _ => [none], dec := fun _ bs => some (bs.filterMap id) }

theorem demoCodec_roundTrip (strip : Bool) : demoCodec.RoundTrip strip := by
  intro a v
  simp only [demoCodec, commitBytes]
  split <;> simp [List.filterMap_map]

def demoAttrs : Attrs :=
  { format := .tsv, delimiter := '\t', positions := [], single := false, encoding := 1, lineBreak := 0, noHeader := false,
    encloseAll := false, jsonEscape := 0, prettyPrint := false }

example :
    ((finish (step (fresh (fun _ => none)) (.create 0 (demoAttrs, [7, 8]))).1 .normal).disk 0).bind
      (fun t => demoCodec.dec (freshAttrs "T.TSV".toList Gen.createDefault t.1)
        (commitBytes demoCodec Gen.createdLoopTail false t.1 t.2)) = some [7, 8] :=
  created_table_fresh_read demoCodec false (demoCodec_roundTrip false) _ 0 "T.TSV".toList demoAttrs [7, 8]
    (by simp [step, fresh, setFn]) (by simp [step, fresh, setFn]) (by decide) (by decide)

example : (applySets demoAttrs [.lineBreak 1, .encoding 4, .header false]).format = .tsv :=
  (created_format_survives_other_setters _ (by decide) demoAttrs).1

end Csvq.C01
