/-
  C09 — concurrent csvq processes never write a table together or lose an update.
  Property theorems only.  Protocol: lib/file/control_file.go, handler.go (see Model/Lock.lean).
-/
import Csvq.Lemmas.Lock
import Csvq.Gen.FsProto
import Csvq.Ref.FsProto
namespace Csvq.C09
open Csvq.Lock

/-- the protocol invariant is preserved by every system call of every process -/
theorem inv_step (s t : State) (h : Inv s) (st : Step s t) : Inv t := by
  cases st with
  | startW p hp | startR p hp | wCheckFree p hp _ | wTimeout p hp | wCreateFail p hp _
  | rCheckFree p hp _ | rTimeout p hp | rCreateLockFail p hp _ =>
    refine ⟨?_, ?_, ?_⟩
    · intro q; by_cases e : q = p
      · subst e; have := h.owner q; simp_all [setPc, ownsLockPc]
      · have := h.owner q; simp_all [setPc]
    · intro q; by_cases e : q = p
      · subst e; have := h.rl q; simp_all [setPc, hasRLockPc]
      · have := h.rl q; simp_all [setPc]
    · intro q hq r; by_cases e : q = p
      · subst e; simp_all [setPc]
      · have := h.hold q; simp_all [setPc]
  | wCheckBusy p hp _ | rCheckBusy p hp _ => exact h
  | wCreateOk p hp b | rCreateLockOk p hp b =>
    have hno := no_owner h b
    refine ⟨?_, ?_, ?_⟩
    · intro q; by_cases e : q = p
      · subst e; simp [setPc, ownsLockPc]
      · have := hno q; simp_all [setPc]; intro x; exact e x.symm
    · intro q; by_cases e : q = p
      · subst e; have := h.rl q; simp_all [setPc, hasRLockPc]
      · have := h.rl q; simp_all [setPc]
    · intro q hq r; by_cases e : q = p
      · subst e; simp_all [setPc]
      · have hq' : s.pc q = .wHold ∨ s.pc q = .wUnlock := by simpa [setPc, e] using hq
        have := hno q; rcases hq' with x | x <;> simp_all [ownsLockPc]
  | wRecheckBusy p hp _ =>
    refine ⟨?_, ?_, ?_⟩
    · intro q; by_cases e : q = p
      · subst e; have := h.owner q; simp_all [setPc, ownsLockPc]
      · have := h.owner q; simp_all [setPc]
    · intro q; by_cases e : q = p
      · subst e; have := h.rl q; simp_all [setPc, hasRLockPc]
      · have := h.rl q; simp_all [setPc]
    · intro q hq r; by_cases e : q = p
      · subst e; simp_all [setPc]
      · have := h.hold q; simp_all [setPc]
  | wRecheckFree p hp b =>
    refine ⟨?_, ?_, ?_⟩
    · intro q; by_cases e : q = p
      · subst e; have := h.owner q; simp_all [setPc, ownsLockPc]
      · have := h.owner q; simp_all [setPc]
    · intro q; by_cases e : q = p
      · subst e; have := h.rl q; simp_all [setPc, hasRLockPc]
      · have := h.rl q; simp_all [setPc]
    · intro q _ r; exact b r
  | wFinish p hp =>
    refine ⟨?_, ?_, ?_⟩
    · intro q; by_cases e : q = p
      · subst e; have := h.owner q; simp_all [setPc, ownsLockPc]
      · have := h.owner q; simp_all [setPc]
    · intro q; by_cases e : q = p
      · subst e; have := h.rl q; simp_all [setPc, hasRLockPc]
      · have := h.rl q; simp_all [setPc]
    · intro q hq r; by_cases e : q = p
      · subst e; exact h.hold q (Or.inl hp) r
      · have := h.hold q; simp_all [setPc]
  | wRelease p hp | wUnlock p hp | rReleaseLock p hp =>
    have hown : ownsLockPc (s.pc p) = true := by simp [hp, ownsLockPc]
    refine ⟨?_, ?_, ?_⟩
    · intro q; by_cases e : q = p
      · subst e; simp [setPc, ownsLockPc]
      · have : ownsLockPc (s.pc q) = false := by
          cases hc : ownsLockPc (s.pc q)
          · rfl
          · exact absurd (owner_unique h q p hc hown) e
        simp_all [setPc]
    · intro q; by_cases e : q = p
      · subst e; have := h.rl q; simp_all [setPc, hasRLockPc]
      · have := h.rl q; simp_all [setPc]
    · intro q hq r; by_cases e : q = p
      · subst e; simp_all [setPc]
      · have hq' : s.pc q = .wHold ∨ s.pc q = .wUnlock := by simpa [setPc, e] using hq
        have hc : ownsLockPc (s.pc q) = true := by rcases hq' with x | x <;> simp [x, ownsLockPc]
        exact absurd (owner_unique h q p hc hown) e
  | rCreateRLock p hp =>
    have hown : ownsLockPc (s.pc p) = true := by simp [hp, ownsLockPc]
    refine ⟨?_, ?_, ?_⟩
    · intro q; by_cases e : q = p
      · subst e; have := h.owner q; simp_all [setPc, ownsLockPc]
      · have := h.owner q; simp_all [setPc]
    · intro q; by_cases e : q = p
      · subst e; simp [setPc, hasRLockPc]
      · have := h.rl q; simp_all [setPc]
    · intro q hq r; by_cases e : q = p
      · subst e; simp_all [setPc]
      · have hq' : s.pc q = .wHold ∨ s.pc q = .wUnlock := by simpa [setPc, e] using hq
        have hc : ownsLockPc (s.pc q) = true := by rcases hq' with x | x <;> simp [x, ownsLockPc]
        exact absurd (owner_unique h q p hc hown) e
  | rFinish p hp =>
    refine ⟨?_, ?_, ?_⟩
    · intro q; by_cases e : q = p
      · subst e; have := h.owner q; simp_all [setPc, ownsLockPc]
      · have := h.owner q; simp_all [setPc]
    · intro q; by_cases e : q = p
      · subst e; have := h.rl q; simp_all [setPc, hasRLockPc]
      · have := h.rl q; simp_all [setPc]
    · intro q hq r; by_cases e : q = p
      · subst e; simp_all [setPc]
      · have := h.hold q; simp_all [setPc]
  | rRemoveRLock p hp =>
    refine ⟨?_, ?_, ?_⟩
    · intro q; by_cases e : q = p
      · subst e; have := h.owner q; simp_all [setPc, ownsLockPc]
      · have := h.owner q; simp_all [setPc]
    · intro q; by_cases e : q = p
      · subst e; simp [setPc, hasRLockPc]
      · have := h.rl q; simp_all [setPc]
    · intro q hq r; by_cases e : q = p
      · subst e; simp_all [setPc]
      · have hq' : s.pc q = .wHold ∨ s.pc q = .wUnlock := by simpa [setPc, e] using hq
        have := h.hold q hq' r
        by_cases e2 : r = p <;> simp_all

theorem inv_reachable (s : State) (h : Reachable s) : Inv s := by
  induction h with
  | init => exact inv_init
  | step s t _ st ih => exact inv_step s t ih st

/-- Mutual exclusion, for any number of processes and every interleaving of their system calls:
    never two writers, never a writer together with a reader. -/
theorem mutex_inv (s : State) (h : Reachable s) (p q : Pid) (hpq : p ≠ q) :
    ¬ (writer s p ∧ writer s q) ∧ ¬ (writer s p ∧ reader s q) := by
  have inv := inv_reachable s h
  constructor
  · rintro ⟨hp, hq⟩
    apply hpq
    apply owner_unique inv p q <;> simp [writer] at hp hq <;> simp [hp, hq, ownsLockPc]
  · rintro ⟨hp, hq⟩
    have h1 := inv.hold p (Or.inl hp) q
    have h2 := (inv.rl q).mpr (by simp [reader] at hq; simp [hq, hasRLockPc])
    rw [h1] at h2; exact absurd h2 (by simp)

/-- while a process is reading, no writer can start holding the table -/
theorem no_writer_starts_while_reading (s t : State) (h : Reachable s) (st : Step s t) (p q : Pid)
    (hr : reader s q) (hr' : reader t q) : ¬ (¬ writer s p ∧ writer t p) ∨ p = q := by
  left
  rintro ⟨_, hw⟩
  have ht : Reachable t := Reachable.step s t h st
  by_cases e : p = q
  · subst e; simp [writer, reader] at hw hr'; rw [hw] at hr'; exact absurd hr' (by simp)
  · exact (mutex_inv t ht p q e).2 ⟨hw, hr'⟩

/-- the `.lock` file exists exactly from its creator's successful O_EXCL create to that same
    process's unlink; it is never removed by another process -/
theorem lock_file_owned (s : State) (h : Reachable s) (p : Pid) :
    s.lockOwner = some p ↔ ownsLockPc (s.pc p) = true := (inv_reachable s h).owner p

/-- a process that gives up (lock timeout) has changed nothing: no lock, no rlock of its own -/
theorem timeout_changes_nothing (s : State) (h : Reachable s) (p : Pid) (hp : s.pc p = .wCheck ∨ s.pc p = .rCheck) :
    s.lockOwner ≠ some p ∧ s.rlock p = false := by
  have inv := inv_reachable s h
  constructor
  · intro e; have := (inv.owner p).mp e; rcases hp with x | x <;> simp [x, ownsLockPc] at this
  · cases hr : s.rlock p
    · rfl
    · have := (inv.rl p).mp hr; rcases hp with x | x <;> simp [x, hasRLockPc] at this

/-! ## tie to the source: the protocol the theorems are about is the protocol the code implements -/

/-- the flags read off TryCreateLockFile / TryCreateRLockFile are those of the proved protocol -/
theorem gen_flags_eq_ref : Csvq.Gen.lockFlags = refFlags := by decide

theorem gen_lock_eq_ref : Csvq.Gen.fxTryCreateLockFile = Csvq.Ref.fxTryCreateLockFile := by decide
theorem gen_rlock_eq_ref : Csvq.Gen.fxTryCreateRLockFile = Csvq.Ref.fxTryCreateRLockFile := by decide
theorem gen_temp_eq_ref : Csvq.Gen.fxTryCreateTempFile = Csvq.Ref.fxTryCreateTempFile := by decide
theorem gen_cfclose_eq_ref : Csvq.Gen.fxControlFileClose = Csvq.Ref.fxControlFileClose := by decide
/-- the committing writer publishes (renames the temporary file over the table) BEFORE it gives up the lock
    file: the regenerated operation sequence of Handler.commit has the rename in front of both releases, so
    the model's `wHold` really covers the publication and no second writer can read the old data in between -/
theorem gen_commit_publishes_before_release :
    Csvq.Gen.commitUpdateOps.idxOf "rename(h.tempFile.path,h.path)" < Csvq.Gen.commitUpdateOps.idxOf "cf_close(h.lockFile)" ∧
    Csvq.Gen.commitUpdateOps.idxOf "rename(h.tempFile.path,h.path)" < Csvq.Gen.commitUpdateOps.idxOf "cf_close(h.rlockFile)" ∧
    Csvq.Gen.commitUpdateOps.idxOf "cf_close(h.lockFile)" < Csvq.Gen.commitUpdateOps.length := by decide

theorem gen_forread_eq_ref : Csvq.Gen.fxNewHandlerForRead = Csvq.Ref.fxNewHandlerForRead := by decide
theorem gen_forupdate_eq_ref : Csvq.Gen.fxNewHandlerForUpdate = Csvq.Ref.fxNewHandlerForUpdate := by decide
theorem gen_forcreate_eq_ref : Csvq.Gen.fxNewHandlerForCreate = Csvq.Ref.fxNewHandlerForCreate := by decide

/-! ## "every committed change survives": read-modify-write under mutual exclusion

  A writer's critical section (from the moment it holds the table until its commit has been published —
  `wHold`, which by `gen_commit_publishes_before_release` includes the rename) reads the table and publishes
  a value computed from what it read.  `mutex_inv` says two writers are never inside at once; what follows
  from that alone is stated here for an arbitrary update function and any interleaving of any number of
  writers (the concrete counterpart is the `lost_update` law of the schedule replay). -/

namespace Rmw

/-- events of writers: entering the critical section (reads the table), committing (publishes f(read)),
    giving up (rollback / timeout: publishes nothing) -/
inductive Ev | enter (p : Pid) | commit (p : Pid) | abort (p : Pid)

structure St (α : Type) where
  data : α
  inside : Option (Pid × α)       -- the writer inside the critical section and what it has read

def init {α} (a : α) : St α := { data := a, inside := none }

/-- one event under the lock discipline: `enter` succeeds only when nobody is inside (that is what
    `mutex_inv` guarantees of the protocol), `commit` / `abort` act only for the writer that is inside;
    every other event cannot happen and changes nothing -/
def step {α} (f : α → α) (s : St α) : Ev → St α
  | .enter p => match s.inside with
      | none => { s with inside := some (p, s.data) }
      | some _ => s
  | .commit p => match s.inside with
      | some (q, v) => if q = p then { data := f v, inside := none } else s
      | none => s
  | .abort p => match s.inside with
      | some (q, _) => if q = p then { s with inside := none } else s
      | none => s

/-- does the event take effect as a commit in state s? -/
def isCommit {α} (s : St α) : Ev → Bool
  | .commit p => match s.inside with | some (q, _) => q == p | none => false
  | _ => false

/-- number of commits that took effect -/
def commits {α} (f : α → α) (s : St α) : List Ev → Nat
  | [] => 0
  | e :: es => commits f (step f s e) es + (if isCommit s e then 1 else 0)

def run {α} (f : α → α) (s : St α) (es : List Ev) : St α := es.foldl (step f) s

/-- n-fold application, first application first -/
def iter {α} (f : α → α) : Nat → α → α
  | 0, a => a
  | n + 1, a => iter f n (f a)

/-- the writer inside has read the current table (nobody else could publish since it entered) -/
def Inv {α} (s : St α) : Prop := ∀ p v, s.inside = some (p, v) → v = s.data

theorem inv_step {α} (f : α → α) (s : St α) (e : Ev) (h : Inv s) : Inv (step f s e) := by
  cases e with
  | enter p =>
    simp only [step]
    cases hi : s.inside with
    | none => intro q v hv; simp at hv; exact hv.2.symm
    | some x => simpa [hi] using h
  | commit p =>
    simp only [step]
    cases hi : s.inside with
    | none => simpa [hi] using h
    | some x =>
      obtain ⟨q, v⟩ := x
      by_cases e : q = p
      · simp only [e, if_true]; intro a w hw; simp at hw
      · simp only [e, if_false]; exact h
  | abort p =>
    simp only [step]
    cases hi : s.inside with
    | none => simpa [hi] using h
    | some x =>
      obtain ⟨q, v⟩ := x
      by_cases e : q = p
      · simp only [e, if_true]; intro a w hw; simp at hw
      · simp only [e, if_false]; exact h

/-- **No lost update.**  Whatever the interleaving of enter / commit / abort events of any number of writers,
    the table ends as the update function applied once per commit that took effect: no committed change is
    overwritten by a writer that read the table earlier. -/
theorem no_lost_update {α} (f : α → α) :
    ∀ (es : List Ev) (s : St α), Inv s → (run f s es).data = iter f (commits f s es) s.data
  | [], s, _ => rfl
  | e :: es, s, h => by
    have ih := no_lost_update f es (step f s e) (inv_step f s e h)
    simp only [run, List.foldl] at ih ⊢
    rw [ih]
    simp only [commits]
    cases e with
    | enter p =>
      simp only [isCommit, Bool.false_eq_true, if_false, Nat.add_zero]
      congr 1
      simp only [step]; cases s.inside <;> rfl
    | abort p =>
      simp only [isCommit, Bool.false_eq_true, if_false, Nat.add_zero]
      congr 1
      simp only [step]
      cases hi : s.inside with
      | none => rfl
      | some x => obtain ⟨q, v⟩ := x; by_cases e : q = p <;> simp [e]
    | commit p =>
      cases hi : s.inside with
      | none => simp [isCommit, step, hi]
      | some x =>
        obtain ⟨q, v⟩ := x
        have hv : v = s.data := h q v hi
        by_cases e : q = p
        · simp only [isCommit, hi, e, beq_self_eq_true, if_true, step, iter]
          rw [hv]
        · have : (q == p) = false := by simpa using e
          simp [isCommit, hi, step, e, this]

theorem inv_init {α} (a : α) : Inv (init a) := by intro p v h; simp [init] at h

theorem iter_succ_nat (n c : Nat) : iter (· + 1) n c = c + n := by
  induction n generalizing c with
  | zero => rfl
  | succ k ih => simp only [iter]; rw [ih]; omega

/-- counters: the counter ends at start + number of effective commits -/
theorem counter_counts_commits (es : List Ev) (c : Nat) :
    (run (· + 1) (init c) es).data = c + commits (· + 1) (init c) es := by
  rw [no_lost_update (· + 1) es (init c) (inv_init c), iter_succ_nat]; rfl

example : (run (· + 1) (init 0) [.enter 0, .enter 1, .commit 0, .enter 1, .commit 1, .commit 1]).data = 2 := by
  simp [run, step, init]

/-! the discipline is necessary: what a statement computes its change from must be read INSIDE the critical
    section.  A statement that evaluates its source before it takes the lock (`INSERT INTO t SELECT MAX(id) + 1
    FROM t` with the target locked only afterwards — seeded change C09-m12) is the same machine with the read
    moved in front of `enter`: -/

/-- `early p`: p reads the table WITHOUT the lock; `enter`/`commit` as before, but the commit publishes
    f(early read) -/
inductive EvE | early (p : Pid) | enter (p : Pid) | commit (p : Pid)

structure StE (α : Type) where
  data : α
  seen : Pid → Option α
  inside : Option Pid

def stepE {α} (f : α → α) (s : StE α) : EvE → StE α
  | .early p => { s with seen := fun q => if q = p then some s.data else s.seen q }
  | .enter p => match s.inside with | none => { s with inside := some p } | some _ => s
  | .commit p => match s.inside, s.seen p with
      | some q, some v => if q = p then { s with data := f v, inside := none } else s
      | _, _ => s

/-- two writers under perfect mutual exclusion, two effective commits, and still one update is lost -/
theorem early_read_loses_update :
    (([EvE.early 0, .early 1, .enter 0, .commit 0, .enter 1, .commit 1].foldl (stepE (· + 1))
        { data := (0 : Nat), seen := fun _ => none, inside := none }).data) = 1 := by
  decide

end Rmw

/-- the executable explorer used for the failing-schedule search agrees with the proved protocol
    on the reference flags for small instances (sanity; the proof above is the unbounded claim) -/
example : (xsteps refFlags { pcs := [.wRecheck, .rRead], lockOwner := some 0, rlocks := [false, true] } 0)
    = [{ pcs := [.wRelease, .rRead], lockOwner := some 0, rlocks := [false, true] }] := by decide

/-! non-vacuity: a reachable state with a writer holding the table -/
def s1 : State := setPc init 0 .wCheck
def s2 : State := setPc s1 0 .wCreate
def s3 : State := { setPc s2 0 .wRecheck with lockOwner := some 0 }
def s4 : State := setPc s3 0 .wHold

theorem s4_reachable : Reachable s4 := by
  have r1 : Reachable s1 := Reachable.step _ _ Reachable.init (Step.startW init 0 rfl)
  have r2 : Reachable s2 := Reachable.step _ _ r1 (Step.wCheckFree s1 0 (by simp [s1, setPc]) (by simp [s1, setPc, init]))
  have r3 : Reachable s3 := Reachable.step _ _ r2 (Step.wCreateOk s2 0 (by simp [s2, setPc]) (by simp [s2, s1, setPc, init]))
  exact Reachable.step _ _ r3 (Step.wRecheckFree s3 0 (by simp [s3, setPc]) (by simp [s3, s2, s1, setPc, init]))

example : Reachable s4 ∧ writer s4 0 := ⟨s4_reachable, by simp [writer, s4, setPc]⟩

end Csvq.C09
