/-
  C06 — the conversion functions of lib/value/conv.go, the Ternary() methods of lib/value/type.go and the casts of
  lib/query/function.go, TRANSLATED from the source on every run (extract/convfacts → Gen/ConvFacts.lean), are the
  coercion profile and the casts of the model: `profileOf` (Model/Float.lean), `profileOfText` (Model/CellText.lean),
  Model/Cast.lean, Model/CastFull.lean.  Everything the comparison ladder, the keys, the sort values and arithmetic
  are proved over is thereby tied to the source, not only to the correspondence streams.
  Property theorems only.
-/
import Csvq.Gen.ConvFacts
import Csvq.Lemmas.Float
import Csvq.Lemmas.CellText
namespace Csvq.C06
open Csvq

def ofOptInt : Option Int → Val | some i => .int i | none => .null
def ofOptFlt : Option FVal → Val | some f => .flt f | none => .null
def ofOptDt : Option Int → Val | some d => .dt d | none => .null
def ofOptBool : Option Bool → Val | some b => .bool b | none => .null

theorem feq_zero (f : FVal) : FVal.feq f (FVal.ofInt 0) = f.isZero := by
  have : FVal.ofInt 0 = .fin 0 := by simp [FVal.ofInt]
  rw [this]
  cases f <;> simp [FVal.feq, FVal.isZero, FVal.num?]

theorem ofInt_one : FVal.ofInt 1 = .fin (FVal.unit : Int) := by
  have := FVal.ofInt_exact 1 (by decide)
  simpa using this

theorem feq_one (f : FVal) : FVal.feq f (FVal.ofInt 1) = decide (f = .fin (FVal.unit : Int)) := by
  rw [ofInt_one]
  have hu : (FVal.unit : Int) ≠ 0 := by have := FVal.unit_int_pos; omega
  cases f with
  | fin n => by_cases e : n = (FVal.unit : Int) <;> simp [FVal.feq, FVal.num?, e]
  | negz => simp [FVal.feq, FVal.num?]; exact fun h => hu h.symm
  | _ => simp [FVal.feq]

/-! ## THE TIE: the translated conversion functions compute the coercion profile -/

/-- for every value that is not a String: the five translated conversions are the five fields of `profileOf` -/
theorem gen_profile_eq_model (v : Val) (hs : ∀ s, v ≠ .str s) :
    Gen.Conv.toIntegerStrictly v = ofOptInt (profileOf v).int? ∧ Gen.Conv.toFloat v = ofOptFlt (profileOf v).flt?
      ∧ Gen.Conv.toDatetime v = ofOptDt (profileOf v).dt? ∧ Gen.Conv.toBoolean v = ofOptBool (profileOf v).bool?
      ∧ Gen.Conv.ternary v = (profileOf v).tern := by
  cases v with
  | str s => exact absurd rfl (hs s)
  | null => exact ⟨rfl, rfl, rfl, rfl, rfl⟩
  | dt d => exact ⟨rfl, rfl, rfl, rfl, rfl⟩
  | bool b => cases b <;> exact ⟨rfl, rfl, rfl, rfl, rfl⟩
  | tern t => cases t <;> exact ⟨rfl, rfl, rfl, by decide, rfl⟩
  | int i =>
    refine ⟨rfl, rfl, rfl, ?_, ?_⟩
    · by_cases h0 : i = 0
      · subst h0; decide
      · by_cases h1 : i = 1
        · subst h1; decide
        · simp [Gen.Conv.toBoolean, Gen.Conv.ternary, profileOf, ofOptBool, h0, h1]
    · simp only [Gen.Conv.ternary, profileOf]
  | flt f =>
    have ht : Gen.Conv.ternary (.flt f) = (profileOf (.flt f)).tern := by
      simp only [Gen.Conv.ternary, profileOf, feq_zero, feq_one]
      by_cases hz : f.isZero = true
      · simp [hz]
      · by_cases h1 : f = .fin (FVal.unit : Int)
        · simp [hz, h1]
        · simp [hz, h1]
    refine ⟨rfl, rfl, rfl, ?_, ht⟩
    simp only [Gen.Conv.toBoolean, ht]
    simp only [profileOf]
    by_cases hz : f.isZero = true
    · simp [hz, ofOptBool, Gen.Conv.ternParseBool]
    · by_cases h1 : f = .fin (FVal.unit : Int)
      · subst h1
        have hz' : (FVal.fin (FVal.unit : Int)).isZero = false := by simpa using hz
        simp [hz', ofOptBool, Gen.Conv.ternParseBool]
      · simp [hz, h1, ofOptBool]

/-- for a String: they are the fields of `profileOfText` (whatever its upper-cased text `u`) -/
theorem gen_profile_eq_model_text (s u : Bytes) :
    Gen.Conv.toIntegerStrictly (.str s) = ofOptInt (profileOfText s u).int? ∧ Gen.Conv.toFloat (.str s) = ofOptFlt (profileOfText s u).flt?
      ∧ Gen.Conv.toDatetime (.str s) = ofOptDt (profileOfText s u).dt? ∧ Gen.Conv.toBoolean (.str s) = ofOptBool (profileOfText s u).bool?
      ∧ Gen.Conv.ternary (.str s) = (profileOfText s u).tern := by
  have ht : Gen.Conv.ternary (.str s) = PF.strTernaryB s := by
    simp only [Gen.Conv.ternary, PF.strTernaryB]
    cases parseBoolStrict (PF.trimSpace s) with
    | none => rfl
    | some b => cases b <;> rfl
  refine ⟨?_, ?_, ?_, ?_, ht⟩
  · simp only [Gen.Conv.toIntegerStrictly, profileOfText]; cases PF.strToIntStrictB s <;> rfl
  · simp only [Gen.Conv.toFloat, profileOfText]; cases PF.strToFloat s <;> rfl
  · simp only [Gen.Conv.toDatetime, profileOfText]; cases PT.strToTime s <;> rfl
  · simp only [Gen.Conv.toBoolean, ht, profileOfText]
    cases PF.strTernaryB s <;> simp [ofOptBool, Gen.Conv.ternParseBool]

/-! ## the casts -/

theorem truncToInt64_none (f : FVal) : truncToInt64 f = none ↔ (f.isNaN || f.isInf) = true := by
  cases f <;> simp [truncToInt64, FVal.isNaN, FVal.isInf]
  split <;> simp

/-- INTEGER(x) -/
theorem gen_cast_integer_eq_model (v : Val) (hs : ∀ s, v ≠ .str s) : Gen.Conv.castInteger v = castInteger (profileOf v) := by
  cases v with
  | str s => exact absurd rfl (hs s)
  | flt f =>
    simp only [Gen.Conv.castInteger, Gen.Conv.toInteger, castInteger, profileOf, Gen.Conv.goInt64]
    cases h : truncToInt64 f with
    | none => rw [if_pos ((truncToInt64_none f).mp h)]
    | some i =>
      have : ¬ (f.isNaN || f.isInf) = true := fun c => by rw [(truncToInt64_none f).mpr c] at h; cases h
      rw [if_neg this]
  | _ => rfl

theorem gen_cast_integer_eq_model_text (s u : Bytes) : Gen.Conv.castInteger (.str s) = castInteger (profileOfText s u) := by
  simp only [Gen.Conv.castInteger, Gen.Conv.toInteger, castInteger, profileOfText, Gen.Conv.goInt64]
  cases PF.strToIntStrictB s with
  | some i => rfl
  | none =>
    cases PF.strToFloat s with
    | none => rfl
    | some f => cases h : truncToInt64 f <;> simp [h]

/-- FLOAT(x) -/
theorem gen_cast_float_eq_model (v : Val) (hs : ∀ s, v ≠ .str s) : Gen.Conv.castFloat v = castFloat (profileOf v) := by
  cases v with
  | str s => exact absurd rfl (hs s)
  | _ => rfl

theorem gen_cast_float_eq_model_text (s u : Bytes) : Gen.Conv.castFloat (.str s) = castFloat (profileOfText s u) := by
  simp only [Gen.Conv.castFloat, Gen.Conv.toFloat, castFloat, profileOfText]
  cases PF.strToFloat s <;> rfl

/-- BOOLEAN(x) and TERNARY(x) -/
theorem gen_cast_boolean_eq_model (v : Val) (hs : ∀ s, v ≠ .str s) :
    Gen.Conv.castBoolean v = castBoolean (profileOf v) ∧ Gen.Conv.castTernary v = castTernary (profileOf v) := by
  obtain ⟨_, _, _, hb, ht⟩ := gen_profile_eq_model v hs
  refine ⟨?_, by simp only [Gen.Conv.castTernary, castTernary, ht]⟩
  simp only [Gen.Conv.castBoolean, hb, castBoolean]
  cases (profileOf v).bool? <;> rfl

theorem gen_cast_boolean_eq_model_text (s u : Bytes) :
    Gen.Conv.castBoolean (.str s) = castBoolean (profileOfText s u) ∧ Gen.Conv.castTernary (.str s) = castTernary (profileOfText s u) := by
  obtain ⟨_, _, _, hb, ht⟩ := gen_profile_eq_model_text s u
  refine ⟨?_, by simp only [Gen.Conv.castTernary, castTernary, ht]⟩
  simp only [Gen.Conv.castBoolean, hb, castBoolean]
  cases (profileOfText s u).bool? <;> rfl

/-- DATETIME(x), one argument: the translated ladder and value.Float64ToTime are the model's -/
theorem gen_float64ToTime_eq_model (f : FVal) : Gen.Conv.float64ToTime f = float64ToTime f := rfl

theorem gen_cast_datetime_eq_model (v : Val) (hs : ∀ s, v ≠ .str s) : Gen.Conv.castDatetime v = castDatetime (profileOf v) := by
  cases v with
  | str s => exact absurd rfl (hs s)
  | int i => simp [Gen.Conv.castDatetime, Gen.Conv.toDatetime, Gen.Conv.toIntegerStrictly, Gen.Conv.timeFromUnixTime, castDatetime, profileOf]
  | flt f =>
    simp only [Gen.Conv.castDatetime, Gen.Conv.toDatetime, Gen.Conv.toIntegerStrictly, Gen.Conv.toFloat, castDatetime, profileOf]
    rfl
  | _ => rfl

theorem gen_cast_datetime_eq_model_text (s u : Bytes) : Gen.Conv.castDatetime (.str s) = castDatetime (profileOfText s u) := by
  simp only [Gen.Conv.castDatetime, Gen.Conv.toDatetime, Gen.Conv.toIntegerStrictly, Gen.Conv.toFloat, castDatetime, profileOfText]
  cases PT.strToTime s with
  | some d => rfl
  | none =>
    cases PF.strToIntStrictB s with
    | some i => simp [Gen.Conv.timeFromUnixTime]
    | none =>
      cases PF.strToFloat s with
      | none => rfl
      | some f => rfl

/-- STRING(x): the cell text of every value but NULL (datetimes in their zone), TRUE / FALSE / UNKNOWN for ternaries -/
theorem gen_cast_string_eq_model (v : Val) (off : Int) : Gen.Conv.castString v off = castStringFull v off := by
  cases v with
  | tern t => cases t <;> rfl
  | _ => rfl

/-- STRING(x) of an Integer, Float, Boolean, Datetime is the text a table-file cell holds for it -/
theorem cast_string_is_cell_text (v : Val) (off : Int) (h : (∃ i, v = .int i) ∨ (∃ f, v = .flt f) ∨ (∃ b, v = .bool b) ∨ (∃ d, v = .dt d) ∨ (∃ s, v = .str s)) :
    castStringFull v off = .str (cellText v false false off) := by
  rcases h with ⟨i, rfl⟩ | ⟨f, rfl⟩ | ⟨b, rfl⟩ | ⟨d, rfl⟩ | ⟨s, rfl⟩ <;> rfl

/-! ## value.Float64ToTime: the fraction of a negative float counts backwards (after the repair F114) -/

/-- DATETIME(-1.5) is 1.5 s before the epoch, DATETIME(-0.5) half a second before it, a negative whole number and a
    positive float as before: the instant is the printed decimal cut to nine fractional digits, sign included.
    (Before the repair the nanoseconds were ADDED to the negative seconds: -1.5 gave -0.5 s, -0.5 gave +0.5 s.) -/
theorem float64ToTime_counts_fraction_backwards :
    float64ToTime (.fin (-(3 * 2 ^ 1073))) = -1500000000 ∧ float64ToTime (.fin (-(2 ^ 1073))) = -500000000
      ∧ float64ToTime (.fin (3 * 2 ^ 1073)) = 1500000000 ∧ float64ToTime (.fin (-(2 ^ 1075))) = -2000000000
      ∧ float64ToTime .negz = 0 := by decide +kernel

/-- the instant of -x is minus the instant of x — on 2.25, 0.1, 1e-10 (ten fractional digits: cut to nine),
    123456789.987654321 (printed 123456789.98765433), 1e21 (beyond int64 seconds: clamped on both sides) -/
theorem float64ToTime_mirror_examples :
    float64ToTime (.fin (-(9 * 2 ^ 1072))) = - float64ToTime (.fin (9 * 2 ^ 1072))
      ∧ float64ToTime (.fin (-(3602879701896397 * 2 ^ 1019))) = - float64ToTime (.fin (3602879701896397 * 2 ^ 1019))
      ∧ float64ToTime (.fin (-(7737125245533627 * 2 ^ 988))) = 0 ∧ float64ToTime (.fin (7737125245533627 * 2 ^ 988)) = 0
      ∧ float64ToTime (.fin (-(1035630616144757 * 2 ^ 1051))) = -123456789987654330
      ∧ float64ToTime (.fin (1035630616144757 * 2 ^ 1051)) = 123456789987654330
      ∧ float64ToTime (.fin (476837158203125 * 2 ^ 1095)) = 9223372036854775807000000000
      ∧ float64ToTime (.fin (-(476837158203125 * 2 ^ 1095))) = -9223372036854775808000000000 := by decide +kernel

/-! ## the documented casting table (docs/_posts/2006-01-02-cast-functions.md), row by row -/

/-- one row of the documentation: function, type of the argument, which values, what the documentation says comes out —
    and that statement about the model -/
structure DocRow where
  fn : String
  type : String
  value : String
  after : String
  holds : Prop

structure CheckedRow where
  row : DocRow
  proof : row.holds

def T (s u : Bytes) : Profile := profileOfText s u

def checkedCasts : List CheckedRow := [
  -- STRING
  ⟨⟨"STRING", "Integer", "", "String representing a decimal integer", ∀ i off, castStringFull (.int i) off = .str (decText i)⟩, fun _ _ => rfl⟩,
  ⟨⟨"STRING", "Float", "", "String representing a floating-point decimal", ∀ f off, castStringFull (.flt f) off = .str (FF.fmtF f)⟩, fun _ _ => rfl⟩,
  ⟨⟨"STRING", "Datetime", "", "String formatted with RFC3339 with Nano Seconds", ∀ d off, castStringFull (.dt d) off = .str (FT.fmtTime d off)⟩, fun _ _ => rfl⟩,
  ⟨⟨"STRING", "Boolean", "", "'true' or 'false'", castStringFull (.bool true) 0 = .str [116, 114, 117, 101] ∧ castStringFull (.bool false) 0 = .str [102, 97, 108, 115, 101]⟩, ⟨rfl, rfl⟩⟩,
  ⟨⟨"STRING", "Ternary", "", "'TRUE', 'FALSE' and 'UNKNOWN'", castStringFull (.tern .T) 0 = .str [84, 82, 85, 69] ∧ castStringFull (.tern .F) 0 = .str [70, 65, 76, 83, 69]
      ∧ castStringFull (.tern .U) 0 = .str [85, 78, 75, 78, 79, 87, 78]⟩, ⟨rfl, rfl, rfl⟩⟩,
  ⟨⟨"STRING", "Null", "", "Null", castStringFull .null 0 = .null⟩, rfl⟩,
  -- INTEGER
  ⟨⟨"INTEGER", "String", "Representation of a decimal integer", "Integer represented by the string",
      ∀ s u i, (T s u).int? = some i → castInteger (T s u) = .int i⟩, fun s u i h => by simp [castInteger, T, profileOfText] at h ⊢; simp [h]⟩,
  ⟨⟨"INTEGER", "String", "Representation of a floating-point decimal or its exponential notation", "Integer with decimal places rounded down (toward zero)",
      ∀ s u f t, (T s u).int? = none → (T s u).flt? = some f → truncToInt64 f = some t → castInteger (T s u) = .int t⟩,
    fun s u f t h1 h2 h3 => by simp [castInteger, T, profileOfText] at h1 h2 ⊢; simp [h1, h2, h3]⟩,
  ⟨⟨"INTEGER", "String", "Other values", "Null", ∀ s u, (T s u).int? = none → (T s u).flt? = none → castInteger (T s u) = .null⟩,
    fun s u h1 h2 => by simp [castInteger, T, profileOfText] at h1 h2 ⊢; simp [h1, h2]⟩,
  ⟨⟨"INTEGER", "Float", "+Inf, -Inf, NaN", "Null", castInteger (profileOf (.flt .pinf)) = .null ∧ castInteger (profileOf (.flt .ninf)) = .null
      ∧ castInteger (profileOf (.flt .nan)) = .null⟩, ⟨rfl, rfl, rfl⟩⟩,
  ⟨⟨"INTEGER", "Float", "Other values", "Integer with decimal places rounded down (toward zero)",
      ∀ f t, truncToInt64 f = some t → castInteger (profileOf (.flt f)) = .int t⟩, fun f t h => by simp [castInteger, profileOf, h]⟩,
  ⟨⟨"INTEGER", "Datetime", "", "Integer representing its unix time", ∀ d, castInteger (profileOf (.dt d)) = .int (d / 1000000000)⟩, fun _ => rfl⟩,
  ⟨⟨"INTEGER", "Boolean", "", "Null", ∀ b, castInteger (profileOf (.bool b)) = .null⟩, fun _ => rfl⟩,
  ⟨⟨"INTEGER", "Ternary", "", "Null", ∀ t, castInteger (profileOf (.tern t)) = .null⟩, fun _ => rfl⟩,
  ⟨⟨"INTEGER", "Null", "", "Null", castInteger (profileOf .null) = .null⟩, rfl⟩,
  -- FLOAT
  ⟨⟨"FLOAT", "String", "Representation of a floating-point decimal or its exponential notation", "Float represented by the string",
      ∀ s u f, (T s u).flt? = some f → castFloat (T s u) = .flt f⟩, fun s u f h => by simp [castFloat, T, profileOfText] at h ⊢; simp [h]⟩,
  ⟨⟨"FLOAT", "String", "'Inf', '+Inf'", "+Inf", ∀ u, castFloat (T [73, 110, 102] u) = .flt .pinf ∧ castFloat (T [43, 73, 110, 102] u) = .flt .pinf⟩,
    fun u => ⟨by show castFloat (profileOfText [73, 110, 102] u) = _; simp only [castFloat, profileOfText]; decide,
              by show castFloat (profileOfText [43, 73, 110, 102] u) = _; simp only [castFloat, profileOfText]; decide⟩⟩,
  ⟨⟨"FLOAT", "String", "'-Inf'", "-Inf", ∀ u, castFloat (T [45, 73, 110, 102] u) = .flt .ninf⟩,
    fun u => by show castFloat (profileOfText [45, 73, 110, 102] u) = _; simp only [castFloat, profileOfText]; decide⟩,
  ⟨⟨"FLOAT", "String", "'NaN'", "NaN", ∀ u, castFloat (T [78, 97, 78] u) = .flt .nan⟩,
    fun u => by show castFloat (profileOfText [78, 97, 78] u) = _; simp only [castFloat, profileOfText]; decide⟩,
  ⟨⟨"FLOAT", "String", "Other values", "Null", ∀ s u, (T s u).flt? = none → castFloat (T s u) = .null⟩,
    fun s u h => by simp [castFloat, T, profileOfText] at h ⊢; simp [h]⟩,
  ⟨⟨"FLOAT", "Integer", "", "Float equivalent to the integer", ∀ i, castFloat (profileOf (.int i)) = .flt (FVal.ofInt i)⟩, fun _ => rfl⟩,
  ⟨⟨"FLOAT", "Datetime", "", "Float representing its unix time (whole seconds)", ∀ d, d % 1000000000 = 0 → castFloat (profileOf (.dt d)) = .flt (FVal.ofInt (d / 1000000000))⟩,
    fun d h => by simp [castFloat, profileOf, h]⟩,
  ⟨⟨"FLOAT", "Boolean", "", "Null", ∀ b, castFloat (profileOf (.bool b)) = .null⟩, fun _ => rfl⟩,
  ⟨⟨"FLOAT", "Ternary", "", "Null", ∀ t, castFloat (profileOf (.tern t)) = .null⟩, fun _ => rfl⟩,
  ⟨⟨"FLOAT", "Null", "", "Null", castFloat (profileOf .null) = .null⟩, rfl⟩,
  -- DATETIME
  ⟨⟨"DATETIME", "String", "Datetime Formats", "Datetime represented by the string", ∀ s u d, (T s u).dt? = some d → castDatetime (T s u) = .dt d⟩,
    fun s u d h => by simp [castDatetime, T, profileOfText] at h ⊢; simp [h]⟩,
  ⟨⟨"DATETIME", "String", "Representation of a decimal integer", "Datetime represented by the integer value as a unix time",
      ∀ s u i, (T s u).dt? = none → (T s u).int? = some i → castDatetime (T s u) = .dt (i * 1000000000)⟩,
    fun s u i h1 h2 => by simp [castDatetime, T, profileOfText] at h1 h2 ⊢; simp [h1, h2]⟩,
  ⟨⟨"DATETIME", "String", "Representation of a floating-point decimal or its exponential notation", "Datetime represented by the float value as a unix time (value.Float64ToTime: the printed decimal cut to nine fractional digits)",
      ∀ s u f, (T s u).dt? = none → (T s u).int? = none → (T s u).flt? = some f → (f.isNaN || f.isInf) = false → castDatetime (T s u) = .dt (float64ToTime f)⟩,
    fun s u f h1 h2 h3 h4 => by
      simp only [Bool.or_eq_false_iff] at h4
      simp [castDatetime, T, profileOfText] at h1 h2 h3 ⊢; simp [h1, h2, h3, h4.1, h4.2]⟩,
  ⟨⟨"DATETIME", "String", "Other values", "Null", ∀ s u, (T s u).dt? = none → (T s u).int? = none → (T s u).flt? = none → castDatetime (T s u) = .null⟩,
    fun s u h1 h2 h3 => by simp [castDatetime, T, profileOfText] at h1 h2 h3 ⊢; simp [h1, h2, h3]⟩,
  ⟨⟨"DATETIME", "Integer", "", "Datetime represented by the integer value as a unix time", ∀ i, castDatetime (profileOf (.int i)) = .dt (i * 1000000000)⟩, fun _ => rfl⟩,
  ⟨⟨"DATETIME", "Float", "+Inf, -Inf, NaN", "Null", castDatetime (profileOf (.flt .pinf)) = .null ∧ castDatetime (profileOf (.flt .ninf)) = .null
      ∧ castDatetime (profileOf (.flt .nan)) = .null⟩, ⟨rfl, rfl, rfl⟩⟩,
  ⟨⟨"DATETIME", "Float", "Other values", "Datetime represented by the float value as a unix time (value.Float64ToTime)",
      ∀ f, (f.isNaN || f.isInf) = false → castDatetime (profileOf (.flt f)) = .dt (float64ToTime f)⟩, fun f h => by
      simp only [Bool.or_eq_false_iff] at h
      simp [castDatetime, profileOf, h.1, h.2]⟩,
  ⟨⟨"DATETIME", "Boolean", "", "Null", ∀ b, castDatetime (profileOf (.bool b)) = .null⟩, fun b => by cases b <;> rfl⟩,
  ⟨⟨"DATETIME", "Ternary", "", "Null", ∀ t, castDatetime (profileOf (.tern t)) = .null⟩, fun t => by cases t <;> rfl⟩,
  ⟨⟨"DATETIME", "Null", "", "Null", castDatetime (profileOf .null) = .null⟩, rfl⟩,
  -- BOOLEAN
  ⟨⟨"BOOLEAN", "String", "'1', 't', 'true'", "true", ∀ u, castBoolean (T [49] u) = .bool true ∧ castBoolean (T [116] u) = .bool true ∧ castBoolean (T [116, 114, 117, 101] u) = .bool true⟩,
    fun u => ⟨by show castBoolean (profileOfText [49] u) = _; simp only [castBoolean, profileOfText]; decide,
              by show castBoolean (profileOfText [116] u) = _; simp only [castBoolean, profileOfText]; decide,
              by show castBoolean (profileOfText [116, 114, 117, 101] u) = _; simp only [castBoolean, profileOfText]; decide⟩⟩,
  ⟨⟨"BOOLEAN", "String", "'0', 'f', 'false'", "false", ∀ u, castBoolean (T [48] u) = .bool false ∧ castBoolean (T [102] u) = .bool false ∧ castBoolean (T [102, 97, 108, 115, 101] u) = .bool false⟩,
    fun u => ⟨by show castBoolean (profileOfText [48] u) = _; simp only [castBoolean, profileOfText]; decide,
              by show castBoolean (profileOfText [102] u) = _; simp only [castBoolean, profileOfText]; decide,
              by show castBoolean (profileOfText [102, 97, 108, 115, 101] u) = _; simp only [castBoolean, profileOfText]; decide⟩⟩,
  ⟨⟨"BOOLEAN", "String", "Other values", "Null", ∀ s u, (T s u).tern = .U → castBoolean (T s u) = .null⟩,
    fun s u h => by simp [castBoolean, T, profileOfText] at h ⊢; simp [h]⟩,
  ⟨⟨"BOOLEAN", "Integer", "1 / 0 / other", "true / false / Null", castBoolean (profileOf (.int 1)) = .bool true ∧ castBoolean (profileOf (.int 0)) = .bool false
      ∧ ∀ i, i ≠ 0 → i ≠ 1 → castBoolean (profileOf (.int i)) = .null⟩, ⟨rfl, rfl, fun i h0 h1 => by simp [castBoolean, profileOf, h0, h1]⟩⟩,
  ⟨⟨"BOOLEAN", "Float", "1 / 0 / other", "true / false / Null", castBoolean (profileOf (.flt (.fin (FVal.unit : Int)))) = .bool true
      ∧ castBoolean (profileOf (.flt (.fin 0))) = .bool false ∧ castBoolean (profileOf (.flt .negz)) = .bool false
      ∧ ∀ f, f.isZero = false → f ≠ .fin (FVal.unit : Int) → castBoolean (profileOf (.flt f)) = .null⟩,
    ⟨by decide +kernel, rfl, rfl, fun f h0 h1 => by simp [castBoolean, profileOf, h0, h1]⟩⟩,
  ⟨⟨"BOOLEAN", "Datetime", "", "Null", ∀ d, castBoolean (profileOf (.dt d)) = .null⟩, fun _ => rfl⟩,
  ⟨⟨"BOOLEAN", "Ternary", "TRUE / FALSE / UNKNOWN", "true / false / Null", castBoolean (profileOf (.tern .T)) = .bool true ∧ castBoolean (profileOf (.tern .F)) = .bool false
      ∧ castBoolean (profileOf (.tern .U)) = .null⟩, ⟨rfl, rfl, rfl⟩⟩,
  ⟨⟨"BOOLEAN", "Null", "", "Null", castBoolean (profileOf .null) = .null⟩, rfl⟩,
  -- TERNARY
  ⟨⟨"TERNARY", "String", "'1', 't', 'true'", "TRUE", ∀ u, castTernary (T [49] u) = .tern .T ∧ castTernary (T [116] u) = .tern .T ∧ castTernary (T [116, 114, 117, 101] u) = .tern .T⟩,
    fun u => ⟨by show castTernary (profileOfText [49] u) = _; simp only [castTernary, profileOfText]; decide,
              by show castTernary (profileOfText [116] u) = _; simp only [castTernary, profileOfText]; decide,
              by show castTernary (profileOfText [116, 114, 117, 101] u) = _; simp only [castTernary, profileOfText]; decide⟩⟩,
  ⟨⟨"TERNARY", "String", "'0', 'f', 'false'", "FALSE", ∀ u, castTernary (T [48] u) = .tern .F ∧ castTernary (T [102] u) = .tern .F ∧ castTernary (T [102, 97, 108, 115, 101] u) = .tern .F⟩,
    fun u => ⟨by show castTernary (profileOfText [48] u) = _; simp only [castTernary, profileOfText]; decide,
              by show castTernary (profileOfText [102] u) = _; simp only [castTernary, profileOfText]; decide,
              by show castTernary (profileOfText [102, 97, 108, 115, 101] u) = _; simp only [castTernary, profileOfText]; decide⟩⟩,
  ⟨⟨"TERNARY", "String", "Other values", "UNKNOWN", ∀ s u, parseBoolStrict (PF.trimSpace s) = none → castTernary (T s u) = .tern .U⟩,
    fun s u h => by simp [castTernary, T, profileOfText, PF.strTernaryB, h]⟩,
  ⟨⟨"TERNARY", "Integer", "1 / 0 / other", "TRUE / FALSE / UNKNOWN", castTernary (profileOf (.int 1)) = .tern .T ∧ castTernary (profileOf (.int 0)) = .tern .F
      ∧ ∀ i, i ≠ 0 → i ≠ 1 → castTernary (profileOf (.int i)) = .tern .U⟩, ⟨rfl, rfl, fun i h0 h1 => by simp [castTernary, profileOf, h0, h1]⟩⟩,
  ⟨⟨"TERNARY", "Float", "1 / 0 / other", "TRUE / FALSE / UNKNOWN", castTernary (profileOf (.flt (.fin (FVal.unit : Int)))) = .tern .T
      ∧ castTernary (profileOf (.flt (.fin 0))) = .tern .F
      ∧ ∀ f, f.isZero = false → f ≠ .fin (FVal.unit : Int) → castTernary (profileOf (.flt f)) = .tern .U⟩,
    ⟨by decide +kernel, rfl, fun f h0 h1 => by simp [castTernary, profileOf, h0, h1]⟩⟩,
  ⟨⟨"TERNARY", "Datetime", "", "UNKNOWN", ∀ d, castTernary (profileOf (.dt d)) = .tern .U⟩, fun _ => rfl⟩,
  ⟨⟨"TERNARY", "Boolean", "true / false", "TRUE / FALSE", castTernary (profileOf (.bool true)) = .tern .T ∧ castTernary (profileOf (.bool false)) = .tern .F⟩, ⟨rfl, rfl⟩⟩,
  ⟨⟨"TERNARY", "Null", "", "UNKNOWN", castTernary (profileOf .null) = .tern .U⟩, rfl⟩]

/-- the documented casting table -/
def documentedCasts : List DocRow := checkedCasts.map (·.row)

/-- **the model agrees with every row of the documented casting table** (51 rows; the two rows "float as a unix time"
    of DATETIME are stated through value.Float64ToTime — see `float64ToTime_counts_fraction_backwards`) -/
theorem documented_casts_hold : ∀ r ∈ documentedCasts, r.holds := by
  intro r hr
  obtain ⟨c, _, rfl⟩ := List.mem_map.mp hr
  exact c.proof

example : documentedCasts.length = 51 := by simp [documentedCasts, checkedCasts]

end Csvq.C06
