/-
  C14 — evaluation never changes what it only reads: pooled values, shared syntax trees.

  Proved here (machine-checked, all operation sequences):
    * `pool_safe` — under the Discard discipline every read through a held reference returns the
      value the reader was given behind that address, however objects are recycled in between;
      `pool_never_free_and_live` is the invariant behind it; `premature_discard_counterexample`
      shows the property fails without the discipline (non-vacuity);
    * `discard_facts_ok`, `conversions_fresh` — every `value.Discard(x)` call site of lib/query and
      lib/value, regenerated from /repo on every run, obeys the discipline syntactically (x is a
      local defined only by fresh-allocating conversions, not mentioned after the Discard, never
      stored / captured / handed to something that may keep it), and the conversions return a
      `value.New*` result on every path;
    * `ast_readonly` — no assignment of lib/query writes through a `parser.*` value into memory
      shared with the stored program; `ast_write_counterexample` / `ast_copy_ok` show in the model
      why such a write is observable and why writing to a private copy is not.

    * `every_statement_kind_has_workload`, `every_operand_slot_has_workload` — the statement kinds and the
      operand positions (Node.Field filled from a value symbol) of lib/parser/parser.y and the cases of
      `Processor.ExecuteStatement`, regenerated on every run, all have a workload in the dynamic cross-check
      (harness/cmd/c14/workloads.go, read by the same extractor): a statement kind or operand position added
      to the grammar without one breaks the obligation.

  Trusted (named in the evidence): the extractor's step "syntactic fact ⇒ behaviour of the running
  program" (in particular: callees that receive a syntax tree or a value do not modify / keep it
  beyond what the facts cover), `sync.Pool` behaves as a free list, the Go memory model.
  Cross-checked dynamically by harness/cmd/c14 (every statement evaluated twice).  Level: partial.
-/
import Csvq.Model.Pool
import Csvq.Lemmas.Pool
import Csvq.Gen.DiscardFacts
import Csvq.Gen.AstWriteFacts
import Csvq.Gen.StmtKinds

namespace Csvq.C14
open Csvq.Pool

/-! ## 1. The pool -/

/-- **pool_never_free_and_live.**  In every state reached by a disciplined operation sequence no
    address is both in the free list and referenced by a client (and the free list has no duplicates,
    so no object is handed out twice). -/
theorem pool_never_free_and_live (ops : List Op) (hd : Disciplined init ops) :
    (∀ a, a ∈ (run init ops).free → ∀ c, a ∉ (run init ops).refs c) ∧ (run init ops).free.Nodup :=
  let h := run_inv ops init inv_init hd
  ⟨h.freeNotLive, h.freeNodup⟩

/-- **pool_safe.**  For ALL operation sequences that obey the discipline (an address is discarded
    only by a client holding it while nobody else references it; the discarder's reference ends
    there), every read returns the value written when that address was issued to the reader (or to
    the client that handed it on): whatever `new`/`discard` traffic happened in between. -/
theorem pool_safe (pre post : List Op) (c : Client) (a : Addr)
    (hd : Disciplined init (pre ++ Op.read c a :: post)) :
    readResult (run init pre) a = some ((run init pre).exp c a) := by
  obtain ⟨hpre, hrest⟩ := disciplined_append pre (Op.read c a :: post) init hd
  have hinv := run_inv pre init inv_init hpre
  exact hinv.expected c a hrest.1

/-- after `new c v` the reader is given `v` behind the issued address, and sees it -/
theorem new_then_read (pre : List Op) (c : Client) (v : Val) :
    let s := step (run init pre) (.new c v)
    let a := (alloc (run init pre)).1
    a ∈ s.refs c ∧ s.exp c a = v ∧ readResult s a = some v := by
  simp [step, readResult]

/-- Without the discipline the property fails: client 0 creates an object, hands it to client 1
    (stores it in a table cell), discards it although client 1 still references it; the next `new`
    recycles the object and client 1 reads 7 where it was given 5. -/
theorem premature_discard_counterexample :
    let ops := [Op.new 0 5, Op.share 0 1 0, Op.discard 0 0, Op.new 2 7]
    readResult (run init ops) 0 = some 7 ∧ (run init ops).exp 1 0 = 5 ∧ 0 ∈ (run init ops).refs 1 ∧
    ¬ Disciplined init ops := by
  refine ⟨by decide, by decide, by decide, ?_⟩
  intro h
  have h3 := h.2.2.1
  exact h3.2 1 (by decide) (by decide)

/-! ## 2. The generated Discard facts -/

set_option maxRecDepth 1000000 in
/-- **discard_facts_ok.**  Every `value.Discard(x)` call site: `x` fresh ∧ not used afterwards ∧ does
    not escape. -/
theorem discard_facts_ok : Gen.discardFacts.all DiscardFact.ok = true := by decide

set_option maxRecDepth 1000000 in
/-- the extractor did find the call sites (guards against a vacuous `discard_facts_ok`) -/
theorem discard_facts_nonempty : 50 ≤ Gen.discardFacts.length := by decide

/-- **no_double_discard.**  No function of lib/query / lib/value hands one value to `value.Discard` twice on one
    path: no `defer value.Discard(x)` together with an explicit `Discard(x)` the same execution passes, no two
    Discards of `x` without a new value in between.  (A value released twice sits in the pool twice; the next two
    allocations of its type are one object — poisoning cannot see that, no discarded object is read.)
    Reported as `doublediscard:<file>:<function>:<variable>`. -/
theorem no_double_discard : Gen.doubleDiscardFacts = [] := by decide

/-- **conversions_fresh.**  Each of `value.ToInteger`, `ToIntegerStrictly`, `ToFloat`, `ToDatetime`,
    `ToBoolean`, `ToString` returns the result of a `value.New*` call on every path (never its
    argument), and all six were found. -/
theorem conversions_fresh :
    Gen.conversionFacts.all (fun c => c.2.1) = true ∧
    Gen.conversionFacts.map (·.1) = ["ToBoolean", "ToDatetime", "ToFloat", "ToInteger", "ToIntegerStrictly", "ToString"] := by
  decide

/-! ## 3. Syntax trees -/

/-- **ast_readonly.**  No assignment (nor `copy` / in-place sort) of lib/query writes through a
    `parser.*` value into memory shared with the stored program: every such write stays in a local
    struct copy or in memory made in the same function (`Gen.astLocalWrites`).  (Pre-finding F8 —
    `Analyze` storing `fn.Args[0]` through the shared argument slice — was repaired in /repo, commit
    02f8662; a new shared write makes this obligation fail and is reported by vt/p_c14.py as
    `astwrite:<file>:<function>:<lhs>`.) -/
theorem ast_readonly : Gen.astWriteFacts = [] := by decide

/-- **cells_never_overwritten.**  No assignment of lib/query stores into an element of an EXISTING cell
    (`…RecordSet[r][f][0] = v`): cells are shared by every shallow copy of a cached table (open cursors,
    `DECLARE … VIEW AS SELECT` tables, the transaction's restore point, rows already read), so a new value
    must arrive as a new cell (`NewCell`); and no new record set is built over a record of an existing table
    without copying it (`RecordSet{view.RecordSet[i]}`), because what the new view then does in place (Fix,
    Select) happens to the table's own record.  An offending site is reported as
    `cellwrite:<file>:<function>:<lhs>`. -/
theorem cells_never_overwritten : Gen.cellWriteFacts = [] := by decide

/-- **scope_closed_once.**  No function hands the current block / node of a scope back to its pool
    (`CloseCurrentBlock`, `CloseCurrentNode`) and also passes that scope to a callee that does the same: a
    block put into the pool twice is later issued to two live scopes, which then share their variables.
    Reported as `doubleclose:<file>:<function>:<scope>.<method>`. -/
theorem scope_closed_once : Gen.doubleCloseFacts = [] := by decide

/-- **getters_return_copies.**  Every `Get*` accessor of lib/query that hands out a stored view (inline tables
    of a WITH clause, temporary tables, cached file views, stdin views) returns `view.Copy()` — own record set,
    own records — or the result of another such accessor, on every path; and the two that own a container
    (`InlineTableMap.Get`, `ViewMap.Get`) were found.  Evaluation filters, sorts, projects and extends the
    records of the view it works on in place, so a stored view handed out uncopied is rewritten by merely
    reading it.  Reported as `getter:<file>:<function>:<expression>`. -/
theorem getters_return_copies :
    Gen.getterFacts.all (fun f => f.how == "copy" || f.how == "delegated") = true ∧
    Gen.getterFacts.any (fun f => f.fn == "InlineTableMap.Get" && f.how == "copy") = true ∧
    Gen.getterFacts.any (fun f => f.fn == "ViewMap.Get" && f.how == "copy") = true := by decide

/-! ## 4. What the dynamic cross-check executes is derived from the grammar -/

set_option maxRecDepth 1000000 in
/-- **every_statement_kind_has_workload.**  Every node type that parser.y builds as a statement (productions typed
    `<statement>`, plus a bare expression used as a statement) and every case of the type switch in
    `Processor.ExecuteStatement` is named by a workload of harness/cmd/c14/workloads.go (which the harness executes
    twice from one syntax tree, re-reading every variable / table cell / cursor row / tree literal in between; it
    checks on every run that the declared kind does occur in the parsed template).  Reported by vt/p_c14.py as
    `workload:missing:statement:<Kind>`. -/
theorem every_statement_kind_has_workload :
    (Gen.grammarStatementKinds ++ Gen.executedStatementKinds).all (fun k => Gen.workloadStatementKinds.contains k) = true := by
  decide

set_option maxRecDepth 1000000 in
/-- **every_operand_slot_has_workload.**  Every position `Node.Field` that an action of parser.y fills from a grammar
    symbol deriving an arbitrary scalar expression (LIMIT n / n PERCENT, OFFSET, FETCH ABSOLUTE n, SET @%ENV TO v,
    PRINTF format / values, function / aggregate / analytic arguments, CASE, IN lists, BETWEEN bounds, LIKE
    patterns, …) has a workload whose hole is at that position (checked on the parsed template on every run); the
    harness fills the hole with operands of every value type held as tree literal, variable, cursor-fetched
    variable and table cell.  Reported as `workload:missing:slot:<Node.Field>`. -/
theorem every_operand_slot_has_workload :
    Gen.operandSlots.all (fun s => Gen.workloadSlots.contains s) = true := by
  decide

set_option maxRecDepth 1000000 in
/-- the extractor did find the grammar (guards against vacuous coverage theorems): the statement kinds, the operand
    positions and the value symbols include the ones known to exist -/
theorem grammar_facts_nonempty :
    50 ≤ Gen.grammarStatementKinds.length ∧ 50 ≤ Gen.executedStatementKinds.length ∧ 60 ≤ Gen.operandSlots.length ∧
    ["SetEnvVar", "SetFlag", "Chdir", "Execute", "Source", "Trigger", "SelectQuery", "FetchCursor", "BareExpression"].all
      (fun k => Gen.grammarStatementKinds.contains k) = true ∧
    ["LimitClause.Value", "OffsetClause.Value", "SetEnvVar.Value", "FetchPosition.Number", "AnalyticFunction.Args",
     "ListFunction.Args", "JsonQuery.Query", "VariableAssignment.Value", "CaseExprWhen.Condition", "ValueList.Values",
     "Between.Low", "Like.Pattern", "Function.Args", "Concat.Items", "ElseIf.Condition"].all
      (fun s => Gen.operandSlots.contains s) = true ∧
    ["substantial_value", "value", "values", "arguments"].all (fun s => Gen.valueSymbols.contains s) = true := by
  decide

/-- Why read-only trees matter (a statement about the MODEL): with an in-place store into the shared
    argument list the select clause no longer finds the function under the identifier registered a
    moment earlier, and the program text has changed (the shape of the repaired defect F8). -/
theorem ast_write_counterexample (rest : List Arg) :
    lookupFinds (analyzeInPlace (.allColumns :: rest)) = false ∧
    (analyzeInPlace (.allColumns :: rest)).2 ≠ .allColumns :: rest := by
  constructor
  · simp [lookupFinds, analyzeInPlace, identifier]
  · simp [analyzeInPlace]

/-- on a private copy of the argument list the look-up succeeds and the program is unchanged, for all
    argument lists -/
theorem ast_copy_ok (args : List Arg) :
    lookupFinds (analyzeOnCopy args) = true ∧ (analyzeOnCopy args).2 = args := by
  simp [lookupFinds, analyzeOnCopy, identifier]

end Csvq.C14
