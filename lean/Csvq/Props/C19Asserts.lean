/-
  C19 (unchecked type assertions) — the class of F96: `csvq fields "(t)"` was four unchecked `x.(T)` on a tree whose shape depends
  on the input.  The earlier fact family listed lib/action and built_in_command.go only, per function and expression with a COUNT,
  and its reviewed list had been filled by hand — the four assertions of ShowFields were IN it ("the parser guarantees the type"):
  a review by reading, with nothing mechanical behind the word "guarantees".  This file replaces it.

  extract/errfacts (assertsites.go, grammar.go) regenerates ONE fact per unchecked assertion `x.(T)` (no comma-ok, not the
  `x.(type)` of a type switch) of the hand-written files of lib/query, lib/action, lib/cli, lib/parser, lib/value, lib/json,
  lib/option — file, function, line, occurrence, x, T — with its guard, classified syntactically:

    inCase     inside `case T:` of a type switch over the same expression;
    afterOk    dominated by a successful `_, ok := x.(T)`;
    oneOf src  the dynamic type of x is one of the finite set `Gen.dynSources[src]`:
                 func:<f>      the concrete types of f's return statements (through calls; `!ok` = only the returns that hand
                               back a nil error, used once `err == nil` is established): value.ToInteger ↦ *Integer | *Null, …
                 field:<N.F>,  what parser.y's actions (fixpoint over the productions) and every composite literal / assignment
                 elem:<N.F>    of the module store in field F of parser node N (the GRAMMAR CONTRACT), nil if left out;
                 syncmap:<W>,  what is ever stored into the SyncMap wrapper W / the sync.Pool variable P (New and every Put);
                 pool:<P>
                 var:<f.x>     everything function f assigns to its local x;
               minus what dominating tests exclude: `!value.IsNull(x)` ⇒ not *value.Null (IsNull is `v == null`, the one *Null the
               package ever makes: checked by the extractor), `x != nil` ⇒ not nil;
    keyed src  x was fetched BY NAME from a function that picks the type of its result by that name
               (`switch strings.ToUpper(name) { case K: val = <value> … }`: Transaction.GetFlag, GetRuntimeInformation; table
               `Gen.keyedSources`: K ↦ the types stored under K) and the site stands in `case K1, K2:` of a switch over the same name;
    unknown    anything else.

  `assertion_sites_ok`: every site is safe by its class (checker `AssertSite.ok`, proved sound: `assertion_site_safe`), except the
  sites listed ONE BY ONE below: `knownAssertSites` (reachable with another dynamic type: defects, with the input) and
  `reviewedAssertSites` (guarded by something outside the classes, each group with its argument).  Two genuine defects were found
  through these facts (quoted `JSON_OBJECT`(…), DELETE FROM (t)); both are repaired in /repo.  A new unchecked assertion, or a
  guard that no longer dominates, breaks the obligation and names the site.
-/
import Csvq.Gen.ErrFacts
import Csvq.Lemmas.ErrFacts

namespace Csvq.C19
open Csvq.ErrFacts

/-! ## the per-class lemmas -/

/-- inside `case T:` of a type switch over x (the clause is taken exactly when `x.(T)` would succeed) the assertion succeeds -/
theorem assertion_in_case_ok (s : AssertSite) (hg : s.guard = .inCase) (dyn : String)
    (h : s.admits Gen.dynSources Gen.keyedSources Gen.assertImplements dyn) : Succeeds Gen.assertImplements dyn s.typ := by
  unfold AssertSite.admits at h; rw [hg] at h; exact h

/-- behind a successful `_, ok := x.(T)` the assertion succeeds -/
theorem assertion_after_ok_ok (s : AssertSite) (hg : s.guard = .afterOk) (dyn : String)
    (h : s.admits Gen.dynSources Gen.keyedSources Gen.assertImplements dyn) : Succeeds Gen.assertImplements dyn s.typ := by
  unfold AssertSite.admits at h; rw [hg] at h; exact h

/-- a value from a source with a finite set of possible types: if every type the dominating tests leave is (or implements) T,
    the assertion succeeds on each of them -/
theorem assertion_one_of_ok (s : AssertSite) (src : String) (excl ts : List String) (hg : s.guard = .oneOf src excl)
    (hl : lookupSrc Gen.dynSources src = some ts) (hok : s.ok Gen.dynSources Gen.keyedSources Gen.assertImplements = true)
    (dyn : String) (hd : dyn ∈ ts) (hx : dyn ∉ excl) : Succeeds Gen.assertImplements dyn s.typ := by
  apply AssertSite.ok_sound _ _ _ s hok dyn
  unfold AssertSite.admits
  rw [hg]
  simp only
  rw [hl]
  exact ⟨hd, hx⟩

/-- a value fetched by name, asserted inside `case <keys>:` of a switch over that name: if everything the producer stores under each
    of these keys is (or implements) T, the assertion succeeds -/
theorem assertion_keyed_ok (s : AssertSite) (src : String) (keys : List String) (hg : s.guard = .keyed src keys)
    (hok : s.ok Gen.dynSources Gen.keyedSources Gen.assertImplements = true)
    (dyn k : String) (hk : k ∈ keys) (hd : ∀ ts, lookupKeyed Gen.keyedSources src k = some ts → dyn ∈ ts) :
    Succeeds Gen.assertImplements dyn s.typ := by
  apply AssertSite.ok_sound _ _ _ s hok dyn
  unfold AssertSite.admits
  rw [hg]
  exact ⟨k, hk, hd⟩

/-- the conversion functions of lib/value hand back their target type or *Null (extracted from their return statements) -/
theorem conversion_results :
    lookupSrc Gen.dynSources "func:value.ToInteger" = some ["*value.Integer", "*value.Null"] ∧
    lookupSrc Gen.dynSources "func:value.ToIntegerStrictly" = some ["*value.Integer", "*value.Null"] ∧
    lookupSrc Gen.dynSources "func:value.ToFloat" = some ["*value.Float", "*value.Null"] ∧
    lookupSrc Gen.dynSources "func:value.ToString" = some ["*value.Null", "*value.String"] ∧
    lookupSrc Gen.dynSources "func:value.ToBoolean" = some ["*value.Boolean", "*value.Null"] ∧
    lookupSrc Gen.dynSources "func:value.ToDatetime" = some ["*value.Datetime", "*value.Null"] := by decide +kernel

/-- **assertion_after_notnull_ok.**  `v := value.ToX(p)` … `!value.IsNull(v)` … `v.(*value.X)`: a source that yields T or *Null,
    with *Null excluded by the dominating test, only leaves T -/
theorem assertion_after_notnull_ok (s : AssertSite) (src : String) (excl : List String) (hg : s.guard = .oneOf src excl)
    (hl : lookupSrc Gen.dynSources src = some [s.typ, "*value.Null"] ∨ lookupSrc Gen.dynSources src = some ["*value.Null", s.typ])
    (hnull : "*value.Null" ∈ excl) (dyn : String) (h : s.admits Gen.dynSources Gen.keyedSources Gen.assertImplements dyn) (hnn : dyn ≠ "nil") :
    Succeeds Gen.assertImplements dyn s.typ := by
  unfold AssertSite.admits at h
  rw [hg] at h
  simp only at h
  cases hl with
  | inl hl =>
    rw [hl] at h
    obtain ⟨hm, hx⟩ := h
    simp only [List.mem_cons, List.mem_nil_iff, or_false] at hm
    cases hm with
    | inl e => exact ⟨hnn, Or.inl e⟩
    | inr e => exact absurd (e ▸ hnull) hx
  | inr hl =>
    rw [hl] at h
    obtain ⟨hm, hx⟩ := h
    simp only [List.mem_cons, List.mem_nil_iff, or_false] at hm
    cases hm with
    | inl e => exact absurd (e ▸ hnull) hx
    | inr e => exact ⟨hnn, Or.inl e⟩

/-! ## the sites -/

/-- sites that ARE reached with another dynamic type (each a `[Fatal Error] interface conversion`): none on the present tree.
    Two were found by these facts and repaired in /repo (recorded as F107, F108):

    * lib/query/view.go View.Select (parseWildcard) `v.(parser.Field)` — csvq 'SELECT `JSON_OBJECT`(c1) FROM t': the token
      JSON_OBJECT '(' fields ')' fills Function.Args with Field nodes, a BACK-QUOTED name goes through identifier '(' arguments ')'
      (plain values), evalFunction still dispatched on the name and JsonObject handed fn.Args to View.Select as SelectClause.Fields
      (found as: elem:parser.SelectClause.Fields received every expression type; JsonObject now wraps plain arguments in a Field,
      and the table entry is Field alone).
    * lib/query/query.go Delete `v.(parser.Table)` — csvq 'DELETE FROM (t)': without a table list DELETE takes FromClause.Tables
      as the tables to delete from, and the grammar's `table` may be a parenthesised table (found as:
      elem:parser.DeleteQuery.Tables = Table | Parentheses; the assertion now has the comma-ok form). -/
def knownAssertSites : List AssertRef := []

/-- sites guarded by something outside the classes, ONE BY ONE, by kind of guard:

    A  ShowObjects `p.(*value.Integer)` in the `default:` clause of its switch over the runtime-information name: the names it
       loops over are the constant list RuntimeInformatinList, GetRuntimeInformation returned no error (so the name is one of its
       cases), and the cases WorkingDirectory, VersionInformation, UncommittedInformation are taken before: the four left store
       an *Integer (table keyedSources).  (The clauses with explicit names are class `keyed`; a default clause is not.)
    B  containers and context values typed by their only writers outside the container rules: sync.Map caches of lib/json,
       lib/option, lib/value (one Store each, of the asserted type, in the function next to the load); `ctx.Value(key)` of a key
       only ExecuteStatement / Cursor.Open set, to *ReplaceValues; VariableMap holds value.Primary (the asserted type is that
       interface; only Store(name, val value.Primary) fills it); a sync.Pool handed on as a parameter / to Record.Merge
       (recordPool of OuterJoin: New and every Put hold Record); rand.NewSource always returns a Source64 (math/rand).
    C  SelectEntity / SelectQuery shapes: `SelectClause` is set by every production of select_entity — the only nil is the zero
       value `var selectEntity parser.SelectEntity` of action.Calc (read only when isCalcQuery) and the zero Query of a cursor
       declared FOR a statement name (never selected from: Cursor.Open takes the prepared statement then); `SelectQuery.SelectEntity`
       is SelectEntity | SelectSet (the else-branch of a failed comma-ok on SelectEntity); Calc's sites stand behind
       `isCalcQuery` (len(program) == 1 ∧ SelectQuery ∧ SelectEntity, held in a bool).
    D  correlations inside one node that the grammar keeps: InsertQuery / ReplaceQuery have ValuesList or Query (the site is the else
       of `ValuesList != nil`); Join has Natural or Condition or neither (the site is behind
       `Natural.IsEmpty() && Condition == nil ⇒ return` in the branch where Natural is empty); a Table with Lateral set comes from
       LATERAL laterable_query_table = subquery only; LimitClause is LimitClause, or OffsetClause alone (tested by comma-ok first);
       Trigger.Code is the INTEGER of the grammar or `pt.Value` behind `pt.IsInteger()`; FormatSpecifiedFunction.Path behind
       isTableObjectAsURL (its own comma-ok on Identifier).
    E  parameters whose callers pass a parser-node field with a known set: Header.Update(fields) ← ViewDeclaration / CreateTable /
       InlineTable Fields (Identifier only); Header.SearchIndex ← FieldReference | ColumnNumber (ColumnNumber tested first);
       ParseJoinCondition's `using` ← JoinCondition.Using (identifiers) or Identifier literals built in place;
       DisposeTemporaryTable ← DisposeView.View = Identifier | Stdin (Stdin tested first); convertListToRecordValues ← row_values;
       View.Select: parseWildcard(fields) ← clause.Fields (SelectClause.Fields = Field only, table entry), `c` ← Header.TableColumns()
       (FieldReference literals); loadView(tableExpr) ← `table` of the grammar =
       Table | Parentheses (Parentheses unwrapped first); loadObject(tablePath) ← NormalizeTableObject: Identifier | DataObject |
       HttpObject (the two tested first; a Url is converted before).
    F  Processor.ExecuteStatement `stmt.(parser.Expression)` inside `case parser.TransactionControl:` — an assertion to an
       INTERFACE in the clause of a concrete type that implements it.
    G  values converted a few lines above with the test held elsewhere: loadView `args[i]` (filled by value.ToString / ToBoolean
       behind `!value.IsNull`, else nil, and read behind `args[i] != nil`); NewSortValue `s := value.ToString(val)` in the branch
       where ToIntegerStrictly / ToFloat of the same val is not null (such a value has a text); Datetime `p := conv(…)` (a function
       value: ToDatetime-like) behind `value.IsNull(p) ⇒ return`; ShowFields `filePath` asserted right after its declaration with an
       Identifier literal. -/
def reviewedAssertSites : List AssertRef :=
  [-- A
   ⟨"lib/query/built_in_command.go", "ShowObjects", "p", "*value.Integer", 1⟩,
   -- B
   ⟨"lib/json/cache.go", "json.PathMap.load", "v", "json.PathExpression", 1⟩,
   ⟨"lib/json/cache.go", "json.QueryMap.load", "v", "json.QueryExpression", 1⟩,
   ⟨"lib/json/conversion.go", "json.ConvertRecordValueToJsonStructure", "path", "json.ObjectPath", 1⟩,
   ⟨"lib/json/conversion.go", "json.addPathValueToRowStructure", "path.Child", "json.ObjectPath", 1⟩,
   ⟨"lib/option/static.go", "option.GetRand", "rand.NewSource(time.Now().UnixNano())", "rand.Source64", 1⟩,
   ⟨"lib/option/static.go", "option.TimezoneMap.load", "v", "*time.Location", 1⟩,
   ⟨"lib/query/eval.go", "evalPlaceholder", "v", "*query.ReplaceValues", 1⟩,
   ⟨"lib/query/join.go", "OuterJoin", "recordPool.Get()", "query.Record", 1⟩,
   ⟨"lib/query/join.go", "OuterJoin", "recordPool.Get()", "query.Record", 2⟩,
   ⟨"lib/query/record.go", "Record.Merge", "pool.Get()", "query.Record", 1⟩,
   ⟨"lib/query/reference_scope.go", "ReferenceScope.AllVariables", "val", "value.Primary", 1⟩,
   ⟨"lib/query/variable.go", "VariableMap.Load", "v", "value.Primary", 1⟩,
   ⟨"lib/value/conv.go", "value.DatetimeFormatMap.load", "v", "string", 1⟩,
   -- C
   ⟨"lib/action/calc.go", "action.Calc", "selectEntity.FromClause", "parser.FromClause", 1⟩,
   ⟨"lib/action/calc.go", "action.Calc", "selectEntity.SelectClause", "parser.SelectClause", 1⟩,
   ⟨"lib/query/error.go", "searchSelectClauseInSelectEntity", "entity.SelectClause", "parser.SelectClause", 1⟩,
   ⟨"lib/query/error.go", "searchSelectClauseInSelectEntity", "selectEntity", "parser.SelectSet", 1⟩,
   ⟨"lib/query/query.go", "selectQuery", "selectEntity.SelectClause", "parser.SelectClause", 1⟩,
   ⟨"lib/query/query.go", "selectEntity", "expr", "parser.SelectSet", 1⟩,
   ⟨"lib/query/query.go", "selectEntity", "entity.SelectClause", "parser.SelectClause", 1⟩,
   -- D
   ⟨"lib/query/error.go", "NewUserTriggeredError", "expr.Code", "*value.Integer", 1⟩,
   ⟨"lib/query/join.go", "ParseJoinCondition", "join.Condition", "parser.JoinCondition", 1⟩,
   ⟨"lib/query/load_view.go", "loadView", "formatSpecifiedFunction.Path", "parser.Identifier", 1⟩,
   ⟨"lib/query/load_view.go", "loadView", "t.Object", "parser.Subquery", 1⟩,
   ⟨"lib/query/query.go", "selectQuery", "query.LimitClause", "parser.LimitClause", 1⟩,
   ⟨"lib/query/query.go", "Insert", "query.Query", "parser.SelectQuery", 1⟩,
   ⟨"lib/query/query.go", "Replace", "query.Query", "parser.SelectQuery", 1⟩,
   -- E
   ⟨"lib/query/header.go", "Header.SearchIndex", "fieldRef", "parser.FieldReference", 1⟩,
   ⟨"lib/query/header.go", "Header.Update", "fields[i]", "parser.Identifier", 1⟩,
   ⟨"lib/query/header.go", "Header.Update", "fields[i]", "parser.Identifier", 2⟩,
   ⟨"lib/query/header.go", "Header.Update", "fields[i]", "parser.Identifier", 3⟩,
   ⟨"lib/query/join.go", "ParseJoinCondition", "v", "parser.Identifier", 1⟩,
   ⟨"lib/query/join.go", "ParseJoinCondition", "v", "parser.Identifier", 2⟩,
   ⟨"lib/query/join.go", "ParseJoinCondition", "v", "parser.Identifier", 3⟩,
   ⟨"lib/query/join.go", "ParseJoinCondition", "v", "parser.Identifier", 4⟩,
   ⟨"lib/query/join.go", "ParseJoinCondition", "v", "parser.Identifier", 5⟩,
   ⟨"lib/query/load_view.go", "loadView", "tableExpr", "parser.Table", 1⟩,
   ⟨"lib/query/load_view.go", "loadObject", "tablePath", "parser.Identifier", 1⟩,
   ⟨"lib/query/view.go", "View.Select", "v", "parser.Field", 1⟩,
   ⟨"lib/query/view.go", "View.Select", "c", "parser.FieldReference", 1⟩,
   ⟨"lib/query/view.go", "View.convertListToRecordValues", "item", "parser.RowValue", 1⟩,
   ⟨"lib/query/view_map.go", "ViewMap.DisposeTemporaryTable", "tablePath", "parser.Identifier", 1⟩,
   -- F
   ⟨"lib/query/processor.go", "Processor.ExecuteStatement", "stmt", "parser.Expression", 1⟩,
   ⟨"lib/query/processor.go", "Processor.ExecuteStatement", "stmt", "parser.Expression", 2⟩,
   ⟨"lib/query/processor.go", "Processor.ExecuteStatement", "stmt", "parser.Expression", 3⟩,
   -- G
   ⟨"lib/action/fields.go", "action.ShowFields", "filePath", "parser.Identifier", 1⟩,
   ⟨"lib/query/function.go", "Datetime", "p", "*value.Datetime", 1⟩,
   ⟨"lib/query/load_view.go", "loadView", "args[0]", "*value.String", 1⟩,
   ⟨"lib/query/load_view.go", "loadView", "args[noHeaderIdx]", "*value.Boolean", 1⟩,
   ⟨"lib/query/load_view.go", "loadView", "args[withoutNullIdx]", "*value.Boolean", 1⟩,
   ⟨"lib/query/sort_value.go", "NewSortValue", "s", "*value.String", 1⟩,
   ⟨"lib/query/sort_value.go", "NewSortValue", "s", "*value.String", 2⟩]

def exemptAssertSites : List AssertRef := knownAssertSites ++ reviewedAssertSites

def _root_.Csvq.ErrFacts.AssertSite.okGen (s : AssertSite) : Bool := s.ok Gen.dynSources Gen.keyedSources Gen.assertImplements

/-- the sites the checker does not accept -/
def unprovedAssertSites : List AssertSite := Gen.assertSites.filter (fun s => !s.okGen)

set_option maxRecDepth 100000 in
/-- **assertion_sites_ok.**  Every unchecked type assertion (regenerated) is safe by the class of its guard, or is one of the
    sites listed one by one. -/
theorem assertion_sites_ok :
    Gen.assertSites.all (fun s => s.okGen || exemptAssertSites.any (·.is s)) = true := by
  decide +kernel

/-- **assertion_site_safe.**  At every site that is not listed: whatever dynamic type its guard leaves possible, `x.(T)` succeeds —
    the assertion cannot panic there. -/
theorem assertion_site_safe (s : AssertSite) (hs : s ∈ Gen.assertSites) (hk : ∀ r ∈ exemptAssertSites, r.is s = false)
    (dyn : String) (h : s.admits Gen.dynSources Gen.keyedSources Gen.assertImplements dyn) : Succeeds Gen.assertImplements dyn s.typ := by
  have hall := List.all_eq_true.mp assertion_sites_ok s hs
  rw [Bool.or_eq_true] at hall
  cases hall with
  | inl hok => exact AssertSite.ok_sound _ _ _ s hok dyn h
  | inr hex =>
    rw [List.any_eq_true] at hex
    obtain ⟨r, hr, hrs⟩ := hex
    rw [hk r hr] at hrs
    exact absurd hrs (by decide)

set_option maxRecDepth 100000 in
/-- no stale entry: every listed site is a regenerated site the checker does not accept -/
theorem exempt_assert_sites_exist :
    exemptAssertSites.all (fun r => unprovedAssertSites.any (r.is ·)) = true := by
  decide +kernel

set_option maxRecDepth 100000 in
/-- the sources the accepted sites rely on are all determined (no "?" behind an accepted site) and every table entry is non-empty -/
theorem accepted_sources_determined :
    Gen.assertSites.all (fun s => !s.okGen || (match s.guard with
      | .oneOf src excl => (match lookupSrc Gen.dynSources src with
          | some ts => !ts.isEmpty && (!ts.contains "?" || excl.contains "?")
          | none => false)
      | .keyed src keys => keys.all (fun k => (lookupKeyed Gen.keyedSources src k).isSome)
      | _ => true)) = true := by
  decide +kernel

/-! ## non-vacuity of the checker -/

example : AssertSite.ok (keyed := []) [("f", ["*value.Integer", "*value.Null"])] [] ⟨"", "", 0, 1, "v", "*value.Integer", .oneOf "f" []⟩ = false := by decide
example : AssertSite.ok (keyed := []) [("f", ["*value.Integer", "*value.Null"])] [] ⟨"", "", 0, 1, "v", "*value.Integer", .oneOf "f" ["*value.Null"]⟩ = true := by decide
example : AssertSite.ok (keyed := []) [("f", ["nil", "parser.FromClause"])] [] ⟨"", "", 0, 1, "e.FromClause", "parser.FromClause", .oneOf "f" []⟩ = false := by decide
example : AssertSite.ok (keyed := []) [("f", ["parser.Parentheses", "parser.Table"])] [] ⟨"", "", 0, 1, "v", "parser.Table", .oneOf "f" []⟩ = false := by decide
example : AssertSite.ok (keyed := []) [("f", ["?"])] [] ⟨"", "", 0, 1, "v", "T", .oneOf "f" []⟩ = false := by decide
example : AssertSite.ok [] [] [] ⟨"", "", 0, 1, "v", "T", .unknown ""⟩ = false := by decide
example : AssertSite.ok (keyed := []) [("f", ["*query.SystemError"])] [("*query.SystemError", "query.Error")] ⟨"", "", 0, 1, "e", "query.Error", .oneOf "f" []⟩ = true := by decide
example : AssertSite.ok [] [("g", [("A", ["*value.String"]), ("B", ["*value.Boolean"])])] [] ⟨"", "", 0, 1, "v", "*value.String", .keyed "g" ["A"]⟩ = true := by decide
example : AssertSite.ok [] [("g", [("A", ["*value.String"]), ("B", ["*value.Boolean"])])] [] ⟨"", "", 0, 1, "v", "*value.String", .keyed "g" ["A", "B"]⟩ = false := by decide
example : AssertSite.ok [] [("g", [("A", ["*value.String"])])] [] ⟨"", "", 0, 1, "v", "*value.String", .keyed "g" ["C"]⟩ = false := by decide
example : ¬ Succeeds [] "nil" "T" := by simp [Succeeds]

end Csvq.C19
