/-
  C12 — results are a function of the inputs: independent of --cpu, scheduling and run.
  Property theorems only.  The parallel paths of lib/query all have one of three shapes:
  (1) `GoroutineTaskManager.Run(fn)`: worker k evaluates fn(i) for the indices i of its own range and
      stores the result in slot i;  (2) per-worker result lists concatenated in worker order (filter,
      join);  (3) per-worker key→rows maps merged (GROUP BY, C04);  (4) REPLACE: slot-wise updates plus a shared set of
      "matched" flags and a counter, then the unmatched VALUES records appended in VALUES order.  For each shape the result is
      proved equal to a sequential specification that mentions neither the number of workers nor a
      schedule, for EVERY cutting of the record range into contiguous chunks.
  The number of workers itself comes from a shared counter of borrowed goroutine slots, so it depends on
  what else is running; its bookkeeping (regenerated from goroutine_manager.go / flags.go on every run)
  is proved to give 1 ≤ n ≤ --cpu in every reachable state, to keep count = Σ outstanding slots, and —
  end to end — to hand the workers ranges that tile 0 … len-1 (`assigned_ranges_tile`).
-/
import Csvq.Lemmas.Group
import Csvq.Props.C04
import Csvq.Props.C13
import Csvq.Lemmas.Slots
namespace Csvq.C12
open Csvq Csvq.Slots

/-- shape (1): slot-wise evaluation over any chunking is the sequential map -/
theorem run_slots_indep {α β} (f : α → β) (chunks : List (List α)) :
    (chunks.map (List.map f)).flatten = chunks.flatten.map f := by
  induction chunks with
  | nil => rfl
  | cons c cs ih => simp only [List.map_cons, List.flatten_cons, List.map_append, ih]

/-- shape (2): per-worker filtered lists concatenated in worker order are the sequential filter
    (so a single-source query keeps the source's row order, whatever --cpu is) -/
theorem filter_chunks_indep {α} (p : α → Bool) (chunks : List (List α)) :
    (chunks.map (List.filter p)).flatten = chunks.flatten.filter p := by
  induction chunks with
  | nil => rfl
  | cons c cs ih => simp only [List.map_cons, List.flatten_cons, List.filter_append, ih]

/-- shape (2) for joins: every worker joins its chunk of the left rows with the whole right side;
    concatenation in worker order is the left-major nested loop -/
theorem join_chunks_indep {α β γ} (j : α → List β → List γ) (right : List β) (chunks : List (List α)) :
    (chunks.map (fun c => c.flatMap (fun l => j l right))).flatten
      = chunks.flatten.flatMap (fun l => j l right) := by
  induction chunks with
  | nil => rfl
  | cons c cs ih => simp only [List.map_cons, List.flatten_cons, List.flatMap_append, ih]

/-- two cuttings of the same rows give the same result, for each shape -/
theorem run_indep_of_cut {α β} (f : α → β) (c1 c2 : List (List α)) (h : c1.flatten = c2.flatten) :
    (c1.map (List.map f)).flatten = (c2.map (List.map f)).flatten := by
  rw [run_slots_indep, run_slots_indep, h]

theorem filter_indep_of_cut {α} (p : α → Bool) (c1 c2 : List (List α)) (h : c1.flatten = c2.flatten) :
    (c1.map (List.filter p)).flatten = (c2.map (List.filter p)).flatten := by
  rw [filter_chunks_indep, filter_chunks_indep, h]

/-- shape (3): GROUP BY — buckets, their order and their members do not depend on the cutting -/
theorem group_indep_of_cut {κ : Type} [DecidableEq κ] (c1 c2 : List (List (κ × Nat)))
    (h : c1.flatten = c2.flatten) : groupImpl c1 = groupImpl c2 :=
  C04.group_indep_chunks c1 c2 h

/-- the real cutting: `GoroutineTaskManager.RecordRange` (definition regenerated from the source and
    proved equal to the model in C13.recordRange_source_tie) gives the workers contiguous index ranges
    that, concatenated in worker order, are exactly `0 … len-1` — for every length and worker count -/
theorem record_ranges_tile (len n : Nat) (hn : 0 < n) :
    (List.range n).flatMap (Csvq.ForkJoin.rrIndices len n) = List.range len :=
  Csvq.C13.recordRange_tiles len n hn

/-- hence a `Run` callback evaluated by n workers over their ranges visits every row exactly once,
    and collecting the slot-wise results in worker order is the sequential map, whatever n is -/
theorem run_over_ranges_is_map {β} (f : Nat → β) (len n : Nat) (hn : 0 < n) :
    (List.range n).flatMap (fun k => (Csvq.ForkJoin.rrIndices len n k).map f) = (List.range len).map f := by
  rw [← record_ranges_tile len n hn, List.map_flatMap]

/-! ## REPLACE -/

/-- shape (4), REPLACE (view.go `replace`): every worker looks, for each existing record of its range, for the
    FIRST record of the VALUES list with equivalent keys (`upd x = some (j, y)`: match j, updated record y),
    stores the update in the record's own slot, sets the shared flag `replaced[j]` and counts; afterwards the
    VALUES records whose flag is not set are appended in VALUES order.  `m` = number of VALUES records. -/
def replaceImpl {α} (upd : α → Option (Nat × α)) (m : Nat) (ins : List α) (chunks : List (List α)) : List α × Nat :=
  let rows := (chunks.map (List.map fun x => match upd x with | some (_, y) => y | none => x)).flatten
  let flag := fun (j : Nat) => chunks.any (List.any · fun x => (upd x).map (·.1) == some j)
  let count := (chunks.map (List.countP fun x => (upd x).isSome)).sum
  let appended := ((List.range m).zip ins).filterMap fun (j, r) => if flag j then none else some r
  (rows ++ appended, appended.length + count)

theorem any_chunks {α} (p : α → Bool) (chunks : List (List α)) :
    chunks.any (List.any · p) = chunks.flatten.any p := by
  induction chunks with
  | nil => rfl
  | cons c cs ih => simp only [List.any_cons, List.flatten_cons, List.any_append, ih]

theorem count_chunks {α} (p : α → Bool) (chunks : List (List α)) :
    (chunks.map (List.countP p)).sum = chunks.flatten.countP p := by
  induction chunks with
  | nil => rfl
  | cons c cs ih => simp only [List.map_cons, List.sum_cons, List.flatten_cons, List.countP_append, ih]

/-- the table after REPLACE and the reported count do not depend on how the existing records were cut into
    worker ranges: they are those of a single worker going over all records in order — the updated records in
    their own positions, then the unmatched VALUES records in VALUES order -/
theorem replace_indep_of_cut {α} (upd : α → Option (Nat × α)) (m : Nat) (ins : List α) (chunks : List (List α)) :
    replaceImpl upd m ins chunks = replaceImpl upd m ins [chunks.flatten] := by
  simp only [replaceImpl, run_slots_indep, any_chunks, count_chunks, List.map_cons, List.map_nil,
    List.flatten_cons, List.flatten_nil, List.append_nil, List.any_cons, List.any_nil, Bool.or_false,
    List.sum_cons, List.sum_nil, Nat.add_zero]

example : replaceImpl (fun (x : Nat) => if x = 2 then some (1, 20) else none) 2 [100, 200] [[1, 2], [3]] = ([1, 20, 3, 100], 2) := by decide

/-! ## The worker number: regenerated bookkeeping (`Gen.assignRoutineNumber`, `release`, `taskDone`, `setCPU`) -/

/-- `Flags.SetCPU` as regenerated from lib/option/flags.go: whatever value is requested (and whatever the
    field held), the --cpu value of a session is between 1 and the number of cores -/
theorem cpu_flag_bounds (i numCPU cpu0 : Int) (h : 1 ≤ numCPU) :
    1 ≤ Gen.setCPU i numCPU cpu0 ∧ Gen.setCPU i numCPU cpu0 ≤ numCPU := by
  simp only [Gen.setCPU]
  constructor <;> (repeat' split) <;> omega

/-- `GoroutineManager.AssignRoutineNumber` as regenerated from goroutine_manager.go: for every record
    length, every minimum-per-core argument and every number of slots borrowed by other task managers,
    a task manager gets at least one worker and at most --cpu workers -/
theorem worker_number_bounds (len minReq cpu count fld : Int) (hc : 1 ≤ cpu) :
    1 ≤ (Gen.assignRoutineNumber len minReq cpu count fld).1 ∧
    (Gen.assignRoutineNumber len minReq cpu count fld).1 ≤ cpu :=
  assign_fst_bounds len minReq cpu count fld hc

/-- below twice the per-core minimum the work is not split at all -/
theorem single_worker_below_threshold (len minReq cpu count fld : Int) (hc : 1 ≤ cpu)
    (h0 : 0 ≤ len) (hm : 1 ≤ minReq) (hl : len < 2 * minReq) :
    (Gen.assignRoutineNumber len minReq cpu count fld).1 = 1 := by
  have hq : Int.fdiv len minReq ≤ 1 := by
    rw [Int.fdiv_eq_ediv_of_nonneg _ (by omega)]
    have : len / minReq < 2 := Int.ediv_lt_of_lt_mul (by omega) (by omega)
    omega
  have hnm : ¬ minReq < 1 := by omega
  simp only [Gen.assignRoutineNumber, if_neg hnm]
  generalize Int.fdiv len minReq = q at hq ⊢
  (repeat' split) <;> omega

/-- the bookkeeping invariant holds in every reachable state: the shared count is exactly the sum of the
    slots the live task managers still have to give back -/
theorem slots_invariant (ops : List Op) (h : CpuOk ops) : Inv (run init ops) := by
  have gen : ∀ (s : St), Inv s → CpuOk ops → Inv (run s ops) := by
    induction ops with
    | nil => intro s hs _; exact hs
    | cons op ops ih =>
      intro s hs hc
      have h1 : CpuOk [op] := by cases op <;> simp_all [CpuOk]
      have h2 : CpuOk ops := by cases op <;> simp_all [CpuOk]
      exact ih h2 (step s op) (inv_step s op hs h1) h2
  exact gen init ⟨by decide, by intro g hg; cases hg⟩ h

/-- the count never goes negative -/
theorem count_never_negative (ops : List Op) (h : CpuOk ops) : 0 ≤ (run init ops).count := by
  obtain ⟨hs, hp⟩ := slots_invariant ops h
  rw [hs]
  generalize (run init ops).mgrs = l at hp
  induction l with
  | nil => simp [Slots.sum]
  | cons x xs ih =>
    have := hp x List.mem_cons_self
    have := ih (fun g hg => hp g (List.mem_cons_of_mem _ hg))
    simp only [Slots.sum]; omega

/-- nothing leaks: once every task manager has given all its slots back, the count is 0 again and the
    next query gets the full --cpu -/
theorem no_slot_leak (ops : List Op) (h : CpuOk ops) (hdone : ∀ g ∈ (run init ops).mgrs, g = 0) :
    (run init ops).count = 0 := by
  obtain ⟨hs, _⟩ := slots_invariant ops h
  rw [hs]
  generalize (run init ops).mgrs = l at hdone
  induction l with
  | nil => simp [Slots.sum]
  | cons x xs ih =>
    have := hdone x List.mem_cons_self
    have := ih (fun g hg => hdone g (List.mem_cons_of_mem _ hg))
    simp only [Slots.sum]; omega

/-- the worker number of one and the same query DOES depend on what else is running (on the history of
    the shared count) — the reason why every chunk theorem above is stated for every cutting -/
theorem worker_number_depends_on_history :
    numberIn (run init []) 1000 (-1) 4 = 4 ∧ numberIn (run init [.new 1000 (-1) 4]) 1000 (-1) 4 = 1 := by
  decide

/-- the index list of worker `k` as the loop of `GoroutineTaskManager.run` visits it, from the regenerated
    `RecordRange` -/
def genIndices (len n k : Int) : List Nat :=
  let r := Gen.recordRange len n k
  List.range' r.1.toNat (r.2.toNat - r.1.toNat)

/-- END TO END, all from regenerated definitions: in every reachable state of the slot bookkeeping, for
    every requested --cpu value on a machine with at least one core, every record length and every
    minimum-per-core argument, the worker number that `NewGoroutineTaskManager` assigns is positive and
    the ranges `RecordRange` gives those workers, concatenated in worker order, are exactly 0 … len-1 -/
theorem assigned_ranges_tile (ops : List Op) (len : Nat) (minReq req numCPU cpu0 : Int) (hcpu : 1 ≤ numCPU) :
    let n := numberIn (run init ops) len minReq (Gen.setCPU req numCPU cpu0)
    1 ≤ n ∧ (List.range n.toNat).flatMap (fun (k : Nat) => genIndices len n k) = List.range len := by
  intro n
  have hb := (worker_number_bounds len minReq (Gen.setCPU req numCPU cpu0) (run init ops).count
      Gen.managerInit.2 (cpu_flag_bounds req numCPU cpu0 hcpu).1).1
  have hn1 : 1 ≤ n := hb
  refine ⟨hn1, ?_⟩
  have hcast : ((n.toNat : Nat) : Int) = n := Int.toNat_of_nonneg (by omega)
  have hpos : 0 < n.toNat := by omega
  rw [← record_ranges_tile len n.toNat hpos]
  apply flatMap_congr'
  intro k _
  simp only [genIndices]
  rw [← hcast, Csvq.C13.recordRange_source_tie len n.toNat k hpos]
  simp only [Int.toNat_natCast, Csvq.ForkJoin.rrIndices, Csvq.ForkJoin.rrLo, Csvq.ForkJoin.rrHi]

example : (List.range 3).flatMap (fun (k : Nat) => genIndices 10 3 k) = List.range 10 := by decide

/-! non-vacuity -/
example : ([[1, 2], [], [3]].map (List.filter (· > 1))).flatten = [1, 2, 3].filter (· > 1) := by decide

end Csvq.C12
