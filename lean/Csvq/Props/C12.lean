/-
  C12 — results are a function of the inputs: independent of --cpu, scheduling and run.
  Property theorems only.  The parallel paths of lib/query all have one of three shapes:
  (1) `GoroutineTaskManager.Run(fn)`: worker k evaluates fn(i) for the indices i of its own range and
      stores the result in slot i;  (2) per-worker result lists concatenated in worker order (filter,
      join);  (3) per-worker key→rows maps merged (GROUP BY, C04).  For each shape the result is
      proved equal to a sequential specification that mentions neither the number of workers nor a
      schedule, for EVERY cutting of the record range into contiguous chunks.
-/
import Csvq.Lemmas.Group
import Csvq.Props.C04
import Csvq.Props.C13
namespace Csvq.C12
open Csvq

/-- shape (1): slot-wise evaluation over any chunking is the sequential map -/
theorem run_slots_indep {α β} (f : α → β) (chunks : List (List α)) :
    (chunks.map (List.map f)).flatten = chunks.flatten.map f := by
  induction chunks with
  | nil => rfl
  | cons c cs ih => simp only [List.map_cons, List.flatten_cons, List.map_append, ih]

/-- shape (2): per-worker filtered lists concatenated in worker order are the sequential filter
    (so a single-source query keeps the source's row order, whatever --cpu is) -/
theorem filter_chunks_indep {α} (p : α → Bool) (chunks : List (List α)) :
    (chunks.map (List.filter p)).flatten = chunks.flatten.filter p := by
  induction chunks with
  | nil => rfl
  | cons c cs ih => simp only [List.map_cons, List.flatten_cons, List.filter_append, ih]

/-- shape (2) for joins: every worker joins its chunk of the left rows with the whole right side;
    concatenation in worker order is the left-major nested loop -/
theorem join_chunks_indep {α β γ} (j : α → List β → List γ) (right : List β) (chunks : List (List α)) :
    (chunks.map (fun c => c.flatMap (fun l => j l right))).flatten
      = chunks.flatten.flatMap (fun l => j l right) := by
  induction chunks with
  | nil => rfl
  | cons c cs ih => simp only [List.map_cons, List.flatten_cons, List.flatMap_append, ih]

/-- two cuttings of the same rows give the same result, for each shape -/
theorem run_indep_of_cut {α β} (f : α → β) (c1 c2 : List (List α)) (h : c1.flatten = c2.flatten) :
    (c1.map (List.map f)).flatten = (c2.map (List.map f)).flatten := by
  rw [run_slots_indep, run_slots_indep, h]

theorem filter_indep_of_cut {α} (p : α → Bool) (c1 c2 : List (List α)) (h : c1.flatten = c2.flatten) :
    (c1.map (List.filter p)).flatten = (c2.map (List.filter p)).flatten := by
  rw [filter_chunks_indep, filter_chunks_indep, h]

/-- shape (3): GROUP BY — buckets, their order and their members do not depend on the cutting -/
theorem group_indep_of_cut {κ : Type} [DecidableEq κ] (c1 c2 : List (List (κ × Nat)))
    (h : c1.flatten = c2.flatten) : groupImpl c1 = groupImpl c2 :=
  C04.group_indep_chunks c1 c2 h

/-- the real cutting: `GoroutineTaskManager.RecordRange` (definition regenerated from the source and
    proved equal to the model in C13.recordRange_source_tie) gives the workers contiguous index ranges
    that, concatenated in worker order, are exactly `0 … len-1` — for every length and worker count -/
theorem record_ranges_tile (len n : Nat) (hn : 0 < n) :
    (List.range n).flatMap (Csvq.ForkJoin.rrIndices len n) = List.range len :=
  Csvq.C13.recordRange_tiles len n hn

/-- hence a `Run` callback evaluated by n workers over their ranges visits every row exactly once,
    and collecting the slot-wise results in worker order is the sequential map, whatever n is -/
theorem run_over_ranges_is_map {β} (f : Nat → β) (len n : Nat) (hn : 0 < n) :
    (List.range n).flatMap (fun k => (Csvq.ForkJoin.rrIndices len n k).map f) = (List.range len).map f := by
  rw [← record_ranges_tile len n hn, List.map_flatMap]

/-! non-vacuity -/
example : ([[1, 2], [], [3]].map (List.filter (· > 1))).flatten = [1, 2, 3].filter (· > 1) := by decide

end Csvq.C12
