/-
  C04 (glue) — WHICH rows an aggregate sees and WHAT it computes, end to end:
    * SELECT DISTINCT keys a record by the selected values and by nothing else;
    * for every grouping key, every table and every split of the rows into worker chunks, the value of AGG(expr) in
      the output row of bucket k is `agg` over `(rows with key k, in row order).map expr` — View.group (Props/C04.lean
      `group_spec`) composed with NewViewFromGroupedRecord, ListValuesForAggregateFunctions (DISTINCT), the ORDER BY of
      the list functions, and the functions of Props/C04Agg.lean;
    * COUNT(*), COUNT(literal), the view without GROUP BY, the view without records.
  Model: Model/AggEval.lean (shape of view.go / eval.go).  Property theorems only.
-/
import Csvq.Lemmas.AggEval
import Csvq.Lemmas.Aggregate
import Csvq.Props.C04
import Csvq.Props.C04Agg
namespace Csvq.C04
open Csvq Csvq.Agg

/-! ## SELECT DISTINCT -/

/-- the DISTINCT result is a function of the list of SELECTED cell tuples: two tables (and two select lists) whose
    projections agree give the same result, whatever the unselected columns hold, whatever the number of fields -/
theorem distinct_keys_by_selected_values {κ : Type} [DecidableEq κ] (key : Profile → κ) (sf1 sf2 : List Nat)
    (t1 t2 : List Row) (h : t1.map (project sf1) = t2.map (project sf2)) :
    selectDistinct key sf1 t1 = selectDistinct key sf2 t2 := by
  have e : ∀ (sf : List Nat) (t : List Row), selectDistinct key sf t =
      (keepFirst ((t.map (project sf)).map fun p => (p.map (Option.map key), p))).map Prod.snd := by
    intro sf t
    unfold selectDistinct
    rw [List.map_map]
    rfl
  rw [e, e, h]

/-- … namely: the selected tuples in record order, the first of every key (keys pairwise different, one per key) -/
theorem select_distinct_spec {κ : Type} [DecidableEq κ] (key : Profile → κ) (sf : List Nat) (t : List Row) :
    (selectDistinct key sf t).Sublist (t.map (project sf)) ∧
    (selectDistinct key sf t).map (fun p => p.map (Option.map key)) =
      firstOcc ((t.map (project sf)).map fun p => p.map (Option.map key)) ∧
    ((selectDistinct key sf t).map fun p => p.map (Option.map key)).Nodup := by
  have e : selectDistinct key sf t =
      (keepFirst ((t.map (project sf)).map fun p => (p.map (Option.map key), p))).map Prod.snd := by
    unfold selectDistinct
    rw [List.map_map]
    rfl
  obtain ⟨h1, h2⟩ := keepFirstBy_spec (fun p : List (Option Profile) => p.map (Option.map key)) (t.map (project sf))
  rw [e]
  exact ⟨h1, h2, by rw [h2]; exact firstOcc_nodup _⟩

/-- two rows that agree on the selected values are never both kept — however they differ elsewhere -/
theorem distinct_merges_equal_selections {κ : Type} [DecidableEq κ] (key : Profile → κ) (sf : List Nat) (r s : Row)
    (h : project sf r = project sf s) : selectDistinct key sf [r, s] = [project sf r] := by
  unfold selectDistinct
  have hk : keyCells (some sf) s = keyCells (some sf) r := h.symm
  simp only [List.map_cons, List.map_nil, hk, ← h]
  simp [keepFirst, keepFirstAux]

/-! ## the grouped record and back -/

/-- NewViewFromGroupedRecord ∘ View.group: the records an aggregate's argument is evaluated over are the member rows -/
theorem view_of_grouped_record (F : Nat) (hF : 0 < F) (M : List Row) (h : Rect F M) :
    viewFromGrouped (cellsOf F M) = M ∧ groupLen (cellsOf F M) = M.length :=
  ⟨viewFromGrouped_cellsOf F hF M h, groupLen_cellsOf F hF M h⟩

/-- the bucket of key `k` holds exactly the rows with that key, in row order — for every chunking of the scan -/
theorem grouped_view_spec {κ : Type} [DecidableEq κ] (F : Nat) (key : Row → κ) (rows : List Row)
    (cs : List (List (κ × Nat))) (hcs : cs.flatten = keyedIdx key rows) :
    groupedView F rows cs = (firstOcc (rows.map key)).map fun k => (k, cellsOf F (rows.filter fun r => key r = k)) := by
  unfold groupedView
  rw [group_spec, hcs]
  unfold groupSpec
  rw [keyedIdx_keys, List.map_map]
  apply List.map_congr_left
  intro k _
  simp only [Function.comp]
  rw [members_keyedIdx]

/-! ## AGG(expr) of a bucket -/

/-- the literal a `COUNT(*)` / `COUNT(DISTINCT *)` / `COUNT(literal)` call counts without looking at the records;
    `COUNT(DISTINCT literal)` takes the general path (since the repair of finding F109) -/
def countLiteral (fn : Option BuiltinAgg) (distinct : Bool) (arg : ArgExpr) : Option Profile :=
  match fn, arg with
  | some .count, .star => some (profileOf (.int 1))
  | some .count, .const v => if distinct then none else some v
  | _, _ => none

/-- what AGG([DISTINCT] arg) is over the rows `M` of one bucket -/
def aggOver {κ : Type} [DecidableEq κ] (dkey : Profile → κ) (fn : Option BuiltinAgg)
    (udf : List Profile → List Profile → Res) (udfArgs : List Profile) (distinct : Bool) (arg : ArgExpr) (M : List Row) : Res :=
  match countLiteral fn distinct arg with
  | some v => .int (if v.isNull || isUnknown v then 0 else (M.length : Int))
  | none =>
    -- `*` stands for the integer 1
    let arg' : ArgExpr := match arg with | .star => .const (profileOf (.int 1)) | a => a
    let vals := M.map (evalArg arg')
    let vals := if distinct then distinguishBy dkey vals else vals
    match fn with
    | some f => applyBuiltin f vals
    | none => udf vals udfArgs

/-- evaluation over a grouped record built from the rows `M` -/
theorem eval_aggregate_over_rows {κ : Type} [DecidableEq κ] (dkey : Profile → κ) (fn : Option BuiltinAgg)
    (udf : List Profile → List Profile → Res) (udfArgs : List Profile) (distinct : Bool) (arg : ArgExpr)
    (F : Nat) (hF : 0 < F) (M : List Row) (h : Rect F M) :
    evalAggregate dkey fn udf udfArgs distinct arg (some { isGrouped := true, inRange := true, record := cellsOf F M })
      = .ok (aggOver dkey fn udf udfArgs distinct arg M) := by
  unfold evalAggregate aggOver countLiteral
  simp only [Bool.not_true, Bool.false_eq_true, if_false, Bool.and_true]
  rw [viewFromGrouped_cellsOf F hF M h, groupLen_cellsOf F hF M h]
  cases arg with
  | star =>
    cases fn with
    | none => simp [listValues, evalArg]
    | some f => cases f <;> simp [listValues, evalArg, profileOf, Profile.isNull, isUnknown]
  | const v =>
    cases fn with
    | none => simp [listValues, evalArg]
    | some f =>
      cases f <;> cases distinct <;> simp [listValues, evalArg]
      cases v.isNull <;> cases isUnknown v <;> simp
  | expr f =>
    cases fn with
    | none => simp [listValues, evalArg]
    | some g => cases g <;> simp [listValues, evalArg]

/-- **aggregate over bucket, end to end**: for every grouping key, every table of `F`-field rows and every split of
    the scan into worker chunks, the output row of bucket `k` carries AGG over exactly the rows with key `k`, in row order;
    the buckets come in order of first occurrence -/
theorem aggregate_over_bucket {κ κ' : Type} [DecidableEq κ] [DecidableEq κ'] (dkey : Profile → κ') (fn : Option BuiltinAgg)
    (udf : List Profile → List Profile → Res) (udfArgs : List Profile) (distinct : Bool) (arg : ArgExpr)
    (F : Nat) (hF : 0 < F) (key : Row → κ) (rows : List Row) (hrect : Rect F rows)
    (cs : List (List (κ × Nat))) (hcs : cs.flatten = keyedIdx key rows) :
    (groupedView F rows cs).map (fun b => (b.1, evalAggregate dkey fn udf udfArgs distinct arg
        (some { isGrouped := true, inRange := true, record := b.2 })))
      = (firstOcc (rows.map key)).map fun k =>
          (k, .ok (aggOver dkey fn udf udfArgs distinct arg (rows.filter fun r => key r = k))) := by
  rw [grouped_view_spec F key rows cs hcs, List.map_map]
  apply List.map_congr_left
  intro k _
  simp only [Function.comp]
  rw [eval_aggregate_over_rows dkey fn udf udfArgs distinct arg F hF]
  intro r hr
  exact hrect r (List.mem_filter.mp hr).1

/-- without GROUP BY all records are one group — and a view without records still yields one output row, computed
    over no record (COUNT = 0, the others over the empty list) -/
theorem aggregate_without_group_by {κ : Type} [DecidableEq κ] (dkey : Profile → κ) (fn : Option BuiltinAgg)
    (udf : List Profile → List Profile → Res) (udfArgs : List Profile) (distinct : Bool) (arg : ArgExpr)
    (F : Nat) (hF : 0 < F) (rows : List Row) (hrect : Rect F rows) :
    evalAggregate dkey fn udf udfArgs distinct arg
        (some { isGrouped := true, inRange := true, record := groupAllRecord F rows })
      = .ok (aggOver dkey fn udf udfArgs distinct arg rows) := by
  unfold groupAllRecord
  by_cases hr : 0 < rows.length
  · rw [if_pos hr]; exact eval_aggregate_over_rows dkey fn udf udfArgs distinct arg F hF rows hrect
  · rw [if_neg hr]
    have : rows = [] := List.length_eq_zero_iff.mp (by omega)
    subst this
    have hp : placeholderRecord F = cellsOf F [] := by
      unfold placeholderRecord cellsOf
      apply List.ext_getElem
      · simp
      · intro i h1 h2; simp
    rw [hp]
    exact eval_aggregate_over_rows dkey fn udf udfArgs distinct arg F hF [] (fun r hr => by cases hr)

/-- COUNT(*) is the number of rows of the bucket -/
theorem count_star_is_bucket_size {κ : Type} [DecidableEq κ] (dkey : Profile → κ)
    (udf : List Profile → List Profile → Res) (udfArgs : List Profile) (distinct : Bool) (M : List Row) :
    aggOver dkey (some .count) udf udfArgs distinct .star M = .int M.length := by
  simp [aggOver, countLiteral, profileOf, Profile.isNull, isUnknown]

/-- COUNT(literal) without DISTINCT agrees with counting the literal once per row — unless the literal is UNKNOWN -/
theorem count_literal_agrees {κ : Type} [DecidableEq κ] (dkey : Profile → κ)
    (udf : List Profile → List Profile → Res) (udfArgs : List Profile) (v : Profile) (hu : isUnknown v = false) (M : List Row) :
    aggOver dkey (some .count) udf udfArgs false (.const v) M = applyBuiltin .count (M.map (evalArg (.const v))) := by
  simp only [aggOver, countLiteral, Bool.false_eq_true, if_false, applyBuiltin, hu, Bool.or_false]
  rw [count_spec]
  have ht : ∀ l : List Row, l.filter (fun _ => true) = l := fun l => List.filter_eq_self.mpr (fun _ _ => rfl)
  have hf : ∀ l : List Row, l.filter (fun _ => false) = [] := fun l => List.filter_eq_nil_iff.mpr (fun _ _ => by simp)
  cases hv : v.isNull <;> simp [evalArg, hv, List.filter_map, Function.comp_def, ht, hf]

/-- COUNT(DISTINCT literal) removes the duplicates: over a bucket with at least one row it is 1 for a literal that
    is not NULL, 0 for NULL; over no row it is 0 (finding F109, repaired: it used to be the number of rows) -/
theorem count_distinct_literal_is_one_or_zero {κ : Type} [DecidableEq κ] (dkey : Profile → κ)
    (udf : List Profile → List Profile → Res) (udfArgs : List Profile) (v : Profile) (M : List Row) :
    aggOver dkey (some .count) udf udfArgs true (.const v) M = .int (if M = [] ∨ v.isNull = true then 0 else 1) := by
  simp only [aggOver, countLiteral, if_true, applyBuiltin]
  have hm : M.map (evalArg (.const v)) = List.replicate M.length v := by
    induction M with
    | nil => rfl
    | cons r M ih => simp [List.replicate_succ, evalArg] at ih ⊢; exact ih
  rw [hm, distinguishBy_replicate]
  cases M with
  | nil => simp [count, countLoop]
  | cons r M =>
    simp only [List.length_cons, Nat.add_one_ne_zero, if_false, reduceCtorEq, false_or]
    cases hv : v.isNull <;> simp [count, countLoop, hv]

/-- … and it agrees with COUNT(DISTINCT expr) for an expression that has the literal's value in every row -/
theorem count_distinct_literal_agrees {κ : Type} [DecidableEq κ] (dkey : Profile → κ)
    (udf : List Profile → List Profile → Res) (udfArgs : List Profile) (v : Profile) (M : List Row) :
    aggOver dkey (some .count) udf udfArgs true (.const v) M = aggOver dkey (some .count) udf udfArgs true (.expr fun _ => v) M := by
  simp only [aggOver, countLiteral, if_true]
  rfl

/- Full statement `COUNT(literal) = COUNT(expr)` for an expression that evaluates to the literal's value in every row
   — still false for the literal UNKNOWN: the shortcut answers 0 for it although UNKNOWN is not NULL (COUNT over a
   column of UNKNOWNs counts them, and so does COUNT(DISTINCT UNKNOWN), which takes the general path). -/
theorem count_unknown_literal_counterexample :
    aggOver norm (some .count) (fun _ _ => .null) [] false (.const (profileOf (.tern .U))) [[], [], []] = .int 0 ∧
    aggOver norm (some .count) (fun _ _ => .null) [] false (.expr fun _ => profileOf (.tern .U)) [[], [], []] = .int 3 ∧
    aggOver norm (some .count) (fun _ _ => .null) [] true (.const (profileOf (.tern .U))) [[], [], []] = .int 1 := by
  decide +kernel

example : aggOver norm (some .count) (fun _ _ => .null) [] true (.const (profileOf (.int 1))) [[], [], []] = .int 1 ∧
    aggOver norm (some .count) (fun _ _ => .null) [] true .star [[], [], []] = .int 3 ∧
    aggOver norm (some .sum) (fun _ _ => .null) [] true (.const (profileOf (.int 1))) [[], [], []] = .flt (.fin (2 ^ 1074)) := by
  decide +kernel

/-- a user-defined aggregate receives exactly the bucket's argument values (after DISTINCT) and its further arguments -/
theorem user_aggregate_over_bucket {κ : Type} [DecidableEq κ] (dkey : Profile → κ)
    (udf : List Profile → List Profile → Res) (udfArgs : List Profile) (f : Row → Profile) (M : List Row) :
    aggOver dkey none udf udfArgs false (.expr f) M = udf (M.map f) udfArgs ∧
    aggOver dkey none udf udfArgs true (.expr f) M = udf (distinguishBy dkey (M.map f)) udfArgs := by
  simp only [aggOver, countLiteral, if_true, Bool.false_eq_true, if_false]
  exact ⟨rfl, rfl⟩

/-- an aggregate met while the records are not grouped is the error the caller turns into "group all records" -/
theorem not_grouped_is_error {κ : Type} [DecidableEq κ] (dkey : Profile → κ) (fn : Option BuiltinAgg)
    (udf : List Profile → List Profile → Res) (udfArgs : List Profile) (distinct : Bool) (arg : ArgExpr)
    (inRange : Bool) (record : List (List Profile)) :
    evalAggregate dkey fn udf udfArgs distinct arg (some { isGrouped := false, inRange := inRange, record := record })
      = .error .notGrouping := by
  simp [evalAggregate]

/-! ## LISTAGG / JSON_AGG of a bucket -/

/-- what a list function is over the rows `M` of one bucket: the rows sorted by the WITHIN GROUP clause (if any), the
    argument of every row, DISTINCT, then LISTAGG's join or JSON_AGG's array -/
def listOver {κ : Type} [DecidableEq κ] (dkey : Profile → κ) (kt : KeyText) (dtext : Int → Bytes) (sep : Option Bytes)
    (less : Option (Row → Row → Bool)) (distinct : Bool) (arg : ArgExpr) (M : List Row) : ListRes :=
  let M' := match less with | some lt => sortBy lt M | none => M
  let vals := M'.map (evalArg arg)
  let vals := if distinct then distinguishBy dkey vals else vals
  match sep with
  | none => .json (jsonAgg dtext vals)
  | some s => .res (listAgg kt s vals)

theorem list_function_over_bucket {κ κ' : Type} [DecidableEq κ] [DecidableEq κ'] (dkey : Profile → κ') (kt : KeyText)
    (dtext : Int → Bytes) (sep : Option Bytes) (less : Option (Row → Row → Bool)) (distinct : Bool) (arg : ArgExpr)
    (F : Nat) (hF : 0 < F) (key : Row → κ) (rows : List Row) (hrect : Rect F rows)
    (cs : List (List (κ × Nat))) (hcs : cs.flatten = keyedIdx key rows) :
    (groupedView F rows cs).map (fun b => (b.1, evalListFunction dkey kt dtext sep less distinct arg
        (some { isGrouped := true, inRange := true, record := b.2 })))
      = (firstOcc (rows.map key)).map fun k =>
          (k, .ok (listOver dkey kt dtext sep less distinct arg (rows.filter fun r => key r = k))) := by
  rw [grouped_view_spec F key rows cs hcs, List.map_map]
  apply List.map_congr_left
  intro k _
  simp only [Function.comp]
  have hM : Rect F (rows.filter fun r => key r = k) := fun r hr => hrect r (List.mem_filter.mp hr).1
  unfold evalListFunction listOver
  simp only [Bool.not_true, Bool.false_eq_true, if_false]
  rw [viewFromGrouped_cellsOf F hF _ hM]
  cases less <;> cases sep <;> rfl

/-- the ORDER BY inside a list function only permutes the bucket's rows: the same rows are listed -/
theorem list_function_order_permutes (less : Row → Row → Bool) (M : List Row) : (sortBy less M).Perm M :=
  sortBy_perm less M

/-- JSON_AGG: NULL for a bucket without rows, else one JSON value per row, in order -/
theorem jsonagg_structure (dtext : Int → Bytes) (l : List Profile) :
    (jsonAgg dtext l = none ↔ l = []) ∧ (l ≠ [] → jsonAgg dtext l = some (l.map (cellJson dtext))) := by
  unfold jsonAgg
  cases l <;> simp

/-- the JSON value of a cell is `ParseValueToStructure`'s (Model/Json.lean `toStructure`): texts and datetimes are
    strings, numbers are numbers (integers through float64), booleans and TRUE / FALSE are booleans, NULL, UNKNOWN and
    non-finite floats are null -/
theorem cell_json_is_toStructure (t : JTexts) (p : Profile) :
    jcellJS t (cellJson t.dt p) = Json.toStructure (cellJVal t p) := by
  unfold cellJson cellJVal
  cases hr : p.raw with
  | null => rfl
  | str s => rfl
  | int i => rfl
  | flt f => simp only; split <;> rfl
  | bool b => rfl
  | tern x => cases x <;> rfl
  | dt ns => rfl

/-! ## non-vacuity -/

def exOk {α : Type} : Except AggErr α → Option α
  | .ok a => some a
  | .error _ => none

def glR (k a : Int) : Row := [profileOf (.int k), profileOf (.int a)]
def glRows : List Row := [glR 1 10, glR 2 20, glR 1 30, glR 2 20, glR 1 10]
def glKey (r : Row) : Int := match r with | p :: _ => (p.int?).getD 0 | [] => 0
def glArg : ArgExpr := .expr fun r => r.getD 1 (profileOf .null)

example : Rect 2 glRows := by simp [Rect, glRows, glR]
example : [[(1, 0), (2, 1)], [(1, 2), (2, 3), (1, 4)]].flatten = keyedIdx glKey glRows := by decide +kernel
example : (groupedView 2 glRows [[(1, 0), (2, 1)], [(1, 2), (2, 3), (1, 4)]]).map (fun b =>
      (b.1, exOk (evalAggregate norm (some .sum) (fun _ _ => .null) [] true glArg (some { isGrouped := true, inRange := true, record := b.2 }))))
    = [(1, some (.flt (.fin (40 * 2 ^ 1074)))), (2, some (.flt (.fin (20 * 2 ^ 1074))))] := by decide +kernel
example : exOk (evalAggregate norm (some .count) (fun _ _ => .null) [] false .star
    (some { isGrouped := true, inRange := true, record := groupAllRecord 2 [] })) = some (.int 0) := by decide +kernel
example : exOk (evalAggregate norm (some .sum) (fun _ _ => .null) [] false glArg
    (some { isGrouped := true, inRange := true, record := groupAllRecord 2 [] })) = some .null := by decide +kernel
example : selectDistinct norm [0, 0] [glR 1 10, glR 1 30, glR 2 20] =
    [[some (profileOf (.int 1)), some (profileOf (.int 1))], [some (profileOf (.int 2)), some (profileOf (.int 2))]] := by
  decide +kernel
example : (glRows.map (project [0, 0]) = (glRows.map fun r => [r.getD 0 (profileOf .null), profileOf (.int 7)]).map (project [0, 0])) := by
  decide +kernel
example : exOk (evalListFunction norm { itext := decText, ftext := fun _ => [] } (fun _ => []) (some [44])
      (some fun a b => decide (glKey b < glKey a)) false glArg
      (some { isGrouped := true, inRange := true, record := cellsOf 2 glRows }))
    = some (.res (.str [50, 48, 44, 50, 48, 44, 49, 48, 44, 51, 48, 44, 49, 48])) := by decide +kernel
example : jsonAgg (fun _ => []) [profileOf (.int 1), profileOf .null, profileOf (.bool true)] =
    some [.num (.fin (2 ^ 1074)), .null, .bool true] := by decide +kernel

end Csvq.C04
